package main

// Facts that survive behaviour-preserving rewrites.
//
// The first generation of structural facts quoted the source: function names, local variable
// names, exact event lists.  A refactoring campaign (DESIGN.md 0.7, seeds R-*) showed that 11 of
// 28 harmless rewrites broke such an obligation.  The extractors here state the same facts in a
// form that does not depend on how the code is cut into helpers or what its locals are called:
//
//   * inlined event traces: the events of a function with the events of every package-local
//     callee that has a single declaration spliced in at the call (transitively), so that
//     extracting or merging helpers leaves "contains" / "comes before" / "count" facts unchanged;
//   * write sites and mutator calls keyed by what is written (receiver field, parameter of a given
//     type, local, package-level variable) instead of by variable and function name;
//   * lock discipline as a per-function summary (locked before first use, unlocked, writers hold
//     the write lock);
//   * the range guard with its identifiers normalised by the operand they come from.

import (
	"go/ast"
	"go/token"
	"os"
	"path/filepath"
	"sort"
	"strings"
)

type pkgIdx struct {
	dir   string
	files map[string]*ast.File
	byBar map[string][]*ast.FuncDecl // bare name -> declarations (functions and methods)
	byQ   map[string]*ast.FuncDecl   // "T.m" or "f" -> declaration
	globs map[string]bool            // package-level variable names
	// struct type -> field -> type text; package-level variable -> type text ("" when it cannot be read off)
	fields    map[string]map[string]string
	globTypes map[string]string
}

var pkgCache = map[string]*pkgIdx{}

// the evaluator's dispatcher and the error constructors are not spliced in: eval reaches the
// whole evaluator, which would make every trace the same
var noInline = map[string]bool{"eval": true, "newEvalError": true, "newError": true, "stringify": true}

func recvName(fd *ast.FuncDecl) string {
	if fd.Recv != nil && len(fd.Recv.List) == 1 {
		return strings.TrimPrefix(exprStr(fd.Recv.List[0].Type), "*")
	}
	return ""
}

func qualName(fd *ast.FuncDecl) string {
	if r := recvName(fd); r != "" {
		return r + "." + fd.Name.Name
	}
	return fd.Name.Name
}

func loadPkg(dir string) *pkgIdx {
	if p, ok := pkgCache[dir]; ok {
		return p
	}
	p := &pkgIdx{dir: dir, files: map[string]*ast.File{}, byBar: map[string][]*ast.FuncDecl{}, byQ: map[string]*ast.FuncDecl{}, globs: map[string]bool{},
		fields: map[string]map[string]string{}, globTypes: map[string]string{}}
	ents, _ := os.ReadDir(dir)
	var names []string
	for _, e := range ents {
		n := e.Name()
		if e.IsDir() || !strings.HasSuffix(n, ".go") || strings.HasSuffix(n, "_test.go") || strings.HasPrefix(n, "verif_") {
			continue
		}
		names = append(names, n)
	}
	sort.Strings(names)
	for _, n := range names {
		f := parseFile(filepath.Join(dir, n))
		p.files[n] = f
		for _, d := range f.Decls {
			switch x := d.(type) {
			case *ast.FuncDecl:
				if x.Body == nil {
					continue
				}
				p.byBar[x.Name.Name] = append(p.byBar[x.Name.Name], x)
				p.byQ[qualName(x)] = x
			case *ast.GenDecl:
				if x.Tok == token.VAR {
					for _, s := range x.Specs {
						if vs, ok := s.(*ast.ValueSpec); ok {
							for i, id := range vs.Names {
								p.globs[id.Name] = true
								switch {
								case vs.Type != nil:
									p.globTypes[id.Name] = exprStr(vs.Type)
								case i < len(vs.Values):
									p.globTypes[id.Name] = typeOfInit(vs.Values[i])
								}
							}
						}
					}
				}
				if x.Tok == token.TYPE {
					for _, s := range x.Specs {
						if ts, ok := s.(*ast.TypeSpec); ok {
							if st, ok := ts.Type.(*ast.StructType); ok {
								fm := map[string]string{}
								for _, f := range st.Fields.List {
									for _, n := range f.Names {
										fm[n.Name] = exprStr(f.Type)
									}
								}
								p.fields[ts.Name.Name] = fm
							}
						}
					}
				}
			}
		}
	}
	pkgCache[dir] = p
	return p
}

// typeOfInit reads the type off an initialiser: make(T, …), T{…}, &T{…}; "" otherwise
func typeOfInit(e ast.Expr) string {
	switch x := e.(type) {
	case *ast.CallExpr:
		if id, ok := x.Fun.(*ast.Ident); ok && id.Name == "make" && len(x.Args) > 0 {
			return exprStr(x.Args[0])
		}
	case *ast.CompositeLit:
		if x.Type != nil {
			return exprStr(x.Type)
		}
	case *ast.UnaryExpr:
		if x.Op == token.AND {
			if t := typeOfInit(x.X); t != "" {
				return "*" + t
			}
		}
	}
	return ""
}

// typedTarget renders what a store writes to: the class of the variable it is rooted at plus the path
// below it, where the first field of a receiver and the name of a package-level variable are replaced by
// their declared TYPES — recv:Expr.(map[string]reflect.Value)[], global:(map[string]reflect.Value)[] — so
// that renaming a field or a variable changes nothing while writing to a field of another type does
func (s *fnScope) typedTarget(l ast.Expr) string {
	class := s.classOfExpr(l, 0)
	shape := shapeOf(l)
	if strings.HasPrefix(class, "recv:") {
		if strings.HasPrefix(shape, ".") {
			rest := shape[1:]
			end := strings.IndexAny(rest, ".[*")
			name := rest
			if end >= 0 {
				name = rest[:end]
			}
			if ft, ok := s.p.fields[strings.TrimPrefix(class, "recv:")][name]; ok && ft != "" {
				return class + ".(" + ft + ")" + rest[len(name):]
			}
		}
		return class + shape
	}
	if strings.HasPrefix(class, "global:") {
		name := strings.TrimPrefix(class, "global:")
		if gt := s.p.globTypes[name]; gt != "" {
			return "global:(" + gt + ")" + shape
		}
	}
	return class + shape
}

// inlined returns the event trace of fn ("f" or "T.m") with package-local callees spliced in.
// Events: call:<name>, key:<string key of a composite literal>, copy:* (assignment from a
// dereferenced pointer), addr:& (address of a non-literal taken on the right of an assignment).
func (p *pkgIdx) inlined(fn string) []string {
	fd := p.byQ[fn]
	if fd == nil {
		return nil
	}
	var out []string
	stack := map[*ast.FuncDecl]bool{}
	var walk func(fd *ast.FuncDecl, depth int)
	walk = func(fd *ast.FuncDecl, depth int) {
		stack[fd] = true
		defer delete(stack, fd)
		ast.Inspect(fd.Body, func(n ast.Node) bool {
			switch x := n.(type) {
			case *ast.KeyValueExpr:
				if bl, ok := x.Key.(*ast.BasicLit); ok && bl.Kind == token.STRING {
					out = append(out, "key:"+strings.Trim(bl.Value, "\""))
				}
			case *ast.AssignStmt:
				for _, l := range x.Lhs {
					switch l.(type) {
					case *ast.SelectorExpr, *ast.IndexExpr, *ast.StarExpr:
						// a store through the receiver or into a package-level variable (what outlives the call)
						c := newScope(p, fd).classOfExpr(l, 0)
						switch {
						case strings.HasPrefix(c, "recv:"):
							out = append(out, "write:"+c)
						case strings.HasPrefix(c, "global:"):
							out = append(out, "write:global")
						}
					}
				}
				for _, r := range x.Rhs {
					if _, ok := r.(*ast.StarExpr); ok {
						out = append(out, "copy:*")
					}
					if ue, ok := r.(*ast.UnaryExpr); ok && ue.Op == token.AND {
						if _, isLit := ue.X.(*ast.CompositeLit); !isLit {
							out = append(out, "addr:&")
						}
					}
				}
			case *ast.CallExpr:
				name := ""
				switch f := x.Fun.(type) {
				case *ast.SelectorExpr:
					name = f.Sel.Name
				case *ast.Ident:
					name = f.Name
				}
				if name == "" {
					return true
				}
				out = append(out, "call:"+name)
				if ds := p.byBar[name]; len(ds) == 1 && !stack[ds[0]] && depth < 6 && !noInline[name] {
					// a selector call through a package identifier (pkg.F) is not local
					if se, ok := x.Fun.(*ast.SelectorExpr); ok {
						if id, ok := se.X.(*ast.Ident); ok && id.Obj == nil && ds[0].Recv == nil {
							return true
						}
					}
					walk(ds[0], depth+1)
				}
			}
			return true
		})
	}
	walk(fd, 0)
	return out
}

// ---- what a store writes ----------------------------------------------------------

// rootClass classifies the variable an lvalue (or a mutator's receiver) is rooted at:
//
//	recv:<T>      the method receiver
//	param:<type>  a parameter of the enclosing function
//	global:<name> a package-level variable
//	local         a variable of this function that holds a value made here (make, new, composite
//	              literal, call result, arithmetic), or an alias of one
//	alias:<class> a local defined from a field, element, slice or type assertion of something
//	              of class <class> that is not local
type fnScope struct {
	p    *pkgIdx
	fd   *ast.FuncDecl
	defs map[string]ast.Expr // local name -> defining expression (first definition)
	rng  map[string]ast.Expr // range variable -> ranged expression
	prm  map[string]string   // parameter name -> type text
	recv string              // receiver variable name
}

func newScope(p *pkgIdx, fd *ast.FuncDecl) *fnScope {
	s := &fnScope{p: p, fd: fd, defs: map[string]ast.Expr{}, rng: map[string]ast.Expr{}, prm: map[string]string{}}
	if fd.Recv != nil && len(fd.Recv.List) == 1 && len(fd.Recv.List[0].Names) == 1 {
		s.recv = fd.Recv.List[0].Names[0].Name
	}
	addParams := func(fl *ast.FieldList) {
		if fl == nil {
			return
		}
		for _, f := range fl.List {
			for _, n := range f.Names {
				s.prm[n.Name] = exprStr(f.Type)
			}
		}
	}
	addParams(fd.Type.Params)
	ast.Inspect(fd.Body, func(n ast.Node) bool {
		switch x := n.(type) {
		case *ast.FuncLit:
			addParams(x.Type.Params)
		case *ast.AssignStmt:
			if x.Tok == token.DEFINE {
				for i, l := range x.Lhs {
					id, ok := l.(*ast.Ident)
					if !ok {
						continue
					}
					if _, seen := s.defs[id.Name]; seen {
						continue
					}
					if len(x.Rhs) == len(x.Lhs) {
						s.defs[id.Name] = x.Rhs[i]
					} else if len(x.Rhs) == 1 {
						s.defs[id.Name] = x.Rhs[0]
					}
				}
			}
		case *ast.ValueSpec:
			for i, id := range x.Names {
				if _, seen := s.defs[id.Name]; seen {
					continue
				}
				if i < len(x.Values) {
					s.defs[id.Name] = x.Values[i]
				} else {
					s.defs[id.Name] = &ast.CompositeLit{} // zero value: made here
				}
			}
		case *ast.RangeStmt:
			if x.Tok == token.DEFINE {
				for _, e := range []ast.Expr{x.Key, x.Value} {
					if id, ok := e.(*ast.Ident); ok && id.Name != "_" {
						s.rng[id.Name] = x.X
					}
				}
			}
		case *ast.TypeSwitchStmt:
			if as, ok := x.Assign.(*ast.AssignStmt); ok && len(as.Lhs) == 1 && len(as.Rhs) == 1 {
				if id, ok := as.Lhs[0].(*ast.Ident); ok {
					if ta, ok := as.Rhs[0].(*ast.TypeAssertExpr); ok {
						s.defs[id.Name] = ta.X
					}
				}
			}
		}
		return true
	})
	return s
}

func (s *fnScope) classOfExpr(e ast.Expr, depth int) string {
	if depth > 6 {
		return "local"
	}
	switch x := e.(type) {
	case *ast.Ident:
		return s.classOfIdent(x.Name, depth)
	case *ast.ParenExpr:
		return s.classOfExpr(x.X, depth)
	case *ast.StarExpr:
		return s.classOfExpr(x.X, depth)
	case *ast.SelectorExpr:
		if id, ok := x.X.(*ast.Ident); ok && id.Obj == nil && !s.isVar(id.Name) {
			return "global:" + id.Name + "." + x.Sel.Name // pkg.Var
		}
		return s.classOfExpr(x.X, depth)
	case *ast.IndexExpr:
		return s.classOfExpr(x.X, depth)
	case *ast.SliceExpr:
		return s.classOfExpr(x.X, depth)
	case *ast.TypeAssertExpr:
		return s.classOfExpr(x.X, depth)
	case *ast.UnaryExpr:
		if x.Op == token.AND {
			return s.classOfExpr(x.X, depth)
		}
		return "local"
	case *ast.CallExpr:
		// method call on something: x.Index(i), x.Elem(), x.Field(i) keep the root of x for
		// reflect-style accessors; any other call produces a value made here
		if se, ok := x.Fun.(*ast.SelectorExpr); ok {
			switch se.Sel.Name {
			case "Index", "Elem", "Field", "MapIndex", "FieldByName", "Slice":
				return s.classOfExpr(se.X, depth)
			}
		}
		return "local"
	}
	return "local"
}

func (s *fnScope) isVar(name string) bool {
	if name == s.recv {
		return true
	}
	if _, ok := s.prm[name]; ok {
		return true
	}
	if _, ok := s.defs[name]; ok {
		return true
	}
	if _, ok := s.rng[name]; ok {
		return true
	}
	return s.p.globs[name]
}

func (s *fnScope) classOfIdent(name string, depth int) string {
	if name == s.recv && name != "" {
		return "recv:" + recvName(s.fd)
	}
	if d, ok := s.defs[name]; ok {
		c := s.classOfExpr(d, depth+1)
		if c == "local" || strings.HasPrefix(c, "alias:") {
			return c
		}
		if _, isCall := d.(*ast.CallExpr); isCall {
			return c
		}
		return "alias:" + c
	}
	if r, ok := s.rng[name]; ok {
		c := s.classOfExpr(r, depth+1)
		if c == "local" || strings.HasPrefix(c, "alias:") {
			return c
		}
		return "alias:" + c
	}
	if t, ok := s.prm[name]; ok {
		return "param:" + t
	}
	if s.p.globs[name] {
		return "global:" + name
	}
	return "local"
}

// shapeOf renders the path below the root with identifiers of indices dropped: .f, [], *
func shapeOf(e ast.Expr) string {
	switch x := e.(type) {
	case *ast.Ident:
		return ""
	case *ast.ParenExpr:
		return shapeOf(x.X)
	case *ast.StarExpr:
		return shapeOf(x.X) + "*"
	case *ast.SelectorExpr:
		return shapeOf(x.X) + "." + x.Sel.Name
	case *ast.IndexExpr:
		return shapeOf(x.X) + "[]"
	case *ast.SliceExpr:
		return shapeOf(x.X) + "[:]"
	case *ast.TypeAssertExpr:
		return shapeOf(x.X)
	case *ast.CallExpr:
		if se, ok := x.Fun.(*ast.SelectorExpr); ok {
			return shapeOf(se.X) + "." + se.Sel.Name + "()"
		}
		return "()"
	}
	return "?"
}

type normSite struct{ file, owner, what string }

// normalisedSites lists, for the given files of a package directory, every store through a
// selector, index or pointer and every reflect/sort/rand/big mutator call, keyed by
// (file, receiver type of the enclosing method or "", class+shape).
func normalisedSites(repo string, rels []string) (writes, muts []normSite) {
	mutNames := map[string]bool{"Set": true, "SetMapIndex": true, "SetLen": true, "SetInt": true,
		"SetFloat": true, "SetString": true, "SetBool": true, "Swap": true}
	for _, rel := range rels {
		p := loadPkg(filepath.Join(repo, filepath.Dir(rel)))
		file := p.files[filepath.Base(rel)]
		if file == nil {
			continue
		}
		for _, d := range file.Decls {
			fd, ok := d.(*ast.FuncDecl)
			if !ok || fd.Body == nil {
				continue
			}
			sc := newScope(p, fd)
			owner := recvName(fd)
			add := func(list *[]normSite, what string) {
				s := normSite{rel, owner, what}
				for _, o := range *list {
					if o == s {
						return
					}
				}
				*list = append(*list, s)
			}
			ast.Inspect(fd.Body, func(n ast.Node) bool {
				switch s := n.(type) {
				case *ast.AssignStmt:
					for _, l := range s.Lhs {
						switch l.(type) {
						case *ast.SelectorExpr, *ast.IndexExpr, *ast.StarExpr:
							add(&writes, sc.typedTarget(l))
						}
					}
				case *ast.IncDecStmt:
					switch s.X.(type) {
					case *ast.SelectorExpr, *ast.IndexExpr, *ast.StarExpr:
						add(&writes, sc.typedTarget(s.X))
					}
				case *ast.CallExpr:
					if se, ok := s.Fun.(*ast.SelectorExpr); ok {
						full := exprStr(se)
						switch {
						case strings.HasPrefix(full, "rand."):
							add(&muts, full)
						case sortMutators[full]:
							// an in-place sort: whose slice it sorts is what matters, not where the call stands
							arg := "?"
							if len(s.Args) > 0 {
								arg = sc.classOfExpr(s.Args[0], 0)
							}
							add(&muts, full+"("+arg+")")
						case mutNames[se.Sel.Name]:
							add(&muts, sc.classOfExpr(se.X, 0)+"."+se.Sel.Name)
						}
					}
				}
				return true
			})
		}
	}
	return
}

// the functions of package sort that reorder their argument in place (Search*, IsSorted … do not)
var sortMutators = map[string]bool{"sort.Slice": true, "sort.SliceStable": true, "sort.Sort": true, "sort.Stable": true,
	"sort.Strings": true, "sort.Ints": true, "sort.Float64s": true}

// lockSummary: for every function of jsonata.go that mentions the package-level registry,
// "<fn>|<R or W or ->|locked-before-first-use=<bool>|unlocks=<bool>|writes=<bool>"
func lockSummary(repo string) []string {
	// the registry and its lock are found by their types (a package-level map of reflect.Values, a package-level
	// sync mutex), whatever they are called and whichever file of the package declares them
	root := loadPkg(repo)
	regName, muName := "globalRegistry", "globalRegistryMutex"
	var gnames []string
	for n := range root.globTypes {
		gnames = append(gnames, n)
	}
	sort.Strings(gnames)
	for _, n := range gnames {
		switch root.globTypes[n] {
		case "map[string]reflect.Value":
			regName = n
		case "sync.RWMutex", "sync.Mutex":
			muName = n
		}
	}
	var fnames []string
	for n := range root.files {
		fnames = append(fnames, n)
	}
	sort.Strings(fnames)
	var decls []ast.Decl
	for _, n := range fnames {
		decls = append(decls, root.files[n].Decls...)
	}
	var out []string
	for _, d := range decls {
		fd, ok := d.(*ast.FuncDecl)
		if !ok || fd.Body == nil {
			continue
		}
		mode := "-"
		uses := 0
		lockedFirst := false
		unlock := false
		writes := false
		ast.Inspect(fd.Body, func(n ast.Node) bool {
			switch x := n.(type) {
			case *ast.AssignStmt:
				for _, l := range x.Lhs {
					if ie, ok := l.(*ast.IndexExpr); ok && exprStr(ie.X) == regName {
						writes = true
					}
					if id, ok := l.(*ast.Ident); ok && id.Name == regName {
						writes = true
					}
				}
			case *ast.CallExpr:
				s := exprStr(x.Fun)
				if s == "delete" && len(x.Args) > 0 && exprStr(x.Args[0]) == regName {
					writes = true
				}
				// the registry handed to a helper by address is handed over for writing
				for _, a := range x.Args {
					if u, ok := a.(*ast.UnaryExpr); ok && u.Op == token.AND && exprStr(u.X) == regName {
						writes = true
					}
				}
				if strings.HasPrefix(s, muName+".") {
					m := strings.TrimPrefix(s, muName+".")
					switch m {
					case "Lock", "RLock":
						if mode == "-" {
							if m == "Lock" {
								mode = "W"
							} else {
								mode = "R"
							}
							lockedFirst = uses == 0
						}
					case "Unlock", "RUnlock":
						if (m == "Unlock") == (mode == "W") {
							unlock = true
						}
					}
				}
			case *ast.Ident:
				if x.Name == regName {
					uses++
				}
			}
			return true
		})
		if uses > 0 {
			b := func(v bool) string {
				if v {
					return "true"
				}
				return "false"
			}
			out = append(out, "("+leanStr(fd.Name.Name)+", "+leanStr(mode)+", "+b(lockedFirst)+", "+b(unlock)+", "+b(writes)+")")
		}
	}
	return out
}

// rangeGuardsNormalised: every place that reports ErrMaxRangeItems, as
// "<fn> | <condition> | size := <expr>", with the bounded variable renamed "size" and the
// operands renamed "lo"/"hi" according to the side of the range node they are evaluated from.
func rangeGuardsNormalised(repo string) []string {
	ev := parseFile(filepath.Join(repo, "eval.go"))
	var guards []string
	for _, d := range ev.Decls {
		fd, ok := d.(*ast.FuncDecl)
		if !ok || fd.Body == nil {
			continue
		}
		defs := map[string]ast.Expr{}
		ast.Inspect(fd.Body, func(n ast.Node) bool {
			if as, ok := n.(*ast.AssignStmt); ok && len(as.Rhs) == 1 {
				for _, l := range as.Lhs {
					if id, ok := l.(*ast.Ident); ok {
						if _, seen := defs[id.Name]; !seen {
							defs[id.Name] = as.Rhs[0]
						}
					}
				}
			}
			return true
		})
		ast.Inspect(fd.Body, func(n ast.Node) bool {
			ifs, ok := n.(*ast.IfStmt)
			if !ok {
				return true
			}
			reports := false
			ast.Inspect(ifs.Body, func(m ast.Node) bool {
				if id, ok := m.(*ast.Ident); ok && id.Name == "ErrMaxRangeItems" {
					reports = true
				}
				return true
			})
			if !reports {
				return true
			}
			// the bounded variable: the identifier compared with maxRangeItems
			bounded := ""
			ast.Inspect(ifs.Cond, func(m ast.Node) bool {
				if be, ok := m.(*ast.BinaryExpr); ok {
					if id, ok := be.Y.(*ast.Ident); ok && id.Name == "maxRangeItems" {
						if v, ok := be.X.(*ast.Ident); ok {
							bounded = v.Name
						}
					}
				}
				return true
			})
			ren := map[string]string{}
			sizeExpr := ""
			if bounded != "" {
				ren[bounded] = "size"
				if def := defs[bounded]; def != nil {
					ast.Inspect(def, func(m ast.Node) bool {
						if id, ok := m.(*ast.Ident); ok {
							if dd := defs[id.Name]; dd != nil {
								src := exprStr(dd)
								switch {
								case strings.Contains(src, ".RHS"):
									ren[id.Name] = "hi"
								case strings.Contains(src, ".LHS"):
									ren[id.Name] = "lo"
								}
							}
						}
						return true
					})
					sizeExpr = renameIdents(def, ren)
				}
			}
			guards = append(guards, renameIdents(ifs.Cond, ren)+" | size := "+sizeExpr)
			return true
		})
	}
	return guards
}

func renameIdents(e ast.Expr, ren map[string]string) string {
	s := exprStr(e)
	// token-wise replacement
	var b strings.Builder
	i := 0
	isId := func(c byte) bool {
		return c == '_' || c >= 'a' && c <= 'z' || c >= 'A' && c <= 'Z' || c >= '0' && c <= '9'
	}
	for i < len(s) {
		if isId(s[i]) {
			j := i
			for j < len(s) && isId(s[j]) {
				j++
			}
			w := s[i:j]
			if r, ok := ren[w]; ok {
				w = r
			}
			b.WriteString(w)
			i = j
		} else {
			b.WriteByte(s[i])
			i++
		}
	}
	return b.String()
}

// setterSites: every function of the root package that calls SetName or SetContext directly,
// with whether an assignment from a dereferenced pointer (the per-call copy) comes before the
// first such call in that function: "(fn, copied-before)"
func setterSites(repo string) []string {
	p := loadPkg(repo)
	var names []string
	for q := range p.byQ {
		names = append(names, q)
	}
	sort.Strings(names)
	var out []string
	for _, q := range names {
		fd := p.byQ[q]
		copied := false
		first := ""
		ast.Inspect(fd.Body, func(n ast.Node) bool {
			switch x := n.(type) {
			case *ast.AssignStmt:
				for _, r := range x.Rhs {
					if _, ok := r.(*ast.StarExpr); ok && first == "" {
						copied = true
					}
				}
			case *ast.CallExpr:
				if se, ok := x.Fun.(*ast.SelectorExpr); ok && (se.Sel.Name == "SetName" || se.Sel.Name == "SetContext") && first == "" {
					if copied {
						first = "true"
					} else {
						first = "false"
					}
				}
			}
			return true
		})
		if first != "" {
			out = append(out, "("+leanStr(q)+", "+first+")")
		}
	}
	return out
}
