module veriffacts

go 1.16
