#!/bin/sh
# runs the pinned suite of /repo (or $1) and prints pass/fail counts of top-level tests
cd "${1:-/repo}" || exit 2
export GOFLAGS=-mod=mod GOPROXY=off GOSUMDB=off GOTOOLCHAIN=local
go test -json -vet=off -count=1 ./... 2>&1 | python3 -c '
import sys, json
p=f=0; failed=[]
for l in sys.stdin:
    try: e=json.loads(l)
    except Exception: continue
    if e.get("Test") and "/" not in e["Test"]:
        if e["Action"]=="pass": p+=1
        elif e["Action"]=="fail": f+=1; failed.append(e["Package"]+"::"+e["Test"])
print("pass",p,"fail",f, failed)
sys.exit(1 if f else 0)'
