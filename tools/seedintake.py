#!/usr/bin/env python3
"""Take one seeded change produced by a sub-agent in its scratch worktree, confirm it independently
in a fresh scratch worktree of /repo, and store it as /verif/seeded/<id>/.

  tools/seedintake.py /tmp/wt-C07 1 C07-1        (worktree, change number, seed id)

Confirmation (all must hold, otherwise the change is rejected and nothing is stored):
  * the patch applies to the current /repo HEAD and touches no test file,
  * go build ./... succeeds and the pinned suite passes unedited with the patch applied,
  * the demonstration exits 1 (property violated) on the patched tree and 0 on the clean tree.
The scratch worktree is removed afterwards.
"""
import json, os, re, shutil, subprocess, sys

ROOT = os.path.dirname(os.path.dirname(os.path.abspath(__file__)))
REPO = "/repo"
GOENV = dict(os.environ, GOFLAGS="-mod=mod", GOPROXY="off", GOSUMDB="off", GOTOOLCHAIN="local")


def sh(cmd, **kw):
    return subprocess.run(cmd, stdout=subprocess.PIPE, stderr=subprocess.STDOUT, text=True, errors="replace", **kw)


def main():
    wt, k, sid = sys.argv[1], sys.argv[2], sys.argv[3]
    src = os.path.join(wt, "SEED")
    patch = os.path.join(src, "change%s.diff" % k)
    metaf = os.path.join(src, "change%s.json" % k)
    demo = os.path.join(src, "change%s_demo" % k)
    for f in (patch, metaf, demo):
        if not os.path.exists(f):
            print("missing", f)
            sys.exit(1)
    meta = json.load(open(metaf))
    ptxt = open(patch).read()
    files = re.findall(r"^\+\+\+ b/(\S+)", ptxt, re.M)
    if not files or any(f.endswith("_test.go") or f.startswith("SEED") for f in files):
        print("rejected: patch touches tests or nothing:", files)
        sys.exit(1)
    scratch = "/tmp/confirm-" + sid
    sh(["git", "-C", REPO, "worktree", "remove", "--force", scratch])
    r = sh(["git", "-C", REPO, "worktree", "add", "-q", "--detach", scratch, "HEAD"])
    if r.returncode != 0:
        print(r.stdout)
        sys.exit(1)
    ok = False
    conf = {}
    try:
        # demo copy with its replace directive pointed at the scratch worktree
        dd = os.path.join(scratch, "SEEDDEMO")
        shutil.copytree(demo, dd)
        gm = os.path.join(dd, "go.mod")
        g = open(gm).read()
        g = re.sub(r"replace github.com/blues/jsonata-go => \S+", "replace github.com/blues/jsonata-go => " + scratch, g)
        open(gm, "w").write(g)
        shutil.copy(os.path.join(scratch, "go.sum"), os.path.join(dd, "go.sum"))
        race = "-race" in (meta.get("demo_cmd") or "")
        run = ["go", "run"] + (["-race"] if race else []) + ["."]
        clean = sh(run, cwd=dd, env=GOENV, timeout=900)
        conf["demo_exit_clean"] = clean.returncode
        conf["demo_output_clean"] = clean.stdout[-1500:]
        a = sh(["git", "-C", scratch, "apply", patch])
        if a.returncode != 0:
            print("rejected: patch does not apply to HEAD:\n", a.stdout)
            return
        b = sh(["go", "build", "./..."], cwd=scratch, env=GOENV)
        conf["builds"] = b.returncode == 0
        t = sh([os.path.join(ROOT, "tools", "repotest.sh"), scratch])
        conf["tests"] = t.stdout.strip()[-300:]
        conf["tests_pass"] = t.returncode == 0 and "pass 273 fail 0" in t.stdout
        changed = sh(run, cwd=dd, env=GOENV, timeout=900)
        conf["demo_exit_changed"] = changed.returncode
        conf["demo_output_changed"] = changed.stdout[-1500:]
        refactor = "refactor" in (meta.get("kind") or "")
        want_changed = 0 if refactor else 1
        ok = conf["builds"] and conf["tests_pass"] and conf["demo_exit_clean"] == 0 and conf["demo_exit_changed"] == want_changed
        print(json.dumps({k2: v for k2, v in conf.items() if not k2.startswith("demo_output")}))
        if not ok:
            print("rejected:", sid)
            print(conf.get("demo_output_clean", "")[-400:])
            print(conf.get("demo_output_changed", "")[-400:])
            return
        out = os.path.join(ROOT, "seeded", sid)
        if os.path.exists(out):
            shutil.rmtree(out)
        os.makedirs(out)
        shutil.copy(patch, os.path.join(out, "patch.diff"))
        shutil.copytree(demo, os.path.join(out, "demo"))
        for junk in ("go.sum",):
            pj = os.path.join(out, "demo", junk)
            if os.path.exists(pj):
                os.remove(pj)
        meta_out = {
            "id": sid, "property": meta.get("property"), "summary": meta.get("summary"), "trigger": meta.get("trigger"),
            "kind": meta.get("kind") or "breaking change", "functions": meta.get("functions"),
            "files": files, "source": "sub-agent (given only the property text and a scratch worktree)",
            "demo": "demo/main.go: go.mod replaces github.com/blues/jsonata-go by the tree under test; exit 1 = property violated, 0 = holds",
            "confirmed": {"builds": True, "suite": "273 pass, 0 fail (unedited)", "demo_exit_on_changed_tree": conf["demo_exit_changed"], "demo_exit_on_clean_tree": 0,
                          "demo_output_changed": conf["demo_output_changed"][-800:], "demo_output_clean": conf["demo_output_clean"][-400:]},
        }
        json.dump(meta_out, open(os.path.join(out, "meta.json"), "w"), indent=1, ensure_ascii=False)
        print("stored", out)
    finally:
        sh(["git", "-C", REPO, "worktree", "remove", "--force", scratch])
        shutil.rmtree(scratch, ignore_errors=True)
    sys.exit(0 if ok else 1)


if __name__ == "__main__":
    main()
