#!/usr/bin/env python3
"""Writes /verif/MANIFEST.json from the per-property table below (keeps it schema-valid)."""
import json, os, sys

ROOT = os.path.dirname(os.path.dirname(os.path.abspath(__file__)))

COMMON_NOTE = ("Trusted: Lean 4.33 kernel (+ leanchecker in the thorough tier); axioms limited to propext, "
               "Classical.choice, Quot.sound (audited by #print axioms on every run; no sorry/native_decide/bv_decide); "
               "the Spec/ definitions as a reading of the property text; gofacts (go/ast extractor) for regenerated tables; "
               "the correspondence harness (differential testing of /repo against the compiled Lean model on generated cases - "
               "it validates the model against the code, it is not a proof); Lean Float = IEEE binary64 = Go float64; "
               "Go reflect, encoding/json, strconv, regexp, sort, time, unicode are modelled by contract, not verified.")

# id -> (technique, level text, design ref, extra note)
CHECKS = {
 "C01": ("Lean 4 theorem evalPath = specPath for every step evaluator and step count (induction over the step list) + field/wildcard/descendant characterisations + differential correspondence",
         "Kernel-checked: the evaluator's path loop (transliterated from eval.go evalPath/evalPathStep/evalOver*) equals the fold the statement describes for any number of steps, any store-independent step semantics, any document; "
         "normalisation, anchoring, one-level flattening with constructor exemption, field/*/** selection are theorems. The model is tied to /repo by running every generated path on both (exhaustive small paths x small documents, random paths with arrays nested in arrays).",
         "DESIGN.md section 6 C01", ""),
 "C02": ("Lean 4 theorem applyFilter = specFilter for all list lengths and positions (induction; omega for the index arithmetic) + positional/boolean corollaries + differential correspondence",
         "Kernel-checked: the filter loop of eval.go applyFilter equals the specified filter for every length, every (negative, fractional, out-of-range) position and every predicate evaluator; "
         "positional selection, boolean filtering, order preservation, normalisation and stacking are corollaries. Tied to /repo by the exhaustive lengths 0..5 x positions -7..7 step 0.5 set and random stacked predicates on every head kind.",
         "DESIGN.md section 6 C02", ""),
 "C03": ("Lean 4 theorems (complete operator x kind x kind case analysis, range/conditional laws) over a hand-written model + regenerated facts + differential correspondence",
         "Kernel-checked theorems state the whole operator table (arithmetic, ordering, equality/in, boolean cast, concatenation, ranges, lazy conditional) for all operand values of the model; "
         "the model is tied to /repo on every run by regenerated facts (error enum, maxRangeItems) and by executing model and implementation on the exhaustive operator x kind x kind table, random IEEE bit patterns and random nestings.",
         "DESIGN.md section 6 C03", ""),
 "C13": ("Lean 4 theorems: lexicographic comparator theory, order-by = stable sort (permutation, ordered, stable) for every length and term count; key typing errors; $sort merge = core merge; + differential correspondence and a direct stability check on Go's output",
         "Kernel-checked: the evaluator's less function is the lexicographic product of lawful per-term comparators (numbers, strings, absent-last, per-term direction) for keys that passed buildSortInfo's type bookkeeping, hence the stable merge sort yields a sorted, stable permutation (relativised use of the core mergeSort lemmas); mixed/other-typed keys are errors; the repo's merge is List.merge and a permutation for any comparator. "
         "Tied to /repo by arrays of length 0..8 and 13..200 with many ties (stability is only observable above 12 items), all direction combinations, computed keys, comparators; output checked both against the model and directly for permutation/order/tie order.",
         "DESIGN.md section 6 C13", "sort.SliceStable is modelled by List.mergeSort (contract: stable). Float order laws (LawfulNum) are assumed for doubles without NaN and proved for Int."),
 "C14": ("Lean 4 theorems: grouping is a partition (invariant by induction over the items), duplicate/illegal key errors, $keys/$spread/$merge/$lookup laws incl. merge(spread o) = o; + differential correspondence",
         "Kernel-checked: folding any number of items yields one group per distinct key holding exactly the positions with that key in input order (each item in exactly one group, once); the evaluator's monadic loop equals that fold; duplicate keys across pairs and non-string keys are errors; $keys is duplicate-free and complete, $spread gives singletons, $merge lets later objects win and merge(spread o) = o for objects with unique keys, $lookup is field selection. "
         "Tied to /repo by generated groupings (collisions, absent/non-string keys, 1..3 pairs, aggregates and nested constructors as values) and object-function programs with identities evaluated inside JSONata.",
         "DESIGN.md section 6 C14", "Member order of Go maps is unspecified: results are compared as unordered objects and order-revealing programs sort their output. An empty/absent grouping context (Go evaluates values against a one-slot array holding nil) is outside the generator."),
 "C15": ("Lean 4 theorems: $map/$filter/$reduce = their list definitions for any function argument and length, $distinct first-occurrence laws, $zip length, $shuffle (inside-out Fisher-Yates with explicit draws) is a permutation, aggregate rules; + differential correspondence",
         "Kernel-checked: map/filter/reduce loops equal filterMap/filter/foldl with (value, index, array) trimmed to the clamped arity; reduce requires arity two; $distinct returns a duplicate-free sub-list covering the input and keeps 1/\"1\"/{a:1}/{a:\"1\"} apart; the shuffle algorithm returns a permutation for all draws; aggregate empty/non-numeric rules. "
         "Tied to /repo by exhaustive arrays of length <= 3 over a 5-value domain and random arrays up to length 8 with function arguments of arity 0..3, built-ins, partials and chains; $shuffle is checked as a permutation relation on Go's output.",
         "DESIGN.md section 6 C15", "math/rand is a parameter (explicit draws)."),
 "C12": ("Lean 4 theorems about the frame store (bindings invisible from older frames, visible later and in nested scopes), closure capture, placeholder substitution, chain = call, context of built-ins = call site, signature counting/typing rules; + differential correspondence",
         "Kernel-checked: frames are append-only with older parents, so a binding in a later-created frame never changes what any name resolves to from an outer frame (shadowing cannot alter outer bindings), a binding is visible later in its scope and in nested scopes; a function value captures its definition frame and context item and is called in a new frame under it; missing arguments are undefined, surplus ignored; v ~> f(a) is literally the call f(v, a) and f ~> g composes; f(?, x) substitutes placeholders in order; a built-in receives the context item of its own call node; argument-count and type rules of signatures (plain, optional padding, variadic collection, type letters, unions, array subtypes). "
         "Tied to /repo by scoping/closure/recursion programs, every one-parameter signature x option x argument list of length 0..2, random signatures up to 3 parameters against argument lists 0..4, placeholders in every position, chains of values/calls/functions/partials and context-defaulting built-ins nested under different path contexts.",
         "DESIGN.md section 6 C12", "The frame theorems are about the model's explicit store; their tie to env.go is the correspondence."),
 "C16": ("Lean 4 theorems on code-point lists: substring = slice spec for all integer start/length, pad length law, before/after concatenation law, join(split(s,c),c) = s for every s and c, first-occurrence, replace and trim facts; + differential correspondence and the inverse laws evaluated inside JSONata (incl. base64/URL round trips)",
         "Kernel-checked for every string and every integer parameter: $substring is the code-point slice with negative starts from the end, $length($pad(s,n)) = max(|n|, $length(s)) with padding on the correct side, before & c & after = s when c occurs and both return s otherwise, the separator found is the first occurrence, $join($split(s,c),c) = s including the empty separator, limits truncate, $trim leaves no outer whitespace. "
         "Tied to /repo by all strings up to length 2 (quick) / 3 (thorough) over an alphabet of ASCII, 2-, 3- and 4-byte characters, whitespace and separators with parameter grids -5..5 (incl. fractional) and pad/separator strings of length 0..3, random longer strings, and the laws evaluated as JSONata equalities that must be true.",
         "DESIGN.md section 6 C16", "strings.Index/Split/Replace, utf8.RuneCountInString, unicode case mapping (ASCII and Latin-1 in the model), base64 and net/url are standard-library parameters: their round trips are checked on the implementation, the Lean theorem states the contract explicitly."),
 "C04": ("Lean 4 model of the Pratt parser (binding-power table, nud/led dispatch, left/right associativity loop) + regenerated table obligations (symbols, binding powers, nud/led sets, loop condition) + theorems on the loop's grouping + parse correspondence: Go parse tree = Lean parse tree on generated and printed-back programs, with an independent precedence/associativity oracle",
         "Kernel-checked: the binding-power table is strictly layered as the property lists it (decide over the regenerated bps rows), the operator loop groups a tighter operator under a looser one, equal-power operators to the left and the right-associative forms to the right (theorems about ledLoop for arbitrary operand parsers), parentheses yield a block that cannot be re-associated, negative literals fold. PARTIAL: parse(print(t)) = t for every tree is not proved as a theorem (the parser model is fuel-recursive over token lists; DESIGN.md section 6 C04 says what is missing); it is carried by the correspondence: random trees over every binary operator pair, printed with minimal parentheses by an independent printer, must parse (in Go and in the Lean model) to the tree they were printed from, and String() must be a fixpoint of parse.",
         "DESIGN.md section 6 C04", "The round-trip half of C04 rests on the correspondence (differential testing), not on a theorem."),
 "C08": ("Lean 4 model of the lexer and parser error paths: UTF-8 decoder width theorem, lexer position invariant (0 <= start <= pos <= len, never past the end), backup idempotence, bracket matcher length bound, strict hex escapes; regenerated facts (token/error enums, whitespace set, parseRune call); + parse correspondence on arbitrary byte strings (status, error kind, tree)",
         "Kernel-checked: the decoder consumes 1..4 bytes and never more than remain, every lexer primitive preserves the position invariant so no slice expression can leave the input, backup cannot move before the token start, the bracket matcher returns a prefix of its input and reports unbalanced input, hex escapes accept exactly four hex digits; decide-checked facts: the parser's error kinds are the documented enum and the lexer's token set matches the model. "
         "Tied to /repo by running Go's Compile (under recover and a wall-clock limit) and the Lean lexer+parser on random bytes, invalid UTF-8, mutated valid programs, truncated programs, unbalanced brackets/quotes/signatures, numeric overflow spellings: a panic, a timeout, or a different status/error kind/tree is a violation.",
         "DESIGN.md section 6 C08", "Regular-expression validity is decided by Go's regexp engine (a parameter): cases Go rejects with ErrInvalidRegex are skipped by the comparison. For invalid UTF-8 only the status is compared (Go replaces bytes by U+FFFD inside strings)."),
 "C11": ("Lean 4 theorems: escape-free strings denote themselves (induction), each JSON escape / \\uXXXX / surrogate pair denotes its character and malformed ones are errors, literal nodes evaluate to themselves on every input, array constructors keep nested constructors and non-array members as units; regenerated escape table; + correspondence with encoding/json on generated JSON texts",
         "Kernel-checked: unescape is the identity on strings without backslash (all lengths), maps each escape to its character, decodes surrogate pairs and rejects unpaired/malformed escapes; string/number/boolean/null nodes evaluate to themselves whatever the input; array constructors do not flatten nested constructors nor collapse singletons; an object constructor with a literal key yields that member. PARTIAL: that the parser maps every JSON text to the corresponding tree and that number literals are read as the nearest double are carried by the correspondence: generated JSON texts (all escapes, astral characters, deep nesting, empty containers, duplicate-free keys, number spellings with exponents) are compiled and evaluated by /repo and by the Lean lexer/parser/evaluator and compared with encoding/json's decoding.",
         "DESIGN.md section 6 C11", "strconv.ParseFloat is modelled by an exact-rational nearest-even conversion (Model/Decimal.lean), validated by the correspondence."),
 "C17": ("Lean 4 theorems with the regex engine as a parameter: back-to-front splicing = left-to-right replacement for ordered matches, $replace by $0 is the identity, split pieces woven with the matches rebuild the subject, template expansion rules ($0, $$, lone $, longest existing group number via pickGroup, saturating digit strings), match object members and next-chain enumeration; regenerated facts on callable.go / jlib/string.go; + correspondence in which the model consumes regexp.FindAllStringSubmatchIndex of the real engine, and an independent oracle written from the statement",
         "Kernel-checked for every subject, every ordered match list and every template: replaceMatchFunc's splicing equals untouched text / replacement / untouched text, replacing each match by itself returns the subject, $split's pieces interleaved with the matched texts rebuild the subject (piece count = matches + 1), a template without $ is copied, $0/$$/lone $ rules, $N inserts the group numbered by the longest digit prefix that exists and consumes exactly those digits (none: one digit is dropped), digit strings of any length cannot wrap around, applying a regex gives the first match object and its next member enumerates the rest and then no value. PARTIAL: that the matches are the leftmost non-overlapping RE2 matches and the meaning of the flags i/m/s is the contract of Go's regexp package (trusted); the model takes the engine's match list as data. "
         "Tied to /repo by generated patterns (classes, alternation, nested/optional/non-capturing groups, lazy and greedy quantifiers, anchors, flags) x subjects up to length 16 with multi-byte characters x templates x limits -1..4: Go's result is compared with the Lean model fed with the real engine's matches and with a direct oracle; invalid and empty patterns must be compile errors exactly when regexp.Compile rejects them; user-defined matcher functions with good and bad offsets.",
         "DESIGN.md section 6 C17", "regexp (RE2) is a parameter: FindAllStringSubmatchIndex is trusted to return leftmost, non-overlapping, in-bounds matches."),
 "C18": ("Lean 4 theorems on exact decimals (integers): half-even rounding is nearest with ties to even, values with at most p fraction digits are fixed points, radix numerals read back for every base 2..36, grouping adds only separators (regular, irregular, fractional) and never before the first digit, the fixed-point numeral reads back as the rounded value with exactly dp fraction digits, exponent normalisation preserves mantissa x 10^exponent, picture digit-count inequalities; regenerated facts (number regex, decimal-format defaults and option names, Round/FormatNumber go through the exact decimal); + correspondence and math/big / strconv read-back oracles",
         "Kernel-checked for all integers m, e, p, n and all digit strings: the rounding used by $round and $formatNumber returns an integer within half a unit, the even one on ties, and leaves exact values alone; $formatBase's numeral reads back as the integer for every base 2..36 and bases outside are errors; whatever the grouping positions, the formatted integer/fraction part is the padded digit string with separators added between digits; makeNumberString yields exactly dp fraction digits and at least one integer digit and reads back as the rounded value; exponent normalisation keeps mantissa x 10^exponent. PARTIAL: (1) the conversion double <-> shortest decimal (strconv) and the float operations floor/ceil/sqrt/pow are parameters (NumSys), validated by the correspondence; (2) termination of the exponent-normalisation loops for every value is not a theorem: the model runs them with fuel 800 and the real loops run under a wall-clock limit in the correspondence; (3) $number's grammar is a recogniser checked against an independent one, not proved equivalent to the regular expression. "
         "Tied to /repo by the quantifier's doubles (integers, 0..6-digit fractions incl. exact ties, one-ulp neighbours of ties, powers of ten, -0, large integers) x precisions -6..12 x bases 0..40, exhaustive number-like strings up to length 3/4 and random ones to length 6, and grammar-generated pictures (digit patterns, regular/irregular/fractional grouping, percent, per-mille, exponent, affixes, two sub-pictures, custom separators and digit families) with mutated invalid ones: each compared with the Lean model and with math/big oracles (exact half-even rounding, numeral read back and compared with the exactly rounded value).",
         "DESIGN.md section 6 C18", "math.Pow vs C pow: $power is compared with the model only for small integer bases and non-negative integer exponents (exact results); elsewhere only against Go's own math.Pow for the error/no-error decision."),
 "C05": ("Lean 4 world model (history independence, tree unchanged) + regenerated write-set obligations (every field/element write of the evaluator packages is on an accounted allow-list; per-call copy of built-ins; chain builds a fresh call) + history correspondence with AST deep comparison through the verif hook",
         "Kernel-checked: in the model an evaluation is a function of (tree, input): outcomes are independent of any history and the tree is unchanged. The tie to the source is (a) decide-checked obligations over the regenerated write set: every statement writing through a field, element or pointer in eval/callable/env/jsonata/jlib must be on the allow-list (none targets a syntax-tree node, the name/context setters run on a per-call copy made before them, the chain operator builds a new call node, each Eval makes a new environment), and (b) histories of 2..5 Evals on one Expr with other expressions in between, comparing every outcome with a freshly compiled Expr, String() and the parsed tree (verif accessor) before/after.",
         "DESIGN.md section 6 C05", "The write-set extractor is syntactic (go/ast): it lists assignments and inc/dec whose target is a selector, index or dereference; writes through reflect or method calls are covered by the mutator list of C07."),
 "C07": ("Lean 4 theorems on the transform model (argument errors, untag(tag v) = v, nothing selected => equal copy) + regenerated mutator call-site obligations and event order of transformationCallable.Call + before/after deep comparison of inputs and registered variables on every Eval + transform results vs model",
         "Kernel-checked: transform argument-count/type rules; location tagging is invertible so a transform that selects nothing returns an equal copy; decide-checked facts: every reflect Set/SetMapIndex, sort.* and rand.* call site is on the allow-list with a fresh receiver, maps are written only by updateEntries/deleteEntries, and Call clones before evaluating the pattern and computes the ownership set before writing. "
         "Tied to /repo by deep-comparing the input (with nulls, shared sub-structures, empty containers) and a registered variable before and after every Eval of the full generator (sort/reverse/append/shuffle/zip/merge/distinct/order-by/grouping over-weighted) and of transforms with context-relative, root-anchored and variable-anchored patterns; transform results are compared with the model.",
         "DESIGN.md section 6 C07", "Immutability is a frame condition of Go's heap; the model's values are immutable, so the theorem side is carried by the regenerated mutator/write facts. Aliasing of update values into the copy is outside the model."),
 "C09": ("Lean 4: every model function is total (termination checked by Lean); no-crash theorems for operators, argument checking, sort keys, aggregates; regenerated fact: eval's type switch covers all node types; + totality correspondence (recover + wall-clock limit) over type-directed and type-chaotic programs",
         "Kernel-checked: the model's operators, argument-count/type checks, sort-key bookkeeping and aggregates only ever return a value, no value or an evaluation error (never the model's panic/fuel outcome) for all operand kinds; eval.go's node dispatch covers exactly the model's node types (decide over the regenerated list). "
         "Tied to /repo by running every generated program (every node type, every built-in with every arity, functions as data, missing arguments, arrays in arrays, number/picture edge values) under recover and a wall-clock limit: any panic or timeout is a violation with the program and input as replay.",
         "DESIGN.md section 6 C09", "Panics originating in Go's reflect package (Len on an interface value, Set on a zero Value, failed type assertions) are outside the model: for those the property is carried by the correspondence alone. Sizes of ranges/pads are bounded as the property's quantifier says."),
 "C10": ("Lean 4 theorems: ErrUndefined iff no value, finiteness of arithmetic/aggregate results, closure of containers, EvalBytes = decode;eval;encode specification; regenerated facts on Eval/EvalBytes shape; + result type walk, json.Marshal, EvalBytes parity and undefined-parity with the model on every generated case",
         "Kernel-checked: the final conversion reports ErrUndefined exactly for 'no value'; arithmetic operators and $sum/$average return only finite numbers; containers of JSON-closed members are closed; EvalBytes succeeds exactly when the input decodes, Eval succeeds and the value encodes, returning that encoding; decide-checked facts: EvalBytes is Unmarshal/Eval/Marshal. "
         "Tied to /repo by walking the Go type of every nil-error result (JSON types only, finite numbers, string keys, functions), json.Marshal must succeed, EvalBytes must agree with Eval (success parity and equal encoding; nested-multiset comparison where Go map order is unspecified), ErrUndefined exactly when the model has no value; malformed input bytes must be rejected like encoding/json.",
         "DESIGN.md section 6 C10", "One known finding (cyclic result of a self-inserting transform) is listed in known_findings.json with a specific matcher."),
}

NOT_YET = {}

def main():
    props = [json.loads(l) for l in open(os.path.join(ROOT, "properties.jsonl"))]
    checks = []
    na = []
    for p in props:
        pid = p["id"]
        if pid in CHECKS:
            tech, text, ref, extra = CHECKS[pid]
            checks.append({
                "property_id": pid,
                "quick_cmd": "./check %s quick" % pid,
                "thorough_cmd": "./check %s thorough" % pid,
                "evidence_file": "/verif/evidence/%s.json" % pid,
                "replay_cmd_template": "./check %s --replay {path}" % pid,
                "engine": "lean-proof+correspondence",
                "level_claimed": {"category": "proof", "text": text, "design_ref": ref},
                "level_note": COMMON_NOTE + (" " + extra if extra else ""),
                "technique": tech,
            })
        else:
            na.append({"property_id": pid, "reason": NOT_YET.get(pid, "check not built yet (work in progress in this round; no claim is made until the Lean theorems and the correspondence exist)")})
    m = {
        "version": 1,
        "setup_cmd": "./check setup",
        "hooks": {
            "guard": "verif",
            "enable": "go build -tags verif (the harness module replaces github.com/blues/jsonata-go by /repo)",
            "baseline_off_cmd": "cd /repo && GOFLAGS=-mod=mod GOPROXY=off GOSUMDB=off go test -json -vet=off -count=1 ./...",
            "source_commits": HOOK_COMMITS,
            "add_only": True,
        },
        "engines": [{
            "name": "lean-proof+correspondence",
            "path": "/verif/check",
            "serves_properties": sorted(CHECKS.keys()),
            "kind_free_text": "Lean 4 model + theorems (lean/), gofacts regenerated tables (gofacts/), Go differential harness against a compiled Lean driver (harness/)",
        }],
        "checks": checks,
        "not_applicable": na,
        "notes": "All checks: ./check Cxx quick|thorough. Exit 0 holds / 1 VIOLATION line / 2 broken check. See DESIGN.md.",
    }
    json.dump(m, open(os.path.join(ROOT, "MANIFEST.json"), "w"), indent=1)
    print("MANIFEST.json: %d checks, %d not_applicable" % (len(checks), len(na)))

HOOK_COMMITS = ["86f057e"]

if __name__ == "__main__":
    main()
