#!/usr/bin/env python3
"""Run the checks against one seeded change.

  tools/seedtest.py seeded/<id> [Cxx ...]      (default: the property of meta.json)

Applies seeded/<id>/patch.diff to /repo (git apply), checks that the tree still builds and that
the pinned test suite still passes, runs the listed checks (quick tier, VERIF_SEED default),
undoes the patch (git checkout -- .) and writes seeded/<id>/result.json.  Evidence files written
while the patch was applied are restored afterwards.
"""
import json, os, shutil, subprocess, sys, tempfile, time

ROOT = os.path.dirname(os.path.dirname(os.path.abspath(__file__)))
REPO = os.environ.get("VERIF_REPO", "/repo")
GOENV = dict(os.environ, GOFLAGS="-mod=mod", GOPROXY="off", GOSUMDB="off", GOTOOLCHAIN="local")


def sh(cmd, **kw):
    return subprocess.run(cmd, stdout=subprocess.PIPE, stderr=subprocess.STDOUT, text=True, errors="replace", **kw)


def main():
    d = os.path.abspath(sys.argv[1])
    meta = json.load(open(os.path.join(d, "meta.json")))
    props = sys.argv[2:] or [meta["property"]]
    patch = os.path.join(d, "patch.diff")
    st = sh(["git", "-C", REPO, "status", "--porcelain"]).stdout.strip()
    if st:
        print("refusing: /repo is not clean:\n" + st)
        sys.exit(2)
    # keep the clean-tree evidence
    keep = tempfile.mkdtemp(prefix="evid-")
    for f in os.listdir(os.path.join(ROOT, "evidence")):
        if f.endswith(".json"):
            shutil.copy(os.path.join(ROOT, "evidence", f), keep)
    res = {"seed": os.path.basename(d), "property": meta["property"], "checks": {}, "tests_pass": None, "builds": None}
    try:
        r = sh(["git", "-C", REPO, "apply", patch])
        if r.returncode != 0:
            print("patch does not apply:\n" + r.stdout)
            res["applies"] = False
            return finish(d, res)
        res["applies"] = True
        b = sh(["go", "build", "./..."], cwd=REPO, env=GOENV)
        res["builds"] = b.returncode == 0
        t = sh([os.path.join(ROOT, "tools", "repotest.sh"), REPO])
        res["tests_pass"] = t.returncode == 0
        res["tests"] = t.stdout.strip()[-200:]
        for p in props:
            t0 = time.time()
            c = sh([os.path.join(ROOT, "check"), p, "quick"], cwd=ROOT)
            lines = c.stdout.splitlines()
            viol = [l for l in lines if l.startswith("VIOLATION")]
            res["checks"][p] = {
                "exit": c.returncode,
                "violations": len(viol),
                "first": viol[0] if viol else None,
                "via_proof_obligation_only": bool(viol) and all(l.endswith("no-failing-input-found") for l in viol),
                "detail": [l for l in lines if l.startswith("  ")][:3],
                "wall_s": round(time.time() - t0, 1),
            }
            print("%s on %s: exit %d, %d violation line(s)%s" % (p, res["seed"], c.returncode, len(viol),
                  " [no-failing-input-found]" if res["checks"][p]["via_proof_obligation_only"] else ""))
            if c.returncode == 2:
                print(c.stdout[-1500:])
    finally:
        sh(["git", "-C", REPO, "checkout", "--", "."])
        sh(["git", "-C", REPO, "clean", "-fdq"])
        for f in os.listdir(keep):
            shutil.copy(os.path.join(keep, f), os.path.join(ROOT, "evidence", f))
        shutil.rmtree(keep, ignore_errors=True)
        # bin/harness was built against the patched tree: rebuild it for the clean one
        sh(["go", "build", "-tags", "verif", "-o", os.path.join(ROOT, "bin", "harness"), "."], cwd=os.path.join(ROOT, "harness"), env=GOENV)
        rp = os.path.join(ROOT, "evidence", "replay")
        if os.path.isdir(rp):
            for f in os.listdir(rp):
                os.remove(os.path.join(rp, f))
    finish(d, res)


def finish(d, res):
    old = {}
    rp = os.path.join(d, "result.json")
    if os.path.exists(rp):
        try:
            old = json.load(open(rp))
        except Exception:
            old = {}
    checks = old.get("checks", {})
    checks.update(res.get("checks", {}))
    res["checks"] = checks
    json.dump(res, open(rp, "w"), indent=1)
    print(json.dumps({k: (v["exit"], v["violations"]) for k, v in res["checks"].items()}))


if __name__ == "__main__":
    main()
