package main

// C01 — paths map over sequences, flatten one level, normalise empty/singleton results.
// C02 — predicates filter by truth value or select by position, per context item.

import (
	"fmt"
	"strings"
)

// ---- documents ----------------------------------------------------------------

// enumDocs enumerates all documents of the given depth over names {a,b} and
// leaves {1,"x"}: leaf | {} | {n:doc} | {a:doc,b:doc} | [] | [doc] | [doc,doc].
// single=true keeps objects to at most one member.
func enumDocs(depth int, single bool) []interface{} {
	leaves := []interface{}{1.0, "x"}
	if depth == 0 {
		return leaves
	}
	sub := enumDocs(depth-1, single)
	out := append([]interface{}{}, leaves...)
	out = append(out, map[string]interface{}{}, []interface{}{})
	for _, n := range []string{"a", "b"} {
		for _, s := range sub {
			out = append(out, map[string]interface{}{n: s})
		}
	}
	for _, s := range sub {
		out = append(out, []interface{}{s})
	}
	// pairs are sampled on a stride to bound the set
	for i := 0; i < len(sub); i += 3 {
		for j := 0; j < len(sub); j += 5 {
			out = append(out, []interface{}{sub[i], sub[j]})
			if !single {
				out = append(out, map[string]interface{}{"a": sub[i], "b": sub[j]})
			}
		}
	}
	return out
}

func hasMultiMemberObj(v interface{}) bool {
	switch v := v.(type) {
	case map[string]interface{}:
		if len(v) > 1 {
			return true
		}
		for _, x := range v {
			if hasMultiMemberObj(x) {
				return true
			}
		}
	case []interface{}:
		for _, x := range v {
			if hasMultiMemberObj(x) {
				return true
			}
		}
	}
	return false
}

// ---- path programs --------------------------------------------------------------

var c01Steps = []string{"a", "b", "`a`", "*", "**", "$", "$$", "$v", "(a)", "(a.b)", "(a.[b])", "([a].b)", "(b.[a, b])", "([a, b].a)", "(a.{\"k\": b})", "(a.*)", "(**.b)", "(a.b.[a])", "[a]", "[a, b]", `{"k": a}`, "$count(a)", "$string($)", "a[0]", "b[]"}

func orderSensitive(prog string) bool {
	return strings.Contains(prog, "*") || strings.Contains(prog, "$keys") || strings.Contains(prog, "$each") ||
		strings.Contains(prog, "$spread") || strings.Contains(prog, "$sift")
}

func genPath(r *rng, maxSteps int) string {
	n := 1 + r.intn(maxSteps)
	steps := make([]string, n)
	for i := range steps {
		steps[i] = c01Steps[r.intn(len(c01Steps))]
		if i > 0 && (steps[i] == "$" || steps[i] == "$$" || steps[i] == "$v") && r.chance(2, 3) {
			steps[i] = []string{"a", "b", "*"}[r.intn(3)]
		}
	}
	if n >= 2 && r.chance(1, 4) {
		// a contiguous range of steps as one parenthesised sub-path (its array value is flattened one level by
		// the outer path, its first step keeps its constructor anchoring)
		i := r.intn(n - 1)
		j := i + 2 + r.intn(n-i-1)
		if !(i == 0 && j == n) {
			grouped := append([]string{}, steps[:i]...)
			grouped = append(grouped, "("+strings.Join(steps[i:j], ".")+")")
			grouped = append(grouped, steps[j:]...)
			steps = grouped
		}
	}
	p := strings.Join(steps, ".")
	if r.chance(1, 6) {
		p += "[]"
	}
	if strings.Contains(p, "$v") {
		p = "($v := " + []string{"a", "$", "[a]", "b.a", "$$.a"}[r.intn(5)] + "; " + p + ")"
	}
	return p
}

func runC01(c *ctx) {
	stmtAnchored(c)
	c.rep.Rule = "paths of 1..5 steps over names, quoted names, *, **, $, $$, variables, parenthesised sub-paths, " +
		"array/object constructors and call steps, with and without []; documents: exhaustive over a 2-name/2-leaf " +
		"alphabet (depth <= 2 quick, <= 3 thorough) plus random null-free documents with arrays directly inside arrays; " +
		"objects seen by */** have at most one member; non-trivial = parsed and in the model; distinct by (program, input)"
	r := c.rng.fork()

	// 1. exhaustive: every path of <= 2 (quick) / <= 3 (thorough) basic steps × every small document
	basic := []string{"a", "b", "*", "**", "$", "$$"}
	var paths []string
	maxLen := c.scale(2, 3)
	var build func(prefix []string)
	build = func(prefix []string) {
		if len(prefix) > 0 {
			paths = append(paths, strings.Join(prefix, "."))
			paths = append(paths, strings.Join(prefix, ".")+"[]")
		}
		if len(prefix) == maxLen {
			return
		}
		for _, s := range basic {
			build(append(append([]string{}, prefix...), s))
		}
	}
	build(nil)
	docs := enumDocs(c.scale(2, 3), true)
	c.rep.Exhaustive = append(c.rep.Exhaustive, fmt.Sprintf("%d paths x %d documents (names {a,b}, *, **, $, $$; single-member objects)", len(paths), len(docs)))
	stride := 1
	if !c.quick() && len(docs) > 1500 {
		stride = len(docs)/1500 + 1
	}
	for _, p := range paths {
		for i := 0; i < len(docs); i += stride {
			c.diffEval(p, docs[i], "exh/"+fmt.Sprint(strings.Count(p, ".")+1))
			if c.tooMany() {
				return
			}
		}
	}

	// 1b. documents in which one Go container is reachable at several places (a caller may build them that way):
	//     every occurrence is a descendant / member in its own right
	for i := 0; i < len(docs); i += 1 + len(docs)/400 {
		sub := docs[i]
		switch sub.(type) {
		case map[string]interface{}, []interface{}:
		default:
			continue
		}
		shared := []interface{}{
			map[string]interface{}{"a": []interface{}{map[string]interface{}{"b": sub}, map[string]interface{}{"b": sub}}},
			map[string]interface{}{"a": []interface{}{[]interface{}{sub}, map[string]interface{}{"a": sub}, sub}},
			[]interface{}{sub, sub},
			map[string]interface{}{"a": []interface{}{sub, []interface{}{sub}}},
		}
		for _, d := range shared {
			for _, p := range []string{"**", "**.a", "**.b", "a.**", "*.**", "a.b", "a.*", "$.**.b", "a.b.**", "**[]", "**.**"} {
				c.diffEval(p, d, "shared-container")
			}
		}
		if c.tooMany() {
			return
		}
	}

	// 1c. parenthesised sub-paths: a sub-path is ONE step (its array value is flattened one level by the outer path and a
	//     leading constructor keeps its first-step anchoring) — exhaustive over sub-path shapes x positions x documents
	//     with several context items
	c.rep.Exhaustive = append(c.rep.Exhaustive, "parenthesised sub-paths (7 shapes incl. leading/trailing constructor steps) x 9 positions x documents with 1..3 context items")
	mk := func(vals ...interface{}) []interface{} {
		var out []interface{}
		for _, v := range vals {
			out = append(out, map[string]interface{}{"a": v})
		}
		return out
	}
	ob := func(v interface{}) map[string]interface{} { return map[string]interface{}{"b": v} }
	subDocs := []interface{}{
		map[string]interface{}{"a": mk(ob(1.0), ob(2.0))},
		map[string]interface{}{"a": map[string]interface{}{"a": []interface{}{ob([]interface{}{1.0, 2.0}), ob([]interface{}{3.0})}}},
		map[string]interface{}{"a": mk([]interface{}{ob(1.0), ob(2.0)}, ob(3.0))},
		map[string]interface{}{"a": mk(ob([]interface{}{1.0}), ob([]interface{}{2.0, 3.0}), ob(4.0))},
		map[string]interface{}{"a": ob([]interface{}{[]interface{}{1.0}, []interface{}{2.0}})},
		map[string]interface{}{"a": []interface{}{mk(ob(1.0)), mk(ob(2.0), ob(3.0))}},
		mk(ob(1.0), ob(2.0)),
		map[string]interface{}{"a": mk(ob(1.0))},
		map[string]interface{}{"a": map[string]interface{}{"a": ob(1.0)}, "b": 2.0},
	}
	for _, sub := range []string{"a.[b]", "[a].b", "a.[a, b]", "[a, b].b", "a.b", "[b]", "a.{\"k\": b}", "a.b.[$]", "[a].[b]"} {
		for _, outer := range []string{"a.(%s)", "(%s).b", "(%s)", "a.(%s).b", "$.(%s)", "(a.(%s))", "a.(%s)[]", "a.((%s))", "(%s).a.b"} {
			for _, d := range subDocs {
				c.diffEval(fmt.Sprintf(outer, sub), d, "sub-path")
			}
		}
	}

	// 1d. arrays nested in arrays (three and four deep from the step's point of view): a name step flattens ALL of them —
	//     systematic nestings of one or two items per level over leaves {"b":1} {"b":2} {"b":[3,4]} {"c":9}
	leafObjs := []interface{}{map[string]interface{}{"b": 1.0}, map[string]interface{}{"b": 2.0}, map[string]interface{}{"b": []interface{}{3.0, 4.0}}, map[string]interface{}{"c": 9.0}}
	var lvl [][]interface{}
	var l0 []interface{}
	for _, x := range leafObjs {
		l0 = append(l0, []interface{}{x})
		for _, y := range leafObjs[:3] {
			l0 = append(l0, []interface{}{x, y})
		}
	}
	lvl = append(lvl, l0)
	for d := 1; d <= 3; d++ {
		prev := lvl[d-1]
		var cur []interface{}
		for i, x := range prev {
			cur = append(cur, []interface{}{x})
			// pairs: with another nesting of the same level, and with a bare object next to it
			cur = append(cur, []interface{}{x, prev[(i*7+3)%len(prev)]})
			cur = append(cur, []interface{}{x, leafObjs[i%3]})
			if i%2 == 0 {
				cur = append(cur, []interface{}{leafObjs[(i+1)%3], x})
			}
		}
		stride := 1 + len(cur)/c.scale(60, 400)
		var kept []interface{}
		for i := 0; i < len(cur); i += stride {
			kept = append(kept, cur[i])
		}
		lvl = append(lvl, kept)
	}
	nestCount := 0
	for d := 0; d <= 3; d++ {
		for _, x := range lvl[d] {
			nestCount++
			doc := map[string]interface{}{"a": x}
			for _, p := range []string{"a.b", "a.b[]", "$.a.b", "(a).b", "a.b.$", "a[0].b", "a.*", "$count(a.b)"} {
				c.diffEval(p, doc, "deep-nesting")
			}
			c.diffEval("b", x, "deep-nesting")
			c.diffEval("$.b", x, "deep-nesting")
		}
	}
	c.rep.Exhaustive = append(c.rep.Exhaustive, fmt.Sprintf("%d systematic nestings of arrays in arrays (1..5 levels, one or two items per level) x 10 name paths", nestCount))

	// 2. the witnesses named in the property text and corpus seeds
	seeds := []struct {
		p string
		d interface{}
	}{
		{"a.b", map[string]interface{}{"a": []interface{}{[]interface{}{[]interface{}{map[string]interface{}{"b": 1.0}}}}}},
		{"a.b[0]", map[string]interface{}{"a": []interface{}{[]interface{}{[]interface{}{map[string]interface{}{"b": 1.0}}}}}},
		{"a.b", map[string]interface{}{"a": map[string]interface{}{"b": []interface{}{}}}},
		{"a.b", map[string]interface{}{"a": []interface{}{map[string]interface{}{"b": []interface{}{1.0, 2.0}}, map[string]interface{}{"b": []interface{}{3.0}}}}},
		{"$.b", []interface{}{map[string]interface{}{"b": []interface{}{1.0, 2.0}}, map[string]interface{}{"b": []interface{}{3.0}}}},
		{"b", []interface{}{[]interface{}{map[string]interface{}{"b": []interface{}{1.0, 2.0}}}, map[string]interface{}{"b": []interface{}{3.0}}}},
		{"$sum.*", map[string]interface{}{}},
		{"$sum.a", map[string]interface{}{}},
		{"$sum.**", map[string]interface{}{}},
	}
	for _, s := range seeds {
		c.diffEval(s.p, s.d, "seed")
	}

	// 3. random paths × random documents (arrays nested in arrays at every position)
	n := c.scale(6000, 120000)
	o := defaultDocOpts()
	o.singleObjs = true
	o.arrInArr = 5
	for i := 0; i < n && !c.tooMany(); i++ {
		p := genPath(r, 5)
		var d interface{}
		if r.chance(1, 3) {
			d = genDoc(r, o, 4)
		} else {
			d = genRootedDoc(r, o)
		}
		c.diffEval(p, d, "rand/"+fmt.Sprint(strings.Count(p, ".")+1))
	}
	// multi-member objects for programs that are not order-sensitive
	o.singleObjs = false
	for i := 0; i < n/3 && !c.tooMany(); i++ {
		p := genPath(r, 4)
		if orderSensitive(p) {
			continue
		}
		d := genRootedDoc(r, o)
		c.diffEval(p, d, "randmulti")
	}
}

// genRootedDoc makes a document whose root is an object with the members the
// generated programs navigate (a, b, idx), so that most paths find something.
func genRootedDoc(r *rng, o docOpts) interface{} {
	if o.singleObjs {
		name := []string{"a", "b"}[r.intn(2)]
		return map[string]interface{}{name: genDoc(r, o, 3)}
	}
	m := map[string]interface{}{}
	for _, name := range []string{"a", "b"} {
		if r.chance(9, 10) {
			if r.chance(7, 10) {
				m[name] = genArr(r, o, 3)
			} else {
				m[name] = genDoc(r, o, 3)
			}
		}
	}
	if r.chance(1, 2) {
		m["idx"] = []interface{}{float64(r.intn(4) - 1), float64(r.intn(3))}
	}
	if r.chance(1, 10) {
		return []interface{}{m, genDoc(r, o, 2)}
	}
	return m
}

// ---- C02 ------------------------------------------------------------------------

var c02Preds = []string{
	"a = 1", "a > 1", "b", "a and b", "a or b", "$ > 1", "$ = \"x\"", "true", "false", "\"\"", "\"s\"", "{}", "{\"k\":1}",
	"nothing", "0", "1", "-1", "2", "-2", "0.5", "1.5", "-0.5", "7", "-7", "1 + 1", "$count($$.a) - 1",
	"[0]", "[0, 1]", "[1, 0]", "[0, 0]", "[-1, 0]", "[1.5, -1.5]", "[]", "[0, \"x\"]", "$$.idx", "idx", "[true]", "$",
}

var c02Heads = []string{"a", "b", "$", "$$.a", "(a)", "(a.b)", "a.b", "[1, 2, 3]", "[a]", "$v", "*", "$reverse(a)", "$.a"}

func genPredProg(r *rng) string {
	h := c02Heads[r.intn(len(c02Heads))]
	n := 1 + r.intn(3)
	p := h
	for i := 0; i < n; i++ {
		p += "[" + c02Preds[r.intn(len(c02Preds))] + "]"
	}
	if r.chance(1, 3) {
		p = "b." + p
	}
	if r.chance(1, 4) {
		p = "(" + p + ")[" + c02Preds[r.intn(len(c02Preds))] + "]"
	}
	if r.chance(1, 5) {
		p += "." + []string{"a", "b", "$"}[r.intn(3)]
	}
	if strings.Contains(p, "$v") {
		p = "($v := " + []string{"a", "$", "[a]", "$$.a"}[r.intn(4)] + "; " + p + ")"
	}
	return p
}

func runC02(c *ctx) {
	stmtAnchored(c)
	c.rep.Rule = "predicates (comparisons, boolean combinations, literal/computed/negative/fractional/out-of-range numbers, " +
		"number arrays incl. duplicates and arrays taken from the document, strings, objects, missing) on every kind of head, " +
		"stacked up to 3; exhaustive: array lengths 0..5 x positions -7..7 step 0.5 x {literal, computed, from document} x " +
		"{name step, block, variable head}; non-trivial = parsed and in the model; distinct by (program, input)"
	r := c.rng.fork()

	// 1. exhaustive positional set
	c.rep.Exhaustive = append(c.rep.Exhaustive, "lengths 0..5 x positions -7..7 step 0.5 x 3 index sources x 3 heads")
	for n := 0; n <= 5; n++ {
		arr := make([]interface{}, n)
		for i := range arr {
			arr[i] = float64(10 * (i + 1))
		}
		for k := -14; k <= 14; k++ {
			pos := float64(k) / 2
			doc := map[string]interface{}{"x": arr, "p": pos}
			lit := numLit(pos)
			for _, src := range []string{lit, "(" + lit + " + 0)", "$$.p"} {
				c.diffEval("x["+src+"]", doc, "pos/name")
				c.diffEval("(x)["+src+"]", doc, "pos/block")
				c.diffEval("($v := x; $v["+src+"])", doc, "pos/var")
			}
		}
		// positions at the edges of the double range: tiny negatives floor to -1, values whose sum with the length
		// rounds, huge magnitudes, values next to integers
		for _, pos := range []float64{-1e-17, -1e-300, -5e-324, 5e-324, 1e-17, 0.3 - 0.1 - 0.2, -0.9999999999999999, 0.9999999999999999, 1.9999999999999998,
			-1.0000000000000002, 4.999999999999999, -4.999999999999999, 1e15, -1e15, 1e300, -1e300, 9007199254740993, -9007199254740993, 2.0000000000000004} {
			doc := map[string]interface{}{"x": arr, "p": pos, "idx": []interface{}{0.0, pos}}
			lit := numLit(pos)
			for _, src := range []string{lit, "$$.p", "(" + lit + " + 0)"} {
				c.diffEval("x["+src+"]", doc, "pos/edge")
				c.diffEval("(x)["+src+"]", doc, "pos/edge")
			}
			c.diffEval("x[$$.idx]", doc, "pos/edge")
			c.diffEval("x[0.3 - 0.1 - 0.2]", doc, "pos/edge")
		}
		// index arrays, duplicates, mixed
		doc := map[string]interface{}{"x": arr, "idx": []interface{}{0.0, 2.0}, "dup": []interface{}{1.0, 1.0}, "neg": []interface{}{-1.0, 0.0}}
		for _, p := range []string{"x[$$.idx]", "x[$$.dup]", "x[$$.neg]", "x[[0,2]]", "x[[1,1]]", "x[[-1,0]]", "x[[0,\"a\"]]", "x[[]]", "(x)[$$.idx]", "x[$$.idx][0]", "x[$ > 15]", "x[$ > 15][0]", "x[$ > 15][-1]", "x[true]", "x[false]", "x[\"a\"]", "x[nothing]", "x[{}]"} {
			c.diffEval(p, doc, "idxarr")
		}
	}
	// witnesses from the property text
	c.diffEval("x[$$.idx]", map[string]interface{}{"x": []interface{}{10.0, 20.0, 30.0}, "idx": []interface{}{0.0, 2.0}}, "seed")
	c.diffEval("arr[o]", map[string]interface{}{"arr": []interface{}{[]interface{}{1.0}}}, "seed")
	c.diffEval("arr[o]", map[string]interface{}{"arr": []interface{}{[]interface{}{map[string]interface{}{"o": 1.0}}}}, "seed")

	// 2. random
	n := c.scale(8000, 150000)
	o := defaultDocOpts()
	o.names = []string{"a", "b", "idx"}
	for i := 0; i < n && !c.tooMany(); i++ {
		p := genPredProg(r)
		o.singleObjs = orderSensitive(p)
		d := genRootedDoc(r, o)
		c.diffEval(p, d, "rand")
	}
}
