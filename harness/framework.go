package main

// Shared machinery of all property checks: deterministic PRNG, case accounting,
// differential comparison against the Lean driver, reports and replay files.

import (
	"crypto/sha1"
	"encoding/hex"
	"encoding/json"
	"fmt"
	"math"
	"os"
	"path/filepath"
	"regexp"
	"sort"
	"strings"
	"time"
)

// ---- PRNG (splitmix64): every random choice derives from VERIF_SEED ---------

type rng struct{ s uint64 }

func newRng(seed int64) *rng { return &rng{s: uint64(seed)*0x9e3779b97f4a7c15 + 0x1234567} }

func (r *rng) next() uint64 {
	r.s += 0x9e3779b97f4a7c15
	z := r.s
	z = (z ^ (z >> 30)) * 0xbf58476d1ce4e5b9
	z = (z ^ (z >> 27)) * 0x94d049bb133111eb
	return z ^ (z >> 31)
}
func (r *rng) intn(n int) int {
	if n <= 0 {
		return 0
	}
	return int(r.next() % uint64(n))
}
func (r *rng) chance(num, den int) bool { return r.intn(den) < num }
func (r *rng) pick(xs []string) string  { return xs[r.intn(len(xs))] }
func (r *rng) fork() *rng               { return &rng{s: r.next()} }

// ---- report -----------------------------------------------------------------

type Disagreement struct {
	Kind    string      `json:"kind"`
	Prog    string      `json:"program,omitempty"`
	Input   interface{} `json:"input,omitempty"`
	InputS  string      `json:"input_sexp,omitempty"`
	History []string    `json:"history,omitempty"`
	Go      string      `json:"go_outcome"`
	Model   string      `json:"model_outcome"`
	Detail  string      `json:"detail,omitempty"`
	Known   string      `json:"known_finding,omitempty"`
	Replay  string      `json:"replay,omitempty"`
}

type Report struct {
	Property      string         `json:"property"`
	Tier          string         `json:"tier"`
	Seed          int64          `json:"seed"`
	Cases         int            `json:"cases"`
	Distinct      int            `json:"distinct_nontrivial"`
	Skipped       int            `json:"skipped_out_of_model"`
	SkipReasons   map[string]int `json:"skip_reasons"`
	Buckets       map[string]int `json:"buckets"`
	Outcomes      map[string]int `json:"outcome_classes"`
	Disagreements []Disagreement `json:"disagreements"`
	KnownHits     []Disagreement `json:"known_hits"`
	Samples       []interface{}  `json:"samples"`
	Rule          string         `json:"rule"`
	Exhaustive    []string       `json:"exhaustive_sets"`
	WallS         float64        `json:"wall_s"`
	Notes         []string       `json:"notes,omitempty"`
}

type ctx struct {
	prop string
	tier string
	seed int64
	// every nativeEvery-th agreeing case is re-evaluated on a Go-native form of its input (0 = off)
	nativeEvery int
	parsedOnce  map[string]bool
	nativeCount int
	// every renameEvery-th agreeing case is repeated with a member name spelled outside ASCII (0 = off)
	renameEvery int
	renameCount int
	// every respellEvery-th agreeing case is repeated in another spelling (0 = off)
	respellEvery int
	respellCount int
	inRename     bool
	rng          *rng
	drv          *driver
	rep          *Report
	seen         map[[20]byte]bool
	start        time.Time
	maxDis       int
	known        []knownFinding
	replayD      string
}

func newCtx(prop, tier string, seed int64) (*ctx, error) {
	d, err := startDriver()
	if err != nil {
		return nil, err
	}
	c := &ctx{prop: prop, tier: tier, seed: seed, nativeEvery: nativeEveryFor(prop), renameEvery: 6, respellEvery: 4, rng: newRng(seed), drv: d,
		seen: map[[20]byte]bool{}, start: time.Now(), maxDis: 25}
	c.rep = &Report{Property: prop, Tier: tier, Seed: seed, SkipReasons: map[string]int{},
		Buckets: map[string]int{}, Outcomes: map[string]int{}}
	c.known = loadKnown(prop)
	c.replayD = filepath.Join(verifRoot(), "evidence", "replay")
	return c, nil
}

func verifRoot() string {
	if p := os.Getenv("VERIF_ROOT"); p != "" {
		return p
	}
	return "/verif"
}

func (c *ctx) quick() bool { return c.tier != "thorough" }

// scale returns the number of generated cases for the tier.
func (c *ctx) scale(quick, thorough int) int {
	if c.quick() {
		return quick
	}
	return thorough
}

func outcomeClass(s string) string {
	switch {
	case strings.HasPrefix(s, "ok "):
		return "value"
	case s == "undef":
		return "undefined"
	case strings.HasPrefix(s, "err eval:"):
		return s[4:]
	case strings.HasPrefix(s, "err "):
		return strings.SplitN(s[4:], ":", 2)[0]
	case strings.HasPrefix(s, "panic"):
		return "panic"
	default:
		return s
	}
}

func (c *ctx) note(distinctKey string, bucket string, nontrivial bool) {
	c.rep.Cases++
	c.rep.Buckets[bucket]++
	if nontrivial {
		h := sha1.Sum([]byte(distinctKey))
		if !c.seen[h] {
			c.seen[h] = true
			c.rep.Distinct++
		}
	}
}

func (c *ctx) sample(v interface{}) {
	if len(c.rep.Samples) < 12 {
		c.rep.Samples = append(c.rep.Samples, v)
	}
}

func (c *ctx) tooMany() bool { return len(c.rep.Disagreements) >= c.maxDis }

// disagree records a disagreement (after the known-finding filter) and writes its replay.
func (c *ctx) disagree(d Disagreement) {
	for _, k := range c.known {
		if k.matches(d) {
			d.Known = k.ID
			if len(c.rep.KnownHits) < 50 {
				c.rep.KnownHits = append(c.rep.KnownHits, d)
			}
			return
		}
	}
	if c.tooMany() {
		return
	}
	d.Input = jsonSafe(d.Input)
	b, _ := json.Marshal(d)
	h := sha1.Sum(b)
	name := fmt.Sprintf("%s-%s.json", c.prop, hex.EncodeToString(h[:6]))
	os.MkdirAll(c.replayD, 0o755)
	path := filepath.Join(c.replayD, name)
	rb, _ := json.MarshalIndent(map[string]interface{}{
		"property": c.prop, "seed": c.seed, "tier": c.tier, "case": d,
		"how_to_replay": "cd /verif && ./check " + c.prop + " --replay " + "evidence/replay/" + name,
	}, "", " ")
	os.WriteFile(path, rb, 0o644)
	d.Replay = "evidence/replay/" + name
	c.rep.Disagreements = append(c.rep.Disagreements, d)
}

// diffEval is the basic correspondence step: evaluate prog on input with the
// implementation and with the model (on the implementation's own parse tree).
// It returns the implementation outcome, the model outcome and whether they agree.
func (c *ctx) diffEval(prog string, input interface{}, bucket string) (string, string, bool) {
	// The model evaluates the tree the implementation parsed (so that evaluation is compared on equal terms); a defect in
	// the parser's optimiser (node.go optimize: constant folding, path flattening, block handling) would therefore change
	// both sides alike.  Every distinct program text is therefore also parsed by the Lean parser and the two trees are compared.
	if c.parsedOnce == nil {
		c.parsedOnce = map[string]bool{}
	}
	if !c.parsedOnce[prog] && len(c.parsedOnce) < 200000 {
		c.parsedOnce[prog] = true
		c.parseCompare(prog, "parse-of-evaluated-programs")
	}
	g := goEval(prog, input)
	m, err := c.drv.modelEval(prog, input)
	if err != nil {
		// the implementation could not parse the program: not an evaluator case
		c.note(prog, bucket+"/unparsed", false)
		return g.outcome, "unparsed", true
	}
	m = normaliseModel(m)
	if strings.HasPrefix(m, "skip ") {
		c.rep.Skipped++
		c.rep.SkipReasons[m[5:]]++
		c.rep.Cases++
		return g.outcome, m, true
	}
	in := valueSexp(input)
	c.note(prog+"\x00"+in, bucket, true)
	c.rep.Outcomes[outcomeClass(g.outcome)]++
	if g.outcome != m {
		c.disagree(Disagreement{Kind: "eval", Prog: prog, Input: input, InputS: in, Go: g.outcome, Model: m})
		return g.outcome, m, false
	}
	c.sample(map[string]interface{}{"program": prog, "input": input, "outcome": decodeOutcome(g.outcome)})
	// metamorphic step: the same document handed over with Go-native types (ints, typed slices, named
	// strings, pointers) must give the same outcome as its encoding/json form
	if c.nativeEvery > 0 && input != nil {
		c.nativeCount++
		if c.nativeCount%c.nativeEvery == 0 && !nondeterministic(prog) {
			nat := goNative(c.rng, deepCopy(input))
			gn := goEval(prog, nat)
			a, b := g.outcome, gn.outcome
			if unorderedSensitive(prog) && strings.HasPrefix(a, "ok ") && strings.HasPrefix(b, "ok ") {
				a, b = canonUnordered(normJSON(g.value)), canonUnordered(normJSON(gn.value))
			}
			c.note("native\x00"+prog+"\x00"+in, bucket+"/go-native-input", true)
			if a != b && !(strings.HasPrefix(a, "err") && strings.HasPrefix(b, "err")) {
				c.disagree(Disagreement{Kind: "go-native-input", Prog: prog, Input: input, InputS: valueSexp(nat), Go: gn.outcome + "  (input as Go-native values: " + fmt.Sprintf("%#v", nat) + ")", Model: g.outcome + "  (the document as generated: " + fmt.Sprintf("%#v", input) + ")"})
			}
		}
	}
	// derived case: the same program and document with the member name `a` (or `b`) spelled in another script.  Names
	// are compared as texts, so the implementation and the model must still agree (both are run on the renamed pair;
	// nothing is assumed about the renamed program's meaning).  The code points are chosen so that their low byte is an
	// ASCII symbol, digit, quote or white space: a lexer table indexed by a truncated rune splits such names.
	// derived case: the same program in another spelling (respell.go)
	if c.respellEvery > 0 && !c.inRename {
		c.respellCount++
		if c.respellCount%c.respellEvery == 0 {
			if alt, rule := respell(c.rng, prog); alt != "" {
				c.inRename = true
				c.diffEval(alt, input, bucket+"/respelled:"+rule)
				c.inRename = false
			}
		}
	}
	if c.renameEvery > 0 && !c.inRename {
		c.renameCount++
		if c.renameCount%c.renameEvery == 0 {
			c.inRename = true
			from := []string{"a", "b"}[c.rng.intn(2)]
			to := exoticName(c.rng)
			c.diffEval(renameWord(prog, from, to), renameKeys(input, from, to), bucket+"/renamed-member")
			c.inRename = false
		}
	}
	return g.outcome, m, true
}

var reWordA = regexp.MustCompile(`\ba\b`)
var reWordB = regexp.MustCompile(`\bb\b`)

func renameWord(prog, from, to string) string {
	re := reWordA
	if from == "b" {
		re = reWordB
	}
	return re.ReplaceAllLiteralString(prog, to)
}

func renameKeys(v interface{}, from, to string) interface{} {
	switch x := v.(type) {
	case map[string]interface{}:
		out := make(map[string]interface{}, len(x))
		for k, e := range x {
			if k == from {
				k = to
			}
			out[k] = renameKeys(e, from, to)
		}
		return out
	case []interface{}:
		out := make([]interface{}, len(x))
		for i, e := range x {
			out[i] = renameKeys(e, from, to)
		}
		return out
	}
	return v
}

// exoticName: one or two code points outside ASCII (Latin Extended, Cyrillic, CJK, emoticons), optionally around an
// ASCII letter; every low byte 0..255 occurs.
func exoticName(r *rng) string {
	one := func() string {
		switch r.intn(4) {
		case 0:
			return string(rune(0x0100 + r.intn(0x80))) // Latin Extended-A
		case 1:
			return string(rune(0x0400 + r.intn(0x100))) // Cyrillic
		case 2:
			return string(rune(0x4E00 + r.intn(0x100) + 0x100*r.intn(0x40))) // CJK
		default:
			return string(rune(0x1F600 + r.intn(0x50))) // emoticons
		}
	}
	switch r.intn(4) {
	case 0:
		return one()
	case 1:
		return "x" + one()
	case 2:
		return one() + "x"
	default:
		return one() + one()
	}
}

func (c *ctx) finish() *Report {
	c.rep.WallS = time.Since(c.start).Seconds()
	c.drv.close()
	return c.rep
}

// ---- known findings -----------------------------------------------------------

type knownFinding struct {
	Kind     string `json:"kind"`
	Property string `json:"property"`
	ID       string `json:"id"`
	What     string `json:"what"`
	Match    struct {
		ProgramRegex string `json:"program_regex"`
		GoPrefix     string `json:"go_outcome_prefix"`
		DisKind      string `json:"disagreement_kind"`
	} `json:"match"`
}

func (k knownFinding) matches(d Disagreement) bool {
	if k.Kind != "known" {
		return false
	}
	if k.Match.DisKind != "" && k.Match.DisKind != d.Kind {
		return false
	}
	if k.Match.GoPrefix != "" && !strings.HasPrefix(d.Go, k.Match.GoPrefix) {
		return false
	}
	if k.Match.ProgramRegex != "" {
		ok, _ := regexpMatch(k.Match.ProgramRegex, d.Prog)
		if !ok {
			return false
		}
	}
	return k.Match.ProgramRegex != "" || k.Match.GoPrefix != ""
}

func loadKnown(prop string) []knownFinding {
	b, err := os.ReadFile(filepath.Join(verifRoot(), "known_findings.json"))
	if err != nil {
		return nil
	}
	var all struct {
		Findings []knownFinding `json:"findings"`
	}
	if json.Unmarshal(b, &all) != nil {
		return nil
	}
	var out []knownFinding
	for _, k := range all.Findings {
		if k.Property == prop {
			out = append(out, k)
		}
	}
	return out
}

// ---- helpers ----------------------------------------------------------------

func sortedKeys(m map[string]int) []string {
	ks := make([]string, 0, len(m))
	for k := range m {
		ks = append(ks, k)
	}
	sort.Strings(ks)
	return ks
}

// decodeOutcome renders an outcome readable for evidence samples.
func decodeOutcome(o string) string {
	if len(o) > 300 {
		return o[:300] + "…"
	}
	return o
}

// jsonSafe makes a value marshalable: non-finite numbers, functions and other non-JSON values
// (which a broken implementation can return) are replaced by descriptive strings.
func jsonSafe(v interface{}) interface{} { n := 200000; return jsonSafeAt(v, 0, &n) }

// jsonSafeAt bounds the depth: a broken implementation can hand back (or turn its input into) a
// value that contains itself, and the report must still be written.
func jsonSafeAt(v interface{}, depth int, budget *int) interface{} {
	*budget--
	if depth > 400 || *budget < 0 {
		return "value nested deeper than 400 levels or larger than 200000 nodes (cyclic?)"
	}
	switch x := v.(type) {
	case nil, string, bool:
		return x
	case float64:
		if math.IsInf(x, 0) || math.IsNaN(x) {
			return fmt.Sprint("non-finite:", x)
		}
		return x
	case []interface{}:
		out := make([]interface{}, len(x))
		for i, e := range x {
			out[i] = jsonSafeAt(e, depth+1, budget)
		}
		return out
	case map[string]interface{}:
		out := make(map[string]interface{}, len(x))
		for k, e := range x {
			out[k] = jsonSafeAt(e, depth+1, budget)
		}
		return out
	default:
		if _, err := json.Marshal(x); err != nil {
			return fmt.Sprintf("unmarshalable %T: %s", x, valueSexp(x))
		}
		return x
	}
}

// nativeEveryFor: how often an agreeing case is re-evaluated on a Go-native form of its input.
// Off for C03: the comparison operators compare Go values, so 1 (int) = 1 (float64) and
// [1] = []float64{1} are false on the unchanged tree — the property quantifies over JSON values.
func nativeEveryFor(prop string) int {
	switch prop {
	case "C03":
		return 0
	case "C17", "C18", "C19":
		// strings handed over as *string are accepted by these functions on the unchanged tree
		if !strings.Contains(nativeClasses, "p") {
			nativeClasses += "p"
		}
	}
	return 7
}
