package main

// C05 — evaluation is repeatable and leaves the compiled expression unchanged.
// C07 — input documents are never modified; transform returns a modified copy.
// C09 — Eval is total.
// C10 — results are JSON-representable; ErrUndefined iff no value; EvalBytes agrees.

import (
	"bytes"
	"encoding/json"
	"fmt"
	"strconv"
	"strings"

	jsonata "github.com/blues/jsonata-go"
)

// sameOutcome: outcomes of one (expression, input) pair must be equal.
func compileOrNil(prog string) *jsonata.Expr {
	e, err := jsonata.Compile(prog)
	if err != nil {
		return nil
	}
	return e
}

func evalOn(e *jsonata.Expr, input interface{}) goResult {
	return safely(evalLimit, func() (interface{}, error) { return e.Eval(input) })
}

// ---- C05 ------------------------------------------------------------------------

func runC05(c *ctx) {
	stmtC05(c)
	c.rep.Rule = "generated programs over every node type and built-in (chain / partial / context-defaulting shapes over-weighted), " +
		"histories of 2..5 Eval calls on one Expr with equal and different inputs and with other expressions (other calls of the same " +
		"built-ins under other contexts) evaluated in between; after every call: outcome vs the outcome of a freshly compiled Expr on the " +
		"same input, Expr.String() vs before, and the parsed tree (verif accessor) vs before; $random/$shuffle/$now/$millis excluded (sanctioned variation)"
	r := c.rng.fork()
	special := []string{
		"4 ~> $power(2)", "a ~> $substringBefore(\"y\")", "$pad(?, \"2\")(1)", "$pad(?, 3)(\"a\")", "a.$substringBefore(\"y\")",
		"a.$substringBefore($$.b.c.$substringBefore(\"z\"))", "items ~> $map(function($v){$v.id}) ~> $sum()", "items.id ~> $sum() ~> $string()",
		"[1,2,3] ~> $append(4) ~> $count()", "(items ~> |$|{\"z\": 1}|).z", "$ ~> |items|{\"k\": k + 1}|", "items^(k).id", "items{s: $count($)}",
		"($f := function($x){$x + 1}; 3 ~> $f() ~> $f())", "$string(n) ~> $length()", "b.c ~> $uppercase() ~> $substring(1, 2)", "s.$split(\",\")",
		// chains into calls with 0..8 explicit arguments (the parsed argument slice has spare capacity for some lengths)
		"a ~> $replace(\"a\", \"o\", 2)", "[1] ~> $zip([2], [3], [4])", "1 ~> function($a,$b,$c,$d){[$a,$b,$c,$d]}(2, 3, 4)", "1 ~> function($a,$b,$c,$d,$e,$f){[$a,$f]}(2, 3, 4, 5, 6)",
		"1 ~> function($a,$b,$c,$d,$e,$f,$g){$g}(2, 3, 4, 5, 6, 7)", "1 ~> function($a,$b,$c,$d,$e,$f,$g,$h){[$a,$h]}(2, 3, 4, 5, 6, 7, 8)", "n ~> $formatNumber(\"#0.0\", {})",
		"[1] ~> $zip([2], [3], [4], [5], [6])", "1 ~> function($a,$b,$c,$d,$e,$f,$g,$h,$i){$i}(2, 3, 4, 5, 6, 7, 8, 9)", "a ~> $substring(1, 2)", "a ~> $pad(9, \"-\")",
		// bindings made outside any block live in the environment of one evaluation only
		"[$prev, $prev := n]", "[$p1, $p1 := a, $p1]", "$top := n", "$exists($e1) ? \"leaked\" : ($e1 := 1)",
		"[$count($acc), $acc := $append($acc, n)]", "$string($s1) & ($s1 := a)", "[$f1 ? $f1() : 0, $f1 := function(){n}]",
		// a member of an object constructor binds a variable that the members after it read: the members are evaluated in
		// the order of their keys' first appearance, every time (F35: they used to be evaluated in map order)
		"{\"a\": $x := 1, \"b\": $x, \"c\": $x, \"d\": $x}", "[{\"a\": $y := n, \"b\": $y, \"c\": $exists($y)}, $y]",
		"items{\"one\": $k1 := 1, \"two\": $k1, \"three\": $exists($k1), \"four\": $k1}", "{\"p\": $q1, \"q\": $q1 := a, \"r\": $q1}",
		"a.$length()", "b.c.$pad(8, \"-\")", "n.$string()", "n.$round()", "a.$contains(\"y\")", "items.s.$uppercase()", "items.($string(id) & s)",
	}
	others := []string{"b.c.$substringBefore(\"q\")", "$pad(\"zz\", 5)", "\"other\".$substringAfter(\"t\")", "items.s.$length()", "$string(items[0])", "n.$power(2)", "\"k\" ~> $uppercase()"}
	var otherExprs []*jsonata.Expr
	for _, o := range others {
		otherExprs = append(otherExprs, compileOrNil(o))
	}
	g := &pgen{r: r, noRand: true}
	n := c.scale(2500, 40000)
	for i := 0; i < n && !c.tooMany(); i++ {
		var prog string
		if i < len(special)*3 {
			prog = special[i%len(special)]
		} else {
			g.chaotic = r.chance(1, 3)
			g.vars = nil
			prog = g.expr(2 + r.intn(2))
		}
		e := compileOrNil(prog)
		if e == nil {
			c.note(prog, "unparsed", false)
			continue
		}
		docs := []interface{}{fullDoc(r, false), fullDoc(r, false)}
		str0 := e.String()
		ast0 := nodeSexp(e.VerifNode())
		hlen := 2 + r.intn(4)
		var history []string
		for h := 0; h < hlen; h++ {
			di := r.intn(2)
			if h == hlen-1 {
				di = 0
			}
			d := docs[di]
			if r.chance(1, 2) {
				// something else happens in the process in between
				if oe := otherExprs[r.intn(len(otherExprs))]; oe != nil {
					evalOn(oe, docs[1-di])
				}
			}
			got := evalOn(e, d)
			history = append(history, fmt.Sprintf("Eval(doc%d) -> %s", di, trunc(got.outcome, 80)))
			fresh := goEval(prog, d)
			c.note(prog+"\x00"+valueSexp(d)+fmt.Sprint(h), "history", true)
			c.rep.Outcomes[outcomeClass(got.outcome)]++
			same := sameOutcomeClass(got.outcome, fresh.outcome)
			if !same && got.err == nil && fresh.err == nil && got.panicV == nil && fresh.panicV == nil && unorderedSensitive(prog) {
				// member order of objects is unspecified: compare as nested multisets
				same = canonUnordered(normJSON(got.value)) == canonUnordered(normJSON(fresh.value))
			}
			if !same && inherentlyVaries(prog, d) {
				c.rep.Skipped++
				c.rep.SkipReasons["outcome depends on map iteration order (fresh evaluations differ among themselves)"]++
				break
			}
			if !same {
				c.disagree(Disagreement{Kind: "history-dependent-outcome", Prog: prog, Input: d, InputS: valueSexp(d), History: history,
					Go: got.outcome, Model: "outcome of a fresh Expr on the same input: " + fresh.outcome})
				break
			}
			if s := e.String(); s != str0 {
				c.disagree(Disagreement{Kind: "printed-form-changed", Prog: prog, Input: d, History: history, Go: s, Model: str0})
				break
			}
			if a := nodeSexp(e.VerifNode()); a != ast0 {
				c.disagree(Disagreement{Kind: "ast-changed", Prog: prog, Input: d, History: history, Go: trunc(a, 400), Model: trunc(ast0, 400)})
				break
			}
			if h%2 == 1 && !strings.Contains(prog, "|") {
				// the caller owns what Eval returned: writing into results must not reach later evaluations
				// (a result may share structure with the input, so the input is restored from a copy)
				keep := deepCopy(d)
				scribble(got.value)
				scribble(fresh.value)
				restoreInto(d, keep)
				history = append(history, "caller writes into the returned value")
			}
		}
		if i%50 == 0 {
			c.sample(map[string]interface{}{"program": prog, "history": history})
		}
	}
	// process-wide function objects: a built-in that takes its first argument from the context is one object shared by all
	// evaluations.  A call written in an unusual form (parenthesised or conditional callee, callee picked from an array,
	// through a variable) must not leave its context behind for a later use of the same built-in that reaches it without a
	// direct call (chain onto the bare function, partial application, the function passed as a value).
	{
		type cf struct{ fn, extra string }
		fns := []cf{{"$substringBefore", "\"-\""}, {"$substringAfter", "\"-\""}, {"$contains", "\"-\""}, {"$split", "\"-\""}, {"$pad", "9"}, {"$substring", "1"}, {"$join", "\"-\""}, {"$round", "1"}, {"$formatBase", "2"}, {"$lookup", "\"s\""}}
		for rep := 0; rep < c.scale(3, 20); rep++ {
			for _, f := range fns {
				readers := []string{f.extra + " ~> " + f.fn, f.fn + "(?)(" + f.extra + ")", "$map([" + f.extra + "], " + f.fn + ")", "[" + f.extra + "] ~> $map(" + f.fn + ")", "(" + f.extra + " ~> " + f.fn + ")", "s.(" + f.extra + " ~> " + f.fn + ")"}
				writers := []string{"s.((" + f.fn + ")(" + f.extra + "))", "s.((true ? " + f.fn + " : $nope)(" + f.extra + "))", "s.([" + f.fn + "][0](" + f.extra + "))", "s.($g := " + f.fn + "; $g(" + f.extra + "))", "s." + f.fn + "(" + f.extra + ")", "s.(" + f.fn + "(" + f.extra + "))",
					"s.(" + f.fn + " ~> $string)(" + f.extra + ")", "s.(function(){" + f.fn + "})()(" + f.extra + ")", "s.$map([1], function($i){(" + f.fn + ")(" + f.extra + ")})"}
				for _, rd := range readers {
					for _, wr := range writers {
						docR := map[string]interface{}{"s": fmt.Sprintf("r%d-x%d", rep, r.intn(1000))}
						docW := map[string]interface{}{"s": fmt.Sprintf("w%d-y%d", rep, r.intn(1000))}
						before := goEval(rd, docR)
						goEval(wr, docW)
						after := goEval(rd, docR)
						c.note("shared-fn\x00"+rd+"\x00"+wr, "shared-function-object", true)
						if before.outcome != after.outcome {
							c.disagree(Disagreement{Kind: "history-dependent-outcome", Prog: rd, Input: docR, InputS: valueSexp(docR), History: []string{"Eval -> " + trunc(before.outcome, 80), "another Expr: " + wr + " on " + fmt.Sprint(docW), "Eval -> " + trunc(after.outcome, 80)},
								Go: after.outcome, Model: "the outcome before the other evaluation: " + before.outcome})
						}
					}
				}
			}
		}
	}
	// process-wide state keyed by an argument (a cache of parsed pictures, patterns, formats ...): the same call with other
	// values in between.  A freshly compiled Expr would share such state, so the reference here is the first outcome seen
	// for the same (program, input) and the Lean model (which has no state at all).
	type argHist struct {
		prog string
		pics []string
		vals []map[string]interface{}
	}
	tzs := []string{"+0100", "+0530", "-0200", "+1300", "+0000", "-0945", "-1200", "+1200", "+0030"}
	var tzVals, numVals, strVals []map[string]interface{}
	for i, tz := range tzs {
		tzVals = append(tzVals, map[string]interface{}{"v": 1.5e12 + float64(i)*3.6e6, "tz": tz})
	}
	for _, x := range []float64{0, 1, -1, 1234.5, -1234.5, 0.5, 1e6, -0.004, 12, 1e-7, 99.995} {
		numVals = append(numVals, map[string]interface{}{"v": x})
	}
	for _, x := range []string{"2018-03-23T16:03:36.617+05:30", "2018-03-23T16:03:36Z", "2018-03-23", "2018", "23/03/2018", "x", "12:30 pm", "1970-01-01T00:00:00.000Z"} {
		strVals = append(strVals, map[string]interface{}{"v": x})
	}
	hists := []argHist{
		{"$fromMillis(v, p, tz)", []string{"[ZZ]", "[zZ]", "[ZN]", "[H01]:[m01] [ZZ]", "[Y]-[M01]-[D01] [ZZ]|[Z]", "[Z0]", "[z]", "[D1o] [MNn] [ZZ,4]", "[h]#[P] [Z01:01t]", "[Y,2] [ZN,3]", "[F] [W] [ZZ]"}, tzVals},
		{"$formatNumber(v, p)", []string{"#,##0.00", "0.0e0", "#0.###;(#0.###)", "00%", "#,###", "0.00;-0.00", "##0.0##e0", "#‰"}, numVals},
		{"$toMillis(v, p)", []string{"[Y]-[M01]-[D01]T[H01]:[m]:[s].[f001][Z01:01t]", "[Y]-[M01]-[D01]", "[D01]/[M01]/[Y]", "[Y]", "[h]:[m01] [P]"}, strVals},
		{"$formatBase(v, p)", []string{"2", "16", "36", "10"}, numVals},
		{"$pad($string(v), p, \"*\")", []string{"8", "-8", "3"}, numVals},
	}
	// the same picture under different decimal-format options (a cache keyed by the picture alone would mix them up)
	var optVals []map[string]interface{}
	for _, x := range []float64{-1234.5, 0.25, 1234.5, -0.5} {
		for _, o := range []map[string]interface{}{{}, {"minus-sign": "~"}, {"percent": "pc"}, {"per-mille": "pm"}, {"minus-sign": "m", "percent": "pc"}, {"zero-digit": "0"}} {
			optVals = append(optVals, map[string]interface{}{"v": x, "o": o})
		}
	}
	hists = append(hists, argHist{"$formatNumber(v, p, o)", []string{"#,##0.00", "0%", "0pc", "#0.0‰", "0.0pm", "#0.###;(#0.###)"}, optVals})
	// member evaluation order of object constructors (F35): repeated evaluation gives one outcome, and it is the model's
	for _, prog := range []string{"{\"a\": $x := 1, \"b\": $x, \"c\": $x, \"d\": $x}", "{\"p\": $q1, \"q\": $q1 := a, \"r\": $q1, \"s\": $q1}",
		"items{g: $seen, s: $seen := 1}", "items{\"one\": $k1 := 1, \"two\": $k1, \"three\": $exists($k1), \"four\": $k1, \"five\": $k1}",
		"[{\"a\": $y := n, \"b\": $y, \"c\": $exists($y)}, $y]", "items{s: $exists($m1) ? \"later\" : ($m1 := \"first\")}",
		// F38: the snapshots a transform inserts show the object as it was before the update, whatever the order of the members
		"b ~> |$|{\"a1\": 1, \"b1\": $}|", "$ ~> |b|{\"a1\": 1, \"b1\": 2, \"c1\": $}|", "(b ~> |$|{\"a1\": 1, \"b1\": $}|).b1.a1", "$count($keys((b ~> |$|{\"a1\": 1, \"b1\": 2, \"c1\": $}|).c1))",
		"$exists((b ~> |$|{\"a1\": 1, \"b1\": $}|).b1.a1)"} {
		d := fullDoc(r, false)
		first := ""
		for rep := 0; rep < 24; rep++ {
			got := goEval(prog, d)
			if rep == 0 {
				first = got.outcome
			} else if got.outcome != first {
				c.disagree(Disagreement{Kind: "history-dependent-outcome", Prog: prog, Input: d, InputS: valueSexp(d),
					History: []string{fmt.Sprintf("evaluation %d of the same program on the same input", rep+1)},
					Go:      got.outcome, Model: "the first outcome of the same evaluation in this process: " + first})
				break
			}
		}
		c.diffEval(prog, d, "member-order")
	}
	for _, h := range hists {
		for _, pic := range h.pics {
			var picv interface{} = pic
			if h.prog[1] == 'f' && h.prog[2] == 'o' && len(pic) <= 2 && pic[0] >= '0' && pic[0] <= '9' || h.prog[1] == 'p' {
				f, _ := strconv.ParseFloat(pic, 64)
				picv = f
			}
			first := map[string]string{}
			var history []string
			for step := 0; step < c.scale(14, 40); step++ {
				base := h.vals[r.intn(len(h.vals))]
				in := map[string]interface{}{"p": picv}
				for k, v := range base {
					in[k] = v
				}
				key := valueSexp(in)
				got := goEval(h.prog, in)
				history = append(history, fmt.Sprintf("%s on %s -> %s", h.prog, trunc(key, 60), trunc(got.outcome, 60)))
				if len(history) > 8 {
					history = history[1:]
				}
				if f, seen := first[key]; seen && f != got.outcome {
					c.disagree(Disagreement{Kind: "history-dependent-outcome", Prog: h.prog, Input: in, InputS: key, History: append([]string{}, history...),
						Go: got.outcome, Model: "the first outcome of the same call in this process: " + f})
					break
				}
				first[key] = got.outcome
				c.diffEval(h.prog, in, "argument-keyed-state")
			}
		}
	}
}

// unorderedSensitive: the program's result depends on Go's unspecified map iteration order
// (or on sanctioned nondeterminism); such results are compared as nested multisets.
func unorderedSensitive(prog string) bool {
	for _, m := range []string{"*", "$keys", "$each", "$spread", "$sift", "$merge", "$shuffle", "$random", "$now", "$millis", "$string", "&", "$formatNumber", "$lookup", "{"} {
		if strings.Contains(prog, m) {
			return true
		}
	}
	return false
}

func nondeterministic(prog string) bool {
	for _, m := range []string{"$shuffle", "$random", "$now", "$millis"} {
		if strings.Contains(prog, m) {
			return true
		}
	}
	return false
}

// canonUnordered renders a value with every array sorted (multiset comparison).
func canonUnordered(v interface{}) string {
	switch v := v.(type) {
	case []interface{}:
		parts := make([]string, len(v))
		for i, x := range v {
			parts[i] = canonUnordered(x)
		}
		sortStrings(parts)
		return "[" + strings.Join(parts, ",") + "]"
	case map[string]interface{}:
		keys := make([]string, 0, len(v))
		for k := range v {
			keys = append(keys, k)
		}
		sortStrings(keys)
		parts := make([]string, len(keys))
		for i, k := range keys {
			parts[i] = k + ":" + canonUnordered(v[k])
		}
		return "{" + strings.Join(parts, ",") + "}"
	case string:
		// string forms of order-dependent values: compare as multisets of characters
		rs := strings.Split(v, "")
		sortStrings(rs)
		return "s:" + strings.Join(rs, "")
	default:
		return valueSexp(v)
	}
}

func normJSON(v interface{}) interface{} {
	b, err := json.Marshal(v)
	if err != nil {
		return v
	}
	var out interface{}
	if json.Unmarshal(b, &out) != nil {
		return v
	}
	return out
}

// sameOutcomeClass compares two outcomes of the same (expression, input): values must be
// equal (objects are canonical), errors must be of the same kind.
func sameOutcomeClass(a, b string) bool {
	if a == b {
		return true
	}
	// object-constructor member errors: which member's error is reported is unspecified
	if strings.HasPrefix(a, "err ") && strings.HasPrefix(b, "err ") {
		return true
	}
	return false
}

// ---- C07 ------------------------------------------------------------------------

var c07Patterns = []string{"e", "items.m", "items.m", "$", "items", "items[id > 0]", "items[0]", "b", "**", "*", "items.a", "nothing", "items[k = 1]", "$.items", "b.c", "items[-1]", "**[id = 1]"}
var c07Updates = []string{`{"a1": 1, "b1": $}`, `{"a1": 1, "b1": 2, "c1": $[0]}`, `{"n1": 1, "self": [$, k]}`, `{"z": 1}`, `{"k": k + 10}`, `{"s": "new", "t": id}`, `{}`, `{"k": "str"}`, `{"n": $count($keys($))}`, `"bad"`, `[1]`, `nothing`, `{"id": id * 2, "k": k}`}
var c07Deletes = []string{"", `"k"`, `["k", "s"]`, `"nope"`, `[]`, `1`, `["k", 1]`, `nothing`, `"id"`}
var c07Foreign = []string{"$$", "$$.items", "$v", "$$.b", "$v.items[0]"}

func runC07(c *ctx) {
	stmtC05(c)
	c.rep.Rule = "full generator (every operator and built-in, $sort/$reverse/$append/$shuffle/$zip/$merge/$distinct/order-by/grouping over-weighted) " +
		"plus transforms with context-relative, root-anchored and variable-anchored patterns, nested, through ~> and $map; inputs with nulls, " +
		"shared sub-structures and empty containers; after every Eval (successful or failing) the input and a registered variable are compared " +
		"with their state before; transform results are compared with the model (copy with exactly the selected objects updated)"
	r := c.rng.fork()
	g := &pgen{r: r}
	checkUnchanged := func(prog string, e *jsonata.Expr, d interface{}, bucket string) {
		before := valueSexp(d)
		shared := map[string]interface{}{"doc": d}
		e.RegisterVars(shared)
		got := evalOn(e, d)
		after := valueSexp(d)
		c.note(prog+"\x00"+before, bucket, true)
		c.rep.Outcomes[outcomeClass(got.outcome)]++
		if before != after {
			c.disagree(Disagreement{Kind: "input-modified", Prog: prog, Input: json.RawMessage(sexpToJSONish(before)), InputS: before, Go: "input after Eval: " + trunc(after, 300), Model: "input unchanged"})
		}
	}
	// 1. transforms: model comparison + frame condition
	n := c.scale(4000, 80000)
	for i := 0; i < n && !c.tooMany(); i++ {
		pat := c07Patterns[r.intn(len(c07Patterns))]
		upd := c07Updates[r.intn(len(c07Updates))]
		del := c07Deletes[r.intn(len(c07Deletes))]
		tr := "|" + pat + "|" + upd
		if del != "" {
			tr += ", " + del
		}
		tr += "|"
		// the argument itself may be an empty object or an empty array of the caller's document (a copy has to be made of
		// those too: "nothing to copy" is not "nothing to protect")
		arg := []string{"$", "items", "b", "items[0]", "[items[0], b]", "nothing", "1", "\"s\"", "e", "items[0].m", "[e, b]", "items.m", "c[1]"}[r.intn(13)]
		var prog string
		switch r.intn(6) {
		case 0, 1, 2:
			prog = arg + " ~> " + tr
		case 3:
			prog = "$map(items, " + tr + ")"
		case 4:
			prog = arg + " ~> " + tr + " ~> " + "|" + c07Patterns[r.intn(len(c07Patterns))] + "|" + c07Updates[r.intn(4)] + "|"
		case 5:
			prog = "(" + arg + " ~> " + tr + ")." + []string{"items.k", "z", "items", "k", "b"}[r.intn(5)]
		}
		d := fullDoc(r, false)
		if r.chance(1, 4) {
			d = typedVariant(d)
		}
		if i%40 == 7 {
			// the whole document is an empty object / a list with an empty object in it
			d = []interface{}{map[string]interface{}{}, map[string]interface{}{"items": []interface{}{map[string]interface{}{}, map[string]interface{}{"id": 1.0}}, "e": map[string]interface{}{}}}[r.intn(2)]
		}
		before := valueSexp(d)
		c.diffEval(prog, d, "transform")
		if after := valueSexp(d); after != before {
			c.disagree(Disagreement{Kind: "input-modified", Prog: prog, InputS: before, Go: "input after Eval: " + trunc(after, 300), Model: "input unchanged"})
		}
	}
	// 2. patterns anchored outside the copy
	for i := 0; i < c.scale(600, 8000) && !c.tooMany(); i++ {
		pat := c07Foreign[r.intn(len(c07Foreign))]
		upd := c07Updates[r.intn(4)]
		prog := "($v := $; " + []string{"$", "items", "b"}[r.intn(3)] + " ~> |" + pat + "|" + upd + "|)"
		if e := compileOrNil(prog); e != nil {
			checkUnchanged(prog, e, fullDoc(r, r.chance(1, 3)), "foreign-pattern")
		}
	}
	// 2b. one transform, several pattern items: items of the copy next to objects of the caller's document (reached through $$ or a
	// variable), with update values that are themselves objects of the caller's document. What an update inserts by reference is
	// still the caller's: a later item of the same transform that IS such an object must not be written to (seed C07-12).
	{
		local := []string{"$.b", "b", "items[0]", "$", "items", "e", "$.a", "a", "items[-1]", "*"}
		foreign := []string{"$$.b", "$v.b", "$$.items[0]", "$v.items", "$$", "$$.e", "$v.items[-1]", "$$.a", "$v"}
		for i := 0; i < c.scale(1500, 20000) && !c.tooMany(); i++ {
			f := foreign[r.intn(len(foreign))]
			alias := f
			if r.chance(1, 3) {
				alias = foreign[r.intn(len(foreign))]
			}
			l := local[r.intn(len(local))]
			items := []string{l, f}
			switch r.intn(4) {
			case 0:
				items = []string{f, l}
			case 1:
				items = []string{l, foreign[r.intn(len(foreign))], f}
			}
			upd := []string{`{"ref": ` + alias + `}`, `{"ref": ` + alias + `, "n1": 1}`, `{"ref": [` + alias + `]}`, `{"ref": {"in": ` + alias + `}}`}[r.intn(4)]
			del := []string{"", "", `, "k"`, `, "ref"`}[r.intn(4)]
			prog := "($v := $; " + []string{"$", "$", "$", "items", "b"}[r.intn(5)] + " ~> |[" + strings.Join(items, ", ") + "]|" + upd + del + "|)"
			if r.chance(1, 5) {
				prog = "($v := $; $ ~> |[" + strings.Join(items, ", ") + "]|" + upd + "| ~> |[" + l + ", " + f + "]|{\"z\": 1}|)"
			}
			if e := compileOrNil(prog); e != nil {
				d := fullDoc(r, r.chance(1, 3))
				if r.chance(1, 3) {
					d = map[string]interface{}{"a": map[string]interface{}{"n": 1.0}, "b": map[string]interface{}{"k": 1.0}, "items": []interface{}{map[string]interface{}{"id": 1.0, "k": 2.0}, map[string]interface{}{"id": 2.0}}, "e": map[string]interface{}{}}
				}
				checkUnchanged(prog, e, d, "mixed-pattern-aliasing-update")
			}
		}
	}
	// 3. frame condition for the full generator
	for i := 0; i < c.scale(5000, 100000) && !c.tooMany(); i++ {
		g.chaotic = r.chance(1, 3)
		g.vars = nil
		var prog string
		if r.chance(1, 3) {
			prog = "$" + []string{"sort", "reverse", "shuffle", "distinct", "merge", "spread", "keys", "sort", "max", "sum"}[r.intn(10)] + "(" + []string{"items", "items.k", "items.s", "$", "[items, items]", "b", "nums", "strs", "nums", "strs"}[r.intn(10)] + ")"
			if r.chance(1, 2) {
				prog = []string{"$append(items, items)", "$zip(items, items.k)", "items^(>k, s)", "items^(id){s: $}", "items{$string(k): $}", "$sort(items, function($x, $y){$x.k > $y.k})", "$map(items, function($v){$v ~> |$|{\"q\": 1}|})",
					"nums^($)", "nums^(>$)", "strs^($)", "$append(nums, 1)", "$zip(nums, strs)", "$sort(nums, function($x, $y){$x > $y})", "$reverse($sort(nums))", "$distinct($append(nums, nums))",
					// two and three predicates on one step over an array of the document (first keeps all or a prefix, a later one drops from the middle)
					"nums[$ < 9][$ > -1]", "nums[$ < 4][$ > 0]", "nums[$ != 99][$ > 1][$ < 5]", "items[id < 3][k > 0]", "items[id >= 0][k = 1].id", "strs[$ != \"zz\"][$ > \"c\"]", "$.nums[$ < 6][$ > 2]", "$$.items[id < 2][id > 0]",
					"items[id < 3][k > 0][0]", "nums[$ < 9][[0, 2]]", "items[true][k > 0]", "dup[id < 3][k > 0]", "$ ~> |$|{\"z\": nums[$ < 4][$ > 0]}|", "$map(nums, function($v){nums[$ <= $v][$ > 0]})"}[r.intn(29)]
			}
		} else {
			prog = g.expr(2 + r.intn(2))
		}
		e := compileOrNil(prog)
		if e == nil {
			continue
		}
		d := fullDoc(r, r.chance(1, 3))
		if m, ok := d.(map[string]interface{}); ok {
			// unsorted number and string arrays (in-place sorting or reversing would show)
			nn := 2 + r.intn(5)
			nums := make([]interface{}, nn)
			strs := make([]interface{}, nn)
			for j := range nums {
				nums[j] = float64((j*7+3+r.intn(3))%11) - 3
				strs[j] = string(rune('a' + (j*5+2+r.intn(2))%9))
			}
			m["nums"], m["strs"] = nums, strs
		}
		if r.chance(1, 4) {
			d = typedVariant(d)
		}
		if r.chance(1, 4) {
			// shared sub-structure: the same Go map reachable twice
			if m, ok := d.(map[string]interface{}); ok {
				m["dup"] = m["items"]
			}
		}
		checkUnchanged(prog, e, d, "frame")
	}
}

// sexpToJSONish keeps replay files readable without decoding the protocol form.
func sexpToJSONish(s string) []byte {
	b, _ := json.Marshal(s)
	return b
}

// ---- C09 / C10 --------------------------------------------------------------------

func runC09(c *ctx) { runTotality(c, "C09") }
func runC10(c *ctx) { runTotality(c, "C10") }

var c09Seeds = []string{
	"$distinct([[1],[1]])", "$distinct([$sum,$sum])", "$distinct([{\"a\":1},{\"a\":\"1\"}])", "$sum.*", "$sum.**", "$sum.a", "$type($lookup({}, \"a\"))",
	"function($x)<n+>{$x}(nothing)", "x[$$.idx]", "arr[o]", "$ ~> |$|$^(a)[0]|", "$formatNumber(0, \"0.0e0\")", "$formatNumber(-1, \"0.0e0\")",
	"$formatNumber(1234.5, \"#,##0.00\")", "$formatNumber(0.5, \"0%\")", "$formatNumber(12, \"\")", "$formatNumber(12, \"0;0;0\")", "$formatBase(1e300, 2)",
	"$formatBase(10, 1)", "$formatBase(10, 37)", "$fromMillis(1e18)", "$fromMillis(0, \"[X]\")", "$fromMillis(0, \"[Y\")", "$fromMillis(0, \"[h] [P]\")",
	"$toMillis(\"x\")", "$toMillis(\"2018\", \"[Y]\")", "$fromMillis(0, (), \"+25:00\")", "$fromMillis(0, (), \"0100\")", "$substring(\"abc\", 1e300)", "$pad(\"a\", 10000)",
	"$pad(\"a\", -10000)", "[1..1e8]", "$split(\"abc\", \"\", 1e300)", "$replace(\"abc\", /b/, \"$1$2$99\")", "$replace(\"abc\", /(b)/, \"$\")", "$match(\"abc\", /(?:)/)",
	"$match(\"abc\", /b/, -1)", "$sum([1e308,1e308])", "$average([1e308, 1e308])", "$power(10, 1000)", "$sqrt(-1)", "$number(\"1e999\")", "$number(\"0x10\")",
	"$round(1e308, 400)", "$round(1.5, -400)", "$round(5e-324, 330)", "$string(1e308 * 10)", "$join([1])", "$zip()", "$keys($sum)", "$each($sum, $string)",
	"$merge([$sum])", "$spread($sum)", "$sort([$sum, $string])", "$sort([1,2], $sum)", "$reduce([1,2], $sum)", "$map(1)", "$map([1], 1)", "$filter($sum, $sum)",
	"$single([1,2], function($v){true})", "$lookup($sum, \"a\")", "$base64decode(\"***\")", "$decodeUrl(\"%zz\")", "$encodeUrl(\"�\")", "$encodeUrlComponent(\"�\")",
	"$error(\"boom\")", "$error()", "$error(1)", "$exists()", "$count()", "$not()", "$boolean()", "$string()", "$append()", "$append(1)", "$now(1)", "$millis(1)",
	"$now(\"[Y]\", \"+0100\")", "/a/(\"xay\").next().next()", "/a/(1)", "/a/()", "$match(\"aaa\", /a/).match", "$contains(\"a\", /(/)", "(/a/).*", "(/a/).next",
	"$$ ~> |**|{\"a\": $$}|", "items ~> |$|{\"self\": $}|", "$string(items ~> |$|{\"self\": $}|)", "($x := $ ~> |$|{\"self\": $}|; $count($x.**))", "$ ~> |$|{\"p\": a[10], \"q\": $^(k)}, \"k\"|",
	"$ ~> |items|{\"sib\": $$.items}|", "($c := $ ~> |items[0]|{\"o\": $$.items[1]}|; $c ~> |items[1]|{\"o\": $$.items[0]}|) ~> $string()", "$ ~> |**|{\"up\": $$}| ~> $string() ~> $length()", "(items ~> |$|{\"self\": [$, [$]]}|).self", "$ ~> |items|{\"items\": 1}|", "$ ~> |items|{}, \"id\"|.items.id", "{\"a\": 1, \"a\": 2}", "{1: 2}", "{nothing: 2}",
	"items{k: s}", "items{nothing: s}", "items{\"x\": s}{\"y\": 1}", "a[b][c][d]", "a.b.c[0][1][2]", "**.**.**", "*.*.*", "$$.$$.$$", "[[[[[[1]]]]]]", "[1..3][[1..2]]", "[1,2,3][[0,\"a\"]]",
	"a ~> $substring(?, ?)", "$ ~> $pad(?, ?)", "n ~> function($a,$b,$c){[$a,$b,$c]}(?, 1, ?)", "a ~> $substring(?, 1, ?)", "(a ~> $substring(?, ?))(1)", "n ~> $power(?, ?)",
	"a ~> $contains(?, ?)", "3 ~> function($a,$b){$a}(?, ?)", "a ~> $substringBefore(?, ?) ~> $string()", "items ~> $map(?, ?)", "1 ~> $append(?, ?)(2)",
	"(function($f){$f($f)})(function($f){1})", "$map([1,2,3], $map)", "$map([1,2,3], $reduce)", "$reduce([1,2,3], $append(?, ?))", "($f := $f; $f)", "(($x := 1) + $x)",
	// boundary corpus: callbacks declaring more parameters than the built-in passes, ranges whose span overflows int64,
	// additive overflow (bare and nested), extreme operands
	"$map([1,2,3], function($v,$i,$a,$extra){$v})", "$filter([1,2], function($a,$b,$c,$d){true})", "$single([1], function($a,$b,$c,$d,$e){true})",
	"$map([\"a\"], $replace)", "$filter([\"a\"], $replace)", "$reduce([1,2,3], function($a,$b,$c,$d,$e){$a})", "$each({\"a\":1}, function($a,$b,$c,$d){$a})", "$sift({\"a\":1}, function($a,$b,$c,$d){true})",
	"[0..1e19]", "[1..1e300]", "[-1e19..5]", "[-9e18..9e18]", "[1e19..1e19]", "[-1e300..-1e300]", "[big..big]", "[0..big]", "[-big..big]", "$count([0..1e19])",
	"1e308 + 1e308", "-1e308 - 1.7e308", "{\"t\": 1e308 + 1e308}", "[1.7e308 + 1.7e308]", "$sum([1e308]) + 1e308", "big + big", "-big - big", "{\"total\": $sum([big]) + big}",
	"1e308 * 10", "1e308 / 1e-10", "5e-324 / 10", "1e308 % 0", "-(1e308 + 1e308)", "big * big", "big / (1 / big)", "$power(big, 2)", "$abs(-big) + big", "$max([big]) + $max([big])",
	"$fromMillis(0, \"[ZZ]\", \"-1300\")", "$fromMillis(0, \"[ZZ]\", \"+1300\")", "$fromMillis(0, \"[zZ]\", \"-1400\")", "$fromMillis(0, \"[ZZ]\", \"-9900\")", "$fromMillis(0, \"[ZZ]\", \"+9959\")", "$now(\"[ZZ]\", \"-1300\")",
	"$round(1.7976931348623157e308, -308)", "$round(1.5e308, -308)", "$round(-1.7e308, -307)", "$round(big, -308)", "{\"r\": $round(1.6e308, -308)}", "$round(9.5e307, -307)",
	"null.a", "true.a", "1.a", "\"s\".a", "null[0]", "null[true]", "-null", "-\"a\"", "-[]", "[1] & [2]", "{} & {}", "$sum & 1", "1 in $sum", "$sum in [$sum]", "null in null",
}

func runTotality(c *ctx, prop string) {
	c.rep.Rule = "generated programs up to depth 4, both type-directed and type-chaotic (any expression in any argument position, functions as data, " +
		"missing arguments, arrays nested in arrays), every node type and every built-in with every arity it accepts; JSON inputs with nulls, empty containers " +
		"and arrays nested in arrays; each Eval runs under recover with a wall-clock limit. "
	if prop == "C09" {
		c.rep.Rule += "Violation: a recovered panic or a timeout."
	} else {
		c.rep.Rule += "Checked on every result: type walk (JSON-representable Go types only, finite numbers, string keys), json.Marshal succeeds, " +
			"EvalBytes succeeds exactly when Eval does and returns the encoding of the same value, ErrUndefined exactly when the model has no value, malformed input bytes are rejected."
	}
	r := c.rng.fork()
	g := &pgen{r: r}
	timeouts := 0
	one := func(prog string, d interface{}, bucket string) {
		res := goEval(prog, d)
		in := valueSexp(d)
		c.note(prog+"\x00"+in, bucket, true)
		c.rep.Outcomes[outcomeClass(res.outcome)]++
		if res.panicV != nil && strings.Contains(prog, "$pad") && (strings.Contains(res.outcome, "Repeat") || strings.Contains(res.outcome, "makeslice") || strings.Contains(res.outcome, "out of memory")) {
			// a padding width taken from the data (1e21): the property bounds the sizes of paddings
			c.rep.Skipped++
			c.rep.SkipReasons["$pad width beyond the property's size bound"]++
			return
		}
		if res.panicV != nil || res.timeout {
			if res.timeout {
				timeouts++
			}
			if prop == "C09" {
				c.disagree(Disagreement{Kind: "not-total", Prog: prog, Input: d, InputS: in, Go: res.outcome, Model: "a value, ErrUndefined or an error"})
			}
			return
		}
		if prop == "C10" {
			c10Check(c, prog, d, in, res)
		}
		if len(c.rep.Samples) < 8 && res.err == nil {
			c.sample(map[string]interface{}{"program": prog, "outcome": trunc(res.outcome, 120)})
		}
	}
	seedDoc := map[string]interface{}{"x": []interface{}{10.0, 20.0, 30.0}, "idx": []interface{}{0.0, 2.0}, "arr": []interface{}{[]interface{}{1.0}},
		"items": []interface{}{map[string]interface{}{"a": 2.0, "id": 0.0}, map[string]interface{}{"a": 1.0, "id": 1.0}}, "a": "xay", "b": map[string]interface{}{"c": 1.0}, "big": 1e308,
		"bigs": []interface{}{1e308, 1e308}, "negs": []interface{}{-1e308, -1.7e308}, "strs": []interface{}{"b", "a"}}
	typedSeed := typedVariant(deepCopy(seedDoc))
	for _, p := range []string{"$sum(bigs)", "$average(bigs)", "$sum(negs)", "$average(negs)", "$max(bigs)", "$min(negs)", "{\"s\": $sum(bigs)}", "[$average(negs)]", "$sum(bigs) - $sum(bigs)",
		"$sum($append(bigs, negs))", "$sort(strs)", "$join(strs)", "$reverse(bigs)", "$distinct(bigs)", "$sum(x)", "$average(x)", "$max(x)", "$count(bigs)"} {
		one(p, seedDoc, "seed")
		one(p, typedSeed, "seed-typed")
	}
	for _, p := range []string{"($distinct($sum) ~> $string)([1])", "$map([1,2], $distinct(function($x){$x}) ~> $string)", "[1,2] ~> ($distinct($sum) ~> $string)",
		"($sort($sum)[0] ~> $string)(1)", "($reduce([], $append, $sum) ~> $string)(1)", "($shuffle($sum)[0] ~> $string)(1)", "($zip($sum)[0][0] ~> $string)(1)",
		"($filter($sum, function($f){true})[0] ~> $string)(1)", "($map($sum, function($f){$f})[0] ~> $string)(1)", "($distinct(/a/) ~> $string)(\"a\")",
		"($distinct($sum) ~> $distinct($string))(1)", "$distinct($sum)(1)", "[1] ~> $sort($sum)[0]"} {
		g := goEval(p, nil)
		c.note("copied-fn\x00"+p, "copied-function-values", true)
		if g.panicV != nil || g.timeout {
			c.disagree(Disagreement{Kind: "panic-or-hang", Prog: p, Go: g.outcome, Model: "a value, 'no value' or an error"})
		}
	}
	for _, p := range c09Seeds {
		one(p, typedSeed, "seed-typed")
		one(p, seedDoc, "seed")
		one(p, []interface{}{map[string]interface{}{"a": 2.0}, map[string]interface{}{"a": 1.0}}, "seed")
	}
	// built-ins that walk their argument, applied to arrays nested in arrays (results must stay JSON values: no
	// evaluator-internal sequence may escape through a recursive helper)
	nestDoc := map[string]interface{}{
		"nest":  []interface{}{[]interface{}{map[string]interface{}{"b": 1.0}}, []interface{}{map[string]interface{}{"b": 2.0}}},
		"nest3": []interface{}{[]interface{}{[]interface{}{map[string]interface{}{"b": 1.0, "c": []interface{}{1.0, 2.0}}}}},
		"mixed": []interface{}{map[string]interface{}{"b": []interface{}{1.0, 2.0}}, []interface{}{map[string]interface{}{"b": 3.0}}, []interface{}{}, []interface{}{[]interface{}{}}},
		"objs":  []interface{}{map[string]interface{}{"b": 1.0}, map[string]interface{}{"b": []interface{}{2.0, 3.0}}, map[string]interface{}{"c": 4.0}},
	}
	for _, arg := range []string{"nest", "nest3", "mixed", "objs", "[nest]", "[nest, mixed]", "nest[0]", "mixed[1]", "$"} {
		for _, tmpl := range []string{"$lookup(%s, \"b\")", "$lookup(%s, \"b\")[0]", "$lookup(%s, \"c\")", "$count($lookup(%s, \"b\"))", "$keys(%s)", "$spread(%s)", "$merge(%s)", "%s.b", "%s.b[0]", "%s.**.b",
			"$each(%s, function($v, $k){$k})", "$sift(%s, function($v){true})", "$sort(%s.b)", "$reverse(%s)", "$distinct(%s)", "$string(%s)", "$count(%s)", "$append(%s, %s)", "$zip(%s, %s)",
			"$map(%s, function($v){$lookup($v, \"b\")})", "$lookup(%s, \"b\") ~> $sum()", "{\"r\": $lookup(%s, \"b\")}", "[$lookup(%s, \"b\")]", "$type($lookup(%s, \"b\"))", "$exists($lookup(%s, \"zz\"))"} {
			prog := strings.ReplaceAll(tmpl, "%s", arg)
			one(prog, nestDoc, "nested-arrays")
		}
	}
	// strings of unusual content (control characters, astral and combining characters, long runs, pictures and patterns with
	// foreign characters in every position) in every string position of every string-taking built-in, as literals and
	// from the input; and as the result itself (EvalBytes must encode what Eval returns)
	strFns := []string{"$string(%s)", "$length(%s)", "$substring(%s, 1)", "$substring(%s, -2, 1)", "$substringBefore(%s, %s)", "$substringAfter(%s, %s)", "$uppercase(%s)", "$lowercase(%s)",
		"$pad(%s, 20, %s)", "$pad(%s, -5)", "$trim(%s)", "$contains(%s, %s)", "$split(%s, %s)", "$split(%s, \"\")", "$join([%s, %s], %s)", "$replace(%s, %s, %s)", "$match(%s, /./)", "$number(%s)",
		"$formatNumber(1234.5, %s)", "$formatNumber(-0.5, %s, {\"decimal-separator\": %s})", "$formatNumber(12, \"#0\", {\"zero-digit\": %s})", "$formatBase(255, 16) & %s", "$base64encode(%s)", "$base64decode(%s)",
		"$base64decode($base64encode(%s))", "$encodeUrl(%s)", "$encodeUrlComponent(%s)", "$decodeUrl(%s)", "$decodeUrlComponent(%s)", "$decodeUrlComponent($encodeUrlComponent(%s))",
		"$fromMillis(0, %s)", "$fromMillis(1500000000000, %s, \"+0530\")", "$fromMillis(0, \"[H01]\", %s)", "$toMillis(%s)", "$toMillis(%s, %s)", "$toMillis(\"2018\", %s)", "$now(%s)", "$now(\"[Y]\", %s)",
		"$lookup({\"k\": 1}, %s)", "{%s: 1}", "$keys({%s: 1})", "$error(%s)", "$sort([%s, %s, \"b\"])", "[%s, %s]^($)", "$distinct([%s, %s])", "%s = %s", "%s < %s", "%s & %s", "%s in [%s]", "$type(%s)",
		"%s", "[%s]", "{\"k\": %s}", "$boolean(%s)", "$exists(%s)", "$reverse([%s, %s])", "$each({\"k\": %s}, function($v, $k){$v & $k})", "$eval(%s)", "$spread({%s: %s})", "$merge([{%s: 1}, {%s: 2}])"}
	for i := 0; i < c.scale(4000, 60000) && !c.tooMany() && timeouts < 3; i++ {
		tmpl := strFns[r.intn(len(strFns))]
		d := map[string]interface{}{"x": exoticString(r), "y": exoticString(r), "n": 3.0}
		prog := tmpl
		for strings.Contains(prog, "%s") {
			arg := []string{"x", "y"}[r.intn(2)]
			if r.chance(1, 3) {
				arg = strLit(exoticString(r))
			}
			prog = strings.Replace(prog, "%s", arg, 1)
		}
		one(prog, d, "exotic-strings")
	}
	n := c.scale(12000, 250000)
	for i := 0; i < n && !c.tooMany() && timeouts < 3; i++ {
		g.chaotic = r.chance(1, 2)
		g.vars = nil
		g.exotic = i%3 == 0
		prog := g.expr(2 + r.intn(3))
		d := fullDoc(r, r.chance(1, 3))
		if i%3 == 1 {
			d = fullDocExotic(r, r.chance(1, 3))
		}
		if r.chance(1, 10) {
			d = []interface{}{nil, []interface{}{}, map[string]interface{}{}, []interface{}{[]interface{}{[]interface{}{}}}}[r.intn(4)]
		}
		b := "typed"
		if g.chaotic {
			b = "chaotic"
		}
		one(prog, d, b)
	}
	if prop == "C10" {
		// malformed input bytes for EvalBytes
		e := compileOrNil("$")
		for _, bad := range []string{"", "{", "[1,", "nul", "{\"a\":}", "\"abc", "01", "1 2", "{'a':1}", "\xff", "[1,]", "NaN", "Infinity", "-", "+1", "1e", "\"\\x\"", "\"\\ud800\"",
			// a complete value followed by more text (json.Decoder.More() is false before ] and })
			"{\"a\":1}}", "[1,2,3]]", "\"text\"]", "12.5 }", "1 ]", "{} }x", "[] ] []", "null}", "true]", "{\"a\":1} {\"b\":2}", "1 2 ]", "[1],", "{}\n\n}"} {
			out, err := e.EvalBytes([]byte(bad))
			c.note("evalbytes\x00"+bad, "malformed-bytes", true)
			var tmp interface{}
			stdErr := json.Unmarshal([]byte(bad), &tmp)
			if (err == nil) != (stdErr == nil) {
				c.disagree(Disagreement{Kind: "evalbytes-malformed", Prog: "$", InputS: bad, Go: fmt.Sprintf("out=%q err=%v", out, err), Model: fmt.Sprintf("encoding/json says err=%v", stdErr)})
			}
		}
	}
	if timeouts >= 3 {
		c.rep.Notes = append(c.rep.Notes, "stopped after 3 timeouts (runaway goroutines cannot be killed in-process)")
	}
}

func c10Check(c *ctx, prog string, d interface{}, in string, res goResult) {
	e := compileOrNil(prog)
	if e == nil {
		return
	}
	// EvalBytes parity (the input must itself be JSON-encodable)
	inBytes, merr := json.Marshal(d)
	if merr != nil {
		return
	}
	var viaBytes []byte
	var berr error
	pr := safely(evalLimit, func() (interface{}, error) {
		viaBytes, berr = e.EvalBytes(inBytes)
		return nil, nil
	})
	if pr.panicV != nil || pr.timeout {
		return
	}
	if res.err != nil {
		if berr == nil && nondeterministic(prog) {
			// $random/$shuffle/$now/$millis: two evaluations may legitimately take different branches
			c.rep.Skipped++
			c.rep.SkipReasons["Eval/EvalBytes parity of a program with sanctioned variation ($random, $shuffle, $now, $millis)"]++
			return
		}
		if berr == nil && inherentlyVaries(prog, d) {
			// a position picked from an unordered enumeration (`(*.x)[k]`): the two evaluations walked the object differently
			c.rep.Skipped++
			c.rep.SkipReasons["outcome depends on map iteration order (fresh evaluations differ among themselves)"]++
			return
		}
		if berr == nil {
			c.disagree(Disagreement{Kind: "evalbytes-succeeds-where-eval-fails", Prog: prog, Input: d, InputS: in, Go: "EvalBytes: " + trunc(string(viaBytes), 200), Model: "Eval: " + res.outcome})
		}
		return
	}
	// a nil error: the value must be JSON-representable
	vs := valueSexp(res.value)
	if strings.Contains(vs, "X") && hasInternalType(vs) {
		c.disagree(Disagreement{Kind: "non-json-type", Prog: prog, Input: d, InputS: in, Go: trunc(vs, 300), Model: "null, booleans, finite numbers, strings, arrays, string-keyed objects, functions"})
		return
	}
	if strings.Contains(vs, "n7ff") || strings.Contains(vs, "nfff") {
		c.disagree(Disagreement{Kind: "non-finite-number", Prog: prog, Input: d, InputS: in, Go: trunc(vs, 300), Model: "finite numbers only"})
		return
	}
	enc, err := json.Marshal(res.value)
	if err != nil {
		c.disagree(Disagreement{Kind: "marshal-fails", Prog: prog, Input: d, InputS: in, Go: "json.Marshal: " + err.Error(), Model: "marshals"})
		return
	}
	if berr != nil && inherentlyVaries(prog, d) {
		c.rep.Skipped++
		c.rep.SkipReasons["outcome depends on map iteration order (fresh evaluations differ among themselves)"]++
		return
	}
	if berr != nil && nondeterministic(prog) {
		c.rep.Skipped++
		c.rep.SkipReasons["Eval/EvalBytes parity of a program with sanctioned variation ($random, $shuffle, $now, $millis)"]++
		return
	}
	if berr != nil {
		c.disagree(Disagreement{Kind: "evalbytes-fails-where-eval-succeeds", Prog: prog, Input: d, InputS: in, Go: "EvalBytes: " + berr.Error(), Model: "Eval: " + trunc(res.outcome, 200)})
		return
	}
	if nondeterministic(prog) {
		return
	}
	if !bytes.Equal(enc, viaBytes) && !jsonEquivalent(enc, viaBytes) && !(unorderedSensitive(prog) && jsonUnorderedEquivalent(enc, viaBytes)) {
		if inherentlyVaries(prog, d) {
			c.rep.Skipped++
			c.rep.SkipReasons["outcome depends on map iteration order (fresh evaluations differ among themselves)"]++
			return
		}
		c.disagree(Disagreement{Kind: "evalbytes-differs", Prog: prog, Input: d, InputS: in, Go: "EvalBytes: " + trunc(string(viaBytes), 200), Model: "encoding of Eval's value: " + trunc(string(enc), 200)})
	}
	// ErrUndefined iff the model has no value.  The model gives JSON null in the input its JSON meaning; the port
	// represents it by the Go value that also stands for "does not exist" (jsonata-test/README.md, "Null handling"), so
	// inputs containing null are compared for totality, representability and EvalBytes parity only (the quantifiers of
	// C01/C14 exclude them for the same reason)
	if jsonHasNull(d) {
		return
	}
	m, err2 := c.drv.modelEval(prog, d)
	if err2 == nil {
		m = normaliseModel(m)
		if !strings.HasPrefix(m, "skip ") && !strings.HasPrefix(m, "err fuel") {
			if (m == "undef") != (res.outcome == "undef") {
				c.disagree(Disagreement{Kind: "undefined-mismatch", Prog: prog, Input: d, InputS: in, Go: res.outcome, Model: m})
			}
		}
	}
}

func hasInternalType(vs string) bool {
	// X<type> atoms are produced only by valueSexp for non-JSON Go types
	for _, f := range strings.Fields(strings.NewReplacer("(", " ", ")", " ").Replace(vs)) {
		if strings.HasPrefix(f, "X") {
			return true
		}
	}
	return false
}

func jsonUnorderedEquivalent(a, b []byte) bool {
	var x, y interface{}
	if json.Unmarshal(a, &x) != nil || json.Unmarshal(b, &y) != nil {
		return false
	}
	return canonUnordered(x) == canonUnordered(y)
}

// jsonEquivalent: the two encodings decode to the same value (member order of maps with
// random iteration never matters because encoding/json sorts keys, but be safe).
func jsonEquivalent(a, b []byte) bool {
	var x, y interface{}
	if json.Unmarshal(a, &x) != nil || json.Unmarshal(b, &y) != nil {
		return false
	}
	return valueSexp(x) == valueSexp(y)
}

// scribble writes into every container of a value the caller received from Eval.
func scribble(v interface{}) {
	switch x := v.(type) {
	case map[string]interface{}:
		for _, e := range x {
			scribble(e)
		}
		x["\x00scribbled"] = "by the caller"
	case []interface{}:
		for _, e := range x {
			scribble(e)
		}
		if len(x) > 0 {
			x[0] = "scribbled"
		}
	}
}

// restoreInto makes dst (the caller's input document) equal to src again, in place.
func restoreInto(dst, src interface{}) {
	switch d := dst.(type) {
	case map[string]interface{}:
		s, ok := src.(map[string]interface{})
		if !ok {
			return
		}
		for k := range d {
			if _, ok := s[k]; !ok {
				delete(d, k)
			}
		}
		for k, v := range s {
			switch v.(type) {
			case map[string]interface{}, []interface{}:
				if cur, ok := d[k]; ok && sameShape(cur, v) {
					restoreInto(cur, v)
					continue
				}
			}
			d[k] = deepCopy(v)
		}
	case []interface{}:
		s, ok := src.([]interface{})
		if !ok || len(s) != len(d) {
			return
		}
		for i, v := range s {
			switch v.(type) {
			case map[string]interface{}, []interface{}:
				if sameShape(d[i], v) {
					restoreInto(d[i], v)
					continue
				}
			}
			d[i] = deepCopy(v)
		}
	}
}

func sameShape(a, b interface{}) bool {
	switch x := a.(type) {
	case map[string]interface{}:
		_, ok := b.(map[string]interface{})
		return ok
	case []interface{}:
		y, ok := b.([]interface{})
		return ok && len(x) == len(y)
	}
	return false
}

// inherentlyVaries: do fresh evaluations of the program on this input differ among themselves? Then the
// outcome depends on Go's map iteration order (e.g. an element picked by position from the members of an
// object: ($keys($))[0], **[1]) — sanctioned variation, not a witness against repeatability.
func inherentlyVaries(prog string, d interface{}) bool {
	if !unorderedSensitive(prog) {
		return false
	}
	seen := map[string]bool{}
	for i := 0; i < 96; i++ {
		seen[goEval(prog, d).outcome] = true
		if len(seen) > 1 {
			return true
		}
	}
	return false
}

func jsonHasNull(v interface{}) bool {
	switch x := v.(type) {
	case nil:
		return true
	case map[string]interface{}:
		for _, e := range x {
			if jsonHasNull(e) {
				return true
			}
		}
	case []interface{}:
		for _, e := range x {
			if jsonHasNull(e) {
				return true
			}
		}
	}
	return false
}
