package main

// C18 — number conversion, rounding and formatting are exact and always terminate.
//
// Every case is compared with the Lean model (exact decimal arithmetic on the shortest
// round-trip digits) and, independently, with math/big / strconv oracles written from the
// statement.

import (
	"encoding/hex"
	"fmt"
	"math"
	"math/big"
	"strconv"
	"strings"
)

// c18Doubles: the quantifier's value set.
func c18Doubles(r *rng, n int) []float64 {
	out := []float64{0, math.Copysign(0, -1), 1, -1, 0.5, -0.5, 1.5, 2.5, -1.5, -2.5, 0.125, 0.375, 1e21, 1e-7, 1e-6, 123456.789,
		0.49999999999999994, 2.4999999999999996, 1.005, 1.015, 2.675, 1e15 + 0.5, 4503599627370497, 9007199254740993, 0.1, 0.2, 0.3, 5e-324, 1.7976931348623157e308}
	for i := -12; i <= 21; i++ {
		out = append(out, math.Pow(10, float64(i)))
	}
	for len(out) < n {
		switch r.intn(6) {
		case 0: // integers
			out = append(out, float64(r.intn(2000001)-1000000))
		case 1, 2: // decimal fractions with 0..6 digits, including exact ties
			d := r.intn(7)
			m := int64(r.intn(2000000)) - 1000000
			if r.chance(1, 3) {
				m = m/10*10 + 5 // a tie one digit up
			}
			f, _ := strconv.ParseFloat(fmt.Sprintf("%de-%d", m, d), 64)
			out = append(out, f)
		case 3: // next to a tie
			d := r.intn(4)
			m := int64(r.intn(20000))*10 + 5
			f, _ := strconv.ParseFloat(fmt.Sprintf("%de-%d", m, d+1), 64)
			if r.chance(1, 2) {
				f = math.Nextafter(f, math.Inf(1))
			} else {
				f = math.Nextafter(f, math.Inf(-1))
			}
			if r.chance(1, 2) {
				f = -f
			}
			out = append(out, f)
		case 4: // powers of ten times a small integer
			e := r.intn(34) - 12
			f, _ := strconv.ParseFloat(fmt.Sprintf("%de%d", r.intn(99)+1, e), 64)
			out = append(out, f)
		case 5: // large integers below 2^53
			out = append(out, float64(int64(r.next()>>11))*float64(1-2*r.intn(2)))
		}
	}
	return out
}

// exactRat returns the exact value of the shortest decimal text of x.
func shortestRat(x float64) *big.Rat {
	s := strconv.FormatFloat(x, 'g', -1, 64)
	r, _ := new(big.Rat).SetString(s)
	return r
}

// oracleRound: x's shortest decimal rounded half-even at the p-th fraction digit, as the nearest double.
func oracleRound(x float64, p int) float64 {
	if x == 0 {
		return 0
	}
	v := shortestRat(x)
	scale := new(big.Rat).SetInt(new(big.Int).Exp(big.NewInt(10), big.NewInt(int64(abs(p))), nil))
	if p >= 0 {
		v.Mul(v, scale)
	} else {
		v.Quo(v, scale)
	}
	// half-even to integer
	num, den := v.Num(), v.Denom()
	q, rem := new(big.Int).DivMod(num, den, new(big.Int)) // floor division (den > 0)
	twice := new(big.Int).Mul(rem, big.NewInt(2))
	switch twice.Cmp(den) {
	case 1:
		q.Add(q, big.NewInt(1))
	case 0:
		if q.Bit(0) == 1 {
			q.Add(q, big.NewInt(1))
		}
	}
	if q.Sign() == 0 {
		return 0
	}
	res := new(big.Rat).SetInt(q)
	if p >= 0 {
		res.Quo(res, scale)
	} else {
		res.Mul(res, scale)
	}
	f, _ := res.Float64()
	return f
}

func c18NumberLike(r *rng, maxLen int) string {
	alpha := []string{"0", "1", "9", "5", "-", "+", ".", "e", "E", " ", "x", "0"}
	n := 1 + r.intn(maxLen)
	var b strings.Builder
	for i := 0; i < n; i++ {
		b.WriteString(alpha[r.intn(len(alpha))])
	}
	return b.String()
}

// oracleNumberOK: the grammar of the statement.
func oracleNumberOK(s string) bool {
	i := 0
	if i < len(s) && s[i] == '-' {
		i++
	}
	d := 0
	for i < len(s) && s[i] >= '0' && s[i] <= '9' {
		i++
		d++
	}
	if d == 0 {
		return false
	}
	if i < len(s) && s[i] == '.' {
		i++
		d = 0
		for i < len(s) && s[i] >= '0' && s[i] <= '9' {
			i++
			d++
		}
		if d == 0 {
			return false
		}
	}
	if i < len(s) && (s[i] == 'e' || s[i] == 'E') {
		i++
		if i < len(s) && (s[i] == '+' || s[i] == '-') {
			i++
		}
		d = 0
		for i < len(s) && s[i] >= '0' && s[i] <= '9' {
			i++
			d++
		}
		if d == 0 {
			return false
		}
	}
	return i == len(s)
}

func runC18(c *ctx) {
	stmtC18(c)
	c.rep.Rule = "doubles: integers, decimal fractions with 0..6 digits incl. exact ties, values one ulp next to ties, powers of ten 1e-12..1e21, 0, -0, negatives, integers below 2^53; " +
		"precisions -6..12 with |x|*10^p < 2^53; bases 0..40 incl. fractional; number-like strings up to length 6 (exhaustive to length 3 / 4 over a 9-symbol alphabet); " +
		"pictures generated from the decimal-format grammar and mutated; every result compared with the Lean model and with math/big / strconv oracles"
	r := c.rng.fork()
	xs := c18Doubles(r, c.scale(600, 6000))

	// 0. the option names of $formatNumber and the decimal-format defaults, compared behaviourally with the model (not by
	// reading the source): every documented name, near misses, and each option actually taking effect
	c.rep.Exhaustive = append(c.rep.Exhaustive, "decimal-format option names: the 11 documented ones and near misses, each with an effect-revealing picture")
	for _, key := range []string{"decimal-separator", "grouping-separator", "exponent-separator", "infinity", "minus-sign", "NaN", "percent", "per-mille", "zero-digit", "digit", "pattern-separator",
		"Decimal-Separator", "decimal_separator", "decimalSeparator", "decimal-seperator", "grouping", "nan", "Nan", "NAN", "permille", "per-mile", "zero", "zerodigit", "digits", "optional-digit",
		"pattern", "separator", "minus", "exponent", "inf", "Infinity", "", " ", "decimal-separator ", "é"} {
		for _, val := range []interface{}{"!", "x", "", "ab", 1.0} {
			for _, pv := range [][2]interface{}{{"#!##0x00", 1234.5}, {"#,##0.00", -1234.5}, {"0.0e0", 1234.5}, {"0%", 0.5}, {"0‰", 0.5}, {"zz.z", 12.5}, {"#0.0;(#0.0)", -2.0}, {"0!0", 7.25}} {
				in := map[string]interface{}{"p": pv[0], "x": pv[1], "o": map[string]interface{}{key: val}}
				c.diffEval("$formatNumber(x, p, o)", in, "option-sweep")
			}
		}
	}
	oracle := func(prog string, in interface{}, want string, bucket string) {
		g := goEval(prog, in)
		c.note("oracle\x00"+prog+"\x00"+valueSexp(in), "oracle/"+bucket, true)
		if g.outcome != want {
			c.disagree(Disagreement{Kind: "oracle", Prog: prog, Input: in, InputS: valueSexp(in), Go: g.outcome, Model: want})
		}
	}
	law := func(prog string, in interface{}, bucket string) {
		g := goEval(prog, in)
		c.note(prog+"\x00"+valueSexp(in), bucket, true)
		if g.outcome != "ok t" {
			c.disagree(Disagreement{Kind: "law", Prog: prog, Input: in, InputS: valueSexp(in), Go: g.outcome, Model: "ok t"})
		}
	}
	for _, x := range xs {
		in := map[string]interface{}{"x": x}
		// $string / $number round trip
		c.diffEval("$string(x)", in, "string")
		oracle("$string(x)", in, "ok "+valueSexp(jsonNumberText(x)), "string")
		law("$number($string(x)) = x", in, "law/number-string")
		c.diffEval("$number($string(x))", in, "number")
		// the same number written as a literal in the expression text (plain decimal with all its digits, and shortest
		// form): the literal must denote x itself, so the statements about x hold for it too
		if !math.IsInf(x, 0) && !math.IsNaN(x) && math.Abs(x) < 1e21 && (x == 0 || math.Abs(x) > 1e-7) && !(x == 0 && math.Signbit(x)) {
			for _, lit := range []string{strconv.FormatFloat(math.Abs(x), 'f', -1, 64), strconv.FormatFloat(math.Abs(x), 'g', -1, 64), strconv.FormatFloat(math.Abs(x), 'f', 20, 64)} {
				if strings.ContainsAny(lit, "+") {
					lit = strings.Replace(lit, "e+", "e", 1)
				}
				ax := map[string]interface{}{"x": math.Abs(x)}
				law("("+lit+") = x", ax, "law/literal-denotes")
				oracle("$string("+lit+")", ax, "ok "+valueSexp(jsonNumberText(math.Abs(x))), "string-of-literal")
				c.diffEval("$round("+lit+", 2)", ax, "round-of-literal")
			}
		}
		// floor / ceil / abs / sqrt
		c.diffEval("$floor(x)", in, "floor")
		c.diffEval("$ceil(x)", in, "ceil")
		c.diffEval("$abs(x)", in, "abs")
		c.diffEval("$sqrt(x)", in, "sqrt")
		oracle("$floor(x)", in, "ok "+valueSexp(math.Floor(x)), "floor")
		oracle("$ceil(x)", in, "ok "+valueSexp(math.Ceil(x)), "ceil")
		// rounding
		for _, p := range []int{0, 1, 2, 3, 6, 12, -1, -2, -6} {
			if math.Abs(x)*math.Pow(10, float64(p)) >= 9007199254740992 {
				continue
			}
			if c.quick() && p != 0 && r.chance(1, 2) {
				continue
			}
			prog := fmt.Sprintf("$round(x, %d)", p)
			if p == 0 && r.chance(1, 2) {
				prog = "$round(x)"
			}
			c.diffEval(prog, in, "round")
			oracle(prog, in, "ok "+valueSexp(oracleRound(x, p)), "round")
		}
		// formatBase
		if math.Abs(x) < 9e18 {
			for _, b := range []string{"", "2", "8", "16", "36", "10", "1", "37", "0", "2.5", "35.5", "1.5", "-3", "40"} {
				if c.quick() && r.chance(2, 3) {
					continue
				}
				prog := "$formatBase(x)"
				radix := 10
				if b != "" {
					prog = "$formatBase(x, " + b + ")"
					bf, _ := strconv.ParseFloat(b, 64)
					radix = int(oracleRound(bf, 0))
				}
				c.diffEval(prog, in, "formatBase")
				if radix < 2 || radix > 36 {
					oracle(prog, in, "err lib", "formatBase")
				} else {
					n := new(big.Int)
					new(big.Float).SetFloat64(oracleRound(x, 0)).Int(n)
					oracle(prog, in, "ok "+valueSexp(n.Text(radix)), "formatBase")
				}
			}
		}
	}
	// $power: error instead of NaN or infinity; exact cases compared with the model
	for i := 0; i < c.scale(300, 3000); i++ {
		b := float64(r.intn(21) - 10)
		e := float64(r.intn(12))
		in := map[string]interface{}{"b": b, "e": e}
		c.diffEval("$power(b, e)", in, "power")
	}
	for _, pe := range [][2]float64{{10, 308}, {10, 309}, {-8, 1.0 / 3}, {0, -1}, {2, 1024}, {2, 1023}, {-1, 0.5}, {1e200, 2}, {0, 0}, {2, -1075}, {4, 0.5}, {2, -2}} {
		in := map[string]interface{}{"b": pe[0], "e": pe[1]}
		res := math.Pow(pe[0], pe[1])
		want := "err lib"
		if !math.IsInf(res, 0) && !math.IsNaN(res) {
			want = "ok " + valueSexp(res)
		}
		oracle("$power(b, e)", in, want, "power")
	}
	// $number on strings: exhaustive short strings + random longer ones
	alpha := []string{"0", "1", "9", "-", "+", ".", "e", "E", " "}
	for _, s := range enumStrings(alpha, c.scale(3, 4)) {
		in := map[string]interface{}{"s": s}
		c.diffEval("$number(s)", in, "number-string")
		if oracleNumberOK(s) {
			f, err := strconv.ParseFloat(s, 64)
			if err == nil {
				oracle("$number(s)", in, "ok "+valueSexp(f), "number-string")
			}
		} else if s != "" {
			oracle("$number(s)", in, "err lib", "number-string")
		}
	}
	for i := 0; i < c.scale(1500, 20000); i++ {
		s := c18NumberLike(r, 6)
		in := map[string]interface{}{"s": s}
		c.diffEval("$number(s)", in, "number-string")
		if oracleNumberOK(s) {
			if f, err := strconv.ParseFloat(s, 64); err == nil {
				oracle("$number(s)", in, "ok "+valueSexp(f), "number-string")
			}
		} else {
			oracle("$number(s)", in, "err lib", "number-string")
		}
	}
	for _, s := range []string{"1e308", "1e309", "-1e309", "1e-400", "0x10", "1_0", "Infinity", "NaN", "٣", "1e+5", "00012", "-0", "-0.0e0", "1.", ".5", "1e", "--1", "1 ", " 1"} {
		c.diffEval("$number(s)", map[string]interface{}{"s": s}, "number-string")
	}
	for _, rp := range []string{"$round(1.7976931348623157e308, -308)", "$round(1.5e308, -308)", "$round(-1.7e308, -307)", "$round(9.5e307, -307)", "$round(1e308, -308)", "$round(4.9e307, -308)", "$round(5e-324, 400)", "$round(1.5, -400)"} {
		c.diffEval(rp, nil, "round-extreme")
	}
	c.diffEval("[$number(true), $number(false), $number(3)]", nil, "number-other")
	c.diffEval("$number([1])", nil, "number-other")
	c.diffEval("$number(null)", nil, "number-other")
	c.diffEval("$number({})", nil, "number-other")
	runC18Format(c, r, xs, oracle)
}

// jsonNumberText: the shortest decimal text as encoding/json prints it.
func jsonNumberText(x float64) string {
	ax := math.Abs(x)
	format := byte('f')
	if ax != 0 && (ax < 1e-6 || ax >= 1e21) {
		format = 'e'
	}
	b := strconv.AppendFloat(nil, x, format, -1, 64)
	if format == 'e' {
		// clean up e-09 to e-9
		n := len(b)
		if n >= 4 && b[n-4] == 'e' && (b[n-3] == '-' || b[n-3] == '+') && b[n-2] == '0' {
			b[n-2] = b[n-1]
			b = b[:n-1]
		}
	}
	return string(b)
}

// ---------------------------------------------------------------------------------------
// $formatNumber

type c18Pic struct {
	text             string
	pre, suf         string // of the positive sub-picture
	npre, nsuf       string // what a negative number shows around the numeral
	minInt           int
	minFrac, maxFrac int
	scale            int64 // 1, 100, 1000
	exp              bool
	dec, grp         string
	zero             rune
	opts             string // JSONata object literal or ""
	intPos           []int  // digits to the right of each integer-part separator, left to right
}

func c18GenPicture(r *rng) c18Pic {
	p := c18Pic{scale: 1, dec: ".", grp: ",", zero: '0'}
	if r.chance(1, 6) {
		p.dec, p.grp = ",", "."
		p.opts = `{"decimal-separator": ",", "grouping-separator": "."}`
	} else if r.chance(1, 10) {
		p.zero = '٠'
		p.opts = `{"zero-digit": "٠"}`
	} else if r.chance(1, 12) {
		// digit families whose members do not all have the same UTF-8 width (z..U+0083, U+07F8..U+0801)
		if r.chance(1, 2) {
			p.zero = 'z'
			p.opts = `{"zero-digit": "z"}`
		} else {
			p.zero = '\u07f8'
			p.opts = "{\"zero-digit\": \"\u07f8\"}"
		}
	}
	z := string(p.zero)
	optInt := r.intn(4)
	manInt := r.intn(4)
	manFrac := r.intn(4)
	optFrac := r.intn(4)
	if r.chance(1, 3) {
		manFrac, optFrac = 0, 0
	}
	if optInt+manInt+manFrac+optFrac == 0 {
		manInt = 1
	}
	ip := strings.Repeat("#", optInt) + strings.Repeat(z, manInt)
	// grouping in the integer part
	switch r.intn(4) {
	case 0: // regular, every 3 (or 2)
		g := 3 - r.intn(2)
		rs := []rune(ip)
		var out []rune
		for i := range rs {
			if i > 0 && (len(rs)-i)%g == 0 {
				out = append(out, []rune(p.grp)...)
			}
			out = append(out, rs[i])
		}
		ip = string(out)
	case 1: // one separator somewhere inside
		rs := []rune(ip)
		if len(rs) >= 2 {
			k := 1 + r.intn(len(rs)-1)
			ip = string(rs[:k]) + p.grp + string(rs[k:])
		}
	case 2: // two or three separators at arbitrary places of a longer integer part (regular or not)
		extra := 3 + r.intn(8)
		ip = strings.Repeat("#", extra) + ip
		optInt += extra
		rs := []rune(ip)
		cuts := map[int]bool{}
		for len(cuts) < 2+r.intn(2) && len(cuts) < len(rs)-1 {
			cuts[1+r.intn(len(rs)-1)] = true
		}
		var out []rune
		for i := range rs {
			if cuts[i] {
				out = append(out, []rune(p.grp)...)
			}
			out = append(out, rs[i])
		}
		ip = string(out)
	}
	// grouping positions of the integer part: digits to the right of each separator
	{
		rs := []rune(ip)
		g := []rune(p.grp)[0]
		for i, c := range rs {
			if c == g {
				n := 0
				for _, d := range rs[i+1:] {
					if d != g {
						n++
					}
				}
				p.intPos = append(p.intPos, n)
			}
		}
	}
	fp := strings.Repeat(z, manFrac) + strings.Repeat("#", optFrac)
	if r.chance(1, 6) {
		rs := []rune(fp)
		if len(rs) >= 2 {
			k := 1 + r.intn(len(rs)-1)
			fp = string(rs[:k]) + p.grp + string(rs[k:])
		}
	}
	num := ip
	if fp != "" {
		num += p.dec + fp
	}
	p.minInt, p.minFrac, p.maxFrac = manInt, manFrac, manFrac+optFrac
	// the letter e (the exponent separator) is passive text in a prefix or suffix (F37)
	pres := []string{"", "", "$", "(", "x ", "~", "fee ", "e"}
	sufs := []string{"", "", ")", " USD", "!", "~", " eels", " each", "e"}
	p.pre, p.suf = r.pick(pres), r.pick(sufs)
	if p.zero == 'z' {
		// '~' is the digit 4 of the family z { | } ~ …: not a passive character there
		p.pre, p.suf = strings.ReplaceAll(p.pre, "~", "*"), strings.ReplaceAll(p.suf, "~", "*")
	}
	switch r.intn(8) {
	case 0:
		p.suf = "%" + p.suf
		p.scale = 100
	case 1:
		p.pre = p.pre + "%"
		p.scale = 100
	case 2:
		p.suf = "‰" + p.suf
		p.scale = 1000
	case 3, 4:
		p.exp = true
		num += "e" + strings.Repeat(z, 1+r.intn(2))
	}
	// XPath 3.1 section 4.7.4 adjustments of the digit counts
	if p.minInt == 0 && p.maxFrac == 0 {
		if p.exp {
			p.minFrac, p.maxFrac = 1, 1
		} else {
			p.minInt = 1
		}
	}
	if p.exp && p.minInt == 0 && optInt > 0 {
		p.minInt = 1
	}
	if p.minInt == 0 && p.minFrac == 0 {
		p.minFrac = 1
	}
	p.text = p.pre + num + p.suf
	p.npre, p.nsuf = "-"+p.pre, p.suf
	if r.chance(1, 4) {
		p.text += ";(" + num + ")"
		if p.scale != 1 {
			// the second sub-picture decides the number type of negative numbers: keep it the same
			if p.scale == 100 {
				p.text = p.text[:len(p.text)-1] + "%)"
			} else {
				p.text = p.text[:len(p.text)-1] + "‰)"
			}
			p.npre, p.nsuf = "(", string(map[int64]rune{100: '%', 1000: '‰'}[p.scale])+")"
		} else {
			p.npre, p.nsuf = "(", ")"
		}
	}
	return p
}

// c18ReadBack checks a formatted numeral against the statement. It returns "" when fine.
func c18ReadBack(out string, x float64, p c18Pic) string {
	pre, suf := p.pre, p.suf
	if x < 0 {
		pre, suf = p.npre, p.nsuf
	}
	if !strings.HasPrefix(out, pre) || !strings.HasSuffix(out[len(pre):], suf) {
		return fmt.Sprintf("prefix/suffix: want %q...%q", pre, suf)
	}
	body := out[len(pre) : len(out)-len(suf)]
	// digits back to ASCII
	var b strings.Builder
	for _, c := range body {
		if c >= p.zero && c <= p.zero+9 {
			b.WriteRune('0' + (c - p.zero))
		} else {
			b.WriteRune(c)
		}
	}
	body = b.String()
	expo := 0
	if p.exp {
		i := strings.IndexByte(body, 'e')
		if i < 0 {
			return "no exponent part"
		}
		e, err := strconv.Atoi(body[i+1:])
		if err != nil {
			return "bad exponent " + body[i+1:]
		}
		expo = e
		body = body[:i]
	}
	// grouping separators must stand between digits
	grp, dec := p.grp, p.dec
	if strings.HasPrefix(body, grp) || strings.HasSuffix(body, grp) || strings.Contains(body, grp+grp) ||
		strings.Contains(body, grp+dec) || strings.Contains(body, dec+grp) {
		return "misplaced grouping separator"
	}
	// integer-part separators stand at the picture's positions: every N digits when the positions are N, 2N, … kN
	// (regular grouping, continued to the left), otherwise exactly at the listed positions
	{
		ipG := body
		if i := strings.Index(body, dec); i >= 0 {
			ipG = body[:i]
		}
		digits := strings.ReplaceAll(ipG, grp, "")
		want := map[int]bool{}
		if len(p.intPos) > 0 {
			n := p.intPos[len(p.intPos)-1]
			regular := n > 0
			for k, pos := range p.intPos {
				if pos != n*(len(p.intPos)-k) {
					regular = false
				}
			}
			if regular {
				for k := n; k < len(digits); k += n {
					want[k] = true
				}
			} else {
				for _, pos := range p.intPos {
					if pos > 0 && pos < len(digits) {
						want[pos] = true
					}
				}
			}
		}
		got := map[int]bool{}
		seen := 0
		rs := []rune(ipG)
		for i := len(rs) - 1; i >= 0; i-- {
			if string(rs[i]) == grp {
				got[seen] = true
			} else {
				seen++
			}
		}
		if fmt.Sprint(sortedInts(got)) != fmt.Sprint(sortedInts(want)) {
			return fmt.Sprintf("integer-part separators after %v digits from the right, the picture asks for %v", sortedInts(got), sortedInts(want))
		}
	}
	body = strings.ReplaceAll(body, grp, "")
	ip, fp := body, ""
	if i := strings.Index(body, dec); i >= 0 {
		ip, fp = body[:i], body[i+len(dec):]
	}
	for _, c := range ip + fp {
		if c < '0' || c > '9' {
			return fmt.Sprintf("unexpected character %q in numeral", c)
		}
	}
	if len(ip) < p.minInt {
		return fmt.Sprintf("%d integer digits, want at least %d", len(ip), p.minInt)
	}
	if len(fp) < p.minFrac || len(fp) > p.maxFrac {
		return fmt.Sprintf("%d fraction digits, want %d..%d", len(fp), p.minFrac, p.maxFrac)
	}
	if ip == "" && fp == "" {
		return "empty numeral"
	}
	got, ok := new(big.Rat).SetString(ipOr0(ip) + "." + fpOr0(fp))
	if !ok {
		return "numeral does not parse"
	}
	want := new(big.Rat).Abs(shortestRat(x))
	want.Mul(want, big.NewRat(p.scale, 1))
	unit := new(big.Rat).SetFrac(big.NewInt(1), new(big.Int).Exp(big.NewInt(10), big.NewInt(int64(p.maxFrac)), nil))
	if p.exp {
		// mantissa * 10^expo within half a unit of the last mantissa place
		scale := new(big.Rat).SetInt(new(big.Int).Exp(big.NewInt(10), big.NewInt(int64(abs(expo))), nil))
		if expo >= 0 {
			got.Mul(got, scale)
			unit.Mul(unit, scale)
		} else {
			got.Quo(got, scale)
			unit.Quo(unit, scale)
		}
		diff := new(big.Rat).Sub(got, want)
		diff.Abs(diff)
		diff.Mul(diff, big.NewRat(2, 1))
		if diff.Cmp(unit) > 0 {
			return fmt.Sprintf("mantissa*10^exp = %s is not x rounded to the mantissa's digits", got.FloatString(20))
		}
		return ""
	}
	// exactly x*scale rounded half-even to maxFrac digits
	q := new(big.Rat).Quo(want, unit)
	fl, rem := new(big.Int).DivMod(q.Num(), q.Denom(), new(big.Int))
	switch new(big.Int).Lsh(rem, 1).Cmp(q.Denom()) {
	case 1:
		fl.Add(fl, big.NewInt(1))
	case 0:
		if fl.Bit(0) == 1 {
			fl.Add(fl, big.NewInt(1))
		}
	}
	exp := new(big.Rat).Mul(new(big.Rat).SetInt(fl), unit)
	if got.Cmp(exp) != 0 {
		return fmt.Sprintf("numeral reads %s, x rounded to %d digits is %s", got.FloatString(p.maxFrac+2), p.maxFrac, exp.FloatString(p.maxFrac+2))
	}
	return ""
}

func ipOr0(s string) string {
	if s == "" {
		return "0"
	}
	return s
}
func fpOr0(s string) string {
	if s == "" {
		return "0"
	}
	return s
}

func c18Mutate(r *rng, s string) string {
	rs := []rune(s)
	ins := []rune("#0,.;e%‰-x9 ")
	for k := 0; k < 1+r.intn(2); k++ {
		switch r.intn(3) {
		case 0:
			if len(rs) > 0 {
				i := r.intn(len(rs))
				rs = append(rs[:i], rs[i+1:]...)
			}
		case 1:
			i := r.intn(len(rs) + 1)
			rs = append(rs[:i], append([]rune{ins[r.intn(len(ins))]}, rs[i:]...)...)
		case 2:
			if len(rs) > 0 {
				i := r.intn(len(rs))
				rs = append(rs[:i], append([]rune{rs[i]}, rs[i:]...)...)
			}
		}
	}
	return string(rs)
}

func runC18Format(c *ctx, r *rng, xs []float64, oracle func(string, interface{}, string, string)) {
	n := c.scale(4000, 60000)
	for i := 0; i < n && !c.tooMany(); i++ {
		p := c18GenPicture(r)
		x := xs[r.intn(len(xs))]
		if math.Abs(x) > 1e21 || (x != 0 && math.Abs(x) < 1e-12) {
			x = float64(r.intn(100000)) / 100
		}
		in := map[string]interface{}{"x": x, "p": p.text}
		prog := "$formatNumber(x, p)"
		if p.opts != "" {
			prog = "$formatNumber(x, p, " + p.opts + ")"
		}
		g, _, _ := c.diffEval(prog, in, "formatNumber")
		c.note("readback\x00"+prog+"\x00"+valueSexp(in), "oracle/formatNumber-readback", true)
		if strings.HasPrefix(g, "ok s") {
			out := decodeHexAtom(g[3:])
			if why := c18ReadBack(out, x, p); why != "" {
				c.disagree(Disagreement{Kind: "oracle", Prog: prog, Input: in, InputS: valueSexp(in), Go: g + " = " + out, Model: "read-back: " + why})
			}
		} else {
			c.disagree(Disagreement{Kind: "oracle", Prog: prog, Input: in, InputS: valueSexp(in), Go: g, Model: "a valid picture must format"})
		}
		if r.chance(1, 3) {
			// mutated (mostly invalid) pictures: same outcome as the model, and never a hang or panic
			in2 := map[string]interface{}{"x": x, "p": c18Mutate(r, p.text)}
			c.diffEval("$formatNumber(x, p)", in2, "formatNumber-mutated")
		}
	}
	// fixed corpus: termination for zero and negatives with exponent pictures, options, context form
	for _, pc := range []string{"0.0e0", "#.#e0", "00.000e00", "0e0", ".0e0", "#e0", "0.0e0;(0.0e0)"} {
		for _, x := range []float64{0, -1, 1, -0.001, 1e21, 5e-324, 123456.789, -9.99, 9.99, 10, 0.1} {
			c.diffEval("$formatNumber(x, p)", map[string]interface{}{"x": x, "p": pc}, "formatNumber-exponent")
		}
	}
	for _, o := range []string{`{"percent": "pc"}`, `{"per-mille": "pm"}`, `{"minus-sign": "~"}`, `{"digit": "@"}`, `{"pattern-separator": "|"}`,
		`{"exponent-separator": "E"}`, `{"infinity": "inf", "NaN": "nan"}`, `{"zero-digit": "ab"}`, `{"decimal-separator": ""}`, `{"unknown": "x"}`,
		`{"digit": 1}`, `{"percent": ""}`, `5`, `[1]`, `{}`, `{"grouping-separator": "é"}`} {
		for _, pc := range []string{"#,##0.00", "0.0pc", "@@0.0", "0.0|(0.0)", "0.0E0", "0é000", "0.0%"} {
			c.diffEval("$formatNumber(x, p, "+o+")", map[string]interface{}{"x": -1234.5, "p": pc}, "formatNumber-options")
			c.diffEval("$formatNumber(x, p, "+o+")", map[string]interface{}{"x": 0.125, "p": pc}, "formatNumber-options")
		}
	}
	c.diffEval(`"0.0" ~> $formatNumber`, 1.25, "formatNumber-context")
	c.diffEval(`x.$formatNumber("0.0")`, map[string]interface{}{"x": []interface{}{1.25, 2.35}}, "formatNumber-context")
	c.diffEval(`$formatNumber(1, "")`, nil, "formatNumber-empty")
}

func decodeHexAtom(a string) string {
	if !strings.HasPrefix(a, "s") {
		return ""
	}
	b, err := hexDecode(a[1:])
	if err != nil {
		return ""
	}
	return string(b)
}

func hexDecode(s string) ([]byte, error) { return hex.DecodeString(s) }

func sortedInts(m map[int]bool) []int {
	var out []int
	for k := range m {
		out = append(out, k)
	}
	for i := 1; i < len(out); i++ {
		for j := i; j > 0 && out[j] < out[j-1]; j-- {
			out[j], out[j-1] = out[j-1], out[j]
		}
	}
	return out
}
