package main

// harness — correspondence between the implementation in /repo and the Lean model.
//
//   harness run <Cxx> --tier quick|thorough --seed N --report <file>
//   harness replay <replay.json>
//
// Exit status 0 = ran to completion (disagreements are in the report), 2 = broken.

import (
	"encoding/json"
	"flag"
	"fmt"
	"os"
	"strconv"
)

var checks = map[string]func(*ctx){
	"C01": runC01,
	"C02": runC02,
	"C03": runC03,
	"C04": runC04,
	"C05": runC05,
	"C06": runC06,
	"C07": runC07,
	"C08": runC08,
	"C09": runC09,
	"C10": runC10,
	"C11": runC11,
	"C12": runC12,
	"C13": runC13,
	"C14": runC14,
	"C15": runC15,
	"C16": runC16,
	"C17": runC17,
	"C18": runC18,
	"C19": runC19,
	"C20": runC20,
}

func main() {
	if len(os.Args) < 2 {
		usage()
	}
	switch os.Args[1] {
	case "run":
		cmdRun(os.Args[2:])
	case "replay":
		cmdReplay(os.Args[2:])
	case "try":
		// harness try '<program>' ['<json input>'] — run the real implementation only
		var in interface{}
		if len(os.Args) > 3 {
			if err := json.Unmarshal([]byte(os.Args[3]), &in); err != nil {
				fmt.Fprintln(os.Stderr, err)
				os.Exit(2)
			}
		}
		fmt.Println(goEval(os.Args[2], in).outcome)
		if os.Getenv("TRY_REPEAT") != "" {
			seen := map[string]int{}
			for i := 0; i < 50; i++ {
				seen[goEval(os.Args[2], in).outcome]++
			}
			fmt.Println(seen, inherentlyVaries(os.Args[2], in))
		}
	default:
		usage()
	}
}

func usage() {
	fmt.Fprintln(os.Stderr, "usage: harness run <Cxx> [--tier quick|thorough] [--seed N] [--report file] | harness replay <file>")
	os.Exit(2)
}

func cmdRun(args []string) {
	if len(args) < 1 {
		usage()
	}
	prop := args[0]
	fs := flag.NewFlagSet("run", flag.ExitOnError)
	tier := fs.String("tier", "quick", "")
	native := fs.String("native", "", "override the Go-native conversion classes (experiments)")
	seed := fs.Int64("seed", envSeed(), "")
	report := fs.String("report", "", "")
	fs.Parse(args[1:])
	if *native != "" {
		nativeClasses = *native
	}
	f, ok := checks[prop]
	if !ok {
		fmt.Fprintf(os.Stderr, "harness: no correspondence check for %s\n", prop)
		os.Exit(2)
	}
	c, err := newCtx(prop, *tier, *seed)
	if err != nil {
		fmt.Fprintln(os.Stderr, "harness:", err)
		os.Exit(2)
	}
	f(c)
	rep := c.finish()
	b, merr := json.MarshalIndent(rep, "", " ")
	if merr != nil {
		// a sample or input holds a value JSON cannot carry (a broken implementation can return
		// such values): keep the textual forms only
		for i := range rep.Samples {
			rep.Samples[i] = jsonSafe(rep.Samples[i])
		}
		for i := range rep.Disagreements {
			rep.Disagreements[i].Input = jsonSafe(rep.Disagreements[i].Input)
		}
		for i := range rep.KnownHits {
			rep.KnownHits[i].Input = jsonSafe(rep.KnownHits[i].Input)
		}
		b, merr = json.MarshalIndent(rep, "", " ")
		if merr != nil {
			rep.Samples = nil
			b, _ = json.MarshalIndent(rep, "", " ")
		}
	}
	if *report != "" {
		if err := os.WriteFile(*report, b, 0o644); err != nil {
			fmt.Fprintln(os.Stderr, "harness:", err)
			os.Exit(2)
		}
	} else {
		os.Stdout.Write(b)
	}
	fmt.Fprintf(os.Stderr, "harness %s: %d cases, %d distinct, %d skipped, %d disagreements, %d known, %.1fs\n",
		prop, rep.Cases, rep.Distinct, rep.Skipped, len(rep.Disagreements), len(rep.KnownHits), rep.WallS)
}

func envSeed() int64 {
	if s := os.Getenv("VERIF_SEED"); s != "" {
		if n, err := strconv.ParseInt(s, 10, 64); err == nil {
			return n
		}
	}
	return 1
}

// cmdReplay re-runs one recorded case against the current tree and the model.
func cmdReplay(args []string) {
	if len(args) < 1 {
		usage()
	}
	b, err := os.ReadFile(args[0])
	if err != nil {
		fmt.Fprintln(os.Stderr, err)
		os.Exit(2)
	}
	var rf struct {
		Property string       `json:"property"`
		Case     Disagreement `json:"case"`
	}
	if err := json.Unmarshal(b, &rf); err != nil {
		fmt.Fprintln(os.Stderr, err)
		os.Exit(2)
	}
	d, err := startDriver()
	if err != nil {
		fmt.Fprintln(os.Stderr, err)
		os.Exit(2)
	}
	defer d.close()
	fmt.Printf("property: %s\nkind: %s\nprogram: %s\n", rf.Property, rf.Case.Kind, rf.Case.Prog)
	ij, _ := json.Marshal(rf.Case.Input)
	fmt.Printf("input: %s\nrecorded go: %s\nrecorded model: %s\n", ij, rf.Case.Go, rf.Case.Model)
	if rf.Case.Prog != "" {
		g := goEval(rf.Case.Prog, rf.Case.Input)
		m, err := d.modelEval(rf.Case.Prog, rf.Case.Input)
		if err != nil {
			m = "unparsed: " + err.Error()
		}
		fmt.Printf("now go: %s\nnow model: %s\n", g.outcome, normaliseModel(m))
		if g.outcome != normaliseModel(m) {
			fmt.Println("STILL-DISAGREES")
			os.Exit(1)
		}
		fmt.Println("AGREES-NOW")
	}
}
