package main

// Generators shared by several properties: JSON documents and literal syntax.

import (
	"encoding/json"
	"fmt"
	"math"
	"regexp"
	"sort"
	"strconv"
	"strings"
)

func regexpMatch(re, s string) (bool, error) { return regexp.MatchString(re, s) }

type docOpts struct {
	depth      int
	width      int
	names      []string
	leaves     []interface{}
	singleObjs bool // objects have at most one member (order-sensitive consumers)
	arrInArr   int  // chance (in 10) that an array member is itself an array
}

var defaultLeaves = []interface{}{0.0, 1.0, 2.0, -1.0, 2.5, "x", "y", "", true, false}

func defaultDocOpts() docOpts {
	return docOpts{depth: 4, width: 3, names: []string{"a", "b", "c"}, leaves: defaultLeaves, arrInArr: 3}
}

// genDoc generates a null-free JSON document.
func genDoc(r *rng, o docOpts, depth int) interface{} {
	if depth <= 0 || r.chance(2, 10) {
		return o.leaves[r.intn(len(o.leaves))]
	}
	if r.chance(1, 2) {
		return genObj(r, o, depth)
	}
	return genArr(r, o, depth)
}

func genObj(r *rng, o docOpts, depth int) map[string]interface{} {
	m := map[string]interface{}{}
	n := r.intn(o.width + 1)
	if o.singleObjs && n > 1 {
		n = 1
	}
	for i := 0; i < n; i++ {
		m[o.names[r.intn(len(o.names))]] = genDoc(r, o, depth-1)
	}
	return m
}

func genArr(r *rng, o docOpts, depth int) []interface{} {
	n := r.intn(o.width + 1)
	a := make([]interface{}, 0, n)
	for i := 0; i < n; i++ {
		if r.chance(o.arrInArr, 10) && depth > 1 {
			a = append(a, genArr(r, o, depth-1))
		} else if r.chance(6, 10) && depth > 1 {
			a = append(a, genObj(r, o, depth-1))
		} else {
			a = append(a, genDoc(r, o, depth-1))
		}
	}
	return a
}

// jsonLit renders a Go JSON value as JSONata/JSON literal text.
func jsonLit(v interface{}) string {
	switch v := v.(type) {
	case nil:
		return "null"
	case bool:
		if v {
			return "true"
		}
		return "false"
	case float64:
		return numLit(v)
	case int:
		return strconv.Itoa(v)
	case string:
		b, _ := json.Marshal(v)
		return string(b)
	case []interface{}:
		parts := make([]string, len(v))
		for i, x := range v {
			parts[i] = jsonLit(x)
		}
		return "[" + strings.Join(parts, ", ") + "]"
	case map[string]interface{}:
		keys := make([]string, 0, len(v))
		for k := range v {
			keys = append(keys, k)
		}
		sort.Strings(keys)
		parts := make([]string, len(keys))
		for i, k := range keys {
			parts[i] = jsonLit(k) + ": " + jsonLit(v[k])
		}
		return "{" + strings.Join(parts, ", ") + "}"
	}
	return fmt.Sprintf("%v", v)
}

// numLit renders a finite double as a JSONata number literal denoting exactly it.
func numLit(f float64) string {
	if f == 0 && math.Signbit(f) {
		return "-0"
	}
	s := strconv.FormatFloat(f, 'g', -1, 64)
	// JSONata's lexer does not accept "1e+21"-style exponents with '+', it does; but
	// it does not accept a leading '.', which FormatFloat never produces.
	return s
}

// deepCopy clones a JSON value.
func deepCopy(v interface{}) interface{} {
	switch v := v.(type) {
	case []interface{}:
		a := make([]interface{}, len(v))
		for i, x := range v {
			a[i] = deepCopy(x)
		}
		return a
	case map[string]interface{}:
		m := make(map[string]interface{}, len(v))
		for k, x := range v {
			m[k] = deepCopy(x)
		}
		return m
	}
	return v
}

// typedVariant rebuilds a generic JSON tree with Go-native typed containers where the members
// allow it ([]map[string]interface{}, []string, []float64): callers may hand such values to Eval,
// and code that special-cases []interface{} / map[string]interface{} must not treat the others
// as private or immutable.
func typedVariant(v interface{}) interface{} {
	switch x := v.(type) {
	case map[string]interface{}:
		out := make(map[string]interface{}, len(x))
		for k, e := range x {
			out[k] = typedVariant(e)
		}
		return out
	case []interface{}:
		if len(x) == 0 {
			return x
		}
		allMap, allStr, allNum := true, true, true
		for _, e := range x {
			switch e.(type) {
			case map[string]interface{}:
				allStr, allNum = false, false
			case string:
				allMap, allNum = false, false
			case float64:
				allMap, allStr = false, false
			default:
				allMap, allStr, allNum = false, false, false
			}
		}
		switch {
		case allMap:
			out := make([]map[string]interface{}, len(x))
			for i, e := range x {
				out[i] = typedVariant(e).(map[string]interface{})
			}
			return out
		case allStr:
			out := make([]string, len(x))
			for i, e := range x {
				out[i] = e.(string)
			}
			return out
		case allNum:
			out := make([]float64, len(x))
			for i, e := range x {
				out[i] = e.(float64)
			}
			return out
		}
		out := make([]interface{}, len(x))
		for i, e := range x {
			out[i] = typedVariant(e)
		}
		return out
	}
	return v
}

type namedStr string

// goNative rebuilds a generic JSON tree with the Go types a caller may legitimately use instead of
// the encoding/json ones: integral numbers as int / int64 / uint8 / uint16 / float32 (when exactly
// representable), strings as a named string type or *string, arrays as typed slices, maps as
// map[string]T, and the same container reachable twice when it occurs twice with equal content.
// The JSONata meaning of the document is unchanged.
func goNative(r *rng, v interface{}) interface{} {
	out := goNativeClass(r, v, nativeClasses)
	if strings.Contains(nativeClasses, "s") {
		out = shareEqual(out, map[string]interface{}{})
	}
	return out
}

// shareEqual makes equal non-empty containers of a document one and the same Go value (a caller may
// build a document that way: one address map used by two records). The JSON meaning is unchanged.
func shareEqual(v interface{}, seen map[string]interface{}) interface{} {
	switch x := v.(type) {
	case map[string]interface{}:
		for k, e := range x {
			x[k] = shareEqual(e, seen)
		}
		if len(x) == 0 {
			return x
		}
		key := "m" + valueSexp(x)
		if prev, ok := seen[key]; ok {
			return prev
		}
		seen[key] = x
		return x
	case []interface{}:
		for i, e := range x {
			x[i] = shareEqual(e, seen)
		}
		if len(x) == 0 {
			return x
		}
		key := "a" + valueSexp(x)
		if prev, ok := seen[key]; ok {
			return prev
		}
		seen[key] = x
		return x
	}
	return v
}

// nativeClasses selects which conversions goNative applies (letters: i int/int64, u uint8/uint16,
// f float32, n named string, p *string, t typed slices, s equal containers shared). Named string types and *string are off:
// the library does not accept them as strings (an API limitation on the unchanged tree, outside
// the properties' quantifier "JSON inputs").
var nativeClasses = "tiufs"

func goNativeClass(r *rng, v interface{}, cls string) interface{} {
	has := func(c string) bool { return strings.Contains(cls, c) }
	switch x := v.(type) {
	case float64:
		if negZero := x == 0 && math.Signbit(x); negZero {
			// -0 has no integer representation: converting it would change the value, not its Go type
			return x
		} else if x == float64(int64(x)) && x >= 0 && x < 200 {
			switch r.intn(6) {
			case 0:
				if has("i") {
					return int(x)
				}
			case 1:
				if has("i") {
					return int64(x)
				}
			case 2:
				if has("u") {
					return uint8(x)
				}
			case 3:
				if has("u") {
					return uint16(x)
				}
			case 4:
				if has("f") {
					return float32(x)
				}
			}
		} else if x == float64(int64(x)) && x > -1e9 && x < 1e9 && r.chance(1, 2) && has("i") {
			return int(x)
		}
		return x
	case string:
		switch r.intn(5) {
		case 0:
			if has("n") {
				return namedStr(x)
			}
		case 1:
			if has("p") {
				s := x
				return &s
			}
		}
		return x
	case map[string]interface{}:
		out := make(map[string]interface{}, len(x))
		for k, e := range x {
			out[k] = goNativeClass(r, e, cls)
		}
		return out
	case []interface{}:
		// spare capacity: a caller's slice (or one grown by encoding/json) usually has cap > len;
		// code that appends to it writes into the caller's backing array
		out := make([]interface{}, len(x), len(x)+1+r.intn(4))
		for i, e := range x {
			out[i] = goNativeClass(r, e, cls)
		}
		if has("t") && r.chance(1, 2) {
			return typedVariant(out)
		}
		return out
	}
	return v
}

// exoticString: legal strings of the kinds ordinary examples never contain: control characters, DEL, the replacement
// character inside a longer string, non-characters and unassigned astral code points, combining marks, two-, three- and
// four-byte characters, long runs, strings of exactly 16/32/64/256 characters, picture- and pattern-like texts with
// characters outside ASCII in every position.
func exoticString(r *rng) string {
	units := []string{"\x01", "\x07", "\x0b", "\x1b", "\x7f", "\u0085", "\u00a0", "\u2028", "\ufffd", "\U000E0001", "\U0010FFFF", "e\u0301", "é", "ß", "日", "本", "😀", "👨\u200d👩", "Ａ", "ﬁ", "𐍈",
		"a", "z", "0", " ", ",", "\"", "\\", "/", "%", "$", "[", "]", "#", ";", "."}
	switch r.intn(8) {
	case 0:
		return units[r.intn(len(units))]
	case 1:
		n := []int{15, 16, 17, 31, 32, 33, 63, 64, 65, 255, 256, 257, 1000}[r.intn(13)]
		u := units[r.intn(len(units))]
		return strings.Repeat(u, n)
	case 2:
		// a picture or pattern with one foreign character put in
		base := []string{"[Y0001]-[M01]-[D01]", "[H01]:[m01]:[s01] [Z]", "[D1o] [MNn] [Y]", "[Y]", "[F]", "#,##0.00", "0.0e0", "00%", "#0;(#0)", "w", "I", "A", "#,##0", "1", "[Y,2]", "[M01]/[D01]"}[r.intn(16)]
		rs := []rune(base)
		i := r.intn(len(rs) + 1)
		u := units[r.intn(len(units))]
		if r.chance(1, 2) && i < len(rs) {
			return string(rs[:i]) + u + string(rs[i+1:])
		}
		return string(rs[:i]) + u + string(rs[i:])
	case 3:
		return "[" + units[r.intn(len(units))] + []string{"", "01", ",3", "n", "1o"}[r.intn(5)] + "]"
	default:
		var b strings.Builder
		for i, n := 0, 1+r.intn(7); i < n; i++ {
			b.WriteString(units[r.intn(len(units))])
		}
		return b.String()
	}
}

// strLit: a JSONata string literal denoting s (JSON escapes are JSONata escapes).
func strLit(s string) string {
	b, _ := json.Marshal(s)
	out := string(b)
	// encoding/json escapes <, > and & as \u003c...: fine for JSONata as well
	return out
}
