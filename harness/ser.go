package main

// Serialisation of syntax trees and values into the line protocol shared with
// the Lean driver (lean/JsonataModel/Model/Proto.lean).

import (
	"encoding/hex"
	"fmt"
	"math"
	"reflect"
	"sort"
	"strings"

	"github.com/blues/jsonata-go/jparse"
	"github.com/blues/jsonata-go/jtypes"
)

func hexStr(s string) string { return "s" + hex.EncodeToString([]byte(s)) }

func numAtom(f float64) string {
	if math.IsNaN(f) {
		return "n7ff8000000000000"
	}
	return fmt.Sprintf("n%016x", math.Float64bits(f))
}

// ---- values ---------------------------------------------------------------

var typeCallable = reflect.TypeOf((*jtypes.Callable)(nil)).Elem()

// valueSexp renders a Go value (an Eval result or an input document) in the
// canonical protocol form. Types that are not JSON-representable are rendered
// as X<type> so that a leaked evaluator-internal type can never compare equal.
func valueSexp(v interface{}) string {
	var b strings.Builder
	writeValue(&b, reflect.ValueOf(v), 0)
	return b.String()
}

func writeValue(b *strings.Builder, v reflect.Value, depth int) {
	if depth > 200 {
		b.WriteString("Xdeep")
		return
	}
	if !v.IsValid() {
		b.WriteString("z")
		return
	}
	if v.Type().Implements(typeCallable) || reflect.PtrTo(v.Type()).Implements(typeCallable) {
		// a function value (possibly dereferenced): marshals as ""
		b.WriteString("F")
		return
	}
	switch v.Kind() {
	case reflect.Interface:
		if v.IsNil() {
			b.WriteString("z")
			return
		}
		writeValue(b, v.Elem(), depth+1)
	case reflect.Ptr:
		if v.IsNil() {
			// the evaluator's null is (*interface{})(nil)
			if v.Type().Elem().Kind() == reflect.Interface {
				b.WriteString("z")
				return
			}
			b.WriteString("X" + v.Type().String())
			return
		}
		switch v.Type().Elem().Kind() {
		case reflect.Struct, reflect.Func, reflect.Chan, reflect.UnsafePointer:
			// pointers to internal objects (e.g. the evaluator's sequence) must stay visible
			b.WriteString("X" + v.Type().String())
		default:
			// a pointer to a JSON value the caller put into the input (encoding/json marshals it as the value)
			writeValue(b, v.Elem(), depth+1)
		}
	case reflect.Bool:
		if v.Bool() {
			b.WriteString("t")
		} else {
			b.WriteString("f")
		}
	case reflect.Float32, reflect.Float64:
		b.WriteString(numAtom(v.Float()))
	case reflect.Int, reflect.Int8, reflect.Int16, reflect.Int32, reflect.Int64:
		b.WriteString(numAtom(float64(v.Int())))
	case reflect.Uint, reflect.Uint8, reflect.Uint16, reflect.Uint32, reflect.Uint64:
		b.WriteString(numAtom(float64(v.Uint())))
	case reflect.String:
		b.WriteString(hexStr(v.String()))
	case reflect.Slice, reflect.Array:
		b.WriteString("(a")
		for i := 0; i < v.Len(); i++ {
			b.WriteString(" ")
			writeValue(b, v.Index(i), depth+1)
		}
		b.WriteString(")")
	case reflect.Map:
		if v.Type().Key().Kind() != reflect.String {
			b.WriteString("X" + v.Type().String())
			return
		}
		keys := v.MapKeys()
		sort.Slice(keys, func(i, j int) bool { return keys[i].String() < keys[j].String() })
		b.WriteString("(o")
		for _, k := range keys {
			b.WriteString(" ")
			b.WriteString(hexStr(k.String()))
			b.WriteString(" ")
			writeValue(b, v.MapIndex(k), depth+1)
		}
		b.WriteString(")")
	default:
		b.WriteString("X" + v.Type().String())
	}
}

// ---- syntax trees ---------------------------------------------------------

func nodesSexp(ns []jparse.Node) string {
	var parts []string
	for _, n := range ns {
		parts = append(parts, nodeSexp(n))
	}
	if len(parts) == 0 {
		return ""
	}
	return " " + strings.Join(parts, " ")
}

func pairsSexp(ps [][2]jparse.Node) string {
	var b strings.Builder
	for _, p := range ps {
		b.WriteString(" " + nodeSexp(p[0]) + " " + nodeSexp(p[1]))
	}
	return b.String()
}

func paramSexp(p jparse.Param) string {
	opt := "_"
	switch p.Option {
	case jparse.ParamOptional:
		opt = "?"
	case jparse.ParamVariadic:
		opt = "+"
	case jparse.ParamContextable:
		opt = "-"
	}
	s := fmt.Sprintf("(p %d %s", uint(p.Type), opt)
	for _, sp := range p.SubParams {
		s += " " + paramSexp(sp)
	}
	return s + ")"
}

func namesSexp(names []string) string {
	s := "(params"
	for _, n := range names {
		s += " " + hexStr(n)
	}
	return s + ")"
}

// nodeSexp serialises the exported AST returned by jparse.Parse.
// regexSubjects, when non-nil, makes nodeSexp attach the regexp engine's matches on these
// subject strings to every regex literal (set by modelEval only).
var regexSubjects []string

func nodeSexp(n jparse.Node) string {
	switch n := n.(type) {
	case *jparse.StringNode:
		return "(str " + hexStr(n.Value) + ")"
	case *jparse.NumberNode:
		return "(num " + numAtom(n.Value) + ")"
	case *jparse.BooleanNode:
		if n.Value {
			return "(bool t)"
		}
		return "(bool f)"
	case *jparse.NullNode:
		return "(null)"
	case *jparse.RegexNode:
		s := ""
		if n.Value != nil {
			s = n.Value.String()
		}
		if n.Value == nil || regexSubjects == nil {
			return "(regex " + hexStr(s) + ")"
		}
		// the engine's graph on the candidate subjects (the model takes the engine as a parameter)
		var b strings.Builder
		b.WriteString("(regex " + hexStr(s))
		for _, subj := range regexSubjects {
			b.WriteString(" (t " + hexStr(subj))
			for _, ix := range n.Value.FindAllStringSubmatchIndex(subj, -1) {
				fmt.Fprintf(&b, " (m %d %d %s", ix[0], ix[1], hexStr(subj[ix[0]:ix[1]]))
				for j := 1; j < len(ix)/2; j++ {
					g := ""
					if ix[2*j] >= 0 {
						g = subj[ix[2*j]:ix[2*j+1]]
					}
					b.WriteString(" " + hexStr(g))
				}
				b.WriteString(")")
			}
			b.WriteString(")")
		}
		b.WriteString(")")
		return b.String()
	case *jparse.VariableNode:
		return "(var " + hexStr(n.Name) + ")"
	case *jparse.NameNode:
		return "(name " + hexStr(n.Value) + ")"
	case *jparse.PathNode:
		k := "k"
		if n.KeepArrays {
			k = "K"
		}
		return "(path " + k + nodesSexp(n.Steps) + ")"
	case *jparse.NegationNode:
		return "(neg " + nodeSexp(n.RHS) + ")"
	case *jparse.RangeNode:
		return "(range " + nodeSexp(n.LHS) + " " + nodeSexp(n.RHS) + ")"
	case *jparse.ArrayNode:
		return "(array" + nodesSexp(n.Items) + ")"
	case *jparse.ObjectNode:
		return "(object" + pairsSexp(n.Pairs) + ")"
	case *jparse.BlockNode:
		return "(block" + nodesSexp(n.Exprs) + ")"
	case *jparse.WildcardNode:
		return "(wild)"
	case *jparse.DescendentNode:
		return "(desc)"
	case *jparse.ObjectTransformationNode:
		s := "(transform " + nodeSexp(n.Pattern) + " " + nodeSexp(n.Updates)
		if n.Deletes != nil {
			s += " " + nodeSexp(n.Deletes)
		}
		return s + ")"
	case *jparse.LambdaNode:
		return "(lambda " + namesSexp(n.ParamNames) + " " + nodeSexp(n.Body) + ")"
	case *jparse.TypedLambdaNode:
		s := "(tlambda " + namesSexp(n.ParamNames) + " (sig"
		for _, p := range n.In {
			s += " " + paramSexp(p)
		}
		return s + ") " + nodeSexp(n.Body) + ")"
	case *jparse.PartialNode:
		return "(partial " + nodeSexp(n.Func) + nodesSexp(n.Args) + ")"
	case *jparse.PlaceholderNode:
		return "(ph)"
	case *jparse.FunctionCallNode:
		return "(call " + nodeSexp(n.Func) + nodesSexp(n.Args) + ")"
	case *jparse.PredicateNode:
		return "(pred " + nodeSexp(n.Expr) + nodesSexp(n.Filters) + ")"
	case *jparse.GroupNode:
		return "(group " + nodeSexp(n.Expr) + pairsSexp(n.Pairs) + ")"
	case *jparse.ConditionalNode:
		s := "(cond " + nodeSexp(n.If) + " " + nodeSexp(n.Then)
		if n.Else != nil {
			s += " " + nodeSexp(n.Else)
		}
		return s + ")"
	case *jparse.AssignmentNode:
		return "(assign " + hexStr(n.Name) + " " + nodeSexp(n.Value) + ")"
	case *jparse.NumericOperatorNode:
		return "(numop " + n.Type.String() + " " + nodeSexp(n.LHS) + " " + nodeSexp(n.RHS) + ")"
	case *jparse.ComparisonOperatorNode:
		return "(cmpop " + n.Type.String() + " " + nodeSexp(n.LHS) + " " + nodeSexp(n.RHS) + ")"
	case *jparse.BooleanOperatorNode:
		return "(boolop " + n.Type.String() + " " + nodeSexp(n.LHS) + " " + nodeSexp(n.RHS) + ")"
	case *jparse.StringConcatenationNode:
		return "(concat " + nodeSexp(n.LHS) + " " + nodeSexp(n.RHS) + ")"
	case *jparse.SortNode:
		s := "(sort " + nodeSexp(n.Expr)
		for _, t := range n.Terms {
			d := "d"
			switch t.Dir {
			case jparse.SortAscending:
				d = "<"
			case jparse.SortDescending:
				d = ">"
			}
			s += " (term " + d + " " + nodeSexp(t.Expr) + ")"
		}
		return s + ")"
	case *jparse.FunctionApplicationNode:
		return "(apply " + nodeSexp(n.LHS) + " " + nodeSexp(n.RHS) + ")"
	default:
		return fmt.Sprintf("(unknown %T)", n)
	}
}
