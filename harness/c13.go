package main

// C13 — order-by and $sort return stable, correctly ordered permutations.
// C14 — object construction, grouping and object functions.
// C15 — array, higher-order and aggregate functions.

import (
	"fmt"
	"sort"
	"strings"
)

// ---- C13 -----------------------------------------------------------------------

// sortDoc builds an array of objects {id, k, s, m?} whose sort members range over
// small domains with many ties; id records the input position.
func sortDoc(r *rng, n int, withBad bool) []interface{} {
	arr := make([]interface{}, n)
	for i := range arr {
		o := map[string]interface{}{"id": float64(i)}
		if !r.chance(1, 6) {
			o["k"] = float64(r.intn(3))
		}
		if !r.chance(1, 6) {
			// code-point order incl. proper prefixes ("a" < "ab" < "abc"), the empty string, astral vs BMP characters
			o["s"] = []string{"a", "b", "é", "ab", "abc", "", "aé", "😀", "\uffee", "a😀", "B", "aa"}[r.intn(12)]
		}
		if r.chance(1, 2) {
			o["m"] = float64(r.intn(2))
		}
		if withBad && r.chance(1, 8) {
			switch r.intn(3) {
			case 0:
				o["k"] = true
			case 1:
				o["k"] = []interface{}{1.0}
			case 2:
				o["k"] = "x" // mixed number/string within one key
			}
		}
		arr[i] = o
	}
	return arr
}

var c13Terms = []string{"k", "s", "m", "k + 1", "-k", "$", "id", "s & \"z\"", "nothing", "$string(k)"}

func genSortSpec(r *rng) string {
	n := 1 + r.intn(3)
	ts := make([]string, n)
	for i := range ts {
		ts[i] = []string{"", "<", ">"}[r.intn(3)] + c13Terms[r.intn(len(c13Terms)-1)]
	}
	return strings.Join(ts, ", ")
}

// checkSortedOutput verifies permutation / order / stability directly on the
// implementation's output for simple member keys (independent of the model).
func checkStable(in []interface{}, out interface{}, keys []string, desc []bool) string {
	outArr, ok := out.([]interface{})
	if !ok {
		if len(in) == 1 {
			outArr = []interface{}{out}
		} else {
			return "result is not an array"
		}
	}
	if len(outArr) != len(in) {
		return fmt.Sprintf("length %d != %d", len(outArr), len(in))
	}
	seen := map[float64]bool{}
	ids := make([]float64, len(outArr))
	for i, o := range outArr {
		m, ok := o.(map[string]interface{})
		if !ok {
			return "member is not an object"
		}
		id, _ := m["id"].(float64)
		if seen[id] {
			return "not a permutation (duplicate id)"
		}
		seen[id] = true
		ids[i] = id
	}
	less := func(a, b map[string]interface{}) int {
		for t, k := range keys {
			va, oka := a[k]
			vb, okb := b[k]
			switch {
			case !oka && !okb:
				continue
			case !oka:
				return 1
			case !okb:
				return -1
			}
			c := 0
			switch x := va.(type) {
			case float64:
				y := vb.(float64)
				if x < y {
					c = -1
				} else if x > y {
					c = 1
				}
			case string:
				y := vb.(string)
				c = strings.Compare(x, y)
			}
			if desc[t] {
				c = -c
			}
			if c != 0 {
				return c
			}
		}
		return 0
	}
	for i := 0; i+1 < len(outArr); i++ {
		a := outArr[i].(map[string]interface{})
		b := outArr[i+1].(map[string]interface{})
		c := less(a, b)
		if c > 0 {
			return fmt.Sprintf("adjacent items %d,%d out of order", i, i+1)
		}
		if c == 0 && ids[i] > ids[i+1] {
			return fmt.Sprintf("tie at %d,%d not in input order (unstable)", i, i+1)
		}
	}
	return ""
}

func runC13(c *ctx) {
	stmtAnchored(c)
	c.rep.Rule = "arrays of objects with sort members over 3-value number/string domains (many ties, missing members, " +
		"mis-typed members for the error clause); sort specifications of 1..3 terms with every direction marker, keys being members, " +
		"computed expressions or $; $sort default and with comparators from strict weak orders; lengths 0..8 exhaustive-ish and 13..200 random " +
		"(stability is only observable above 12 items); direct permutation/order/stability check on the implementation's output plus equality with the model"
	r := c.rng.fork()
	run := func(prog string, doc interface{}, bucket string) {
		g, _, ok := c.diffEval(prog, doc, bucket)
		_ = g
		_ = ok
	}
	// direct check of order-by on member keys
	direct := func(arr []interface{}, keys []string, desc []bool, bucket string) {
		terms := make([]string, len(keys))
		for i, k := range keys {
			d := ""
			if desc[i] {
				d = ">"
			} else if r.chance(1, 2) {
				d = "<"
			}
			terms[i] = d + k
		}
		prog := "$^(" + strings.Join(terms, ", ") + ")"
		gr := goEval(prog, arr)
		c.note(prog+"\x00"+valueSexp(arr), bucket, true)
		if gr.err == nil && gr.panicV == nil {
			if msg := checkStable(arr, gr.value, keys, desc); msg != "" {
				c.disagree(Disagreement{Kind: "stable-sort", Prog: prog, Input: arr, InputS: valueSexp(arr), Go: gr.outcome, Model: "stable sorted permutation expected", Detail: msg})
			}
		}
		run(prog, arr, bucket)
	}
	keysets := [][]string{{"k"}, {"s"}, {"k", "s"}, {"s", "k"}, {"m", "k"}, {"k", "m", "s"}}
	// small lengths: many arrays per length
	c.rep.Exhaustive = append(c.rep.Exhaustive, "lengths 0..8 x key sets x direction combinations (random ties/missing)")
	for n := 0; n <= 8; n++ {
		for rep := 0; rep < c.scale(6, 60); rep++ {
			arr := sortDoc(r, n, false)
			for _, ks := range keysets {
				for mask := 0; mask < 1<<uint(len(ks)); mask++ {
					desc := make([]bool, len(ks))
					for i := range ks {
						desc[i] = mask&(1<<uint(i)) != 0
					}
					direct(arr, ks, desc, fmt.Sprintf("small/%d", n))
				}
			}
		}
	}
	// long arrays (13..200)
	for rep := 0; rep < c.scale(60, 1500) && !c.tooMany(); rep++ {
		n := 13 + r.intn(188)
		arr := sortDoc(r, n, false)
		ks := keysets[r.intn(len(keysets))]
		desc := make([]bool, len(ks))
		for i := range desc {
			desc[i] = r.chance(1, 2)
		}
		direct(arr, ks, desc, "long")
	}
	// keys written as built-in calls that take the item from the context (the argument is left out): each item's key is
	// computed from that item
	for rep := 0; rep < c.scale(150, 3000) && !c.tooMany(); rep++ {
		n := 2 + r.intn(7)
		words := make([]interface{}, n)
		nums := make([]interface{}, n)
		numStrs := make([]interface{}, n)
		for i := 0; i < n; i++ {
			words[i] = []string{"b", "A", "cc", "", "a", "Bb", "ccc", "é", "z"}[r.intn(9)]
			nums[i] = float64(r.intn(21) - 10)
			numStrs[i] = fmt.Sprint(r.intn(30) - 5)
		}
		docs := map[string]interface{}{"words": words, "nums": nums, "ns": numStrs}
		for _, prog := range []string{"ns^($number())", "ns^(>$number())", "nums^($string())", "nums^(>$string())", "words^($lowercase())", "words^($uppercase(), $)", "words^($length(), $)",
			"words^(>$length(), $lowercase())", "ns^(-$number())", "nums^($string() & \"z\")", "ns^($number() + 1)", "words^($length())", "ns^($number($))", "words^($lowercase($))",
			"ns^($number() % 3, $number())", "words^($substring(1))", "words^($pad(3))", "nums^($abs())", "nums^($power(2), $)"} {
			c.diffEval(prog, docs, "context-default-keys")
		}
	}
	// general specs incl. computed keys and error clause
	for rep := 0; rep < c.scale(1500, 30000) && !c.tooMany(); rep++ {
		n := r.intn(10)
		if r.chance(1, 5) {
			n = 13 + r.intn(40)
		}
		arr := sortDoc(r, n, r.chance(1, 3))
		prog := "$^(" + genSortSpec(r) + ")"
		if r.chance(1, 4) {
			prog = "$^(" + genSortSpec(r) + ").id"
		}
		run(prog, arr, "spec")
	}
	// $sort
	for rep := 0; rep < c.scale(1500, 30000) && !c.tooMany(); rep++ {
		n := r.intn(10)
		if r.chance(1, 4) {
			n = 13 + r.intn(60)
		}
		switch r.intn(6) {
		case 0: // numbers
			a := make([]interface{}, n)
			for i := range a {
				a[i] = float64(r.intn(7) - 3)
			}
			run("$sort($)", a, "sort/num")
		case 1:
			a := make([]interface{}, n)
			for i := range a {
				a[i] = []string{"b", "a", "é", "ab", "", "B"}[r.intn(6)]
			}
			run("$sort($)", a, "sort/str")
		case 2: // mixed → error
			a := make([]interface{}, n)
			for i := range a {
				a[i] = defaultLeaves[r.intn(len(defaultLeaves))]
			}
			run("$sort($)", a, "sort/mixed")
		case 3: // comparator on one member
			arr := sortDoc(r, n, false)
			for i := range arr {
				arr[i].(map[string]interface{})["k"] = float64(r.intn(3))
			}
			run("$sort($, function($x, $y){$x.k > $y.k})", arr, "sort/cmp1")
			run("$sort($, function($x, $y){$x.k > $y.k}).id", arr, "sort/cmp1")
		case 4: // comparator on two members
			arr := sortDoc(r, n, false)
			for i := range arr {
				arr[i].(map[string]interface{})["k"] = float64(r.intn(3))
				arr[i].(map[string]interface{})["m"] = float64(r.intn(2))
			}
			run("$sort($, function($x, $y){$x.k > $y.k or ($x.k = $y.k and $x.m < $y.m)}).id", arr, "sort/cmp2")
		case 5: // scalars, missing, non-boolean comparator
			run("$sort(k)", map[string]interface{}{"k": 3.0}, "sort/scalar")
			run("$sort(nothing)", map[string]interface{}{}, "sort/missing")
			run("$sort([3,1,2], function($x, $y){1})", map[string]interface{}{}, "sort/badcmp")
			run("$sort([3,1,2], function($x, $y){$x > $y})", map[string]interface{}{}, "sort/cmp")
		}
	}
	_ = sort.Strings
}

// ---- C14 -----------------------------------------------------------------------

// literal keys that coincide with values the computed keys can take ("p", "x", "1", "hi"): literal/computed collisions in both orders
var c14KeyExprs = []string{"g", "$string(k)", "s", "g & s", "\"lit\"", "k", "nothing", "$string(k % 2)", "id > 2 ? \"hi\" : \"lo\"", "\"p\"", "\"x\"", "\"1\"", "\"hi\"", "g", "s"}
var c14ValExprs = []string{"id", "$count($)", "$sum(k)", "$.id", "[id]", "{\"n\": $count(id)}", "k", "nothing", "$", "$max(id)", "v", "v", "$count(v)", "v[0]", "$sum(v)",
	// the same members in other spellings: with the [] marker, through $, in parentheses, back-quoted
	"id[]", "$.id[]", "$.k", "(id)", "`id`", "$.v", "$.v[]", "(id)[]", "k[]", "[$.id]", "$.`k`[]", "($.id)[]", "$.(id)[]", "s[]", "$.s[]"}

func groupDoc(r *rng, n int) []interface{} {
	arr := make([]interface{}, n)
	for i := range arr {
		o := map[string]interface{}{"id": float64(i), "k": float64(r.intn(4))}
		if !r.chance(1, 8) {
			o["g"] = []string{"p", "q", "r", "s"}[r.intn(1+r.intn(4))]
		}
		if !r.chance(1, 5) {
			o["s"] = []string{"x", "y"}[r.intn(2)]
		}
		if r.chance(1, 2) {
			// an array-valued member, with spare capacity as a decoded or caller-built slice has: grouping several
			// items' arrays under one key must not write into any of them
			ln := 1 + r.intn(4)
			v := make([]interface{}, ln, ln+1+r.intn(4))
			for j := range v {
				v[j] = float64(10*i + j)
			}
			o["v"] = v
		}
		arr[i] = o
	}
	return arr
}

func randObj(r *rng, depth int) map[string]interface{} {
	o := defaultDocOpts()
	o.names = []string{"a", "b", "c", "d"}
	o.width = 4
	return genObj(r, o, depth)
}

func runC14(c *ctx) {
	stmtC14(c)
	c.rep.Rule = "groupings whose key expressions map items onto 1..4 strings (collisions, absent and non-string keys), value expressions " +
		"that are members, aggregates or nested constructors, 1..3 pairs; object functions on null-free objects and arrays of objects; " +
		"identities evaluated inside JSONata; results compared as unordered objects, multi-member enumeration orders made order-free by sorting in the program"
	r := c.rng.fork()
	for rep := 0; rep < c.scale(4000, 80000) && !c.tooMany(); rep++ {
		n := 1 + r.intn(6)
		arr := groupDoc(r, n)
		np := 1 + r.intn(3)
		pairs := make([]string, np)
		for i := range pairs {
			pairs[i] = c14KeyExprs[r.intn(len(c14KeyExprs))] + ": " + c14ValExprs[r.intn(len(c14ValExprs))]
		}
		body := "{" + strings.Join(pairs, ", ") + "}"
		switch r.intn(4) {
		case 0:
			c.diffEval("$"+body, arr, "group/ctx")
		case 1:
			c.diffEval("items"+body, map[string]interface{}{"items": arr}, "group/path")
		case 2:
			c.diffEval(body, arr, "construct/arrayctx")
		case 3:
			if n > 0 {
				c.diffEval(body, arr[0], "construct/objctx")
			}
		}
	}
	// systematic: every ordered pair of key expressions over items whose value member is an array with spare capacity (two
	// groups that collect the same member must not share the backing store of the first item's array)
	{
		keys := []string{"g", "s", "\"lit\"", "$string(k)", "\"p\"", "g & s"}
		for _, ln := range []int{1, 2, 3, 5} {
			for _, extra := range []int{1, 3} {
				arr := make([]interface{}, 4)
				for i := range arr {
					v := make([]interface{}, ln, ln+extra)
					for j := range v {
						v[j] = float64(10*i + j)
					}
					arr[i] = map[string]interface{}{"id": float64(i), "k": float64(i % 2), "g": []string{"p", "q"}[i%2], "s": []string{"x", "y", "x", "x"}[i], "v": v}
				}
				for _, k1 := range keys {
					for _, k2 := range keys {
						if k1 == k2 {
							continue
						}
						c.diffEval("items{"+k1+": v, "+k2+": v}", map[string]interface{}{"items": arr}, "group/shared-array")
						c.diffEval("${"+k1+": v, "+k2+": [v, id]}", arr, "group/shared-array")
					}
				}
			}
		}
	}
	// object functions
	fprogs := []string{
		"$keys($)^($)", "$count($keys($))", "$lookup($, \"a\")", "$lookup($, \"zz\")", "a = $lookup($, \"a\")",
		"$merge($spread($)) = $", "$count($keys($)) = $count($spread($))", "$merge([$, {\"a\": 99}])", "$merge([{\"a\": 99}, $])",
		"$merge($)", "$spread($)^($keys($))", "$each($, function($v, $k){$k})^($)", "$count($each($, function($v, $k){$k}))",
		"$sift($, function($v){$v = 1})", "$sift($, function($v, $k){$k = \"a\"})", "$sift($, function($v, $k, $o){$count($keys($o)) > 1})",
		"$each($, function($v){$v})^($string($))", "$keys([$, {\"zz\": 1}])^($)", "$spread([$, {\"zz\": 1}])^($keys($))",
		"$merge([])", "$keys({})", "$spread({})", "$each({}, function($v){$v})", "$sift({}, function($v){true})", "$type($lookup({}, \"a\"))",
		"$exists($lookup($, \"zz\"))", "$keys(\"str\")", "$merge([1])", "$each(1, function($v){$v})", "$sift($, $boolean)", "$each($, $string)^($)",
	}
	// object functions over arrays of objects (names repeated in non-adjacent members, later members overriding earlier ones)
	aprogs := []string{"$keys($)^($)", "$count($keys($))", "$count($spread($))", "$merge($)", "$spread($)^($keys($))", "$keys($) ~> $sort()", "$keys([$, $])^($)",
		"$each($merge($), function($v, $k){$k})^($)", "$lookup($, \"a\")", "$.a", "$merge($).a", "$count($keys($merge($))) = $count($keys($))"}
	for rep := 0; rep < c.scale(1500, 30000) && !c.tooMany(); rep++ {
		k := 2 + r.intn(5)
		arr := make([]interface{}, k)
		names := []string{"a", "b", "c", "d"}
		bucket := "objfn-array"
		if rep%4 == 0 {
			// wide objects: 10..40 member names, mostly shared between the members of the array
			names = names[:0]
			for j := 0; j < 10+r.intn(31); j++ {
				names = append(names, fmt.Sprintf("n%02d", j))
			}
			names = append(names, "a")
			bucket = "objfn-array-wide"
		}
		for i := range arr {
			o := map[string]interface{}{}
			for _, nm := range names {
				if r.chance(2, 5) || (len(names) > 4 && r.chance(4, 5)) {
					o[nm] = float64(i*10 + r.intn(3))
				}
			}
			arr[i] = o
		}
		c.diffEval(aprogs[r.intn(len(aprogs))], arr, bucket)
	}
	for rep := 0; rep < c.scale(2500, 50000) && !c.tooMany(); rep++ {
		o := randObj(r, 2)
		p := fprogs[r.intn(len(fprogs))]
		if len(o) > 1 && strings.Contains(p, "$each($, function($v){$v})^") {
			continue
		}
		c.diffEval(p, o, "objfn")
	}
}

// ---- C15 -----------------------------------------------------------------------

var c15Domain = []interface{}{1.0, 2.0, "1", "a", true, false, []interface{}{1.0}, []interface{}{"1"}, map[string]interface{}{"a": 1.0}, map[string]interface{}{"a": "1"}, []interface{}{}, map[string]interface{}{},
	// strings that spell the JSON text of other members
	"[1]", "{\"a\":1}", "[]", "{}", "true", "null"}

var c15Fns = []string{
	"function($v){$v}", "function($v, $i){$i}", "function($v, $i, $a){$count($a)}", "function(){1}", "function($v){nothing}",
	"function()<:n>{7}", "function()<:b>{true}", "function()<:b>{false}", "$millis ~> $boolean",
	"function($v){$v = 1}", "function($v, $i){$i > 0}", "function($v){$type($v) = \"number\"}", "$string", "$boolean", "$not", "$count",
	"$exists", "$type", "$append(?, 7)", "function($v){[$v]}", "function($v){$v ~> $string}", "$string ~> $length", "function($a, $b){$a}",
	// chains as the function argument: a chain takes one argument whatever its first link's arity is
	"$round ~> $string", "function($v, $i){$i} ~> $boolean", "function($v, $i, $a){$i = 1} ~> $boolean", "function($v, $i){$v & $i} ~> $length",
	"$string ~> $substring(1)", "function($v, $i){[$v, $i]} ~> $count", "$string ~> $pad(4) ~> $length", "$type ~> $uppercase",
}
var c15Reducers = []string{
	"function($a, $b){$a + $b}", "function($a, $b){$b}", "function($a, $b){$a}", "function($a, $b){[$a, $b]}", "function($a, $b){$string($a) & $string($b)}",
	"function($a){$a}", "function($a, $b, $c){$a}", "$append", "function($a, $b){$count($a) + 1}",
	"function($a, $b){$a + $b} ~> $abs", "$append ~> $count", "function($a, $b){$b} ~> $string",
}

func runC15(c *ctx) {
	stmtC15(c)
	c.rep.Rule = "arrays up to length 8 over numbers, strings, booleans, nested arrays and objects with duplicates and value-equal-but-kind-different members, " +
		"scalars in array position, missing arguments; function arguments that are lambdas of arity 0..3, built-ins, partials and chains; " +
		"exhaustive for arrays up to length 3 over a 7-value domain (incl. strings spelling the JSON text of container members) for $distinct/$reverse/$count/$append/$zip; $shuffle checked as a permutation"
	r := c.rng.fork()
	dom5 := []interface{}{1.0, "1", true, []interface{}{1.0}, map[string]interface{}{"a": 1.0}, "[1]", "{\"a\":1}"}
	var arrays [][]interface{}
	var build func(prefix []interface{}, n int)
	build = func(prefix []interface{}, n int) {
		arrays = append(arrays, append([]interface{}{}, prefix...))
		if n == 0 {
			return
		}
		for _, d := range dom5 {
			build(append(prefix, d), n-1)
		}
	}
	build(nil, 3)
	c.rep.Exhaustive = append(c.rep.Exhaustive, fmt.Sprintf("%d arrays of length <= 3 over a 5-value domain", len(arrays)))
	for _, a := range arrays {
		in := map[string]interface{}{"a": a, "b": []interface{}{2.0, "x"}}
		for _, p := range []string{"$distinct(a)", "$reverse(a)", "$count(a)", "$append(a, b)", "$append(b, a)", "$zip(a, b)", "$zip(a)", "$zip(a, a, b)"} {
			c.diffEval(p, in, "exh")
		}
	}
	randArr := func() []interface{} {
		n := r.intn(9)
		a := make([]interface{}, n, n+r.intn(5)) // often with spare capacity, as a caller's or a decoded slice has
		for i := range a {
			a[i] = c15Domain[r.intn(len(c15Domain))]
		}
		return a
	}
	numArr := func() []interface{} {
		n := r.intn(9)
		a := make([]interface{}, n)
		for i := range a {
			a[i] = []float64{0, 1, 2.5, -3, 1e308, 7, 100}[r.intn(7)]
		}
		return a
	}
	for rep := 0; rep < c.scale(6000, 120000) && !c.tooMany(); rep++ {
		var in interface{}
		a := randArr()
		in = map[string]interface{}{"a": a, "n": numArr(), "b": randArr(), "s": c15Domain[r.intn(len(c15Domain))]}
		arg := []string{"a", "n", "s", "nothing", "b", "[]", "a[0]"}[r.intn(7)]
		f := c15Fns[r.intn(len(c15Fns))]
		var p string
		switch r.intn(18) {
		case 16:
			// two results derived from one base: neither may show the other's members
			p = []string{`{"x": $append(a, "x"), "y": $append(a, "y"), "a": a}`, `$map(b, function($v){$append($$.a, $v)})`,
				`($x := $append(a, 1); $y := $append(a, 2); [$count($x), $x[-1], $y[-1], $count(a)])`,
				`($x := $append(a, b); $y := $append(a, n); {"x": $x, "y": $y})`, `{"r": $reverse(a), "a": a, "d": $distinct(a)}`,
				`($x := $append($append(a, 1), 2); $y := $append($append(a, 1), 3); {"x": $x, "y": $y})`}[r.intn(6)]
		case 17:
			p = []string{`{"z1": $zip(a, b), "z2": $zip(a, n), "a": a}`, `[$count($append(a, a)), $count(a)]`, `($s := $sort(n); {"s": $s, "n": n, "r": $reverse($s), "s2": $s})`,
				`$map(a, function($v, $i, $arr){$count($append($arr, $v))})`, `$reduce(b, function($acc, $v){$append($acc, $v)}, a) ~> $count()`}[r.intn(5)]
		case 0:
			p = "$map(" + arg + ", " + f + ")"
		case 1:
			p = "$filter(" + arg + ", " + f + ")"
		case 2:
			p = "$reduce(" + arg + ", " + c15Reducers[r.intn(len(c15Reducers))] + ")"
		case 3:
			p = "$reduce(" + arg + ", " + c15Reducers[r.intn(len(c15Reducers))] + ", " + []string{"0", "\"\"", "[]", "nothing"}[r.intn(4)] + ")"
		case 4:
			p = "$single(" + arg + ", " + f + ")"
		case 5:
			p = "$append(" + arg + ", " + []string{"a", "b", "s", "nothing", "1"}[r.intn(5)] + ")"
		case 6:
			p = "$reverse(" + arg + ")"
		case 7:
			p = "$zip(" + arg + ", " + []string{"a", "b", "n", "s"}[r.intn(4)] + ")"
		case 8:
			p = "$distinct(" + arg + ")"
		case 9:
			p = "$count(" + arg + ")"
		case 10:
			p = "$sum(" + arg + ")"
		case 11:
			p = "$max(" + arg + ")"
		case 12:
			p = "$min(" + arg + ")"
		case 13:
			p = "$average(" + arg + ")"
		case 14:
			p = arg + " ~> $map(" + f + ") ~> $count()"
		case 15:
			// $shuffle: a permutation of its argument (relation, not equality)
			p = "$shuffle(" + arg + ")"
			g := goEval(p, in)
			c.note(p+"\x00"+valueSexp(in), "shuffle", true)
			exp := goEval("$append("+arg+", [])", in)
			if g.err == nil && exp.err == nil && g.panicV == nil {
				if !isPermutation(g.value, exp.value) {
					c.disagree(Disagreement{Kind: "shuffle-perm", Prog: p, Input: in, Go: g.outcome, Model: "a permutation of " + exp.outcome})
				}
			} else if g.panicV != nil {
				c.disagree(Disagreement{Kind: "shuffle-perm", Prog: p, Input: in, Go: g.outcome, Model: "a permutation"})
			}
			continue
		}
		c.diffEval(p, in, "fn/"+strings.SplitN(p[1:], "(", 2)[0])
	}
}

func isPermutation(a, b interface{}) bool {
	xs, ok1 := a.([]interface{})
	ys, ok2 := b.([]interface{})
	if !ok1 || !ok2 {
		return valueSexp(a) == valueSexp(b)
	}
	if len(xs) != len(ys) {
		return false
	}
	sx := make([]string, len(xs))
	sy := make([]string, len(ys))
	for i := range xs {
		sx[i] = valueSexp(xs[i])
		sy[i] = valueSexp(ys[i])
	}
	sort.Strings(sx)
	sort.Strings(sy)
	for i := range sx {
		if sx[i] != sy[i] {
			return false
		}
	}
	return true
}
