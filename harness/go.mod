module verifharness

go 1.16

require github.com/blues/jsonata-go v0.0.0

replace github.com/blues/jsonata-go => /repo
