package main

// Running the implementation under recover/timeout and the Lean driver as a
// co-process; outcome canonicalisation.

import (
	"bufio"
	"encoding/hex"
	"fmt"
	"io"
	"os"
	"os/exec"
	"regexp"
	"sort"
	"strings"
	"time"

	jsonata "github.com/blues/jsonata-go"
	"github.com/blues/jsonata-go/jparse"
)

// ---- implementation side ----------------------------------------------------

// outcomeOf canonicalises Eval's (value, error) pair: error *kinds* are compared,
// message texts never are.
func outcomeOf(v interface{}, err error) string {
	if err == nil {
		return "ok " + valueSexp(v)
	}
	if err == jsonata.ErrUndefined {
		return "undef"
	}
	switch e := err.(type) {
	case *jsonata.EvalError:
		return "err eval:" + evalErrName(e.Type)
	case jsonata.EvalError:
		return "err eval:" + evalErrName(e.Type)
	case *jsonata.ArgCountError:
		return "err argcount"
	case *jsonata.ArgTypeError:
		return fmt.Sprintf("err argtype:%d", e.Which)
	case *jparse.Error:
		return fmt.Sprintf("err parse:%d", e.Type)
	}
	return "err lib"
}

var evalErrNames = []string{
	"ErrNonIntegerLHS", "ErrNonIntegerRHS", "ErrNonNumberLHS", "ErrNonNumberRHS",
	"ErrNonComparableLHS", "ErrNonComparableRHS", "ErrTypeMismatch", "ErrNonCallable",
	"ErrNonCallableApply", "ErrNonCallablePartial", "ErrNumberInf", "ErrNumberNaN",
	"ErrMaxRangeItems", "ErrIllegalKey", "ErrDuplicateKey", "ErrClone", "ErrIllegalUpdate",
	"ErrIllegalDelete", "ErrNonSortable", "ErrSortMismatch",
}

func evalErrName(t jsonata.ErrType) string {
	if int(t) < len(evalErrNames) {
		return evalErrNames[t]
	}
	return fmt.Sprintf("ErrType%d", t)
}

type goResult struct {
	outcome string
	value   interface{}
	err     error
	panicV  interface{}
	timeout bool
}

// safely runs f under recover with a wall-clock limit. A timed-out goroutine
// cannot be killed; the caller is expected to stop using the process soon after
// (timeouts are violations, so the run ends with the replay anyway).
func safely(limit time.Duration, f func() (interface{}, error)) goResult {
	ch := make(chan goResult, 1)
	go func() {
		var r goResult
		defer func() {
			if p := recover(); p != nil {
				r.panicV = p
				r.outcome = "panic " + firstLine(fmt.Sprint(p))
			}
			ch <- r
		}()
		v, err := f()
		r.value, r.err = v, err
		r.outcome = outcomeOf(v, err)
	}()
	select {
	case r := <-ch:
		return r
	case <-time.After(limit):
		return goResult{outcome: "timeout", timeout: true}
	}
}

func firstLine(s string) string {
	if i := strings.IndexByte(s, '\n'); i >= 0 {
		s = s[:i]
	}
	if len(s) > 160 {
		s = s[:160]
	}
	return s
}

// Wall-clock limits. They only decide when "does not terminate" is reported, so they are generous:
// the checks run next to other jobs on the same machine, and a limit that is too tight is a false alarm.
const evalLimit = 20 * time.Second

// limitFor: programs that legitimately build ranges of millions of items get more time.
func limitFor(prog string) time.Duration {
	if strings.Contains(prog, "..") && (strings.Contains(prog, "000000") || strings.Contains(prog, "999999") || strings.Contains(prog, "e7") || strings.Contains(prog, "e6")) {
		return 240 * time.Second
	}
	return evalLimit
}

// goEval compiles and evaluates a program text against an input.
func goEval(prog string, input interface{}) goResult {
	return safely(limitFor(prog), func() (interface{}, error) {
		e, err := jsonata.Compile(prog)
		if err != nil {
			return nil, err
		}
		return e.Eval(input)
	})
}

// ---- model side -------------------------------------------------------------

type driver struct {
	cmd  *exec.Cmd
	in   io.WriteCloser
	out  *bufio.Reader
	path string
	n    int
}

func driverPath() string {
	if p := os.Getenv("VERIF_DRIVER"); p != "" {
		return p
	}
	return "/verif/lean/.lake/build/bin/driver"
}

func startDriver() (*driver, error) {
	d := &driver{path: driverPath()}
	d.cmd = exec.Command(d.path)
	var err error
	if d.in, err = d.cmd.StdinPipe(); err != nil {
		return nil, err
	}
	so, err := d.cmd.StdoutPipe()
	if err != nil {
		return nil, err
	}
	d.cmd.Stderr = os.Stderr
	d.out = bufio.NewReaderSize(so, 1<<20)
	if err := d.cmd.Start(); err != nil {
		return nil, err
	}
	if r, err := d.ask("ping"); err != nil || r != "pong" {
		return nil, fmt.Errorf("driver handshake failed: %q %v", r, err)
	}
	return d, nil
}

func (d *driver) ask(line string) (string, error) {
	d.n++
	if _, err := io.WriteString(d.in, line+"\n"); err != nil {
		return "", err
	}
	resp, err := d.out.ReadString('\n')
	if err != nil {
		return "", fmt.Errorf("driver died after request %q: %v", trunc(line, 200), err)
	}
	return strings.TrimRight(resp, "\n"), nil
}

func (d *driver) close() {
	if d == nil {
		return
	}
	d.in.Close()
	d.cmd.Wait()
}

func trunc(s string, n int) string {
	if len(s) > n {
		return s[:n] + "…"
	}
	return s
}

// modelEval asks the driver to evaluate the AST of prog (as parsed by the
// implementation's own parser) on input.
func (d *driver) modelEval(prog string, input interface{}) (string, error) {
	node, err := jparse.Parse(prog)
	if err != nil {
		return "", fmt.Errorf("parse: %v", err)
	}
	plain := nodeSexp(node)
	if strings.Contains(plain, "(regex ") {
		regexSubjects = collectSubjects(plain, input)
		plain = nodeSexp(node)
		regexSubjects = nil
	}
	return d.ask("eval\t" + plain + "\t" + valueSexp(input))
}

var reStrAtom = regexp.MustCompile(`\(str s([0-9a-f]*)\)`)

// collectSubjects lists the strings a regex of the program can plausibly be applied to: the
// string literals of the program and every string (and key) of the input.
func collectSubjects(sexp string, input interface{}) []string {
	seen := map[string]bool{}
	out := []string{}
	add := func(s string) {
		if !seen[s] && len(out) < 64 {
			seen[s] = true
			out = append(out, s)
		}
	}
	for _, m := range reStrAtom.FindAllStringSubmatch(sexp, -1) {
		if b, err := hex.DecodeString(m[1]); err == nil {
			add(string(b))
		}
	}
	var walk func(v interface{})
	walk = func(v interface{}) {
		switch x := v.(type) {
		case string:
			add(x)
		case []interface{}:
			for _, e := range x {
				walk(e)
			}
		case map[string]interface{}:
			keys := make([]string, 0, len(x))
			for k := range x {
				keys = append(keys, k)
			}
			sort.Strings(keys)
			for _, k := range keys {
				add(k)
				walk(x[k])
			}
		}
	}
	walk(input)
	return out
}

// normaliseModel maps the model's outcome text onto the classes the
// implementation side can produce (library errors carry no function name there).
func normaliseModel(s string) string {
	if strings.HasPrefix(s, "err lib:") {
		return "err lib"
	}
	return s
}
