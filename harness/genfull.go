package main

// The "full" program generator used by C05, C06, C07, C09, C10: every node type and
// every built-in with every arity it accepts, type-directed (mostly meaningful) or
// type-chaotic (any expression in any argument position).

import (
	"fmt"
	"math"
	"strings"
)

type pgen struct {
	r       *rng
	chaotic bool
	noRand  bool // exclude $random/$shuffle/$now/$millis (sanctioned variation)
	noRegex bool
	exotic  bool // string literals may be exoticString values (only where no model outcome is compared)
	vars    []string
}

var fgNames = []string{"a", "b", "c", "k", "s", "n", "items", "id", "`a b`"}
var fgStrs = []string{`"x"`, `"y"`, `""`, `"a,b"`, `"10"`, `"é😀"`, `'q'`, `"0.5e1"`, `"[Y]-[M01]"`, `"#,##0.00"`, `"0.0e0"`}
var fgNums = []string{"0", "1", "2", "-1", "2.5", "3", "10", "-0", "1e3", "0.1", "7", "100", "1e308", "5e-324"}
var fgRegex = []string{"/a/", "/[a-z]+/", "/(a)(b)?/", "/x*/", "/\\d+/i", "/a|b/", "/^$/m", "/(.)(.)/"}

// built-ins with the kinds of their parameters: s string, n number, a array, o object,
// f function, x anything, r regex-or-string, ? marks the start of optional parameters
var fgBuiltins = map[string]string{
	"string": "x", "length": "s", "substring": "sn?n", "substringBefore": "ss", "substringAfter": "ss",
	"uppercase": "s", "lowercase": "s", "pad": "sn?s", "trim": "s", "contains": "sr", "split": "sr?n", "join": "a?s",
	"match": "sr?n", "replace": "srr?n", "formatNumber": "ns?o", "formatBase": "n?n", "base64encode": "s", "base64decode": "s",
	"decodeUrl": "s", "decodeUrlComponent": "s", "encodeUrl": "s", "encodeUrlComponent": "s",
	"number": "x", "abs": "n", "floor": "n", "ceil": "n", "round": "n?n", "power": "nn", "sqrt": "n", "random": "",
	"sum": "a", "max": "a", "min": "a", "average": "a", "boolean": "x", "not": "x", "exists": "x",
	"distinct": "a", "count": "a", "reverse": "a", "sort": "a?f", "shuffle": "a", "zip": "aa", "append": "aa",
	"map": "af", "filter": "af", "reduce": "af?x", "single": "af", "each": "of", "sift": "of", "keys": "o", "lookup": "os",
	"spread": "o", "merge": "a", "fromMillis": "n?ss", "toMillis": "s?s", "type": "x", "error": "s", "now": "?ss", "millis": "",
}

var fgBuiltinNames []string

func init() {
	for k := range fgBuiltins {
		fgBuiltinNames = append(fgBuiltinNames, k)
	}
	sortStrings(fgBuiltinNames)
}

func sortStrings(a []string) {
	for i := 1; i < len(a); i++ {
		for j := i; j > 0 && a[j] < a[j-1]; j-- {
			a[j], a[j-1] = a[j-1], a[j]
		}
	}
}

func (g *pgen) pick(xs []string) string { return xs[g.r.intn(len(xs))] }

func (g *pgen) atom() string {
	switch g.r.intn(12) {
	case 0, 1:
		return g.pick(fgNums)
	case 2:
		if g.exotic && g.r.chance(1, 2) {
			return strLit(exoticString(g.r))
		}
		return g.pick(fgStrs)
	case 3:
		return g.pick([]string{"true", "false", "null"})
	case 4, 5, 6:
		return g.pick(fgNames)
	case 7:
		if len(g.vars) > 0 {
			return "$" + g.pick(g.vars)
		}
		return "$"
	case 8:
		return g.pick([]string{"$", "$$", "nothing", "$nope"})
	case 9:
		if g.chaotic {
			return "$" + g.builtinName()
		}
		return g.pick(fgNames)
	case 10:
		if !g.noRegex && g.chaotic {
			return g.pick(fgRegex)
		}
		return g.pick(fgNums)
	default:
		return g.pick([]string{"[]", "{}", "[1, 2, 3]", `{"k": 1}`, `["a", "b"]`, "[[1], [2, 3]]", `[{"a": 1}, {"a": 2}]`})
	}
}

func (g *pgen) builtinName() string {
	for {
		n := g.pick(fgBuiltinNames)
		if g.noRand && (n == "random" || n == "shuffle" || n == "now" || n == "millis") {
			continue
		}
		if g.noRegex && n == "match" {
			continue
		}
		return n
	}
}

func (g *pgen) lambda(depth int, arity int) string {
	names := []string{"x", "y", "z", "w", "v"}[:arity]
	old := g.vars
	g.vars = append(append([]string{}, g.vars...), names...)
	body := g.expr(depth - 1)
	g.vars = old
	ps := make([]string, arity)
	for i, n := range names {
		ps[i] = "$" + n
	}
	sig := ""
	if g.r.chance(1, 8) {
		sig = "<" + genSig(g.r, arity) + ">"
	}
	return "function(" + strings.Join(ps, ", ") + ")" + sig + "{" + body + "}"
}

func (g *pgen) fnValue(depth int) string {
	switch g.r.intn(6) {
	case 0, 1, 2:
		// arities up to 5: higher-order built-ins pass at most three arguments
		return g.lambda(depth, g.r.intn(6))
	case 3:
		return "$" + g.builtinName()
	case 4:
		return "$" + g.builtinName() + "(?, " + g.atom() + ")"
	default:
		return "(" + g.lambda(depth, 1) + " ~> $string)"
	}
}

func (g *pgen) argOfKind(k byte, depth int) string {
	if g.chaotic && g.r.chance(1, 3) {
		return g.expr(depth - 1)
	}
	switch k {
	case 's':
		if g.r.chance(1, 3) {
			return g.pick([]string{"s", "a", "k"})
		}
		return g.pick(fgStrs)
	case 'n':
		if g.r.chance(1, 3) {
			return g.pick([]string{"n", "id", "-2", "1.5"})
		}
		return g.pick(fgNums[:10])
	case 'a':
		return g.pick([]string{"items", "[1, 2, 3]", "[3, 1, 2]", `["b", "a"]`, "[]", "items.id", "[1, \"a\"]", "[[1], [1]]", "n", "items.k"})
	case 'o':
		return g.pick([]string{"$", `{"k": 1, "j": "x"}`, "{}", "items[0]", "b"})
	case 'f':
		return g.fnValue(depth)
	case 'r':
		if !g.noRegex && g.r.chance(1, 2) {
			return g.pick(fgRegex)
		}
		return g.pick(fgStrs)
	default:
		return g.expr(depth - 1)
	}
}

func (g *pgen) call(depth int) string {
	name := g.builtinName()
	sig := fgBuiltins[name]
	req := sig
	opt := ""
	if i := strings.IndexByte(sig, '?'); i >= 0 {
		req, opt = sig[:i], sig[i+1:]
	}
	n := len(req) + g.r.intn(len(opt)+1)
	if g.chaotic && g.r.chance(1, 4) {
		n = g.r.intn(len(req) + len(opt) + 2) // wrong arity
	}
	if g.r.chance(1, 6) && len(req) > 0 {
		// context-defaulted first argument
		all := req + opt
		args := []string{}
		for i := 1; i < n && i < len(all); i++ {
			args = append(args, g.argOfKind(all[i], depth))
		}
		if name == "pad" && len(args) >= 1 {
			args[0] = []string{"0", "1", "-1", "5", "-7", "12", "2.5", "30"}[g.r.intn(8)]
		}
		return g.argOfKind(all[0], depth) + ".$" + name + "(" + strings.Join(args, ", ") + ")"
	}
	all := req + opt
	args := make([]string, n)
	for i := range args {
		k := byte('x')
		if i < len(all) {
			k = all[i]
		}
		args[i] = g.argOfKind(k, depth)
	}
	if name == "pad" && len(args) >= 2 {
		// the property bounds the sizes of paddings: the width is a small literal, never computed from data
		args[1] = []string{"0", "1", "-1", "5", "-7", "12", "2.5", "30"}[g.r.intn(8)]
	}
	return "$" + name + "(" + strings.Join(args, ", ") + ")"
}

// expr generates one expression of bounded depth.
func (g *pgen) expr(depth int) string {
	if depth <= 0 {
		return g.atom()
	}
	switch g.r.intn(26) {
	case 0, 1:
		return g.atom()
	case 2, 3:
		op := g.pick([]string{"+", "-", "*", "/", "%", "=", "!=", "<", "<=", ">", ">=", "in", "and", "or", "&"})
		return "(" + g.expr(depth-1) + " " + op + " " + g.expr(depth-1) + ")"
	case 4:
		return "-" + g.expr(depth-1)
	case 5, 6:
		steps := 1 + g.r.intn(3)
		parts := make([]string, steps+1)
		parts[0] = g.pick([]string{"items", "b", "$", "$$", "a", "(" + g.expr(depth-1) + ")", "*", "**"})
		for i := 1; i <= steps; i++ {
			parts[i] = g.pick([]string{"a", "b", "k", "id", "*", "**", "$", "[" + g.expr(depth-1) + "]", "(" + g.expr(depth-1) + ")", "{\"q\": " + g.atom() + "}"})
		}
		p := strings.Join(parts, ".")
		if g.r.chance(1, 8) {
			p += "[]"
		}
		return p
	case 7, 8:
		return g.pick([]string{"items", "b", "a", "$", "(" + g.expr(depth-1) + ")", "[1, 2, 3]"}) + "[" + g.expr(depth-1) + "]"
	case 9:
		n := g.r.intn(4)
		parts := make([]string, n)
		for i := range parts {
			parts[i] = g.expr(depth - 1)
			if g.r.chance(1, 6) {
				parts[i] = g.pick(fgNums[:6]) + ".." + g.pick(fgNums[:8])
			}
		}
		return "[" + strings.Join(parts, ", ") + "]"
	case 10:
		n := g.r.intn(3)
		parts := make([]string, n)
		for i := range parts {
			key := g.pick([]string{`"p"`, `"q"`, "k", "s", "$string(id)", g.expr(depth - 1)})
			parts[i] = key + ": " + g.expr(depth-1)
		}
		return "{" + strings.Join(parts, ", ") + "}"
	case 11:
		return "items{" + g.pick([]string{"k", "s", "$string(id)", `"all"`}) + ": " + g.expr(depth-1) + "}"
	case 12:
		old := g.vars
		v := g.pick([]string{"v", "w", "u"})
		e1 := g.expr(depth - 1)
		g.vars = append(append([]string{}, g.vars...), v)
		e2 := g.expr(depth - 1)
		e3 := ""
		if g.r.chance(1, 2) {
			e3 = "; " + g.expr(depth-1)
		}
		g.vars = old
		return "($" + v + " := " + e1 + "; " + e2 + e3 + ")"
	case 13:
		s := "(" + g.expr(depth-1) + ") ? " + g.expr(depth-1)
		if g.r.chance(2, 3) {
			s += " : " + g.expr(depth-1)
		}
		return "(" + s + ")"
	case 14:
		return g.lambda(depth, g.r.intn(4)) + "(" + g.atom() + ", " + g.atom() + ")"
	case 15, 16, 17, 18:
		return g.call(depth)
	case 19:
		return "(" + g.expr(depth-1) + " ~> " + g.pick([]string{"$string", "$count", "$sum", g.call(depth - 1), g.fnValue(depth - 1), "$append(?, 1)"}) + ")"
	case 20:
		return g.fnValue(depth) + "(" + g.atom() + ")"
	case 21:
		return g.pick([]string{"items", "$", "[3, 1, 2]", "(" + g.expr(depth-1) + ")"}) + "^(" + g.pick([]string{"", "<", ">"}) + g.pick([]string{"k", "id", "s", "$", g.expr(depth - 1)}) + ")"
	case 22:
		pat := g.pick([]string{"$", "items", "b", "items[id > 0]", "**", "*", "$$", "a"})
		upd := g.pick([]string{`{"z": 1}`, `{"k": k + 1}`, `{"s": $uppercase(s)}`, "{}", `"bad"`, g.expr(depth - 1)})
		del := ""
		if g.r.chance(1, 2) {
			del = ", " + g.pick([]string{`"k"`, `["k", "s"]`, "1", `"nope"`})
		}
		return "(" + g.pick([]string{"$", "items", "b", "items[0]", g.atom()}) + " ~> |" + pat + "|" + upd + del + "|)"
	case 23:
		if g.chaotic {
			return g.fnValue(depth)
		}
		return g.call(depth)
	case 24:
		return g.pick(fgNames) + "." + g.call(depth)
	default:
		return "$" + g.pick([]string{"map", "filter"}) + "(" + g.argOfKind('a', depth) + ", " + g.lambda(depth, 1+g.r.intn(3)) + ")"
	}
}

// fullDoc is the kind of document the full generator's programs navigate.
func fullDoc(r *rng, nulls bool) interface{} {
	n := 1 + r.intn(4)
	items := make([]interface{}, n)
	for i := range items {
		o := map[string]interface{}{"id": float64(i), "k": float64(r.intn(3))}
		if r.chance(3, 4) {
			o["s"] = []string{"x", "yy", "a,b", ""}[r.intn(4)]
		}
		if r.chance(1, 3) {
			o["a"] = []interface{}{float64(r.intn(3)), []interface{}{float64(r.intn(3))}}
		}
		if nulls && r.chance(1, 5) {
			o["z"] = nil
		}
		if r.chance(1, 6) {
			o["m"] = map[string]interface{}{} // empty containers are part of the quantifier
		}
		items[i] = o
	}
	d := map[string]interface{}{
		"items": items, "a": []string{"xaybz", "hello world", "", "é😀"}[r.intn(4)], "n": []float64{6.25, 0, -3, 1e21}[r.intn(4)],
		"b": map[string]interface{}{"c": "pxqyrz", "k": float64(r.intn(5))}, "k": "p", "s": "a,b", "id": 2.0,
		"a b": 1.0,
	}
	if nulls && r.chance(1, 3) {
		d["c"] = nil
	}
	if r.chance(1, 3) {
		d["e"] = map[string]interface{}{}
	}
	if r.chance(1, 4) {
		d["c"] = []interface{}{[]interface{}{[]interface{}{map[string]interface{}{"b": 1.0}}}, []interface{}{}}
	}
	if r.chance(1, 8) {
		return []interface{}{d, fmt.Sprint(n)}
	}
	return d
}

// fullDocExotic: fullDoc with some of its strings replaced by exoticString values and, sometimes, numbers of unusual
// magnitude; used where outcomes are not compared with the model (totality, result types, concurrency).
func fullDocExotic(r *rng, nulls bool) interface{} {
	d := fullDoc(r, nulls)
	m, ok := d.(map[string]interface{})
	if !ok {
		return d
	}
	for _, k := range []string{"a", "k", "s"} {
		if r.chance(1, 2) {
			m[k] = exoticString(r)
		}
	}
	if b, ok := m["b"].(map[string]interface{}); ok && r.chance(1, 2) {
		b["c"] = exoticString(r)
	}
	if items, ok := m["items"].([]interface{}); ok {
		for _, it := range items {
			if o, ok := it.(map[string]interface{}); ok && r.chance(1, 3) {
				o["s"] = exoticString(r)
			}
		}
	}
	if r.chance(1, 3) {
		m["n"] = []float64{1e15, 9007199254740992, 9223372036854775808, 1e19, 1e21, 1e300, 1e-7, 5e-324, math.Copysign(0, -1), 0.5, 2.5, -1.5, 4294967296, 2147483648}[r.intn(14)]
	}
	return d
}
