package main

// C04 — the parse is fixed by precedence, associativity and parentheses.
// C08 — Compile is total.
// C11 — JSON texts are expressions that denote themselves.

import (
	"encoding/hex"
	"encoding/json"
	"fmt"
	"math"
	"math/big"
	"strings"
	"time"
	"unicode/utf8"

	jsonata "github.com/blues/jsonata-go"
	"github.com/blues/jsonata-go/jparse"
)

var parseErrNames = []string{"_", "ErrSyntaxError", "ErrUnexpectedEOF", "ErrUnexpectedToken", "ErrMissingToken", "ErrPrefix", "ErrInfix",
	"ErrUnterminatedString", "ErrUnterminatedRegex", "ErrUnterminatedName", "ErrIllegalEscape", "ErrIllegalEscapeHex", "ErrInvalidNumber",
	"ErrNumberRange", "ErrEmptyRegex", "ErrInvalidRegex", "ErrGroupPredicate", "ErrGroupGroup", "ErrPathLiteral", "ErrIllegalAssignment",
	"ErrIllegalParam", "ErrDuplicateParam", "ErrParamCount", "ErrInvalidUnionType", "ErrUnmatchedOption", "ErrUnmatchedSubtype",
	"ErrInvalidSubtype", "ErrInvalidParamType"}

type parseResult struct {
	outcome string // "ok <sexp>" | "err <Type> <pos>" | "panic …" | "timeout" | "untyped-error …"
	errType string
	pos     int
	node    jparse.Node
}

func goParse(text string) parseResult {
	type res struct {
		n   jparse.Node
		err error
		p   interface{}
	}
	ch := make(chan res, 1)
	go func() {
		var r res
		defer func() {
			if p := recover(); p != nil {
				r.p = p
			}
			ch <- r
		}()
		r.n, r.err = jparse.Parse(text)
	}()
	select {
	case r := <-ch:
		if r.p != nil {
			return parseResult{outcome: "panic " + firstLine(fmt.Sprint(r.p))}
		}
		if r.err != nil {
			e, ok := r.err.(*jparse.Error)
			if !ok {
				return parseResult{outcome: "untyped-error " + firstLine(r.err.Error())}
			}
			name := fmt.Sprintf("ErrType%d", e.Type)
			if int(e.Type) < len(parseErrNames) {
				name = parseErrNames[e.Type]
			}
			return parseResult{outcome: fmt.Sprintf("err %s %d", name, e.Position), errType: name, pos: e.Position}
		}
		if r.n == nil {
			return parseResult{outcome: "nil-node-nil-error"}
		}
		return parseResult{outcome: "ok " + nodeSexp(r.n), node: r.n}
	case <-time.After(3 * time.Second):
		return parseResult{outcome: "timeout"}
	}
}

func (d *driver) modelParse(text string) (string, error) {
	return d.ask("parse\t" + hex.EncodeToString([]byte(text)))
}

// parseCompare runs the implementation and the model on one input text and checks the
// totality contract of C08 on the implementation's outcome.
func (c *ctx) parseCompare(text string, bucket string) (parseResult, string) {
	g := goParse(text)
	m, err := c.drv.modelParse(text)
	if err != nil {
		c.rep.Notes = append(c.rep.Notes, "driver: "+err.Error())
		return g, ""
	}
	c.note("parse\x00"+text, bucket, true)
	c.rep.Outcomes[strings.SplitN(g.outcome, " ", 3)[0]+" "+g.errType]++
	// totality contract
	bad := ""
	switch {
	case strings.HasPrefix(g.outcome, "panic"), g.outcome == "timeout", strings.HasPrefix(g.outcome, "untyped-error"), g.outcome == "nil-node-nil-error":
		bad = "Compile must return an expression or a typed *jparse.Error"
	case g.errType != "" && (g.pos < 0 || g.pos > len(text)):
		bad = "error position outside the input"
	case strings.HasPrefix(g.errType, "ErrType"):
		bad = "undefined error type"
	}
	if bad != "" {
		c.disagree(Disagreement{Kind: "compile-not-total", Prog: text, InputS: hex.EncodeToString([]byte(text)), Go: g.outcome, Model: m, Detail: bad})
		return g, m
	}
	// the regular-expression engine decides which patterns are valid
	if g.errType == "ErrInvalidRegex" {
		c.rep.Skipped++
		c.rep.SkipReasons["regex validity (engine)"]++
		return g, m
	}
	agree := g.outcome == m
	if !utf8.ValidString(text) {
		// names and strings with invalid UTF-8 cannot cross the protocol losslessly: compare the status
		agree = statusOf(g.outcome) == statusOf(m)
	}
	if !agree {
		c.disagree(Disagreement{Kind: "parse", Prog: text, InputS: hex.EncodeToString([]byte(text)), Go: g.outcome, Model: m})
	} else if len(c.rep.Samples) < 10 && len(text) < 40 {
		c.sample(map[string]interface{}{"text": text, "outcome": trunc(g.outcome, 160)})
	}
	return g, m
}

func statusOf(o string) string {
	if strings.HasPrefix(o, "ok ") {
		return "ok"
	}
	return o
}

// ---- C08 ------------------------------------------------------------------------

var c08Alphabet = []string{"\U0010ffff", "\U000e0001", "\U000f0000", "\\uDBFF\\uDFFF", "\\uDB40\\uDC01", "\u0007", "\u007f", "\ufffd", "a", "1", "\"", "`", "$", "(", ")", "[", "]", "{", "}", ".", ",", ":", ";", "?", "+", "-", "*", "/", "!", "~", "<", ">", "=", "|", "^", "&", "%", " ", "é", "䑁", "\\", "e", "'", "\n"}

func runC08(c *ctx) {
	c.rep.Rule = "byte strings: all strings up to length 3 over an alphabet with every operator-starting byte, quotes, a digit, letters, 2- and 3-byte runes; " +
		"all signatures function($x)<S>{$x} with |S| <= 3 (quick) / 4 (thorough) over the signature alphabet; random bytes, invalid UTF-8, token soup, every " +
		"generated valid program and every single-edit mutation (delete/insert/replace/duplicate/truncate) of valid programs weighted towards string escapes, " +
		"number/regex literals, back-quoted names and signatures. Implementation outcome must be an expression or a typed *jparse.Error with a position inside the " +
		"input (no panic, no hang), must equal the Lean parser model's outcome (tree or error type and position), and MustCompile must panic exactly when Compile fails; " +
		"a returned expression must print and evaluate without panicking"
	r := c.rng.fork()
	// 1. exhaustive short strings
	alpha := c08Alphabet
	if c.quick() {
		alpha = []string{"a", "1", "\"", "`", "$", "(", "[", "{", ".", ":", "?", "-", "*", "/", "!", "~", "<", "=", "|", "^", " ", "é", "䑁", "\\"}
	}
	n := 0
	var rec func(prefix string, depth int)
	rec = func(prefix string, depth int) {
		if c.tooMany() {
			return
		}
		c.parseCompare(prefix, "exh-short")
		n++
		if depth == 0 {
			return
		}
		for _, a := range alpha {
			rec(prefix+a, depth-1)
		}
	}
	rec("", c.scale(2, 3))
	if !c.quick() {
		// length 3 over the reduced alphabet was covered by the full one; add length-4 around '!' '~' '.' digits
		for _, a := range []string{"!", "~", "1.", "1e", "\"\\", "/", "`"} {
			for _, b := range alpha {
				for _, d := range alpha {
					c.parseCompare(a+b+d, "exh-lookahead")
				}
			}
		}
	}
	c.rep.Exhaustive = append(c.rep.Exhaustive, fmt.Sprintf("%d strings of length <= %d over a %d-symbol alphabet", n, c.scale(2, 3), len(alpha)))
	// 2. signatures
	sigAlpha := []string{"n", "s", "a", "f", "x", "(", ")", "<", ">", "?", "+", "-", ":", "!", "é", "1", ",", " "}
	ns := 0
	var recSig func(prefix string, depth int)
	recSig = func(prefix string, depth int) {
		if c.tooMany() {
			return
		}
		c.parseCompare("function($x)<"+prefix+">{$x}", "exh-signature")
		ns++
		if depth == 0 {
			return
		}
		for _, a := range sigAlpha {
			recSig(prefix+a, depth-1)
		}
	}
	recSig("", c.scale(2, 3))
	c.rep.Exhaustive = append(c.rep.Exhaustive, fmt.Sprintf("%d signatures function($x)<S>{$x}", ns))
	// 3. seeds from the property text
	for _, s := range []string{"function($x)<(>{$x}", "function($x)<!>{$x}", "!é", "[1.䑁]", "~é", "1.é", "1e", "1e+", "\"\\u+041\"", "\"\\ud800\"", "\"\\ud800\\udc00\"",
		"\"\\udc00\"", "\"\\u12\"", "\"\U0010ffff\".a", "a.'\U000e0001'", "\"\\uDBFF\\uDFFF\".a", "\"\\uDB40\\uDC01\"", "$length(\"\U000f0000\")", "\"\U0010ffff\"", "\"\u0007\u007f\".b", "\"\ufffd\"", "{\"\ufffd\": 1}", "\"\"\\", "'\\", "/", "//", "//i", "//ms", "$match(\"a\", //i)", "/a", "/(/", "/[/]/", "a/ /b/", "`", "`a", "`a\nb`", "$", "$$", "$ $", "a b", "a..b", "[1..]", "[..1]", "1..2", "(", ")", "()", "(;)", "(a;)",
		"{a}", "{a:}", "{:a}", "a{b:c}{d:e}", "a{b:c}[0]", "1.a", "a.1", "a.\"s\"", "true.a", "null.a", "function", "function()", "function(){", "function(a){1}", "function($a,$a){1}",
		"function($a)<nn>{1}", "function($a,$b)<n>{1}", "λ($a){$a}", "a := 1", "$a := ", "$a :=", "? :", "a ? b :", "a ?", "|a|b|", "|a|b,c|", "|a|", "|a", "a ~>", "~> a", "a ^ b", "a^(", "a^()", "a^(<)", "a^(<b,>c)",
		"- - 1", "--1", "-", "a and", "and and and", "or or or", "in in in", "a in", "\xff", "\xc3", "a\xffb", "\"\xff\"", "1\xff", "`\xff`", "/\xff/", "$\xff", "1e400", "1e-400", "0.0000000000000000000000000000001e400",
		strings.Repeat("(", 300), strings.Repeat("[", 300), strings.Repeat("a.", 300) + "a", strings.Repeat("-", 300) + "1", strings.Repeat("a+", 300) + "a"} {
		c.parseCompare(s, "seed")
	}
	// 4. random bytes, invalid UTF-8, token soup
	for i := 0; i < c.scale(6000, 150000) && !c.tooMany(); i++ {
		l := 1 + r.intn(12)
		var b strings.Builder
		mode := r.intn(3)
		for j := 0; j < l; j++ {
			switch mode {
			case 0:
				b.WriteByte(byte(r.intn(256)))
			case 1:
				b.WriteString(c08Alphabet[r.intn(len(c08Alphabet))])
			default:
				toks := []string{"a", "$x", "1", "2.5", "\"s\"", "'t'", "`n`", "/r/", "(", ")", "[", "]", "{", "}", ".", ",", ":", ";", "?", "+", "-", "*", "/", "%", "|", "=", "!=", "<", "<=", ">", ">=", "~>", "^(", "&", "..", ":=", "**", "and", "or", "in", "true", "null", "function", "λ", " ", "1e5", "0", ".5", "é"}
				b.WriteString(toks[r.intn(len(toks))])
				if r.chance(1, 3) {
					b.WriteString(" ")
				}
			}
		}
		c.parseCompare(b.String(), []string{"random-bytes", "alphabet-soup", "token-soup"}[mode])
	}
	// 4b. literals with every escape form: every truncation (with and without the closing quote put back) and every
	//     single-byte deletion — exhaustive, so that an escape cut at any byte is covered
	lits := []string{`"a\u00e9\ud83d\ude00\n\"q"`, `"\ud83d\ude00"`, `'\udbff\udfff'`, `"\ud800\udc00\ud800\udc00"`, `"\u0041\u00e9"`, `"\\"`, `'a\\'`, `"\"\\\/\b\f\n\r\t"`,
		`{"k\\": "C:\\tmp\\", "n": 1}`, `["a\\", "b"]`, `"\u12345"`, `'it\'s'`, "`back\\quoted`", `1.5e-3`, `0.5E+25`, `12345678901234567890e-5`, `/a(b|c)*\//i`, `/[/]\//ms`, `/\\/`,
		`function($a, $b)<n-s?:o>{$a}`, `function($f)<f<n:n>a<s>+>{$f}`, `function($x)<(ns)-:x>{$x}`, `$x := "\ud83d\ude00" & '\ud83d'`}
	nl := 0
	for _, lit := range lits {
		for cut := 0; cut <= len(lit); cut++ {
			c.parseCompare(lit[:cut], "literal-truncated")
			if cut > 0 {
				c.parseCompare(lit[:cut]+lit[:1], "literal-truncated")
				c.parseCompare(lit[:cut]+lit[len(lit)-1:], "literal-truncated")
			}
			if cut < len(lit) {
				c.parseCompare(lit[:cut]+lit[cut+1:], "literal-byte-deleted")
			}
			nl += 4
		}
	}
	c.rep.Exhaustive = append(c.rep.Exhaustive, fmt.Sprintf("%d truncations / closings / single-byte deletions of %d literals with every escape, exponent, regex and signature form", nl, len(lits)))
	// 5. valid programs and their single-edit mutations
	g := &pgen{r: r}
	for i := 0; i < c.scale(1500, 30000) && !c.tooMany(); i++ {
		g.chaotic = r.chance(1, 2)
		g.vars = nil
		prog := g.expr(1 + r.intn(3))
		if r.chance(1, 4) {
			prog = []string{`"a\u00e9\ud83d\ude00\n\"q"`, `'s\\t'`, "1.5e-3", "0.5E+2", "/a(b|c)*\\//i", "`back quoted`.x", "function($a, $b)<n-s?:o>{$a}", "function($f)<f<n:n>>{$f}", "[1..5]", "a[b][c]"}[r.intn(10)] + []string{"", " + " + prog}[r.intn(2)]
		}
		gr, _ := c.parseCompare(prog, "valid-program")
		if gr.node != nil && i%3 == 0 {
			c08Usable(c, prog)
		}
		for k := 0; k < 4; k++ {
			c.parseCompare(mutate(r, prog), "single-edit")
		}
	}
}

// c08Usable: MustCompile panics iff Compile errors; a returned expression prints and evaluates.
func c08Usable(c *ctx, prog string) {
	e, err := jsonata.Compile(prog)
	func() {
		defer func() {
			if p := recover(); p != nil {
				if err == nil {
					c.disagree(Disagreement{Kind: "mustcompile", Prog: prog, Go: "MustCompile panicked", Model: "Compile succeeded"})
				}
			} else if err != nil {
				c.disagree(Disagreement{Kind: "mustcompile", Prog: prog, Go: "MustCompile did not panic", Model: "Compile failed: " + err.Error()})
			}
		}()
		jsonata.MustCompile(prog)
	}()
	if err == nil && e != nil {
		res := safely(2*time.Second, func() (interface{}, error) {
			_ = e.String()
			return e.Eval(map[string]interface{}{"a": 1.0})
		})
		if res.panicV != nil {
			c.disagree(Disagreement{Kind: "compiled-expr-unusable", Prog: prog, Go: res.outcome, Model: "prints and evaluates"})
		}
	}
}

func mutate(r *rng, s string) string {
	if len(s) == 0 {
		return c08Alphabet[r.intn(len(c08Alphabet))]
	}
	i := r.intn(len(s))
	ins := c08Alphabet[r.intn(len(c08Alphabet))]
	switch r.intn(5) {
	case 0:
		return s[:i] + s[i+1:]
	case 1:
		return s[:i] + ins + s[i:]
	case 2:
		return s[:i] + ins + s[i+1:]
	case 3:
		return s[:i] + s[i:i+1] + s[i:]
	default:
		return s[:i]
	}
}

// ---- C04 ------------------------------------------------------------------------

// The precedence table of the property statement (written here independently of the
// implementation): higher number binds tighter.
var c04Prec = map[string]int{
	"()": 10, "[]": 10, ".": 9, "{}": 8, "*": 7, "/": 7, "%": 7, "+": 6, "-": 6, "&": 6,
	"=": 5, "!=": 5, "<": 5, "<=": 5, ">": 5, ">=": 5, "in": 5, "^": 5, "~>": 5,
	"and": 4, "or": 3, "?:": 2, ":=": 1,
}

var c04Binary = []string{".", "*", "/", "%", "+", "-", "&", "=", "!=", "<", "<=", ">", ">=", "in", "~>", "and", "or"}
var c04Postfix = []string{"()", "[]", "{}", "^"}

type tree struct {
	op   string // "" = leaf
	leaf string
	kids []*tree
}

func leafT(s string) *tree { return &tree{leaf: s} }

func (t *tree) String() string {
	if t.op == "" {
		return t.leaf
	}
	parts := []string{t.op}
	for _, k := range t.kids {
		parts = append(parts, k.String())
	}
	return "(" + strings.Join(parts, " ") + ")"
}

func precOf(t *tree) int {
	if t.op == "" {
		return 100
	}
	return c04Prec[t.op]
}

// printT renders a tree with the minimal parentheses the statement's table requires
// (full=true: parentheses around every operator node).
func printT(t *tree, full bool, ws func() string) string {
	if t.op == "" {
		return t.leaf
	}
	wrap := func(k *tree, need bool) string {
		s := printT(k, full, ws)
		if k.op != "" && (full || need) {
			return "(" + ws() + s + ws() + ")"
		}
		return s
	}
	p := precOf(t)
	switch t.op {
	case "()":
		args := make([]string, len(t.kids)-1)
		for i, k := range t.kids[1:] {
			args[i] = wrap(k, false)
		}
		return wrap(t.kids[0], precOf(t.kids[0]) < p) + "(" + strings.Join(args, ","+ws()) + ")"
	case "[]":
		return wrap(t.kids[0], precOf(t.kids[0]) < p) + "[" + ws() + wrap(t.kids[1], false) + ws() + "]"
	case "{}":
		return wrap(t.kids[0], precOf(t.kids[0]) < p) + "{" + wrap(t.kids[1], false) + ":" + ws() + wrap(t.kids[2], false) + "}"
	case "^":
		return wrap(t.kids[0], precOf(t.kids[0]) < p) + "^(" + wrap(t.kids[1], false) + ")"
	case "?:":
		// the condition groups to the left; then-branch is delimited; the else-branch extends as far to the right as
		// possible (it is parsed at binding power 0), so it never needs parentheses — not even for := (`a ? b : $v := c`)
		return wrap(t.kids[0], precOf(t.kids[0]) <= p) + ws() + "?" + ws() + wrap(t.kids[1], false) + ws() + ":" + ws() + wrap(t.kids[2], false)
	case ":=":
		return t.kids[0].leaf + ws() + ":=" + ws() + wrap(t.kids[1], precOf(t.kids[1]) < p)
	default:
		// binary, left-associative: the right operand needs parentheses at equal precedence
		sp := ws()
		if t.op == "in" || t.op == "and" || t.op == "or" {
			sp = " " + sp
		}
		return wrap(t.kids[0], precOf(t.kids[0]) < p) + sp + t.op + sp + wrap(t.kids[1], precOf(t.kids[1]) <= p)
	}
}

func genTree(r *rng, depth int) *tree {
	leaves := []string{"a", "b", "c", "$x", "1", "\"s\"", "$f(1)", "true", "`q`"}
	if depth == 0 || r.chance(1, 5) {
		return leafT(leaves[r.intn(len(leaves))])
	}
	switch r.intn(10) {
	case 0:
		return &tree{op: "()", kids: []*tree{genTree(r, depth-1), genTree(r, depth-1)}}
	case 1:
		return &tree{op: "[]", kids: []*tree{genTree(r, depth-1), genTree(r, depth-1)}}
	case 2:
		return &tree{op: "{}", kids: []*tree{genTree(r, depth-1), genTree(r, depth-1), genTree(r, depth-1)}}
	case 3:
		return &tree{op: "^", kids: []*tree{genTree(r, depth-1), genTree(r, depth-1)}}
	case 4:
		return &tree{op: "?:", kids: []*tree{genTree(r, depth-1), genTree(r, depth-1), genTree(r, depth-1)}}
	case 5:
		return &tree{op: ":=", kids: []*tree{leafT("$v"), genTree(r, depth-1)}}
	default:
		op := c04Binary[r.intn(len(c04Binary))]
		kids := []*tree{genTree(r, depth-1), genTree(r, depth-1)}
		if op == "." {
			// literals are not path steps (ErrPathLiteral) and "1.1" would lex as one number
			for i, k := range kids {
				if k.op == "" && (k.leaf == "1" || k.leaf == "\"s\"" || k.leaf == "true") {
					kids[i] = leafT("a")
				}
			}
		}
		return &tree{op: op, kids: kids}
	}
}

// canonT converts the implementation's AST into the generic tree form.
func canonT(n jparse.Node) *tree {
	switch n := n.(type) {
	case *jparse.BlockNode:
		if len(n.Exprs) == 1 {
			return canonT(n.Exprs[0])
		}
		return leafT(n.String())
	case *jparse.PathNode:
		t := canonT(n.Steps[0])
		for _, s := range n.Steps[1:] {
			t = &tree{op: ".", kids: []*tree{t, canonT(s)}}
		}
		return t
	case *jparse.NameNode:
		return leafT(n.String())
	case *jparse.PredicateNode:
		t := canonT(n.Expr)
		for _, f := range n.Filters {
			t = &tree{op: "[]", kids: []*tree{t, canonT(f)}}
		}
		return t
	case *jparse.GroupNode:
		if len(n.Pairs) == 1 {
			return &tree{op: "{}", kids: []*tree{canonT(n.Expr), canonT(n.Pairs[0][0]), canonT(n.Pairs[0][1])}}
		}
	case *jparse.SortNode:
		if len(n.Terms) == 1 {
			return &tree{op: "^", kids: []*tree{canonT(n.Expr), canonT(n.Terms[0].Expr)}}
		}
	case *jparse.FunctionCallNode:
		if v, ok := n.Func.(*jparse.VariableNode); ok && v.Name == "f" && len(n.Args) == 1 {
			return leafT("$f(1)")
		}
		kids := []*tree{canonT(n.Func)}
		for _, a := range n.Args {
			kids = append(kids, canonT(a))
		}
		return &tree{op: "()", kids: kids}
	case *jparse.ConditionalNode:
		if n.Else != nil {
			return &tree{op: "?:", kids: []*tree{canonT(n.If), canonT(n.Then), canonT(n.Else)}}
		}
	case *jparse.AssignmentNode:
		return &tree{op: ":=", kids: []*tree{leafT("$" + n.Name), canonT(n.Value)}}
	case *jparse.NumericOperatorNode:
		return &tree{op: n.Type.String(), kids: []*tree{canonT(n.LHS), canonT(n.RHS)}}
	case *jparse.ComparisonOperatorNode:
		return &tree{op: n.Type.String(), kids: []*tree{canonT(n.LHS), canonT(n.RHS)}}
	case *jparse.BooleanOperatorNode:
		return &tree{op: n.Type.String(), kids: []*tree{canonT(n.LHS), canonT(n.RHS)}}
	case *jparse.StringConcatenationNode:
		return &tree{op: "&", kids: []*tree{canonT(n.LHS), canonT(n.RHS)}}
	case *jparse.FunctionApplicationNode:
		return &tree{op: "~>", kids: []*tree{canonT(n.LHS), canonT(n.RHS)}}
	case *jparse.VariableNode:
		return leafT(n.String())
	case *jparse.NumberNode:
		return leafT(n.String())
	case *jparse.StringNode:
		return leafT("\"" + n.Value + "\"")
	case *jparse.BooleanNode:
		return leafT(n.String())
	}
	return leafT("?" + n.String())
}

func runC04(c *ctx) {
	stmtC04(c)
	c.rep.Rule = "operator trees over the complete infix/postfix operator set (exhaustive over all ordered pairs and triples of binary operators, random trees of depth <= 4 with " +
		"postfix ( ) [ ] { } ^( ), ? : and :=), printed (a) with the minimal parentheses required by the precedence table of the property statement and (b) fully parenthesised, with " +
		"three whitespace variants and both quote characters; the implementation's tree (blocks of one expression removed, paths/predicates folded) must equal the generated tree, " +
		"and the implementation's parse must equal the Lean parser model's; operands are names, variables, literals and calls"
	r := c.rng.fork()
	wsVariants := []func() string{func() string { return "" }, func() string { return " " }, func() string { return []string{"", " ", "\n", "\t ", "  "}[r.intn(5)] }}
	check := func(t *tree, bucket string) {
		want := t.String()
		for full := 0; full < 2; full++ {
			for wi, ws := range wsVariants {
				if full == 1 && wi == 1 {
					continue
				}
				text := printT(t, full == 1, ws)
				g, _ := c.parseCompare(text, bucket)
				if g.node == nil {
					if !strings.HasPrefix(g.outcome, "err ErrPathLiteral") && !strings.HasPrefix(g.outcome, "err ErrGroup") {
						c.disagree(Disagreement{Kind: "precedence-text-rejected", Prog: text, Go: g.outcome, Model: want})
					}
					return
				}
				got := canonT(g.node).String()
				if got != want {
					c.disagree(Disagreement{Kind: "precedence", Prog: text, Go: got, Model: want, Detail: fmt.Sprintf("full=%v", full == 1)})
					return
				}
			}
		}
	}
	ops := append([]string{}, c04Binary...)
	c.rep.Exhaustive = append(c.rep.Exhaustive, fmt.Sprintf("all %d ordered pairs and (thorough: all %d) triples of binary operators in both groupings", len(ops)*len(ops), len(ops)*len(ops)*len(ops)))
	a, b, d, e := leafT("a"), leafT("b"), leafT("c"), leafT("d")
	for _, o1 := range ops {
		for _, o2 := range ops {
			check(&tree{op: o2, kids: []*tree{{op: o1, kids: []*tree{a, b}}, d}}, "pairs")
			check(&tree{op: o1, kids: []*tree{a, {op: o2, kids: []*tree{b, d}}}}, "pairs")
			for _, pf := range c04Postfix {
				kids := []*tree{{op: o1, kids: []*tree{a, b}}, d}
				if pf == "{}" {
					kids = append(kids, e)
				}
				check(&tree{op: pf, kids: kids}, "pairs-postfix")
				kids2 := []*tree{b, d}
				if pf == "{}" {
					kids2 = append(kids2, e)
				}
				check(&tree{op: o1, kids: []*tree{a, {op: pf, kids: kids2}}}, "pairs-postfix")
			}
			check(&tree{op: "?:", kids: []*tree{{op: o1, kids: []*tree{a, b}}, {op: o2, kids: []*tree{b, d}}, {op: o1, kids: []*tree{d, e}}}}, "pairs-cond")
			check(&tree{op: ":=", kids: []*tree{leafT("$v"), {op: o1, kids: []*tree{a, {op: o2, kids: []*tree{b, d}}}}}}, "pairs-assign")
			if c.tooMany() {
				return
			}
		}
	}
	// nested conditionals and assignments group to the right
	check(&tree{op: "?:", kids: []*tree{a, b, {op: "?:", kids: []*tree{d, e, a}}}}, "assoc")
	check(&tree{op: "?:", kids: []*tree{{op: "?:", kids: []*tree{a, b, d}}, e, a}}, "assoc")
	check(&tree{op: ":=", kids: []*tree{leafT("$v"), {op: ":=", kids: []*tree{leafT("$v"), a}}}}, "assoc")
	check(&tree{op: "?:", kids: []*tree{a, b, {op: ":=", kids: []*tree{leafT("$v"), d}}}}, "assoc")
	if !c.quick() {
		for _, o1 := range ops {
			for _, o2 := range ops {
				for _, o3 := range ops {
					check(&tree{op: o3, kids: []*tree{{op: o2, kids: []*tree{{op: o1, kids: []*tree{a, b}}, d}}, e}}, "triples")
					check(&tree{op: o1, kids: []*tree{a, {op: o2, kids: []*tree{b, {op: o3, kids: []*tree{d, e}}}}}}, "triples")
					check(&tree{op: o2, kids: []*tree{{op: o1, kids: []*tree{a, b}}, {op: o3, kids: []*tree{d, e}}}}, "triples")
				}
			}
			if c.tooMany() {
				return
			}
		}
	}
	for i := 0; i < c.scale(2500, 60000) && !c.tooMany(); i++ {
		check(genTree(r, 2+r.intn(3)), "random")
	}
	// whitespace between tokens is optional: token sequences (operands incl. the wildcard and descendant operands)
	// glued together wherever two tokens cannot fuse must parse like the spaced text
	operands := []string{"a", "$x", "1", "\"s\"", "*", "**", "$f(1)", "(a)", "`q`", "%", "true"}
	binops := append([]string{}, c04Binary...)
	fuses := func(x, y string) bool {
		l, f := x[len(x)-1], y[0]
		wordy := func(b byte) bool {
			return b == '_' || b == '$' || b == '`' || (b >= '0' && b <= '9') || (b >= 'a' && b <= 'z') || (b >= 'A' && b <= 'Z') || b >= 0x80
		}
		if wordy(l) && (wordy(f) || f == '"' || f == '\'') {
			// a name runs up to the next whitespace or operator character: it swallows a following quote
			return true
		}
		two := string([]byte{l, f})
		switch two {
		case "!=", "<=", ">=", ":=", "..", "**", "~>", "*.", ".*":
			return two != "*." && two != ".*"
		}
		return (l == '.' && f >= '0' && f <= '9') || (l >= '0' && l <= '9' && f == '.') || (l == '"' || f == '"') && false
	}
	for i := 0; i < c.scale(3000, 60000) && !c.tooMany(); i++ {
		n := 1 + r.intn(3)
		toks := []string{operands[r.intn(len(operands))]}
		for k := 0; k < n; k++ {
			toks = append(toks, binops[r.intn(len(binops))], operands[r.intn(len(operands))])
		}
		spaced := strings.Join(toks, " ")
		var glued strings.Builder
		for k, t := range toks {
			if k > 0 && fuses(toks[k-1], t) {
				glued.WriteString(" ")
			}
			glued.WriteString(t)
		}
		g1, _ := c.parseCompare(spaced, "whitespace/spaced")
		g2, _ := c.parseCompare(glued.String(), "whitespace/glued")
		if g1.outcome != g2.outcome && !(strings.HasPrefix(g1.outcome, "err") && strings.HasPrefix(g2.outcome, "err")) {
			c.disagree(Disagreement{Kind: "whitespace-dependent-parse", Prog: glued.String() + "   vs   " + spaced, Go: g2.outcome, Model: g1.outcome + " (the spaced text)"})
		}
	}
	// the lexer's tables, compared behaviourally with the Lean lexer (not by reading the source): every pair of
	// punctuation characters between two operands and on its own, every ASCII character as a separator, words around the
	// keywords, and every letter as a regex flag
	punct := "!\"#$%&'()*+,-./:;<=>?@[\\]^_`{|}~"
	c.rep.Exhaustive = append(c.rep.Exhaustive, "all pairs of ASCII punctuation as operator text; all ASCII characters as separators; all letters and pairs of i,m,s as regex flags")
	for i := 0; i < len(punct); i++ {
		for j := -1; j < len(punct); j++ {
			sym := string(punct[i])
			if j >= 0 {
				sym += string(punct[j])
			}
			c.parseCompare("a "+sym+" b", "symbol-sweep")
			c.parseCompare("a"+sym+"b", "symbol-sweep")
			c.parseCompare(sym, "symbol-sweep")
			c.parseCompare(sym+" b", "symbol-sweep")
		}
	}
	for cp := 0; cp < 0x100; cp++ {
		sep := string(rune(cp))
		c.parseCompare("a"+sep+"+"+sep+"b", "separator-sweep")
		c.parseCompare("[1,"+sep+"2]", "separator-sweep")
	}
	for _, sep := range []string{"\u00a0", "\u2028", "\u3000", "\ufeff", "\u0085", "\u200b"} {
		c.parseCompare("a"+sep+"+"+sep+"b", "separator-sweep")
	}
	for _, w := range []string{"and", "or", "in", "true", "false", "null", "And", "OR", "In", "TRUE", "nul", "nulll", "an", "andd", "o", "i", "inn", "tru", "truee", "fals", "not", "function", "λ", "if", "then", "else"} {
		c.parseCompare(w, "keyword-sweep")
		c.parseCompare("a "+w+" b", "keyword-sweep")
		c.parseCompare("a."+w, "keyword-sweep")
		c.parseCompare(w+"(1)", "keyword-sweep")
	}
	for cp := 'A'; cp <= 'z'; cp++ {
		c.parseCompare("/a/"+string(cp), "regex-flag-sweep")
		c.parseCompare("/a/i"+string(cp)+" ", "regex-flag-sweep")
	}
	for _, fl := range []string{"im", "mi", "is", "si", "ms", "sm", "ims", "smi", "ii", "iim", "imsi", "i m", "i/", "0", "_"} {
		c.parseCompare("/a/"+fl, "regex-flag-sweep")
		c.parseCompare("x ~> /a/"+fl, "regex-flag-sweep")
	}
	// the lexical clauses: quotes, regex vs division, keywords as names
	for _, p := range [][2]string{{`"a b"`, `'a b'`}, {`"q\"q"`, `'q"q'`}, {`"\u00e9"`, `'é'`}} {
		g1, g2 := goParse(p[0]), goParse(p[1])
		c.note("quote\x00"+p[0], "quotes", true)
		if g1.outcome != g2.outcome {
			c.disagree(Disagreement{Kind: "quote-character", Prog: p[0] + "  vs  " + p[1], Go: g1.outcome, Model: g2.outcome})
		}
		c.parseCompare(p[0], "quotes")
		c.parseCompare(p[1], "quotes")
	}
	for _, s := range []string{"a / b / c", "a /b/ c", "/b/", "a ~> /b/", "$f(/b/)", "[/b/, a / b]", "a = /b/", "(/b/)", "a / /b/", "a^(b) / 2", "a^(b)/2/3", "a^(<b, >c) / d", "function($x){$x} / 2", "function($x){$x}/2/3", "|a|{}| / 2", "|a|{}, b|/2/3", "a^(b) ~> /x/", "$f(1) / 2", "a[0] / 2", "a{b: c} / 2", "a.and", "and", "or", "in", "and and and", "or.in", "a.or.b", "and.b", "{and: or}", "$.in", "in in in", "(and)", "[or]",
		"a and b", "a or b", "a in b", "and or or", "a\tand\nb", "a  .  b", "a[ 0 ]", "a { b : c }", "a ^ ( b )", "$f ( 1 )", "a?b:c", "a ? b : c", "$v:=1", "$v := 1", "a~>b", "a ~> b", "a..b", "[1 .. 2]", "[1..2]", "a . . b"} {
		c.parseCompare(s, "lexical")
	}
	// "/ starts a regular expression where an operand is expected and is division after an operand", applied as an oracle of
	// its own (F36: after an opening bracket, a unary minus or the opening pipe of a transform an operand is expected; the
	// implementation and the model used to agree on rejecting these texts, so comparing them with each other said nothing)
	for _, s := range []string{"[/b/]", "(/b/)", "{\"k\": /b/}", "[/b/, a / b]", "-/b/", "|/b/|{}|", "(/b/)(\"xby\")", "[ /b/i ]", "[[/b/]]", "(/b/; 2)", "{\"k\": [/b/]}", "-(/b/)", "[-/b/]",
		"$f(/b/)", "a ~> /b/", "a = /b/", "[1, /b/]", "a[/b/]", "a ? /b/ : /c/", "$v := /b/", "a and /b/", "a & /b/", "a.(/b/)"} {
		c.note("slash-regex\x00"+s, "slash-oracle", true)
		e, err := jsonata.Compile(s)
		if err != nil {
			c.disagree(Disagreement{Kind: "slash-where-an-operand-is-expected", Prog: s, Go: "compile error: " + err.Error(), Model: "a regular expression literal (the statement's rule)"})
		} else if !strings.Contains(e.String(), "/b/") && !strings.Contains(e.String(), "/(?i)b/") {
			c.disagree(Disagreement{Kind: "slash-where-an-operand-is-expected", Prog: s, Go: e.String(), Model: "a tree that contains the regular expression /b/"})
		}
		c.parseCompare(s, "lexical")
	}
	for _, s := range []string{"a / 2", "(a) / 2", "a[0] / 2", "or / 2", "and / 2", "in / 2", "o.in / 2", "a + or / 2", "* / 2", "** / 2", "o.* / 2", "a / 2 / 4", "and/2/4", "\"s\" / 2", "1 / 2", "$v / 2",
		"true / 2", "null / 2", "`a b` / 2", "[a] / 2", "{\"a\": 1} / 2", "$f() / 2", "a^(b) / 2", "a{b: c} / 2", "-a / 2"} {
		c.note("slash-div\x00"+s, "slash-oracle", true)
		e, err := jsonata.Compile(s)
		if err != nil {
			c.disagree(Disagreement{Kind: "slash-after-an-operand", Prog: s, Go: "compile error: " + err.Error(), Model: "a division (the statement's rule)"})
		} else if !strings.Contains(e.String(), " / 2") {
			c.disagree(Disagreement{Kind: "slash-after-an-operand", Prog: s, Go: e.String(), Model: "a tree whose printed form divides by 2"})
		}
		c.parseCompare(s, "lexical")
	}
}

// ---- C11 ------------------------------------------------------------------------

var c11StrUnits = []string{`\"`, `\\`, `\/`, `\b`, `\f`, `\n`, `\r`, `\t`, `\u0041`, `\u00e9`, `\ud83d\ude00`, "a", " ", "é", "😀", "$", "'", "`", "/", "{", "[", ":", ",", "~", "!", "\u007f", "\u2028"}

func genJSONText(r *rng, depth int, b *strings.Builder) {
	ws := func() {
		for r.chance(1, 4) {
			b.WriteString([]string{" ", "\n", "\t", "\r"}[r.intn(4)])
		}
	}
	ws()
	k := r.intn(8)
	if depth == 0 && k >= 6 {
		k = r.intn(6)
	}
	switch k {
	case 0:
		b.WriteString([]string{"null", "true", "false"}[r.intn(3)])
	case 1, 2:
		b.WriteString(genJSONNumber(r))
	case 3, 4, 5:
		genJSONString(r, b)
	case 6:
		b.WriteString("[")
		n := r.intn(4)
		for i := 0; i < n; i++ {
			if i > 0 {
				b.WriteString(",")
			}
			genJSONText(r, depth-1, b)
		}
		ws()
		b.WriteString("]")
	case 7:
		b.WriteString("{")
		n := r.intn(4)
		for i := 0; i < n; i++ {
			if i > 0 {
				b.WriteString(",")
			}
			ws()
			// unique keys
			b.WriteString(fmt.Sprintf("\"k%d", i))
			if r.chance(1, 2) {
				b.WriteString(c11StrUnits[r.intn(len(c11StrUnits))])
			}
			b.WriteString("\"")
			ws()
			b.WriteString(":")
			genJSONText(r, depth-1, b)
		}
		ws()
		b.WriteString("}")
	}
	ws()
}

func genJSONString(r *rng, b *strings.Builder) {
	b.WriteString("\"")
	n := r.intn(5)
	for i := 0; i < n; i++ {
		b.WriteString(c11StrUnits[r.intn(len(c11StrUnits))])
	}
	b.WriteString("\"")
}

func genJSONNumber(r *rng) string {
	if r.chance(1, 6) {
		// integers of 15..25 digits, and the neighbours of 2^31, 2^32, 2^53, 2^63, 2^64 and 10^19..10^22
		switch r.intn(3) {
		case 0:
			n := 15 + r.intn(11)
			var b strings.Builder
			b.WriteByte(byte('1' + r.intn(9)))
			for i := 1; i < n; i++ {
				b.WriteByte(byte('0' + r.intn(10)))
			}
			return []string{"", "-"}[r.intn(2)] + b.String()
		case 1:
			base := []string{"2147483648", "4294967296", "9007199254740992", "9223372036854775808", "18446744073709551616", "36893488147419103232", "10000000000000000000", "100000000000000000000", "1000000000000000000000", "10000000000000000000000", "99999999999999999999", "18446744073709551615"}[r.intn(12)]
			bi, _ := new(big.Int).SetString(base, 10)
			bi.Add(bi, big.NewInt(int64(r.intn(5)-2)))
			return []string{"", "-"}[r.intn(2)] + bi.String()
		default:
			return fmt.Sprintf("%d%018d.%d", 1+r.intn(99), r.next()%1000000000000000000, r.intn(100))
		}
	}
	switch r.intn(12) {
	case 0:
		return "0"
	case 1:
		return "-0"
	case 2:
		return fmt.Sprint(r.intn(2000) - 1000)
	case 3:
		return fmt.Sprintf("%d.%d", r.intn(100), r.intn(1000))
	case 4:
		return fmt.Sprintf("%de%d", r.intn(100), r.intn(40)-20)
	case 5:
		return fmt.Sprintf("-%d.%dE+%d", r.intn(10), r.intn(100), r.intn(300))
	case 6:
		return "4.9e-324"
	case 7:
		return "2.2250738585072011e-308"
	case 8:
		return []string{"9007199254740993", "12345678901234567890", "0.1", "0.30000000000000004", "1.7976931348623157e308", "123456789.12345678"}[r.intn(6)]
	case 9:
		return fmt.Sprintf("%d.%017d", r.intn(10), r.next()%100000000000000000)
	case 10:
		return fmt.Sprintf("%d%d", 1+r.intn(9), r.next()%1000000000000000000)
	default:
		return fmt.Sprintf("1e-%d", r.intn(330))
	}
}

func runC11(c *ctx) {
	c.rep.Rule = "RFC 8259 JSON texts with unique keys (depth <= 4): every escape form at every position, BMP/astral characters raw and escaped, JSONata " +
		"metacharacters inside strings, all number syntaxes (-0, subnormals, 17-digit and > 2^53 integers, exponent forms), empty and nested containers, " +
		"arbitrary inter-token whitespace; exhaustively all strings of up to 2 (quick) / 3 (thorough) units over the escape/character alphabet; each text is evaluated " +
		"as an expression with EvalBytes and compared with encoding/json's decoding of the same text (independent oracle) and parsed by the Lean model; " +
		"single-quoted variants; malformed escapes, unpaired surrogates and out-of-range numbers must be compile errors"
	r := c.rng.fork()
	checkText := func(text string, bucket string) {
		var want interface{}
		dec := json.NewDecoder(strings.NewReader(text))
		if err := dec.Decode(&want); err != nil {
			return
		}
		c.parseCompare(text, bucket)
		e, err := jsonata.Compile(text)
		if err != nil {
			c.disagree(Disagreement{Kind: "json-text-rejected", Prog: text, Go: err.Error(), Model: "denotes " + trunc(valueSexp(want), 200)})
			return
		}
		res := safely(evalLimit, func() (interface{}, error) { return e.Eval(map[string]interface{}{"a": 1.0}) })
		got := res.outcome
		exp := "ok " + valueSexp(want)
		if got != exp {
			c.disagree(Disagreement{Kind: "json-denotation", Prog: text, Go: trunc(got, 300), Model: trunc(exp, 300)})
			return
		}
		// the text denotes its value on every evaluation, whatever the caller did with earlier results
		scribble(res.value)
		res2 := safely(evalLimit, func() (interface{}, error) { return e.Eval(nil) })
		if res2.outcome != exp {
			c.disagree(Disagreement{Kind: "json-denotation-after-caller-wrote-into-result", Prog: text, Go: trunc(res2.outcome, 300), Model: trunc(exp, 300)})
			return
		}
		// "on any input": inputs of every JSON kind, in particular the empty ones
		for _, in := range []interface{}{[]interface{}{}, []interface{}{[]interface{}{}}, map[string]interface{}{}, "s", 0.0, false, []interface{}{1.0, 2.0}, []interface{}{nil}} {
			in := in
			r3 := safely(evalLimit, func() (interface{}, error) { return e.Eval(in) })
			if r3.outcome != exp {
				c.disagree(Disagreement{Kind: "json-denotation-depends-on-input", Prog: text, Input: in, Go: trunc(r3.outcome, 300), Model: trunc(exp, 300)})
				return
			}
		}
	}
	// every single-character escape \c for c over all of ASCII and a few wider characters: the escape table of the
	// implementation is compared behaviourally (with encoding/json where the text is JSON, with the Lean model always),
	// not by reading its source
	c.rep.Exhaustive = append(c.rep.Exhaustive, "every escape \\c, c in U+0000..U+007F and samples beyond, in both quote styles")
	for cp := 0; cp < 0x80+8; cp++ {
		ch := string(rune(cp))
		if cp >= 0x80 {
			ch = []string{"é", "😀", "\u2028", "\u00a0", "ß", "\ufffd", "\u0100", "中"}[cp-0x80]
		}
		for _, q := range []string{"\"", "'"} {
			if ch == q {
				continue
			}
			text := q + "a\\" + ch + "z" + q
			c.parseCompare(text, "escape-sweep")
			checkText(text, "escape-sweep")
			if q == "\"" {
				// where encoding/json rejects the text the implementation must reject it too
				var tmp interface{}
				if jerr := json.Unmarshal([]byte(text), &tmp); jerr != nil {
					if _, cerr := jsonata.Compile(text); cerr == nil {
						c.disagree(Disagreement{Kind: "invalid-escape-accepted", Prog: text, Go: "compiles", Model: "encoding/json: " + jerr.Error()})
					}
				}
			}
		}
	}
	// exhaustive strings of units
	var units func(prefix string, depth int)
	cnt := 0
	units = func(prefix string, depth int) {
		if c.tooMany() {
			return
		}
		checkText("\""+prefix+"\"", "exh-string")
		cnt++
		// single-quoted variant denotes the same value (units without ' or ")
		if !strings.ContainsAny(prefix, "'\"") {
			g1 := goEval("\""+prefix+"\"", nil)
			g2 := goEval("'"+prefix+"'", nil)
			if g1.outcome != g2.outcome {
				c.disagree(Disagreement{Kind: "quote-character", Prog: prefix, Go: g2.outcome, Model: g1.outcome})
			}
		}
		if depth == 0 {
			return
		}
		for _, u := range c11StrUnits[:16] {
			units(prefix+u, depth-1)
		}
	}
	units("", c.scale(2, 3))
	c.rep.Exhaustive = append(c.rep.Exhaustive, fmt.Sprintf("%d string literals of <= %d units over 16 escape/character units", cnt, c.scale(2, 3)))
	for i := 0; i < c.scale(5000, 100000) && !c.tooMany(); i++ {
		var b strings.Builder
		genJSONText(r, 1+r.intn(4), &b)
		checkText(b.String(), "json-text")
	}
	// malformed literals must be compile errors (never silently altered values)
	for _, bad := range []string{`"\u+041"`, `"\u-041"`, `"\u 041"`, `"\u12"`, `"\u12G4"`, `"\ud800"`, `"\ud800x"`, `"\ud800\u0041"`, `"\udc00"`, `"\udc00\ud800"`, `"\x41"`, `"\a"`, `"\'"`, `'\q'`, `"\`, `"abc`,
		`1e400`, `-1e400`, `1e`, `1e+`, `1.e5`, `01`, `1.`, `.5`, `"\ud83d\u0041"`, `"\uD800\uDBFF"`} {
		g := goParse(bad)
		c.note("bad\x00"+bad, "malformed", true)
		m, _ := c.drv.modelParse(bad)
		// a few of these are valid JSONata although not JSON (e.g. 01 lexes as two tokens → syntax error anyway)
		if strings.HasPrefix(g.outcome, "ok ") && (strings.Contains(bad, "\\u") || strings.Contains(bad, "e400") || bad == `"\x41"` || bad == `"\a"`) {
			c.disagree(Disagreement{Kind: "malformed-literal-accepted", Prog: bad, Go: trunc(g.outcome, 200), Model: m})
		} else if g.outcome != m {
			c.disagree(Disagreement{Kind: "parse", Prog: bad, Go: trunc(g.outcome, 200), Model: m})
		}
	}
	_ = math.Pi
}
