package main

// C03 — operators compute their defined results; missing / wrong-typed operands.

import (
	"fmt"
	"math"
)

type kindLits struct {
	kind string
	lits []string // literal forms
	mem  []string // members of the C03 input document holding the same values ("" = none)
}

var c03Input = map[string]interface{}{
	"n0": 0.0, "n1": 1.5, "n2": -2.0, "n3": 1e300, "n4": 7.0, "n5": 3.0,
	"s0": "", "s1": "a", "s2": "10", "s3": "é", "s4": "b",
	"bt": true, "bf": false,
	"a0": []interface{}{}, "a1": []interface{}{1.0}, "a2": []interface{}{1.0, "a"}, "a3": []interface{}{[]interface{}{1.0}},
	"o0": map[string]interface{}{}, "o1": map[string]interface{}{"a": 1.0},
}

var c03Kinds = []kindLits{
	{"num", []string{"0", "1.5", "-2", "1e300", "7", "3"}, []string{"n0", "n1", "n2", "n3", "n4", "n5"}},
	{"str", []string{`""`, `"a"`, `"10"`, `"é"`, `'b'`}, []string{"s0", "s1", "s2", "s3", "s4"}},
	{"bool", []string{"true", "false"}, []string{"bt", "bf"}},
	{"null", []string{"null"}, []string{""}},
	{"arr", []string{"[]", "[1]", `[1, "a"]`, "[[1]]"}, []string{"a0", "a1", "a2", "a3"}},
	{"obj", []string{"{}", `{"a": 1}`}, []string{"o0", "o1"}},
	{"fn", []string{"$sum", "function($x){$x}"}, []string{"", ""}},
	{"missing", []string{"nothing", "$nope"}, []string{"", ""}},
}

var c03BinOps = []string{"+", "-", "*", "/", "%", "=", "!=", "<", "<=", ">", ">=", "in", "and", "or", "&"}

func runC03(c *ctx) {
	c.rep.Rule = "operator x operand-kind x operand-kind table (operands as literals and as input members), " +
		"unary minus, ranges, conditionals, random IEEE bit patterns through input members, random nesting <= 3; " +
		"a case is non-trivial when the implementation parses it and the model covers it; distinct by (program, input)"
	input := c03Input

	// 1. exhaustive table: operator × kind × kind × representative values
	c.rep.Exhaustive = append(c.rep.Exhaustive, "binary operator x kind x kind x values (literal and member forms)")
	for _, op := range c03BinOps {
		for _, kl := range c03Kinds {
			for _, kr := range c03Kinds {
				for i, l := range kl.lits {
					for j, r := range kr.lits {
						if c.quick() && (i > 2 || j > 2) && !(kl.kind == kr.kind) {
							continue
						}
						forms := [][2]string{{l, r}}
						if kl.mem[i] != "" && kr.mem[j] != "" {
							forms = append(forms, [2]string{kl.mem[i], kr.mem[j]})
						} else if kl.mem[i] != "" {
							forms = append(forms, [2]string{kl.mem[i], r})
						} else if kr.mem[j] != "" {
							forms = append(forms, [2]string{l, kr.mem[j]})
						}
						for _, f := range forms {
							prog := fmt.Sprintf("(%s) %s (%s)", f[0], op, f[1])
							c.diffEval(prog, input, "table/"+op+"/"+kl.kind+"/"+kr.kind)
						}
					}
				}
			}
		}
	}
	// unary minus, ranges, conditionals over every kind
	for _, k := range c03Kinds {
		for i, l := range k.lits {
			c.diffEval("-("+l+")", input, "neg/"+k.kind)
			if k.mem[i] != "" {
				c.diffEval("-"+k.mem[i], input, "neg/"+k.kind)
			}
			// stacked negations: each one checks its operand (nothing may be cancelled away)
			for _, pre := range []string{"--", "---", "- -", "-(-", "----"} {
				suf := ""
				if pre == "-(-" {
					suf = ")"
				}
				c.diffEval(pre+"("+l+")"+suf, input, "neg/stacked/"+k.kind)
				if k.kind != "num" || l[0] != '-' {
					c.diffEval(pre+l+suf, input, "neg/stacked/"+k.kind)
				}
				if k.mem[i] != "" {
					c.diffEval(pre+k.mem[i]+suf, input, "neg/stacked/"+k.kind)
					c.diffEval(pre+k.mem[i]+suf+" & \"!\"", input, "neg/stacked/"+k.kind)
					c.diffEval("1 - "+pre+k.mem[i]+suf, input, "neg/stacked/"+k.kind)
				}
			}
			for _, k2 := range c03Kinds {
				for _, r := range k2.lits {
					c.diffEval("["+l+".."+r+"]", input, "range/"+k.kind+"/"+k2.kind)
				}
			}
			c.diffEval("("+l+") ? \"T\" : \"E\"", input, "cond/"+k.kind)
			c.diffEval("("+l+") ? \"T\"", input, "cond/"+k.kind)
			// laziness: the branch not chosen would be an error if evaluated
			c.diffEval("("+l+") ? 1 : (1 + \"x\")", input, "condlazy/"+k.kind)
			c.diffEval("("+l+") ? (1 + \"x\") : 2", input, "condlazy/"+k.kind)
		}
	}
	// range sizes and limits
	if !c.quick() {
		// the ten-million bound applies to each range, not to the array under construction (tens of seconds each)
		for _, p := range []string{"$count([0, 1..10000000])", "$count([1..5000001, 1..5000000])", "$count([[1..10000000], [1..10000000]])"} {
			g := goEval(p, nil)
			c.note(p, "range-bound-per-range", true)
			want := map[string]string{"$count([0, 1..10000000])": numAtom(10000001), "$count([1..5000001, 1..5000000])": numAtom(10000001), "$count([[1..10000000], [1..10000000]])": numAtom(2)}[p]
			if g.outcome != "ok "+want {
				c.disagree(Disagreement{Kind: "oracle", Prog: p, Go: g.outcome, Model: "ok " + want})
			}
		}
	}
	for _, p := range []string{"[1..5]", "[5..1]", "[3..3]", "[-2..2]", "[0..9999999]~>$count", "[1..10000000]~>$count",
		"[0..10000000]", "[1..10000001]", "1 in [1..20000000]", "\"5\" in [1..20000000]", "nothing in [0..10000000]", "7 in [0..9]", "11 in [0..9]",
		"n4 in [n4..n5]", "[1..10000001] = 1", "$exists([1..10000001])", "1 in [0, 1..20000000]", "[0..10000000][0]", "1.5 in [1.5..3]", "[1.5..3]", "[1..2.5]", "[1..1e300]", "[-1e300..1]", `["a".."b"]`, "[nothing..3]", "[1..nothing]", "[1..3, 7..9]", "[n4..n5]", "[n5..n4]"} {
		c.diffEval(p, input, "range/limits")
	}

	// 2. numeric laws on random bit patterns (bit-for-bit), through input members
	n := c.scale(6000, 100000)
	r := c.rng.fork()
	for i := 0; i < n && !c.tooMany(); i++ {
		x, y := randDouble(r), randDouble(r)
		op := []string{"+", "-", "*", "/", "%"}[r.intn(5)]
		in := map[string]interface{}{"x": x, "y": y}
		c.diffEval("x "+op+" y", in, "bits/"+op)
		if i%7 == 0 {
			c.diffEval("x "+[]string{"<", "<=", ">", ">=", "=", "!="}[r.intn(6)]+" y", in, "bits/cmp")
			c.diffEval("-x", in, "bits/neg")
		}
	}

	// 2b. ranges whose bounds are beyond 2^53 (integers are no longer all representable: the i-th
	// member is the double nearest to a+i) and just below it
	for i := 0; i < c.scale(300, 5000) && !c.tooMany(); i++ {
		base := []float64{9007199254740992, 9007199254740990, 1 << 60, -9007199254740992, 4503599627370496, 1e17}[r.intn(6)]
		a := base + float64(r.intn(9)-4)*2
		b := a + float64(r.intn(7))*[]float64{1, 2, 256}[r.intn(3)]
		if b-a > 2000 {
			continue
		}
		in := map[string]interface{}{"x": a, "y": b}
		c.diffEval("[x..y]", in, "range/beyond-2^53")
		g := goEval("[x..y]", in)
		if arr, ok := g.value.([]interface{}); ok && g.err == nil {
			for j, v := range arr {
				if f, ok := v.(float64); !ok || f != a+float64(j) {
					c.disagree(Disagreement{Kind: "oracle", Prog: "[x..y]", Input: in, Go: fmt.Sprintf("member %d = %v", j, v), Model: fmt.Sprintf("the double nearest to x+%d = %v", j, a+float64(j))})
					break
				}
			}
		}
	}

	// 2c. structural equality of arrays and objects taken from the input: pairs of nearly equal
	// values (renamed members, null members, nulls in arrays, permuted arrays, nested changes)
	for i := 0; i < c.scale(2500, 40000) && !c.tooMany(); i++ {
		x := c03Value(r, 3)
		y := c03Mutate(r, x)
		if r.chance(1, 4) {
			y = c03Value(r, 3)
		}
		in := map[string]interface{}{"x": x, "y": y, "ys": []interface{}{c03Mutate(r, x), y, c03Mutate(r, y)}}
		_, xc := x.(map[string]interface{})
		_, xa := x.([]interface{})
		_, yc := y.(map[string]interface{})
		_, ya := y.([]interface{})
		if !(xc || xa) || !(yc || ya) {
			continue
		}
		// an empty array taken from the input is "no value" (C01), and [y] flattens an array y
		if xs, ok := x.([]interface{}); ok && len(xs) == 0 {
			continue
		}
		if ysl, ok := y.([]interface{}); ok && len(ysl) == 0 {
			continue
		}
		want := jsonDeepEqual(x, y)
		for _, pe := range []struct {
			prog string
			want bool
		}{{"x = y", want}, {"x != y", !want}, {"y = x", want}, {"x in [y, 0]", want && yc}, {"$count(ys[$ = $$.x]) > 0", jsonDeepEqual(x, in["ys"].([]interface{})[0]) || jsonDeepEqual(x, in["ys"].([]interface{})[1]) || jsonDeepEqual(x, in["ys"].([]interface{})[2])}} {
			if pe.prog == "x in [y, 0]" && !yc {
				continue // [y, 0] flattens an array y
			}
			c.diffEval(pe.prog, in, "structural-eq")
			g := goEval(pe.prog, in)
			exp := "ok f"
			if pe.want {
				exp = "ok t"
			}
			if g.outcome != exp && pe.prog != "$count(ys[$ = $$.x]) > 0" {
				c.disagree(Disagreement{Kind: "oracle", Prog: pe.prog, Input: in, Go: g.outcome, Model: exp + " (member-wise comparison; an absent member is not a null member)"})
			}
		}
	}

	// 2d. numbers inside compared containers: equality of members is numeric equality (both zeros, exponent forms)
	for _, l := range []string{"[0]", "[-0]", "[0 * -1]", "[1e0]", "[1]", "[100e-2]", `{"v": 0}`, `{"v": -0}`, `{"v": 0 * -1}`, "[[0]]", "[[-0]]", "[1, -0, 2]", "[1, 0, 2]", "[1e21]", "[1000000000000000000000]"} {
		for _, rr := range []string{"[0]", "[-0]", "[1]", `{"v": 0}`, `{"v": -0}`, "[[0]]", "[[-0]]", "[1, 0, 2]", "[1, -0, 2]", "[1e21]"} {
			for _, op := range []string{"=", "!="} {
				c.diffEval(l+" "+op+" "+rr, input, "container-number-eq")
			}
			c.diffEval(l+" in ["+rr+", [7]]", input, "container-number-eq")
		}
	}

	// 2e. `in` with a right-hand array constructor whose items are themselves arrays reached by name, variable, parentheses
	// or a call: the constructor flattens them, so their members are members
	for _, l := range []string{"1", `"a"`, "n4", "s1", "[1]", "7", "2", "nothing"} {
		for _, rhs := range []string{"[a2]", "[a2, 9]", "[(a2)]", "[a1, a2]", "[a3]", "[$append(a1, a2)]", "[a2[0]]", "[a0, a2]", "[n4, a2]", "[[a2]]", "[a2, [9]]", "[$v]", "[$v, 9]", "[($v)]", "[$reverse(a2)]"} {
			for _, op := range []string{"in"} {
				c.diffEval("($v := a2; ("+l+") "+op+" "+rhs+")", input, "in-constructor-with-array-items")
			}
		}
	}

	// 3. random nesting up to depth 3
	n = c.scale(4000, 60000)
	for i := 0; i < n && !c.tooMany(); i++ {
		prog := genOpExpr(r, 3)
		c.diffEval(prog, input, "nested")
	}
}

// c03Value builds a JSON value with null members, nesting and repeated small scalars (so that
// two independently built values are often nearly equal)
func c03Value(r *rng, depth int) interface{} {
	k := r.intn(9)
	if depth <= 0 && k >= 6 {
		k = r.intn(6)
	}
	switch k {
	case 0:
		return nil
	case 1:
		// small integers, both zeros, and magnitudes whose text forms are unusual (equality is numeric: -0 = 0)
		return []float64{0, 1, 2, 0, math.Copysign(0, -1), 1e21, 0.1, 1, 2, -1e-7}[r.intn(10)]
	case 2:
		return []string{"", "a", "1", "é", "\U0001F600"}[r.intn(5)]
	case 3:
		return r.chance(1, 2)
	case 4:
		return 1.0
	case 5:
		return nil
	case 6, 7:
		m := map[string]interface{}{}
		for i, n := 0, r.intn(4); i < n; i++ {
			m[[]string{"k", "p", "q", "a"}[r.intn(4)]] = c03Value(r, depth-1)
		}
		return m
	default:
		a := []interface{}{}
		for i, n := 0, r.intn(4); i < n; i++ {
			a = append(a, c03Value(r, depth-1))
		}
		return a
	}
}

// c03Mutate returns a value that differs from v in one small way (or not at all)
func c03Mutate(r *rng, v interface{}) interface{} {
	switch x := v.(type) {
	case map[string]interface{}:
		out := map[string]interface{}{}
		keys := make([]string, 0, len(x))
		for k := range x {
			keys = append(keys, k)
		}
		sortStrings(keys)
		for _, k := range keys {
			out[k] = x[k]
		}
		if len(keys) == 0 {
			if r.chance(1, 2) {
				out["k"] = nil
			}
			return out
		}
		k := keys[r.intn(len(keys))]
		switch r.intn(6) {
		case 0: // rename a member (same value, e.g. null under another name)
			delete(out, k)
			out[k+"2"] = x[k]
		case 1: // replace a member's value by null
			out[k] = nil
		case 2: // mutate deeper
			out[k] = c03Mutate(r, x[k])
		case 3: // drop a member
			delete(out, k)
		case 4: // add a null member
			out["z"] = nil
		}
		return out
	case []interface{}:
		out := append([]interface{}{}, x...)
		if len(out) == 0 {
			if r.chance(1, 2) {
				out = append(out, nil)
			}
			return out
		}
		i := r.intn(len(out))
		switch r.intn(5) {
		case 0:
			out[i] = c03Mutate(r, out[i])
		case 1:
			out = append(out, nil)
		case 2:
			out = out[:len(out)-1]
		case 3:
			j := r.intn(len(out))
			out[i], out[j] = out[j], out[i]
		}
		return out
	case nil:
		if r.chance(1, 3) {
			return false
		}
		return nil
	case float64:
		if r.chance(1, 3) {
			return x + 1
		}
		return x
	}
	return v
}

func jsonDeepEqual(a, b interface{}) bool {
	switch x := a.(type) {
	case map[string]interface{}:
		y, ok := b.(map[string]interface{})
		if !ok || len(x) != len(y) {
			return false
		}
		for k, v := range x {
			w, present := y[k]
			if !present || !jsonDeepEqual(v, w) {
				return false
			}
		}
		return true
	case []interface{}:
		y, ok := b.([]interface{})
		if !ok || len(x) != len(y) {
			return false
		}
		for i := range x {
			if !jsonDeepEqual(x[i], y[i]) {
				return false
			}
		}
		return true
	case nil:
		return b == nil
	default:
		return a == b
	}
}

func randDouble(r *rng) float64 {
	switch r.intn(10) {
	case 0:
		return 0
	case 1:
		return math.Copysign(0, -1)
	case 2:
		return float64(r.intn(21) - 10)
	case 3:
		return float64(r.intn(2001)-1000) / 8
	case 4:
		return math.Float64frombits(r.next() % 0x0010000000000000) // subnormal
	case 5:
		return math.Ldexp(float64(r.intn(1000)+1), 1000+r.intn(20)) // huge
	case 6:
		return math.Ldexp(float64(r.intn(1000)+1), -1060-r.intn(10)) // tiny
	default:
		for {
			f := math.Float64frombits(r.next())
			if !math.IsNaN(f) && !math.IsInf(f, 0) {
				return f
			}
		}
	}
}

func genOpAtom(r *rng) string {
	k := c03Kinds[r.intn(len(c03Kinds))]
	i := r.intn(len(k.lits))
	if k.mem[i] != "" && r.chance(1, 2) {
		return k.mem[i]
	}
	return k.lits[i]
}

func genOpExpr(r *rng, depth int) string {
	if depth == 0 || r.chance(2, 10) {
		return genOpAtom(r)
	}
	switch r.intn(10) {
	case 0:
		return "-(" + genOpExpr(r, depth-1) + ")"
	case 1:
		return "(" + genOpExpr(r, depth-1) + ") ? (" + genOpExpr(r, depth-1) + ") : (" + genOpExpr(r, depth-1) + ")"
	case 2:
		return "[(" + genOpExpr(r, depth-1) + ")..(" + genOpExpr(r, depth-1) + ")]"
	default:
		op := c03BinOps[r.intn(len(c03BinOps))]
		return "(" + genOpExpr(r, depth-1) + ") " + op + " (" + genOpExpr(r, depth-1) + ")"
	}
}
