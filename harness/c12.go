package main

// C12 — lexical scoping, closures, signatures, partial application and chaining.

import (
	"fmt"
	"strings"
)

var c12ArgVals = []string{"1", "2.5", `"s"`, `""`, "true", "null", "[1, 2]", `["a"]`, "[]", `{"k": 1}`, "$sum", "function($q){$q}", "nothing", "[[1]]", `[1, "a"]`}

var c12TypeAtoms = []string{"n", "s", "b", "a", "o", "f", "j", "x", "l", "(ns)", "(nb)", "(sa)", "a<n>", "a<s>", "a<(ns)>", "a<a<n>>", "f<n>"}
var c12Opts = []string{"", "", "", "?", "+", "-"}

func genSig(r *rng, n int) string {
	var b strings.Builder
	for i := 0; i < n; i++ {
		b.WriteString(c12TypeAtoms[r.intn(len(c12TypeAtoms))])
		o := c12Opts[r.intn(len(c12Opts))]
		if o == "+" && i != n-1 {
			o = ""
		}
		if o == "-" && i != 0 && r.chance(3, 4) {
			o = ""
		}
		b.WriteString(o)
	}
	return b.String()
}

func genArgs(r *rng, n int) string {
	parts := make([]string, n)
	for i := range parts {
		parts[i] = c12ArgVals[r.intn(len(c12ArgVals))]
	}
	return strings.Join(parts, ", ")
}

var c12Scoping = []string{
	"($a := 1; $f := function(){$a}; $a := 2; $f())",
	"($a := 1; ($a := 2; $a); $a)",
	"($a := 1; ($b := $a + 1; $b) + $a)",
	"(($inner := 5; $inner); $inner)",
	"($a := 1; $f := function($a){$a + 10}; $f(5) + $a)",
	"($f := function($x){($x := $x + 1; $x)}; $x := 7; $f($x) + $x)",
	"($f := function($n){$n <= 1 ? 1 : $n * $f($n - 1)}; $f(5))",
	"($even := function($n){$n = 0 ? true : $odd($n - 1)}; $odd := function($n){$n = 0 ? false : $even($n - 1)}; $even(6))",
	"($f := function($x, $y){$y}; $f(1))",
	"($f := function($x, $y){$exists($y)}; $f(1))",
	"($f := function($x){$x}; $f(1, 2, 3))",
	"($f := function(){1}; $f(1, 2))",
	"($mk := function($k){function($v){$v + $k}}; $add2 := $mk(2); $add3 := $mk(3); [$add2(10), $add3(10)])",
	"($mk := function($k){function(){$k}}; $fs := [1, 2, 3].($mk($)); $fs.($())) ",
	"a.(function(){$})()",
	"a.($c := $; function(){$c})()",
	"(a.function(){b}).$()",
	"($f := a.function(){b}; $f())",
	"($g := function($f){$f(2)}; $g(function($x){$x * 3}))",
	"$map([1, 2, 3], function($v){($w := $v * 2; $w)})",
	"($w := 100; $map([1, 2, 3], function($v){($w := $v * 2; $w)}); $w)",
	"($x := 1; $y := ($x := 2; $x + 1); [$x, $y])",
	"(1)(2)", "\"f\"(1)", "$nothing(1)", "a(1)", "nothing ~> $string", "1 ~> 2", "1 ~> nothing", "$sum ~> 2",
	"($f := function($x){$x + 1}; $g := function($x){$x * 2}; ($f ~> $g)(3))",
	"($f := function($x){$x + 1}; $g := function($x){$x * 2}; ($g ~> $f)(3))",
	"($f := function($x){$x + 1}; $g := function($x){$x * 2}; 3 ~> $f ~> $g)",
	"($f := function($x){$x + 1}; 3 ~> $f() ~> $f())",
	"4 ~> $power(2)", "2 ~> $power(4, ?)", "[1, 2, 3] ~> $sum()", "[1, 2, 3] ~> $sum", "[1,2,3] ~> $map(function($v){$v + 1}) ~> $sum()",
	"($add := function($x, $y){$x + $y}; $inc := $add(?, 1); $inc(5))",
	"($add := function($x, $y, $z){[$x, $y, $z]}; $p := $add(?, 2, ?); $p(1, 3))",
	"($add := function($x, $y, $z){[$x, $y, $z]}; $p := $add(1, ?, ?); $p(9))",
	"($add := function($x, $y, $z){[$x, $y, $z]}; $p := $add(?, ?, 3); $p(9, 8, 7))",
	"($add := function($x, $y, $z){[$x, $y, $z]}; $p := $add(?, ?, ?); $q := $p(1, ?, ?); $q(2, 3))",
	"$pad(?, \"2\")(1)", "$pad(?, 5)(\"a\")", "$pad(?, 5, \"x\")(\"a\")", "$substring(?, 1)(\"hello\")", "$substringBefore(?, \"l\")(\"hello\")",
	"1(?)", "nothing(?)", "$sum(?)([1, 2])", "$string(?)(12)",
}

var c12Ctx = []string{
	"a.$substringBefore($$.b.c.$substringBefore(\"z\"))",
	"a.$substringBefore(\"y\")",
	"a.$substringAfter($$.b.c.$substringAfter(\"x\"))",
	"b.c.$pad($length($$.a))",
	"a.$string()",
	"a.$length()",
	"b.c.$uppercase()",
	"b.c.$substring(1)",
	"b.c.$substring($$.a.$length() - 2)",
	"[a, b.c].$length()",
	"[a, b.c].$substringBefore(\"y\")",
	"a.$contains(\"y\") and b.c.$contains(\"y\")",
	"a.$split(\"y\")",
	"a.$replace(\"x\", $$.b.c.$lowercase())",
	"$$.a.$substringBefore(\"y\") & b.c.$substringBefore(\"y\")",
	"a.$number()",
	"n.$string()",
	"n.$boolean()",
	"a.$lookup(\"zz\")",
	"b.$keys()",
	"b.$lookup(\"c\")",
	"a.$trim()",
	"n.$round()", "n.$floor()", "n.$power(2)", "n.$sqrt()", "n.$abs()",
	"b.$each(function($v){$v})",
	"b.$sift(function($v){true})",
	"b.$spread()",
	"a.$type()", "b.$type()",
	"a.$not()", "a.$exists()",
}

func runC12(c *ctx) {
	stmtC12(c)
	c.rep.Rule = "blocks, nested blocks, assignments, lambdas of 0..3 parameters (nested, returned, passed to higher-order built-ins, recursive), " +
		"every signature built from the type letters, unions, array subtypes and ? + - options against argument lists of every kind and length 0..4, " +
		"placeholders in every position, chains mixing values, calls, bare functions and partials, context-defaulting built-ins nested in each other's " +
		"arguments under different path contexts"
	r := c.rng.fork()
	doc := map[string]interface{}{"a": "xaybz", "b": map[string]interface{}{"c": "pxqyrz"}, "n": 6.25}
	for _, p := range c12Scoping {
		c.diffEval(p, doc, "scoping")
	}
	for _, p := range c12Ctx {
		c.diffEval(p, doc, "context")
	}
	// a closure (lambda or partial application) made before a nested block that is the LAST expression of its parent and
	// rebinds a name the closure reads: the closure keeps seeing the parent's binding
	for _, clos := range []string{"$f := function(){$x}", "$f := function($y){$x + $y}", "$f := $sum(?)", "$g := function($a, $b){$a + $b}; $f := $g(?, $x)", "$f := function(){function(){$x}}()"} {
		for _, call := range []string{"$f()", "$f(1)", "[$f(1), $x]", "$map([1], $f)", "($f(1))", "(true ? $f(1) : 0)"} {
			for _, shape := range []string{"($x := 1; %s; ($x := 2; %s))", "($x := 1; %s; (($x := 2; %s)))", "($x := 1; %s; ($x := 2; ($x := 3; %s)))", "($x := 1; %s; 0; ($x := 2; %s))",
				"function($x){(%s; ($x := 2; %s))}(1)", "($x := 1; %s; ($y := 2; $x := $y; %s))", "($x := 1; (%s; ($x := 2; %s)))", "($x := 1; %s; ($x := 2; %s); $x)"} {
				c.diffEval(fmt.Sprintf(shape, clos, call), doc, "scoping/closure-before-trailing-block")
			}
		}
	}
	// wide scopes: one block (or one lambda body, or the top level) binding many distinct names, rebinding some of them
	// later, and reading them directly, through closures made before and after the rebinding, and from nested blocks
	for i := 0; i < c.scale(400, 6000) && !c.tooMany(); i++ {
		n := []int{2, 7, 8, 9, 10, 15, 16, 17, 31, 33, 64, 65, 100}[r.intn(13)]
		var stm []string
		for k := 1; k <= n; k++ {
			stm = append(stm, fmt.Sprintf("$v%d := %d", k, k))
			if k == n/2 && r.chance(1, 2) {
				stm = append(stm, fmt.Sprintf("$early := function(){[$v1, $v%d]}", 1+r.intn(k)))
			}
		}
		reb := 1 + r.intn(4)
		var names []int
		for k := 0; k < reb; k++ {
			j := 1 + r.intn(n)
			if r.chance(1, 2) {
				j = 1 + r.intn(minInt(n, 8))
			}
			names = append(names, j)
			switch r.intn(3) {
			case 0:
				stm = append(stm, fmt.Sprintf("$v%d := %d", j, 1000+j))
			case 1:
				stm = append(stm, fmt.Sprintf("$v%d := $v%d + 500", j, j))
			default:
				stm = append(stm, fmt.Sprintf("$v%d := function($x){$x * %d}", j, j+1))
			}
		}
		j := names[r.intn(len(names))]
		obs := []string{fmt.Sprintf("$v%d", j), fmt.Sprintf("[$v%d, $v1, $v%d]", j, n), fmt.Sprintf("function(){$v%d}()", j), fmt.Sprintf("($v%d := 7; $v%d)", j, j),
			fmt.Sprintf("($w := 1; [$v%d, $v%d])", j, names[0]), fmt.Sprintf("$map([1], function($q){$v%d})", j), fmt.Sprintf("$type($v%d)", j), fmt.Sprintf("$exists($v%d) and $v%d = $v%d", j, j, j)}[r.intn(8)]
		if strings.Contains(strings.Join(stm, ";"), "$early") && r.chance(1, 2) {
			obs = "[$early(), " + obs + "]"
		}
		body := strings.Join(stm, "; ") + "; " + obs
		prog := []string{"(%s)", "function(){(%s)}()", "function($v1, $v2){(%s)}(5, 6)", "((%s))", "[1, 2].(%s)", "%s"}[r.intn(6)]
		if prog == "%s" {
			// the top-level scope: a block without its own parentheses is not a program, use a sequence of two blocks
			prog = "(%s)"
		}
		c.diffEval(fmt.Sprintf(prog, body), doc, "scoping/wide-block")
	}

	// assignments that are not direct statements of a block (inside a conditional, a constructor, an argument):
	// they bind in the scope of the block that contains them, never in an enclosing one
	c.rep.Exhaustive = append(c.rep.Exhaustive, "assignment in expression position x enclosing block shape x observer")
	for _, a := range []string{"$x := 2", "$x := $x", "$y := 5"} {
		for _, ctxt := range []string{"(true ? %s : 0)", "(false ? 0 : %s)", "[%s]", "{\"k\": %s}", "$count([%s])", "$string(%s)", "1 + (true ? %s : 0)", "[1, 2].(%s)", "$map([1], function($v){%s})", "(true ? (false ? 0 : %s))"} {
			inner := fmt.Sprintf(ctxt, a)
			for _, shape := range []string{"(%s)", "(%s; 0)", "(0; %s)", "(%s; $x)", "function(){%s}()", "function($x){(%s; $x)}(9)", "function($x){%s}(9)", "((%s))", "(%s; $y)"} {
				blk := fmt.Sprintf(shape, inner)
				for _, outer := range []string{"($x := 1; %s; $x)", "($z := 0; %s; $x)", "($x := \"o\"; $f := function(){$x}; %s; $f())", "($x := 1; [%s, $x])", "($z := 0; %s; $y)", "function($x){(%s; $x)}(7)"} {
					c.diffEval(fmt.Sprintf(outer, blk), doc, "scoping/nested-assignment")
				}
			}
		}
	}
	// signatures
	n := c.scale(9000, 200000)
	for i := 0; i < n && !c.tooMany(); i++ {
		np := r.intn(4)
		names := []string{"$p", "$q", "$r"}[:np]
		sig := genSig(r, np)
		body := []string{"[$p, $q, $r]", "$p", "$count($q)", "$exists($r)", "[$p]", "$type($p)", "$q"}[r.intn(7)]
		if np == 0 {
			body = "1"
		}
		// argument count mostly near the parameter count
		na := np + r.intn(3) - 1
		if na < 0 || r.chance(1, 6) {
			na = r.intn(5)
		}
		args := genArgs(r, na)
		prog := fmt.Sprintf("function(%s)<%s>{%s}(%s)", strings.Join(names, ", "), sig, body, args)
		if r.chance(1, 4) {
			prog = "a.(" + prog + ")"
		}
		if r.chance(1, 8) {
			prog = "(" + c12ArgVals[r.intn(len(c12ArgVals))] + ") ~> " + prog
		}
		c.diffEval(prog, doc, "signature")
	}
	// exhaustive small: one parameter, every atom x option x every argument list of length 0..2
	c.rep.Exhaustive = append(c.rep.Exhaustive, "one-parameter signatures: every type atom x every option x every argument list of length 0..2")
	for _, t := range c12TypeAtoms {
		for _, o := range []string{"", "?", "+", "-"} {
			for _, a := range append([]string{""}, c12ArgVals...) {
				c.diffEval(fmt.Sprintf("function($p)<%s%s>{[$p]}(%s)", t, o, a), doc, "sig1")
				if !c.quick() || len(a) < 4 {
					for _, a2 := range c12ArgVals {
						if a == "" {
							continue
						}
						c.diffEval(fmt.Sprintf("function($p)<%s%s>{[$p]}(%s, %s)", t, o, a, a2), doc, "sig1")
					}
				}
			}
		}
	}
	// closures and their context item: a (typed or untyped) lambda defined under one context and called under others
	doc2 := map[string]interface{}{"name": "outer", "a": "xaybz", "inner": map[string]interface{}{"name": "inner", "deep": map[string]interface{}{"name": "deep"}},
		"items": []interface{}{map[string]interface{}{"name": "i0"}, map[string]interface{}{"name": "i1"}}}
	bodies := []string{"name & $string($x)", "$.name", "[name, $x]", "$$.name & name", "$length(name) + $x", "name"}
	sigs := []string{"", "<n:s>", "<n>", "<x>", "<n?>", "<j:x>", "<n-:s>"}
	callers := []string{"$f(1)", "inner.$f(1)", "inner.deep.$f(2)", "items.$f(3)", "items[1].$f(4)", "inner.(deep.$f(5))", "$map([1,2], $f)", "inner.$map([1], $f)", "1 ~> $f", "inner.(6 ~> $f)", "inner.$f()"}
	definers := []string{"%s", "inner.(%s)", "items[0].(%s)"}
	for _, body := range bodies {
		for _, sg := range sigs {
			for _, call := range callers {
				for di, def := range definers {
					if c.quick() && (di+len(body)+len(call))%3 != 0 {
						continue
					}
					lam := "function($x)" + sg + "{" + body + "}"
					prog := "(" + fmt.Sprintf(def, "$f := "+lam+"; $g := $f; ("+call+")") + ")"
					c.diffEval(prog, doc2, "closure-context")
				}
			}
		}
	}
	// chains bound to variables and extended more than once (a derived chain must not disturb its siblings)
	unary := []string{"function($v){$v + 1}", "function($v){$v * 2}", "function($v){$v * $v}", "function($v){\"k1:\" & $v}", "function($v){\"k2:\" & $v}", "function($v){[$v]}", "$string", "function($v){-$v}"}
	for i := 0; i < c.scale(600, 10000) && !c.tooMany(); i++ {
		k := 1 + r.intn(6)
		var defs []string
		for j := 0; j < 8; j++ {
			defs = append(defs, fmt.Sprintf("$u%d := %s", j, unary[j]))
		}
		base := "$u" + fmt.Sprint(r.intn(3))
		for j := 1; j < k; j++ {
			base += " ~> $u" + fmt.Sprint(r.intn(3))
		}
		prog := "(" + strings.Join(defs, "; ") + "; $base := " + base + "; $p := $base ~> $u3; $q := $base ~> $u4; $r := $p ~> $u5; $s := $base ~> $u" + fmt.Sprint(r.intn(8)) +
			"; [$p(3), $q(3), $r(3), $s(3), $base(3), $p(4)])"
		c.diffEval(prog, doc, "chain-extension")
	}
	// partials and chains, random
	fns := []string{"function($x, $y, $z){[$x, $y, $z]}", "$append", "$substring", "$pad", "function($x){$x}", "$sum", "$string", "function(){7}", "$power"}
	for i := 0; i < c.scale(3000, 60000) && !c.tooMany(); i++ {
		f := fns[r.intn(len(fns))]
		na := 1 + r.intn(3)
		parts := make([]string, na)
		ph := 0
		for j := range parts {
			if r.chance(1, 2) {
				parts[j] = "?"
				ph++
			} else {
				parts[j] = c12ArgVals[r.intn(len(c12ArgVals))]
			}
		}
		if ph == 0 {
			parts[0] = "?"
		}
		call := genArgs(r, r.intn(4))
		prog := fmt.Sprintf("(%s)(%s)(%s)", f, strings.Join(parts, ", "), call)
		if r.chance(1, 3) {
			prog = fmt.Sprintf("(%s) ~> (%s)(%s)", c12ArgVals[r.intn(len(c12ArgVals))], f, strings.Join(parts, ", "))
		}
		if r.chance(1, 5) {
			g := fns[r.intn(len(fns))]
			prog = fmt.Sprintf("(%s) ~> (%s) ~> (%s)", c12ArgVals[r.intn(len(c12ArgVals))], f, g)
			if r.chance(1, 2) {
				prog = fmt.Sprintf("((%s) ~> (%s))(%s)", f, g, call)
			}
		}
		c.diffEval(prog, doc, "partial-chain")
	}
}

func minInt(a, b int) int {
	if a < b {
		return a
	}
	return b
}
