package main

// C19 — $fromMillis renders the right calendar fields and $toMillis inverts it.
//
// Every case is compared with the Lean model (integer calendar arithmetic). Independently,
// the field checks use a day-counting oracle written here (no time package arithmetic: it
// walks the calendar with the leap-year rule), and the inverse laws are evaluated directly.

import (
	"fmt"
	"reflect"
	"strings"
	"sync"
	"time"

	jsonata "github.com/blues/jsonata-go"
)

// --- independent calendar: count days forward/backward from 1970-01-01 ----------------------

func c19Leap(y int64) bool { return y%4 == 0 && (y%100 != 0 || y%400 == 0) }

func c19DaysIn(y int64, m int) int {
	switch m {
	case 2:
		if c19Leap(y) {
			return 29
		}
		return 28
	case 4, 6, 9, 11:
		return 30
	}
	return 31
}

type c19Civil struct {
	y          int64
	m, d       int
	yday, wday int // wday 0 = Sunday
}

// c19YearStart[y-1000] = day number of y-01-01 for 1000 <= y <= 10000, built by adding year lengths.
var c19YearStart []int64

func init() {
	// from 1970 downwards and upwards
	c19YearStart = make([]int64, 9002)
	var d int64
	for y := int64(1970); y <= 10001; y++ {
		c19YearStart[y-1000] = d
		if c19Leap(y) {
			d += 366
		} else {
			d += 365
		}
	}
	d = 0
	for y := int64(1969); y >= 1000; y-- {
		if c19Leap(y) {
			d -= 366
		} else {
			d -= 365
		}
		c19YearStart[y-1000] = d
	}
}

func c19FromDays(z int64) c19Civil {
	// binary search the year
	lo, hi := int64(1000), int64(10000)
	for lo < hi {
		mid := (lo + hi + 1) / 2
		if c19YearStart[mid-1000] <= z {
			lo = mid
		} else {
			hi = mid - 1
		}
	}
	y := lo
	rem := int(z - c19YearStart[y-1000])
	c := c19Civil{y: y, yday: rem + 1}
	m := 1
	for rem >= c19DaysIn(y, m) {
		rem -= c19DaysIn(y, m)
		m++
	}
	c.m, c.d = m, rem+1
	w := (z + 4) % 7
	if w < 0 {
		w += 7
	}
	c.wday = int(w)
	return c
}

// ISO week by definition: the week (Mon..Sun) belongs to the year that holds its Thursday.
func c19ISOWeek(z int64) int {
	c := c19FromDays(z)
	mon := (c.wday + 6) % 7 // Monday = 0
	thu := z - int64(mon) + 3
	ct := c19FromDays(thu)
	return (ct.yday-1)/7 + 1
}

func floorDiv(a, b int64) int64 {
	q := a / b
	if (a%b != 0) && ((a < 0) != (b < 0)) {
		q--
	}
	return q
}

var c19Months = []string{"", "January", "February", "March", "April", "May", "June", "July", "August", "September", "October", "November", "December"}
var c19Days = []string{"Sunday", "Monday", "Tuesday", "Wednesday", "Thursday", "Friday", "Saturday"}

func c19Ordinal(n int) string {
	s := "th"
	switch {
	case n%10 == 1 && n%100 != 11:
		s = "st"
	case n%10 == 2 && n%100 != 12:
		s = "nd"
	case n%10 == 3 && n%100 != 13:
		s = "rd"
	}
	return fmt.Sprintf("%d%s", n, s)
}

// c19Expect renders the field picture used by the exhaustive sweep from the oracle's fields.
const c19DefaultsPicture = "[Y]|[M]|[D]|[F]|[H]|[f]|[C]|[E]|[FN]|[Fn]|[FNn,*-3]|[FNn,3-4]|[Fn,*-2]|[MN]|[Mn]|[MNn,*-3]|[MNn,3-4]|[Mn,*-2]|[PN]|[Pn]|[P,*-1]|[z]|[ZN]|[D1o]|[Dw]|[DWw]"

const c19FieldPicture = "[Y0001]|[M01]|[D01]|[d]|[F1]|[FNn]|[MNn]|[W]|[H01]|[h]|[P]|[m]|[s]|[f001]|[Z]|[D1o]|[w]|[Y,*-2]|[MN,*-3]|[d1o]|[Y1o]|[H1o]"

func c19Expect(ms int64, offMin int) string {
	local := ms + int64(offMin)*60000
	z := floorDiv(local, 86400000)
	r := local - z*86400000
	c := c19FromDays(z)
	h := int(r / 3600000)
	h12 := h % 12
	if h12 == 0 {
		h12 = 12
	}
	ampm := "am"
	if h >= 12 {
		ampm = "pm"
	}
	sign := "+"
	ao := offMin
	if offMin < 0 {
		sign = "-"
		ao = -offMin
	}
	return strings.Join([]string{
		fmt.Sprintf("%04d", c.y), fmt.Sprintf("%02d", c.m), fmt.Sprintf("%02d", c.d), fmt.Sprint(c.yday), fmt.Sprint(c.wday + 1),
		c19Days[c.wday], c19Months[c.m], fmt.Sprint(c19ISOWeek(z)), fmt.Sprintf("%02d", h), fmt.Sprint(h12), ampm,
		fmt.Sprintf("%02d", int(r/60000%60)), fmt.Sprintf("%02d", int(r/1000%60)), fmt.Sprintf("%03d", int(r%1000)),
		fmt.Sprintf("%s%02d:%02d", sign, ao/60, ao%60), c19Ordinal(c.d), fmt.Sprint(c.d/7 + 1), fmt.Sprint(c.y % 100),
		strings.ToUpper(c19Months[c.m][:3]), c19Ordinal(c.yday), c19Ordinal(int(c.y)), c19Ordinal(h),
	}, "|")
}

func c19ISO(ms int64, offMin int) string {
	local := ms + int64(offMin)*60000
	z := floorDiv(local, 86400000)
	r := local - z*86400000
	c := c19FromDays(z)
	tz := "Z"
	if offMin != 0 {
		sign := "+"
		ao := offMin
		if offMin < 0 {
			sign, ao = "-", -offMin
		}
		tz = fmt.Sprintf("%s%02d:%02d", sign, ao/60, ao%60)
	}
	return fmt.Sprintf("%04d-%02d-%02dT%02d:%02d:%02d.%03d%s", c.y, c.m, c.d, r/3600000, r/60000%60, r/1000%60, r%1000, tz)
}

func c19Tz(offMin int) string {
	sign := "+"
	if offMin < 0 {
		sign = "-"
		offMin = -offMin
	}
	return fmt.Sprintf("%s%02d%02d", sign, offMin/60, offMin%60)
}

func runC19(c *ctx) {
	c.rep.Rule = "instants: every day from 1000-01-01 to 9999-12-31 (stride 1 in the thorough tier, stride 31 + the first and last day of every month in the quick tier) at rotating times of day incl. 00:00:00.000, 23:59:59.999, noon and midnight hours; " +
		"random instants in the span; offsets -14:00..+14:00 in 15-minute steps; every component with its presentation / width / ordinal / name modifiers; ISO and picture round trips through $toMillis; malformed pictures and offsets; " +
		"compared with the Lean model and with a day-counting calendar oracle"
	r := c.rng.fork()
	oracle := func(prog string, in interface{}, want string, bucket string) {
		g := goEval(prog, in)
		c.note("oracle\x00"+prog+"\x00"+valueSexp(in), "oracle/"+bucket, true)
		if g.outcome != want {
			c.disagree(Disagreement{Kind: "oracle", Prog: prog, Input: in, InputS: valueSexp(in), Go: g.outcome, Model: want})
		}
	}
	// 1. sweep over the days of the span: direct library calls keep this fast; the field picture is compiled once
	expr, err := jsonata.Compile("$fromMillis(ms, p, tz)")
	if err != nil {
		panic(err)
	}
	first, last := c19YearStart[0], c19YearStart[9000]-1 // 1000-01-01 .. 9999-12-31
	stride := int64(c.scale(31, 1))
	times := []int64{0, 86399999, 43200000, 3600000 - 1, 12*3600000 + 59*60000 + 59999, 13 * 3600000, 1, 23 * 3600000}
	sweep := 0
	modelStride := int64(c.scale(389, 5))
	for z := first + 1; z <= last-1 && !c.tooMany(); z++ {
		cz := c19FromDays(z)
		boundary := cz.d == 1 || cz.d == c19DaysIn(cz.y, cz.m) || (cz.m == 2 && cz.d == 28)
		if (z-first)%stride != 0 && !boundary {
			continue
		}
		tod := times[int(z%int64(len(times))+int64(len(times)))%len(times)]
		offMin := (int((z%113+113)%113) - 56) * 15
		ms := z*86400000 + tod
		res, err := expr.Eval(map[string]interface{}{"ms": float64(ms), "p": c19FieldPicture, "tz": c19Tz(offMin)})
		want := c19Expect(ms, offMin)
		sweep++
		if (z-first)%modelStride == 0 {
			// the same day through the Lean model
			c.diffEval("$fromMillis(ms, p, tz)", map[string]interface{}{"ms": float64(ms), "p": c19FieldPicture, "tz": c19Tz(offMin)}, "sweep/model")
			// default presentations of every component, name tables in all cases and widths (the language tables are
			// tied through here, not read from the source)
			c.diffEval("$fromMillis(ms, p, tz)", map[string]interface{}{"ms": float64(ms), "p": c19DefaultsPicture, "tz": c19Tz(offMin)}, "sweep/model-defaults")
		}
		if err != nil || res != want {
			in := map[string]interface{}{"ms": float64(ms), "p": c19FieldPicture, "tz": c19Tz(offMin)}
			c.disagree(Disagreement{Kind: "oracle", Prog: "$fromMillis(ms, p, tz)", Input: in, InputS: valueSexp(in), Go: fmt.Sprint(res, err), Model: want})
		}
		// inverse law through the default picture, per day
		iso, err := jsonata.Compile("$toMillis($fromMillis(ms, (), tz)) = ms")
		_ = iso
		if err == nil && (z-first)%3 == 0 {
			res2, err2 := iso.Eval(map[string]interface{}{"ms": float64(ms), "tz": c19Tz(offMin)})
			if err2 != nil || res2 != true {
				in := map[string]interface{}{"ms": float64(ms), "tz": c19Tz(offMin)}
				c.disagree(Disagreement{Kind: "law", Prog: "$toMillis($fromMillis(ms, (), tz)) = ms", Input: in, InputS: valueSexp(in), Go: fmt.Sprint(res2, err2), Model: "true"})
			}
		}
	}
	c.rep.Cases += sweep
	c.rep.Buckets["sweep/fields-vs-calendar-oracle"] += sweep
	c.rep.Exhaustive = append(c.rep.Exhaustive, fmt.Sprintf("%d days between 1000-01-01 and 9999-12-31 (stride %d plus all month and year boundaries): 22 field presentations against the day-counting oracle, default-picture inverse law on every third", sweep, stride))
	// 1b. the ends of the span: an instant of the year 1000 or 9999 (UTC) whose local year, in the given offset, is 999 or
	//     10000.  The statement quantifies over "every instant from year 1000 through year 9999 and every offset"; the text
	//     $fromMillis renders then has a three- or five-digit year, which $toMillis cannot read back (time.Parse's year
	//     element is four digits).  Recorded as a known finding (known_findings.json); everything else at the ends must hold.
	edgeLaw, _ := jsonata.Compile("$toMillis($fromMillis(ms, (), tz)) = ms")
	for _, base := range []int64{first * 86400000, (last+1)*86400000 - 1} {
		for _, dms := range []int64{0, 1, 999, 3599999, 3600000, 43200000, 50399999, 50400000, 86399999} {
			for offMin := -14 * 60; offMin <= 14*60; offMin += 105 {
				ms := base
				if base == first*86400000 {
					ms += dms
				} else {
					ms -= dms
				}
				localDay := floorDiv(ms+int64(offMin)*60000, 86400000)
				outside := localDay < first || localDay > last
				in := map[string]interface{}{"ms": float64(ms), "tz": c19Tz(offMin)}
				res, err := edgeLaw.Eval(in)
				c.note("edge\x00"+valueSexp(in), "span-edges", true)
				if err == nil && res == true {
					continue
				}
				kind := "law"
				if outside {
					kind = "inverse-law-local-year-outside-span"
				}
				c.disagree(Disagreement{Kind: kind, Prog: "$toMillis($fromMillis(ms, (), tz)) = ms", Input: in, InputS: valueSexp(in), Go: fmt.Sprint(res, err), Model: "true"})
			}
		}
	}
	// 2. model correspondence on sampled instants
	n := c.scale(6000, 60000)
	pics := []string{"", "[Y0001]-[M01]-[D01]", "[Y0001]-[M01]-[D01]T[H01]:[m01]:[s01]", "[Y0001]-[M01]-[D01]T[H01]:[m01]:[s01].[f001]", "[Y0001]-[M01]-[D01]T[H01]:[m01]:[s01].[f001][Z01:01]",
		"[Y0001][M01][D01]", "[D01]/[M01]/[Y0001] [H01]:[m01]", "[H01]:[m01]:[s01] [D01].[M01].[Y0001]", "[Y0001]-[M01]-[D01] [H01]:[m01]:[s01][Z0101]"}
	comps := []string{"Y", "M", "D", "d", "F", "W", "w", "H", "h", "P", "m", "s", "f", "Z", "z", "C", "E"}
	mods := []string{"", "1", "01", "001", "0001", "1o", "01o", "N", "n", "Nn", "Nn,3-3", "N,*-3", "n,2-5", "1,2", "1,*-2", "01,2-*", "1,1-4", "I", "i", "w", "W", "Ww", "0", "9", "#1", "01:01", "0101", "0", "01", "Z", "N", "01:01t", "0101t", "1t", "Nn,*-1", "1,*-64", "1, 2", " 1 ", "1,", "1,a", "1,2-1", "1,0", ",2", "001,3-3", "1c", "1a", "Nn,12"}
	for i := 0; i < n && !c.tooMany(); i++ {
		z := first + 1 + int64(r.next()%uint64(last-first-1))
		ms := z*86400000 + int64(r.next()%86400000)
		offMin := (r.intn(113) - 56) * 15
		in := map[string]interface{}{"ms": float64(ms), "tz": c19Tz(offMin)}
		switch r.intn(6) {
		case 0:
			c.diffEval("$fromMillis(ms)", in, "default-utc")
			oracle("$fromMillis(ms)", in, "ok "+valueSexp(c19ISO(ms, 0)), "default-utc")
		case 1:
			c.diffEval("$fromMillis(ms, (), tz)", in, "default-offset")
			oracle("$fromMillis(ms, (), tz)", in, "ok "+valueSexp(c19ISO(ms, offMin)), "default-offset")
			c.diffEval("$toMillis($fromMillis(ms, (), tz))", in, "inverse-default")
			oracle("$toMillis($fromMillis(ms, (), tz))", in, "ok "+valueSexp(float64(ms)), "inverse-default")
		case 2, 3:
			comp := r.pick(comps)
			mod := r.pick(mods)
			in["p"] = "[" + comp + mod + "]"
			if r.chance(1, 4) {
				in["p"] = "x[[" + in["p"].(string) + "]]y [" + r.pick(comps) + "]"
			}
			c.diffEval("$fromMillis(ms, p, tz)", in, "component/"+comp)
		case 4:
			// picture round trips for the instants a picture can represent
			p := pics[1+r.intn(len(pics)-1)]
			ms2 := ms
			off2 := offMin
			if !strings.Contains(p, "[f001]") {
				ms2 = floorDiv(ms2, 1000) * 1000
			}
			if !strings.Contains(p, "[s01]") {
				ms2 = floorDiv(ms2, 60000) * 60000
			}
			if !strings.Contains(p, "[H01]") {
				ms2 = floorDiv(ms2, 86400000) * 86400000
				off2 = 0
			}
			if !strings.Contains(p, "[Z") {
				off2 = 0
			}
			in2 := map[string]interface{}{"ms": float64(ms2), "tz": c19Tz(off2), "p": p}
			c.diffEval("$toMillis($fromMillis(ms, p, tz), p)", in2, "inverse-picture")
			oracle("$toMillis($fromMillis(ms, p, tz), p)", in2, "ok "+valueSexp(float64(ms2)), "inverse-picture")
		case 5:
			// texts that do not parse / parse leniently
			iso := c19ISO(ms, offMin)
			muts := []string{iso[:len(iso)-1], strings.Replace(iso, "T", " ", 1), strings.Replace(iso, "-", "/", 1), iso + "x", "x" + iso,
				strings.Replace(iso, ".", ",", 1), iso[:10], iso[:4], iso[:19], iso[:16], iso[:13], strings.Replace(iso, ":", "", 1),
				iso[:5] + "13" + iso[7:], iso[:8] + "32" + iso[10:], iso[:5] + "02-30" + iso[10:], iso[:11] + "24" + iso[13:], iso[:11] + "7" + iso[13:]}
			m := muts[r.intn(len(muts))]
			c.diffEval("$toMillis(s)", map[string]interface{}{"s": m}, "toMillis-text")
		}
	}
	// 3. malformed pictures and offsets
	for _, p := range []string{"", "[", "]", "[]", "[Y", "Y]", "[[Y]", "[Y]]", "[Y]]]", "no markers", "[[]]", "[Q]", "[Y[M]]", "[ Y ]", "[Y,]", "[Y,*]", "[Y,2-1]", "[Y,a]", "[Y,1-2-3]", "[Y0001,2]",
		"[é]", "[Y]é[M]", "[YI]", "[Yi]", "[Yw]", "[Y9999]", "[Y#1]", "[Y;]", "[Y1;1;1]", "[M,99999999999999999999]", "[Z9]", "[Z00000]", "[ZZ]", "[z]", "[zN]", "[Z01.01]", "[Z1:1]"} {
		for _, ms := range []float64{0, -1, 1e12, 253402300799999, -30610224000000} {
			c.diffEval("$fromMillis(ms, p)", map[string]interface{}{"ms": ms, "p": p}, "picture-malformed")
		}
	}
	for _, tz := range []string{"", "0000", "+000", "+00000", "00000", "+0a00", "+00:0", "*0100", "+2400", "-1400", "+1400", "+9999", "+ 100", "+-1-1", "++1+1", "+0060", "-0099", "+1 00", "+01-5", "é000", "+0530", "-0030", "-0001", "+0059", "-2359"} {
		c.diffEval("$fromMillis(ms, (), tz)", map[string]interface{}{"ms": 1.5e12, "tz": tz}, "offset-malformed")
		// independent rule (the statement: a fixed offset is +HHMM or -HHMM; anything else is an error)
		wellFormed := len(tz) == 5 && (tz[0] == '+' || tz[0] == '-') && tz[3] <= '5'
		for k := 1; k < len(tz) && wellFormed; k++ {
			if tz[k] < '0' || tz[k] > '9' {
				wellFormed = false
			}
		}
		if g := goEval("$fromMillis(ms, (), tz)", map[string]interface{}{"ms": 1.5e12, "tz": tz}); tz != "" && (g.err == nil) != wellFormed {
			c.disagree(Disagreement{Kind: "oracle", Prog: "$fromMillis(ms, (), tz)", Input: map[string]interface{}{"ms": 1.5e12, "tz": tz}, Go: g.outcome, Model: fmt.Sprintf("an offset is a sign and four digits HHMM with MM <= 59: well-formed=%v", wellFormed)})
		}
		c.diffEval("$fromMillis(ms, \"[Z] [z] [Z0] [Z0000] [ZN] [ZZ] [Z01:01t]\", tz)", map[string]interface{}{"ms": 1.5e12, "tz": tz}, "offset-styles")
	}
	// 3b. every offset of the span x every timezone presentation (military letters exist for -12..+12 whole hours only)
	for off := -56; off <= 56; off++ {
		in := map[string]interface{}{"ms": 1.5e12, "tz": c19Tz(off * 15)}
		c.diffEval("$fromMillis(ms, \"[Z]|[z]|[Z0]|[Z00]|[Z0000]|[ZN]|[Z01:01t]|[Z0101t]|[z0]\", tz)", in, "offset-all-styles")
		c.diffEval("$fromMillis(ms, \"[ZZ]\", tz)", in, "offset-all-styles")
		c.diffEval("$fromMillis(ms, \"[zZ]\", tz)", in, "offset-all-styles")
		c.diffEval("$fromMillis(ms, \"[ZZ,4]x\", tz)", in, "offset-all-styles")
	}
	// 4. $now / $millis: one instant per evaluation, inside the call's wall-clock bracket
	e2, err := jsonata.Compile("[$millis(), $toMillis($now()), $millis(), $toMillis($now()), $sum([1..20000]) ? $millis() : 0]")
	if err == nil {
		// histories around the clock reading: evaluations that yield no value, an evaluation nested inside another
		// (through an extension), and evaluations overlapping in time must each keep their own single instant
		und, _ := jsonata.Compile("nothing.here")
		innerE, _ := jsonata.Compile("$millis()")
		outer, _ := jsonata.Compile("[$millis(), $inner(), $millis(), $toMillis($now())]")
		outer.RegisterExts(map[string]jsonata.Extension{"inner": {Func: func() (float64, error) {
			time.Sleep(3 * time.Millisecond)
			v, err := innerE.Eval(nil)
			if err != nil {
				return 0, err
			}
			f := reflect.ValueOf(v)
			if f.Kind() == reflect.Float64 {
				return f.Float(), nil
			}
			return float64(f.Int()), nil
		}}})
		for i := 0; i < c.scale(30, 300); i++ {
			und.Eval(nil)
			res, err := outer.Eval(nil)
			c.note(fmt.Sprint("nested", i), "now-millis-nested", true)
			arr, ok := res.([]interface{})
			if err != nil || !ok || len(arr) != 4 || fmt.Sprint(arr[0]) != fmt.Sprint(arr[2]) || fmt.Sprint(arr[0]) != fmt.Sprint(arr[3]) {
				c.disagree(Disagreement{Kind: "law", Prog: "und.Eval; [$millis(), $inner(), $millis(), $toMillis($now())] with $inner evaluating another expression", Go: fmt.Sprint(res, err), Model: "readings 1, 3 and 4 are one instant"})
				break
			}
		}
		var wg sync.WaitGroup
		var mu sync.Mutex
		bad := ""
		for g := 0; g < 8; g++ {
			wg.Add(1)
			go func(g int) {
				defer wg.Done()
				for i := 0; i < c.scale(40, 200); i++ {
					if i%5 == g%5 {
						und.Eval(nil)
					}
					res, err := e2.Eval(nil)
					arr, ok := res.([]interface{})
					if err != nil || !ok || len(arr) != 5 {
						continue
					}
					for _, v := range arr {
						if fmt.Sprint(v) != fmt.Sprint(arr[0]) {
							mu.Lock()
							bad = fmt.Sprint(arr)
							mu.Unlock()
							return
						}
					}
				}
			}(g)
		}
		wg.Wait()
		c.note("concurrent-now", "now-millis-concurrent", true)
		if bad != "" {
			c.disagree(Disagreement{Kind: "law", Prog: "8 goroutines x $now/$millis readings within one Eval", Go: bad, Model: "one instant per evaluation"})
		}
		for i := 0; i < c.scale(20, 200); i++ {
			t0 := time.Now().UnixNano() / 1e6
			res, err := e2.Eval(nil)
			t1 := time.Now().UnixNano() / 1e6
			c.note(fmt.Sprint("now", i), "now-millis", true)
			arr, ok := res.([]interface{})
			if err != nil || !ok || len(arr) != 5 {
				c.disagree(Disagreement{Kind: "law", Prog: "$now/$millis", Go: fmt.Sprint(res, err), Model: "five equal instants"})
				continue
			}
			for _, v := range arr {
				f := reflect.ValueOf(v)
				var ms int64
				switch f.Kind() {
				case reflect.Float64, reflect.Float32:
					ms = int64(f.Float())
				case reflect.Int, reflect.Int64, reflect.Int32:
					ms = f.Int()
				}
				if fmt.Sprint(v) != fmt.Sprint(arr[0]) || ms < t0 || ms > t1 {
					c.disagree(Disagreement{Kind: "law", Prog: "$now/$millis", Go: fmt.Sprint(arr, " bracket ", t0, t1), Model: "one instant inside the bracket"})
					break
				}
			}
		}
	}
}
