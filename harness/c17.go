package main

// C17 — regex literals and regex functions agree with the regular-expression engine.
//
// The Lean model takes the engine as a parameter: every regex literal is sent to the model
// together with regexp.FindAllStringSubmatchIndex on the candidate subjects (ser.go), so a
// disagreement is a disagreement about what $match/$contains/$split/$replace/application
// do with the engine's matches.  Independent of the model, a direct oracle written against
// the statement (oracleReplace etc.) is compared with Go's result too.

import (
	"fmt"
	"regexp"
	"strconv"
	"strings"
	"unicode/utf8"

	jsonata "github.com/blues/jsonata-go"
)

var c17Alphabet = []string{"a", "b", "c", "a", "b", "1", " ", "é", "/", "A", "\n"}

func c17Subject(r *rng, maxLen int) string {
	n := r.intn(maxLen + 1)
	var b strings.Builder
	for i := 0; i < n; i++ {
		b.WriteString(c17Alphabet[r.intn(len(c17Alphabet))])
	}
	return b.String()
}

var c17Atoms = []string{"a", "b", "c", ".", "[ab]", "[^a]", `\d`, `\w`, `\s`, "é", `\/`, "[a-c]", "A", "1"}

// c17Pattern generates a JSONata regex body (between the slashes) and the number of capturing groups.
func c17Pattern(r *rng, depth int) (string, int) {
	nAlt := 1
	if r.chance(1, 4) {
		nAlt = 2
	}
	groups := 0
	var alts []string
	for a := 0; a < nAlt; a++ {
		var b strings.Builder
		nItems := 1 + r.intn(3)
		for i := 0; i < nItems; i++ {
			var item string
			switch {
			case depth > 0 && r.chance(1, 3):
				inner, g := c17Pattern(r, depth-1)
				if r.chance(1, 5) {
					item = "(?:" + inner + ")"
					groups += g
				} else {
					item = "(" + inner + ")"
					groups += g + 1
				}
			case r.chance(1, 9):
				// a context assertion anywhere (inside one alternative, inside a group): what a match captures then depends
				// on where it is, not only on its text
				item = r.pick([]string{"^", "$", `\b`, `\B`, "^", "$"})
			default:
				item = r.pick(c17Atoms)
			}
			switch r.intn(10) {
			case 0:
				item += "*"
			case 1:
				item += "+"
			case 2:
				item += "?"
			case 3:
				item += "{1,2}"
			case 4:
				item += "*?"
			}
			b.WriteString(item)
		}
		alts = append(alts, b.String())
	}
	p := strings.Join(alts, "|")
	switch r.intn(12) {
	case 0:
		p = "^" + p
	case 1:
		p = p + "$"
	case 2:
		p = `\b` + p
	}
	return p, groups
}

func c17Flags(r *rng) string {
	switch r.intn(8) {
	case 0:
		return "i"
	case 1:
		return "m"
	case 2:
		return "s"
	case 3:
		return "im"
	case 4:
		return "ims"
	}
	return ""
}

var c17TemplateParts = []string{"$0", "$1", "$2", "$3", "$10", "$12", "$$", "$", "x", "-", "$01", "$9", "é", "$a", "$11", "$20", "$99999999999999999999"}

func c17Template(r *rng) string {
	n := r.intn(4)
	var b strings.Builder
	for i := 0; i <= n; i++ {
		b.WriteString(r.pick(c17TemplateParts))
	}
	return b.String()
}

// goFlagsPrefix mirrors the statement: flags i, m, s have their usual (RE2) meaning.
func goFlagsPrefix(flags string) string {
	if flags == "" {
		return ""
	}
	return "(?" + flags + ")"
}

// oracleExpand is the template rule as the statement words it.
func oracleExpand(t string, match string, groups []string) string {
	var out strings.Builder
	i := 0
	for i < len(t) {
		if t[i] != '$' {
			out.WriteByte(t[i])
			i++
			continue
		}
		i++
		if i >= len(t) {
			out.WriteByte('$')
			break
		}
		ch := t[i]
		if ch == '$' {
			out.WriteByte('$')
			i++
			continue
		}
		if ch < '0' || ch > '9' {
			out.WriteByte('$')
			continue
		}
		if ch == '0' {
			out.WriteString(match)
			i++
			continue
		}
		j := i
		for j < len(t) && t[j] >= '0' && t[j] <= '9' {
			j++
		}
		// longest group number that exists
		done := false
		for k := j; k > i; k-- {
			n, err := strconv.Atoi(t[i:k])
			if err != nil {
				continue // too long to be a group number
			}
			if n >= 1 && n <= len(groups) {
				out.WriteString(groups[n-1])
				i = k
				done = true
				break
			}
		}
		if !done {
			// no such group: empty, one digit consumed
			i++
		}
	}
	return out.String()
}

type c17Match struct {
	text       string
	start, end int
	groups     []string
}

func oracleMatches(re *regexp.Regexp, s string) []c17Match {
	var out []c17Match
	for _, ix := range re.FindAllStringSubmatchIndex(s, -1) {
		m := c17Match{text: s[ix[0]:ix[1]], start: ix[0], end: ix[1]}
		for j := 1; j < len(ix)/2; j++ {
			g := ""
			if ix[2*j] >= 0 {
				g = s[ix[2*j]:ix[2*j+1]]
			}
			m.groups = append(m.groups, g)
		}
		out = append(out, m)
	}
	return out
}

func oracleReplace(re *regexp.Regexp, s, tmpl string, limit int) string {
	ms := oracleMatches(re, s)
	if limit >= 0 && limit < len(ms) {
		ms = ms[:limit]
	}
	var out strings.Builder
	pos := 0
	for _, m := range ms {
		out.WriteString(s[pos:m.start])
		out.WriteString(oracleExpand(tmpl, m.text, m.groups))
		pos = m.end
	}
	out.WriteString(s[pos:])
	return out.String()
}

func oracleSplit(re *regexp.Regexp, s string, limit int) []interface{} {
	ms := oracleMatches(re, s)
	parts := []interface{}{}
	pos := 0
	for _, m := range ms {
		parts = append(parts, s[pos:m.start])
		pos = m.end
	}
	parts = append(parts, s[pos:])
	if limit >= 0 && limit < len(parts) {
		parts = parts[:limit]
	}
	return parts
}

func oracleMatchObjs(re *regexp.Regexp, s string, limit int) []interface{} {
	ms := oracleMatches(re, s)
	if limit >= 0 && limit < len(ms) {
		ms = ms[:limit]
	}
	out := []interface{}{}
	for _, m := range ms {
		gs := []interface{}{}
		for _, g := range m.groups {
			gs = append(gs, g)
		}
		out = append(out, map[string]interface{}{"match": m.text, "index": float64(m.start), "groups": gs})
	}
	return out
}

func runC17(c *ctx) {
	c.rep.Rule = "patterns from a grammar of literals, classes, alternation, capturing / non-capturing / nested / optional groups, greedy and lazy quantifiers, anchors, with flag subsets; " +
		"subjects up to length 12 over {a,b,c,1,space,é,/,A,newline}; templates over $0..$12, $$, lone $, long digit strings, text; limits -1..4; " +
		"$match/$contains/$split/$replace/application/next chains compared (a) with the Lean model fed with the engine's matches and (b) with an oracle written from the statement; " +
		"compile errors for empty/invalid patterns compared with regexp.Compile; user-defined matcher functions with bad offsets"
	r := c.rng.fork()
	n := c.scale(2500, 40000)
	// 0. the flag letters, behaviourally: every letter (and some pairs) after a literal, applied to a subject on which the
	// flags i, m and s each change the answer
	c.rep.Exhaustive = append(c.rep.Exhaustive, "every ASCII letter and digit as a regex flag, flag pairs and triples over i m s")
	flagSubject := map[string]interface{}{"s": "Ab\nab\nB"}
	var flagSets []string
	for cp := '0'; cp <= 'z'; cp++ {
		if cp >= '0' && cp <= '9' || cp >= 'A' && cp <= 'Z' || cp >= 'a' && cp <= 'z' {
			flagSets = append(flagSets, string(cp))
		}
	}
	flagSets = append(flagSets, "im", "mi", "is", "si", "ms", "sm", "ims", "smi", "ii", "mm", "imsi", "ix", "xi")
	for _, fl := range flagSets {
		for _, re := range []string{"/^a.*$/", "/b.a/", "/B$/", "/a/"} {
			c.diffEval("$match(s, "+re+fl+").match", flagSubject, "flag-sweep")
			c.diffEval("$contains(s, "+re+fl+")", flagSubject, "flag-sweep")
		}
	}
	oracle := func(prog string, in interface{}, want interface{}, bucket string) {
		g := goEval(prog, in)
		w := "ok " + valueSexp(want)
		c.note("oracle\x00"+prog+"\x00"+valueSexp(in), "oracle/"+bucket, true)
		if g.outcome != w {
			c.disagree(Disagreement{Kind: "oracle", Prog: prog, Input: in, InputS: valueSexp(in), Go: g.outcome, Model: w})
		}
	}
	for i := 0; i < n && !c.tooMany(); i++ {
		pat, ngroups := c17Pattern(r, 2)
		flags := c17Flags(r)
		subj := c17Subject(r, 12)
		if r.chance(1, 6) {
			// make matches likely: embed pattern-ish text
			subj = subj + "ab" + c17Subject(r, 4)
		}
		lit := "/" + pat + "/" + flags
		gopat := goFlagsPrefix(flags) + strings.ReplaceAll(pat, `\/`, "/")
		re, err := regexp.Compile(gopat)
		if err != nil {
			continue
		}
		_ = ngroups
		in := map[string]interface{}{"s": subj}
		sl := jsonLit(subj)
		lim := r.intn(7) - 1 // -1 (negative) .. 5
		limS := strconv.Itoa(lim)
		if lim == 5 {
			limS = ""
		}
		withLim := func(args string) string {
			if limS == "" {
				return args
			}
			return args + ", " + limS
		}
		switch r.intn(9) {
		case 0:
			prog := "$match(s, " + withLim(lit) + ")"
			c.diffEval(prog, in, "match")
			if lim >= 0 {
				l := lim
				if limS == "" {
					l = -1
				}
				want := interface{}(oracleMatchObjs(re, subj, l))
				oracle(prog, in, want, "match")
			}
		case 1:
			prog := "$contains(" + sl + ", " + lit + ")"
			c.diffEval(prog, nil, "contains")
			oracle(prog, nil, re.MatchString(subj), "contains")
		case 2:
			prog := "$split(s, " + withLim(lit) + ")"
			c.diffEval(prog, in, "split")
			if lim >= 0 {
				l := lim
				if limS == "" {
					l = -1
				}
				oracle(prog, in, oracleSplit(re, subj, l), "split")
			}
		case 3, 4:
			tmpl := c17Template(r)
			prog := "$replace(s, " + lit + ", " + withLim(jsonLit(tmpl)) + ")"
			c.diffEval(prog, in, "replace-template")
			if lim >= 0 {
				l := lim
				if limS == "" {
					l = -1
				}
				oracle(prog, in, oracleReplace(re, subj, tmpl, l), "replace-template")
			}
		case 5:
			fn := r.pick([]string{
				`function($m){"<" & $m.match & ">"}`,
				`function($m){$string($m.index)}`,
				`function($m){$count($m.groups) > 0 ? $m.groups[0] : "-"}`,
				`function($m){$uppercase($m.match)}`,
				`function($m){$m.index}`,
				`$uppercase`,
				`function($m){$join($m.groups, ",")}`,
			})
			c.diffEval("$replace(s, "+lit+", "+withLim(fn)+")", in, "replace-function")
		case 6:
			chain := r.pick([]string{"", ".match", ".next()", ".next().match", ".next().next()", ".next().next().start", ".groups", ".end", ".next().next().next().next().next().match", ".start"})
			c.diffEval(lit+"("+sl+")"+chain, nil, "apply")
			c.diffEval("( $m := "+lit+"(s); [$m.match, $m.start, $m.end, $m.next().match, $m.next().start] )", in, "apply")
		case 7:
			// law: replacing every match by itself is the identity; join of split with no matches is s
			law := "$replace(s, " + lit + ", \"$0\") = s"
			g := goEval(law, in)
			c.note(law+"\x00"+subj, "law/replace-$0", true)
			if g.outcome != "ok t" {
				c.disagree(Disagreement{Kind: "law", Prog: law, Input: in, InputS: valueSexp(in), Go: g.outcome, Model: "ok t"})
			}
			law2 := "$contains(s, " + lit + ") = ($count($match(s, " + lit + ")) > 0)"
			g = goEval(law2, in)
			c.note(law2+"\x00"+subj, "law/contains-match", true)
			if g.outcome != "ok t" {
				c.disagree(Disagreement{Kind: "law", Prog: law2, Input: in, InputS: valueSexp(in), Go: g.outcome, Model: "ok t"})
			}
		case 8:
			// path context and filters using regexes
			in2 := map[string]interface{}{"xs": []interface{}{subj, c17Subject(r, 6), "ab"}}
			c.diffEval("xs["+lit+"]", in2, "predicate")
			c.diffEval("xs.$match("+lit+").match", in2, "context")
			c.diffEval("xs.$replace("+lit+", \"_\")", in2, "context")
		}
	}
	// what a match captures depends on where it is, not only on its text: one alternative (or an optional group) holds a
	// context assertion, so equal matched texts in one subject come with different groups; templates and functions read them
	c.rep.Exhaustive = append(c.rep.Exhaustive, "context-dependent captures: 14 pattern shapes x 5 atoms x 10 subjects x 8 templates")
	for _, shape := range []string{"(X$)|(X)", "(^X)|(X)", "(^X)|X", "X|(X$)", `(\bX)|(X)`, `(X\b)|(X)`, "(?:^|(Y))X", "X(?:$|(Y))", "(^)?X", "X($)?", `(\b)?X(\B)?`, "(?:(^X)|(X$)|(X))", "(^|Y)(X)", "((^)X|X)"} {
		for _, x := range []string{"a", "ab", "[ab]", ".", `\w`} {
			pat := strings.ReplaceAll(strings.ReplaceAll(shape, "X", x), "Y", "b")
			re, err := regexp.Compile(pat)
			if err != nil {
				continue
			}
			for _, subj := range []string{"aa", "aba", "abab", "a a", "aaa", "ba", "ab ab", "abba", "a", "bab a"} {
				in := map[string]interface{}{"s": subj}
				for _, tmpl := range []string{"[$1|$2]", "<$1>", "$2$1$1", "$0$1", "($3)($2)($1)", "$1", "-", "$2"} {
					prog := "$replace(s, /" + pat + "/, " + jsonLit(tmpl) + ")"
					c.diffEval(prog, in, "context-dependent-captures")
					oracle(prog, in, oracleReplace(re, subj, tmpl, -1), "context-dependent-captures")
				}
				c.diffEval("$replace(s, /"+pat+"/, function($m){$string($m.groups)})", in, "context-dependent-captures")
				c.diffEval("$match(s, /"+pat+"/).groups", in, "context-dependent-captures")
			}
		}
	}
	// user-defined matcher functions: good and bad offsets
	matchers := []string{
		`function($s){{"match":"a","start":10,"end":20,"groups":[],"next":function(){()}}}`,
		`function($s){{"match":"b","start":1,"end":2,"groups":[],"next":function(){()}}}`,
		`function($s){{"match":"b","start":2,"end":1,"groups":[],"next":function(){()}}}`,
		`function($s){{"match":"b","start":1,"end":2,"groups":["b"],"next":function(){{"match":"a","start":0,"end":1,"groups":[],"next":function(){()}}}}}`,
		`function($s){{"match":"b","start":1,"end":2,"groups":["b"],"next":function(){{"match":"c","start":2,"end":3,"groups":["q"],"next":function(){()}}}}}`,
		`function($s){{"match":"b","start":1,"end":2,"groups":[1],"next":function(){()}}}`,
		`function($s){{"match":"b","start":1,"end":2,"groups":[]}}`,
		`function($s){{"match":"b","start":"1","end":2,"groups":[],"next":function(){()}}}`,
		`function($s){"b"}`,
		`function($s){()}`,
		`$uppercase`,
		`function($s){{"match":"b","start":-1,"end":2,"groups":[],"next":function(){()}}}`,
	}
	for _, m := range matchers {
		for _, s := range []string{"abc", "", "ab"} {
			in := map[string]interface{}{"s": s}
			c.diffEval("$replace(s, "+m+", \"[$0$1]\")", in, "matcher")
			c.diffEval("$split(s, "+m+")", in, "matcher")
			c.diffEval("$contains(s, "+m+")", in, "matcher")
			c.diffEval("$match(s, "+m+")", in, "matcher")
		}
	}
	// compile-time: empty and invalid patterns are errors exactly when the engine rejects them
	bad := []string{"//", "//i", "//m", "//s", "//ims", "//mi", "/(/", "/[/", "/a)/", "/*/", "/a{2,1}/", `/\/`, "/a/x", "/(?P<n>a)/", "/a**/", "/[a/", `/\p{Foo}/`, "/(?<!a)b/", `/\1(a)/`, "/a/i", "/a/ms", "/[[:alpha:]]/", `/\//`, `/a\/b/`}
	for _, b := range bad {
		prog := "$contains(\"a/b\", " + b + ")"
		_, cerr := jsonata.Compile(prog)
		c.note(prog, "compile", true)
		body, flags, ok := splitRegexLiteral(b)
		if !ok {
			// unterminated literal or unknown flag: must be a compile error
			if cerr == nil && !c08Lexes(prog) {
				c.disagree(Disagreement{Kind: "compile", Prog: prog, Go: "compiled", Model: "error expected (malformed regex literal)"})
			}
			continue
		}
		_, rerr := regexp.Compile(goFlagsPrefix(flags) + strings.ReplaceAll(body, `\/`, "/"))
		wantErr := body == "" || rerr != nil
		if (cerr != nil) != wantErr {
			c.disagree(Disagreement{Kind: "compile", Prog: prog, Go: fmt.Sprint(cerr), Model: fmt.Sprintf("error expected=%v (engine: %v)", wantErr, rerr)})
		}
	}
	// random pattern texts (often invalid): compile status must follow the engine
	for i := 0; i < c.scale(1500, 20000) && !c.tooMany(); i++ {
		var b strings.Builder
		for k := 0; k < 1+r.intn(6); k++ {
			b.WriteString(r.pick([]string{"a", "(", ")", "[", "]", "*", "+", "?", "|", "{", "}", "1", ",", "^", "$", `\d`, `\/`, ".", "-", "é", "(?:", `\b`}))
		}
		body := b.String()
		if !utf8.ValidString(body) || strings.HasPrefix(body, "*") && false {
			continue
		}
		prog := "$contains(\"ab1\", /" + body + "/)"
		_, cerr := jsonata.Compile(prog)
		_, rerr := regexp.Compile(strings.ReplaceAll(body, `\/`, "/"))
		c.note(prog, "compile-random", true)
		// a '[' opens a bracket depth in the lexer: "/" inside [...] does not end the literal, so an
		// unbalanced '[' makes the literal unterminated: an error either way
		if (cerr != nil) != (rerr != nil) {
			if rerr == nil && cerr != nil && strings.ContainsAny(body, "[](){}") {
				// the lexer's bracket counting may read a different literal than intended: only
				// "compiles although the engine rejects it" is decisive here
				continue
			}
			c.disagree(Disagreement{Kind: "compile", Prog: prog, Go: fmt.Sprint(cerr), Model: fmt.Sprintf("engine: %v", rerr)})
		}
	}
}

// splitRegexLiteral splits "/body/flags" written without unescaped slashes in body.
func splitRegexLiteral(lit string) (body, flags string, ok bool) {
	if len(lit) < 2 || lit[0] != '/' {
		return "", "", false
	}
	i := 1
	for i < len(lit) {
		if lit[i] == '\\' {
			i += 2
			continue
		}
		if lit[i] == '/' {
			break
		}
		i++
	}
	if i >= len(lit) {
		return "", "", false
	}
	body = lit[1:i]
	flags = lit[i+1:]
	for _, f := range flags {
		if f != 'i' && f != 'm' && f != 's' {
			return "", "", false
		}
	}
	return body, flags, true
}

func c08Lexes(prog string) bool { return false }
