//go:build verif

package main

import (
	"encoding/json"
	"fmt"
	"strings"

	jsonata "github.com/blues/jsonata-go"
)

// Statement oracles: small sets of programs whose required outcome follows from the property's statement alone, not from
// the model (model and implementation have more than once agreed on a mistake: F35, F36, F37, F42).  They were added after
// a bug hunt by sub-agents that saw only the property texts (DESIGN.md 0.7).  Where the unchanged tree fails one of them
// and no repair was made, the failing cases are listed in known_findings.json under the disagreement kind used here.

type stmtCase struct {
	prog  string
	input interface{}
	want  string // valueSexp-independent rendering: JSON text of the value, "undefined", or "error"
}

func jsonOf(v interface{}, err error) string {
	if err != nil {
		if err == jsonata.ErrUndefined {
			return "undefined"
		}
		return "error"
	}
	b, merr := jsonMarshalCanonical(v)
	if merr != nil {
		return "unmarshalable: " + merr.Error()
	}
	return string(b)
}

func runStmt(c *ctx, kind string, cases []stmtCase) {
	for _, k := range cases {
		c.note(kind+"\x00"+k.prog+fmt.Sprint(k.input), "statement-oracle", true)
		got := ""
		func() {
			defer func() {
				if p := recover(); p != nil {
					got = fmt.Sprint("panic: ", p)
				}
			}()
			e, err := jsonata.Compile(k.prog)
			if err != nil {
				got = "compile error"
				return
			}
			got = jsonOf(e.Eval(k.input))
		}()
		if got != k.want {
			c.disagree(Disagreement{Kind: kind, Prog: k.prog, Input: k.input, InputS: fmt.Sprint(k.input), Go: got, Model: k.want + " (required by the statement)"})
		}
	}
}

func doc(s string) interface{} {
	var v interface{}
	if err := json.Unmarshal([]byte(s), &v); err != nil {
		panic(err)
	}
	return v
}

func jsonMarshalCanonical(v interface{}) ([]byte, error) { return json.Marshal(v) }

// C04 (F42): a negative operand on the right of * / % does not swallow the operators that follow it
func stmtC04(c *ctx) {
	d := doc(`{"a":8,"b":2,"c":2,"x":{"y":2,"z":10},"z":3}`)
	runStmt(c, "unary-minus-binds-looser-than-multiplication", []stmtCase{
		{"8 / -2 / 2", nil, "-2"}, {"8 / -2 * 2", nil, "-8"}, {"7 % -2 * 3", nil, "3"}, {"100 / -5 / 2 / 2", nil, "-5"},
		{"a / -b / c", d, "-2"}, {"x.-y * z", d, "-6"}, {"-a * b", d, "-16"}, {"8 - -2 - 2", nil, "8"}, {"a * -b + c", d, "-14"},
		{"-x.y", d, "-2"}, {"-x.y * 3", d, "-6"}, {"2 * -x.z", d, "-20"},
	})
}

// C01/C02/C13 (F39): a path that starts with a variable is anchored at its value also when the variable is sorted or
// filtered more than once; the reference is the same path through an assigned variable
func stmtAnchored(c *ctx) {
	a := doc(`[{"a":2,"i":0},{"a":0,"i":1},{"a":1,"i":2}]`)
	n := doc(`[[{"k":1},{"k":2}],[{"k":3},{"k":4}]]`)
	runStmt(c, "path-starting-with-a-sorted-or-filtered-variable-is-mapped", []stmtCase{
		{"$^(>a).i", a, "[0,2,1]"}, {"$^(a).i", a, "[1,2,0]"}, {"$$^(>a).i", a, "[0,2,1]"}, {"($s := $; $s^(>a).i)", a, "[0,2,1]"},
		{"$^(>a)[0].i", a, "0"}, {"$^(>a)[1].i", a, "2"}, {"$[i>=0]^(>a).i", a, "[0,2,1]"}, {"$ ~> function($g){$g^(>a).i}", a, "[0,2,1]"},
		{"$[a>0][0].i", a, "0"}, {"$[true][-1].i", a, "2"}, {"$[true][true][0].i", a, "0"}, {"$$[true][true].i", a, "[0,1,2]"},
		{"$[1][0].k", n, "3"}, {"$[0][1].k", n, "2"}, {"$.i", a, "[0,1,2]"}, {"$[0].i", a, "0"},
	})
}

// C15 (F40): a function argument without parameters is called with no arguments
func stmtC15(c *ctx) {
	runStmt(c, "function-of-arity-zero-called-with-an-argument", []stmtCase{
		{"$map([1,2,3], function()<:n>{7})", nil, "[7,7,7]"}, {"$filter([1,2,3], function()<:b>{true})", nil, "[1,2,3]"},
		{"$single([7], function()<:b>{true})", nil, "7"}, {"$count($map([1,2,3], $random))", nil, "3"}, {"$map([1,2,3], function(){7})", nil, "[7,7,7]"},
	})
	// recorded as a known finding: nothing selected is the empty array, which the encoder renders as null
	runStmt(c, "empty-result-of-map-or-filter-renders-as-null", []stmtCase{
		{"$string($filter([1,2,3], function($v){$v>5}))", nil, `"[]"`}, {"$filter([1,2,3], function($v){$v>5}) = []", nil, "true"},
		{`{"r": $filter([1,2,3], function($v){$v>5})}`, nil, `{"r":[]}`}, {"$string($map([], function($v){$v}))", nil, `"[]"`},
	})
}

// C05/C07 (F38): what a transform's snapshot shows does not depend on the order in which the members are inserted
func stmtC05(c *ctx) {
	x := doc(`{"x":1}`)
	for rep := 0; rep < 12; rep++ {
		runStmt(c, "transform-snapshot-depends-on-member-order", []stmtCase{
			{`$ ~> |$|{"a":1,"b":$[0]}|`, x, `{"a":1,"b":{"x":1},"x":1}`}, {`($ ~> |$|{"a":1,"b":$[0]}|).b.a`, x, "undefined"},
			{`$count($keys(($ ~> |$|{"a":1,"b":2,"c":$[0]}|).c))`, x, "1"},
		})
	}
}

// C14, recorded as a known finding: a grouping over no items evaluates its values over one phantom item
func stmtC14(c *ctx) {
	d := doc(`{"a":[{"k":"x","v":1},{"k":"y","v":2}],"e":[]}`)
	runStmt(c, "grouping-over-zero-items-sees-one-item", []stmtCase{
		{`e{"n": $count($)}`, d, `{"n":0}`}, {`a[v>5]{"n": $count($)}`, d, `{"n":0}`}, {`a[v>5]{"lit": $exists($)}`, d, `{"lit":false}`},
		{`a[v>5]{"lit": [$]}`, d, `{"lit":[]}`}, {`a[v>5]{"lit": 1, k: v}`, d, `{"lit":1}`},
	})
	runStmt(c, "grouping", []stmtCase{
		{`a{"n": $count($)}`, d, `{"n":2}`}, {`a[v>1]{"n": $count($)}`, d, `{"n":1}`}, {`[]{"n": $count($)}`, d, `{"n":0}`}, {`a{k: v}`, d, `{"x":1,"y":2}`},
	})
}

// C16, recorded as a known finding: $trim strips at the ends what it does not collapse inside
func stmtC16(c *ctx) {
	for _, w := range []string{" ", "\t", "\n", "\r", "\u000b", "\u0085", " ", " ", "　", "x"} {
		in := map[string]interface{}{"w": w}
		ends := jsonOf(jsonata.MustCompile(`$trim(w & "a" & w) = "a"`).Eval(in))
		inner := jsonOf(jsonata.MustCompile(`$trim("a" & w & w & "b") = "a b"`).Eval(in))
		c.note("trim\x00"+w, "statement-oracle", true)
		if ends != inner {
			c.disagree(Disagreement{Kind: "trim-strips-at-the-ends-what-it-does-not-collapse-inside", Prog: `$trim(w & "a" & w) = "a"  vs  $trim("a" & w & w & "b") = "a b"`,
				Input: in, InputS: fmt.Sprintf("w = %q", w), Go: ends + " vs " + inner, Model: "both true (w is whitespace) or both false (it is not)"})
		}
	}
}

// C18, recorded as a known finding: a picture that ends with the pattern separator is accepted
func stmtC18(c *ctx) {
	runStmt(c, "picture-with-an-empty-second-sub-picture-accepted", []stmtCase{
		{`$formatNumber(5, "0;")`, nil, "error"}, {`$formatNumber(-5, "#,##0.00;")`, nil, "error"}, {`$formatNumber(0.25, "0%;")`, nil, "error"},
	})
	runStmt(c, "picture", []stmtCase{
		{`$formatNumber(5, ";0")`, nil, "error"}, {`$formatNumber(5, "0;;")`, nil, "error"}, {`$formatNumber(5, "0;(0)")`, nil, `"5"`}, {`$formatNumber(5, "0 eels")`, nil, `"5 eels"`},
	})
}

// C12, recorded as a known finding: the type letter l never matches null
func stmtC12(c *ctx) {
	runStmt(c, "signature-letter-l-does-not-accept-null", []stmtCase{
		{`function($x)<l>{$exists($x)}(null)`, nil, "true"}, {`function($x)<(sl)>{$exists($x)}(null)`, nil, "true"},
	})
	runStmt(c, "signature", []stmtCase{
		{`function($x)<x>{$exists($x)}(null)`, nil, "true"}, {`function($x)<n>{$x}(null)`, nil, "error"}, {`function($x)<l>{$x}(1)`, nil, "error"},
	})
}

var _ = strings.Contains
