package main

// C16 — string functions work on Unicode code points and satisfy inverse laws.

import (
	"fmt"
	"strings"
	"unicode/utf8"
)

var c16Alphabet = []string{"a", "b", " ", "é", "中", "😀", ",", "\t"}

func enumStrings(alpha []string, maxLen int) []string {
	out := []string{""}
	prev := []string{""}
	for l := 1; l <= maxLen; l++ {
		var cur []string
		for _, p := range prev {
			for _, a := range alpha {
				cur = append(cur, p+a)
			}
		}
		out = append(out, cur...)
		prev = cur
	}
	return out
}

func randString(r *rng, maxLen int) string {
	n := r.intn(maxLen + 1)
	var b strings.Builder
	for i := 0; i < n; i++ {
		b.WriteString(c16Alphabet[r.intn(len(c16Alphabet))])
	}
	return b.String()
}

func runC16(c *ctx) {
	stmtC16(c)
	c.rep.Rule = "strings over an alphabet mixing ASCII, 2-, 3- and 4-byte characters, whitespace and separators (exhaustive up to length 3, " +
		"random up to 6 and longer); start/length/width/limit over -8..8 incl. fractional values; pad and separator strings of length 0..3; " +
		"every function compared with the code-point model; inverse laws evaluated as JSONata equalities that must be true (also for the codecs)"
	r := c.rng.fork()
	strs := enumStrings(c16Alphabet, c.scale(2, 3))
	c.rep.Exhaustive = append(c.rep.Exhaustive, fmt.Sprintf("%d strings of length <= %d over an 8-character alphabet x the parameter grids", len(strs), c.scale(2, 3)))
	seps := []string{"a", ",", "é", "ab", "", " ", "😀", "a,"}
	pads := []string{"", "x", "ab", "é😀", "中a,"}
	law := func(prog string, in interface{}, bucket string) {
		g := goEval(prog, in)
		c.note(prog+"\x00"+valueSexp(in), bucket, true)
		if g.outcome != "ok t" {
			c.disagree(Disagreement{Kind: "law", Prog: prog, Input: in, InputS: valueSexp(in), Go: g.outcome, Model: "ok t"})
		}
	}
	for si, s := range strs {
		in := map[string]interface{}{"s": s}
		c.diffEval("$length(s)", in, "length")
		c.diffEval("$trim(s)", in, "trim")
		c.diffEval("$uppercase(s)", in, "case")
		c.diffEval("$lowercase($uppercase(s))", in, "case")
		for st := -4; st <= 4; st++ {
			c.diffEval(fmt.Sprintf("$substring(s, %d)", st), in, "substring")
			if c.quick() && si%3 != 0 {
				continue
			}
			for _, ln := range []string{"-1", "0", "1", "2", "5", "1.7"} {
				c.diffEval(fmt.Sprintf("$substring(s, %d, %s)", st, ln), in, "substring")
			}
		}
		for w := -5; w <= 5; w++ {
			c.diffEval(fmt.Sprintf("$pad(s, %d)", w), in, "pad")
			law(fmt.Sprintf("$length($pad(s, %d)) = $max([%d, $length(s)])", w, abs(w)), in, "law/pad")
			if c.quick() && si%4 != 0 {
				continue
			}
			for _, p := range pads {
				in2 := map[string]interface{}{"s": s, "p": p}
				c.diffEval(fmt.Sprintf("$pad(s, %d, p)", w), in2, "pad")
				law(fmt.Sprintf("$length($pad(s, %d, p)) = $max([%d, $length(s)])", w, abs(w)), in2, "law/pad")
			}
		}
		for _, sep := range seps {
			in2 := map[string]interface{}{"s": s, "c": sep}
			c.diffEval("$substringBefore(s, c)", in2, "beforeafter")
			c.diffEval("$substringAfter(s, c)", in2, "beforeafter")
			c.diffEval("$contains(s, c)", in2, "contains")
			c.diffEval("$split(s, c)", in2, "split")
			law("$contains(s, c) ? ($substringBefore(s, c) & c & $substringAfter(s, c) = s) : ($substringBefore(s, c) = s and $substringAfter(s, c) = s)", in2, "law/beforeafter")
			law("$join($split(s, c), c) = s", in2, "law/splitjoin")
			if c.quick() && si%4 != 0 {
				continue
			}
			for _, lim := range []string{"0", "1", "2", "5", "-1", "1.5"} {
				c.diffEval("$split(s, c, "+lim+")", in2, "split")
			}
			// a string pattern inserts its replacement verbatim: `$1`, `$0`, `$$` have no special meaning there
			for _, rep := range []string{"", "Z", "c,", "$1", "$0", "$$", "$25", "a$", "$a", "é$0😀"} {
				in3 := map[string]interface{}{"s": s, "c": sep, "r": rep}
				c.diffEval("$replace(s, c, r)", in3, "replace")
				for _, lim := range []string{"0", "1", "2", "-1"} {
					c.diffEval("$replace(s, c, r, "+lim+")", in3, "replace")
				}
			}
		}
		law("$base64decode($base64encode(s)) = s", in, "law/base64")
		law("$decodeUrlComponent($encodeUrlComponent(s)) = s", in, "law/url")
		if c.tooMany() {
			return
		}
	}
	// random longer strings and parameters
	n := c.scale(4000, 80000)
	for i := 0; i < n && !c.tooMany(); i++ {
		s := randString(r, 6)
		if r.chance(1, 10) {
			s = randString(r, 30)
		}
		sep := randString(r, 3)
		in := map[string]interface{}{"s": s, "c": sep, "p": randString(r, 3), "n": float64(r.intn(17)-8) + []float64{0, 0, 0.5, 0.25}[r.intn(4)], "m": float64(r.intn(17) - 8)}
		switch r.intn(12) {
		case 0:
			c.diffEval("$substring(s, n, m)", in, "rand/substring")
		case 1:
			c.diffEval("$pad(s, n, p)", in, "rand/pad")
		case 2:
			c.diffEval("$split(s, c, m)", in, "rand/split")
		case 3:
			c.diffEval("$replace(s, c, p, m)", in, "rand/replace")
		case 4:
			c.diffEval("$join($split(s, c), p)", in, "rand/join")
		case 5:
			c.diffEval("$substringBefore(s, c) & \"|\" & $substringAfter(s, c)", in, "rand/beforeafter")
		case 6:
			law("$join($split(s, c), c) = s", in, "law/splitjoin")
		case 7:
			law("$length($pad(s, m, p)) = $max([$abs(m), $length(s)])", in, "law/pad")
		case 8:
			law("$base64decode($base64encode(s)) = s and $decodeUrlComponent($encodeUrlComponent(s)) = s", in, "law/codec")
		case 9:
			c.diffEval("s.$substring(n)", in, "rand/ctx")
		case 10:
			c.diffEval("s.$pad(m)", in, "rand/ctx")
		case 11:
			c.diffEval("$trim(s & c & s) & $length(s)", in, "rand/trim")
		}
	}
	// the laws on strings of unusual content (control characters, U+FFFD inside a longer string, astral and combining
	// characters, runs of exactly 16/32/64/256 characters); the implementation alone is run, the law is the oracle
	for i := 0; i < c.scale(3000, 50000) && !c.tooMany(); i++ {
		s := exoticString(r)
		if r.chance(1, 3) {
			s = exoticString(r) + randString(r, 4) + exoticString(r)
		}
		sep := exoticString(r)
		if r.chance(1, 2) {
			sep = randString(r, 2)
		}
		if len(sep) > 40 {
			sep = string([]rune(sep)[:3])
		}
		in := map[string]interface{}{"s": s, "c": sep, "m": float64(r.intn(41) - 20), "k": float64(utf8.RuneCountInString(s))}
		law("$base64decode($base64encode(s)) = s", in, "law-exotic/base64")
		if s != "\ufffd" {
			law("$decodeUrlComponent($encodeUrlComponent(s)) = s", in, "law-exotic/url")
		}
		law("$length(s) = k", in, "law-exotic/length")
		law("$substring(s, 0) = s and $substring(s, 0, k) = s and $substring(s, k) = \"\"", in, "law-exotic/substring")
		law("$join($split(s, c), c) = s", in, "law-exotic/splitjoin")
		law("$length($pad(s, m)) = $max([$abs(m), k])", in, "law-exotic/pad")
		law("$substringBefore(s, c) & (($contains(s, c)) ? c & $substringAfter(s, c) : \"\") = s", in, "law-exotic/beforeafter")
		law("$length($uppercase(s)) >= 0 and $lowercase(s) = $lowercase($lowercase(s))", in, "law-exotic/case")
	}
	// the same functions applied through other forms of call: a composed function ($f ~> $g), a chain, a partial application,
	// a function held in a variable, a lambda wrapper; the laws must hold in every form (in particular when a stage yields
	// the empty string or zero)
	for _, st := range append([]string{"", " ", "  ", "a", "é😀", " a ", ","}, randString(r, 4), randString(r, 6), exoticString(r)) {
		in := map[string]interface{}{"s": st, "k": float64(utf8.RuneCountInString(st))}
		for _, prog := range []string{
			"($rt := $base64encode ~> $base64decode; $rt(s)) = s", "(s ~> ($base64encode ~> $base64decode)) = s", "(s ~> $base64encode ~> $base64decode) = s",
			"($e := $base64encode; $d := $base64decode; $d($e(s))) = s", "function($x){$base64decode($base64encode($x))}(s) = s", "$base64decode(?)($base64encode(?)(s)) = s",
			"($f := $trim ~> $length; $f(s)) = $length($trim(s))", "(s ~> $trim ~> $length) = $length($trim(s))", "($f := $uppercase ~> $lowercase ~> $length; $f(s)) = $length($lowercase($uppercase(s)))",
			"($f := $trim ~> $pad(?, -4, \"é€\") ~> $length; $f(s)) = $length($pad($trim(s), -4, \"é€\"))", "($f := $substring(?, 0, 0) ~> $length; $f(s)) = 0",
			"($f := $length ~> $string; $f(s)) = $string(k)", "($f := $substringBefore(?, \",\") ~> $uppercase; $f(s)) = $uppercase($substringBefore(s, \",\"))",
			"($j := $split(?, \",\") ~> $join(?, \",\"); $j(s)) = s", "(s ~> $split(\",\") ~> $join(\",\")) = s", "$join($split(s, \",\"), \",\") = s",
			"($c := $contains(?, \"a\") ~> $not; $c(s)) = $not($contains(s, \"a\"))", "($l := $length; $l(s)) = k", "(s ~> $length) = k", "(s ~> $length()) = k", "s.$length() = k",
		} {
			if st == "\ufffd" {
				continue
			}
			law(prog, in, "law/other-forms-of-call")
		}
	}
	// wrong argument kinds
	for _, p := range []string{"$length(1)", "$substring(1, 1)", "$substring(\"a\", \"b\")", "$pad(\"a\", \"b\")", "$split(\"a\", 1)", "$join([1, 2])", "$join(\"a\")", "$replace(\"a\", \"\", \"b\")",
		"$split(\"a\", \"a\", -1)", "$replace(\"a\", \"a\", \"b\", -1)", "$trim()", "$length()", "$uppercase(nothing)", "$substringBefore(\"a\")", "$contains(\"a\")", "$pad(\"a\")"} {
		c.diffEval(p, "ctx", "argkinds")
	}
}

func abs(n int) int {
	if n < 0 {
		return -n
	}
	return n
}
