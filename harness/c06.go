package main

// C06 — concurrent evaluations are isolated and race-free.
//
// Run from a -race build of this harness (bin/harness-race): the race detector's reports are
// collected by ./check from GORACE's log files. Here every goroutine's outcome is compared with
// the outcome of the same call executed sequentially beforehand.

import (
	"fmt"
	"strings"
	"sync"
	"time"

	jsonata "github.com/blues/jsonata-go"
)

type c06Job struct {
	prog   string
	expr   *jsonata.Expr
	input  interface{}
	expect string
}

type c06Suspect struct {
	j     c06Job
	got   string
	k, it int
}

func c06Outcome(prog string, r goResult) string {
	if strings.HasPrefix(r.outcome, "ok ") && unorderedSensitive(prog) {
		return "ok~ " + canonUnordered(normJSON(r.value))
	}
	if strings.HasPrefix(r.outcome, "err ") {
		// which member's error an object constructor reports is unspecified
		return "err"
	}
	return r.outcome
}

func runC06(c *ctx) {
	c.rep.Rule = "2..32 goroutines, each looping over Eval of programs from the full generator (context-defaulting built-ins, chains, partials, lambdas, transforms, regexes, sorts) " +
		"on goroutine-specific inputs whose correct results differ; configurations: one Expr shared by all goroutines, one Expr per goroutine (same and different programs), " +
		"Compile and package-level RegisterExts/RegisterVars running in parallel with the evaluations; every outcome compared with the same call executed sequentially; " +
		"the binary is built with -race and the race detector's reports are collected by the check"
	r := c.rng.fork()
	special := []string{
		"a.$substringBefore(\"z\")", "a.$substringBefore($$.b.c.$substringBefore(\"z\"))", "4 ~> $power(2)", "a ~> $substringBefore(\"y\")", "$pad(?, \"2\")(a)",
		"items ~> $map(function($v){$v.id}) ~> $sum()", "items.id ~> $sum() ~> $string()", "(items ~> |$|{\"z\": n}|).z", "$ ~> |items|{\"k\": k + 1}|", "items^(k).id", "items^(>id).s",
		"items{s: $count($)}", "($f := function($x){$x + n}; 3 ~> $f() ~> $f())", "$string(n) ~> $length()", "b.c ~> $uppercase() ~> $substring(1, 2)", "s.$split(\",\")",
		"a.$length()", "b.c.$pad(8, \"-\")", "n.$string()", "n.$round()", "a.$contains(\"y\")", "items.s.$uppercase()", "items.($string(id) & s)",
		"$match(a, /[a-z]/).match", "$replace(a, /(a)|(b)/, \"$2$1\")", "a.$contains(/y/)", "$sort(items.id, function($l, $r){$l < $r})", "$reduce(items.id, function($x, $y){$x + $y})",
		"$fromMillis(n * 1000000)", "$formatNumber(n, \"#,##0.00\")", "$sum(items.k) + $count(items)", "$join(items.s, a)", "items[k = $$.n].id", "$lookup($, \"a\") & a",
		// callees that are not plain $names: parenthesised, picked from an array, chosen by a conditional
		"a.(($substringBefore)(\"z\"))", "a.([$substringBefore][0](\"z\"))", "a.((n > 0 ? $substringBefore : $substringAfter)(\"z\"))", "b.c.(($pad)(9, \"-\"))", "a.(($length)())",
		"($f := $substringBefore; a.$f(\"z\"))", "a.($substringBefore ~> $uppercase)(\"z\")",
		"$map([a, b.c, s], $pad(?, 14))", "[a, b.c] ~> $join", "[s, a] ~> $join ~> $length", "$map([a, s], $split(?, \"z\"))", "($f := $trim ~> $split(?, \"y\"); $map([a, s], $f))",
		"$map([a, b.c], $substring(?, 1))", "$map([n, n + 1], $round)", "$map([n, 255], $formatBase)", "$filter([a, b.c, s], $contains(?, \"z\"))", "a ~> $uppercase ~> $pad(?, 12)",
		"$map([a, b.c], $substringBefore(?, \"z\"))", "[n, 3, 1] ~> $sort", "$map([n * 1000000], $fromMillis)", "$map([a], $replace(?, \"y\", \"-\"))", "[a, s] ~> $map($length)",
		"$map([1,2,3], $string)", "$filter(items, function($v){$v.id > n}).id", "$each(b, function($v, $k){$k & $v})",
	}
	// resource use that adds up across goroutines: bounded recursion (32 goroutines x depth 60 is far more nesting than any
	// single evaluation has).  Growing and shrinking goroutine stacks is expensive under the race detector, so these run in
	// two short rounds of their own.
	// $c06pause() sleeps for a millisecond at the bottom of the recursion: the goroutine gives up its processor while it is
	// deep inside nested calls, so all 32 evaluations are in flight, deeply nested, at the same time
	jsonata.RegisterExts(map[string]jsonata.Extension{"c06pause": {Func: func() (float64, error) { time.Sleep(3 * time.Millisecond); return 0, nil }}})
	deep := []string{"($f := function($d){$d <= 0 ? $c06pause() + n : 1 + $f($d - 1)}; $f(90))", "($g := function($d, $acc){$d <= 0 ? $acc + $c06pause() : $g($d - 1, $acc + n)}; $g(100, 0))"}
	g := &pgen{r: r, noRand: true}
	multibyteRound := false
	inputFor := func(k int) interface{} {
		d := fullDoc(newRng(int64(k)*7919+c.seed), false)
		if m, ok := d.(map[string]interface{}); ok {
			// goroutine-specific values in the members the special programs read
			m["a"] = fmt.Sprintf("g%dyaz%d", k, k)
			m["n"] = float64(k + 1)
			m["b"] = map[string]interface{}{"c": fmt.Sprintf("c%dzq", k)}
			m["s"] = fmt.Sprintf("%d,x,%d", k, k*k)
			if multibyteRound {
				// every other round: the goroutine-specific strings are not ASCII (two-, three- and four-byte characters)
				m["a"] = fmt.Sprintf("gé%dy日az%d😀%s", k, k, strings.Repeat("ü", k%5))
				m["b"] = map[string]interface{}{"c": fmt.Sprintf("ç%dz本q", k)}
				m["s"] = fmt.Sprintf("%d,ñ,%d", k, k*k)
			}
		}
		return d
	}
	rounds := c.scale(24, 200)
	itersAll := c.scale(40, 150)
	mismatches := 0
	for round := 0; round < rounds && !c.tooMany(); round++ {
		G := []int{2, 4, 8, 16, 32}[round%5]
		mode := round % 3 // 0 shared Expr, 1 per-goroutine Expr, 2 with Compile/Register in parallel
		multibyteRound = round%2 == 1
		roundStart := time.Now()
		nprogs := 6
		iters := itersAll
		var progs []string
		if round%12 == 0 && round < 60 {
			// the deep-recursion rounds: 32 goroutines, six iterations
			// (every goroutine evaluates a deep program in every iteration)
			G, iters, nprogs = 32, 6, len(deep)
			progs = append(progs, deep...)
		}
		for len(progs) < nprogs {
			var p string
			if r.chance(2, 3) {
				p = special[r.intn(len(special))]
			} else {
				g.chaotic = r.chance(1, 4)
				g.vars = nil
				p = g.expr(2 + r.intn(2))
			}
			if nondeterministic(p) || compileOrNil(p) == nil {
				continue
			}
			progs = append(progs, p)
		}
		// sequential pass: expected outcomes
		shared := make([]*jsonata.Expr, len(progs))
		for i, p := range progs {
			shared[i] = compileOrNil(p)
		}
		jobs := make([][]c06Job, G)
		for k := 0; k < G; k++ {
			in := inputFor(k)
			for i, p := range progs {
				e := shared[i]
				if mode != 0 {
					e = compileOrNil(p)
				}
				t0 := time.Now()
				exp := c06Outcome(p, evalOn(compileOrNil(p), deepCopy(in)))
				if d := time.Since(t0); d > 300*time.Millisecond && len(c.rep.Notes) < 6 {
					c.rep.Notes = append(c.rep.Notes, fmt.Sprintf("slow reference evaluation %.2fs: %s -> %s", d.Seconds(), p, trunc(exp, 80)))
				}
				jobs[k] = append(jobs[k], c06Job{prog: p, expr: e, input: in, expect: exp})
			}
		}
		seqDone := time.Since(roundStart)
		var wg sync.WaitGroup
		var mu sync.Mutex
		stop := make(chan struct{})
		if mode == 2 {
			// Compile and package-level registration in parallel with the evaluations
			wg.Add(1)
			go func(round int) {
				defer wg.Done()
				for i := 0; ; i++ {
					select {
					case <-stop:
						return
					default:
					}
					name := fmt.Sprintf("c06_%d_%d_%d", c.seed, round, i%7)
					jsonata.RegisterVars(map[string]interface{}{name: float64(i)})
					jsonata.RegisterExts(map[string]jsonata.Extension{name + "f": {Func: func(x float64) float64 { return x + 1 }}})
					if e, err := jsonata.Compile("$" + name + " + $" + name + "f(1)"); err == nil {
						if v, err := e.Eval(nil); err != nil || v != float64(i)+2 {
							mu.Lock()
							c.disagree(Disagreement{Kind: "concurrent", Prog: "$" + name + " + $" + name + "f(1)", Go: fmt.Sprint(v, err), Model: fmt.Sprint(float64(i) + 2)})
							mu.Unlock()
						}
					}
				}
			}(round)
		}
		var ewg sync.WaitGroup
		var suspects []c06Suspect
		for k := 0; k < G; k++ {
			ewg.Add(1)
			go func(k int) {
				defer ewg.Done()
				for it := 0; it < iters; it++ {
					j := jobs[k][(it+k)%len(jobs[k])]
					got := c06Outcome(j.prog, evalOn(j.expr, j.input))
					if got != j.expect {
						// whether the program's outcome varies by itself (map iteration order) is decided after the round,
						// when nothing else runs: re-evaluating here, next to the other goroutines, would blame the map order
						// for differences that the concurrency causes
						mu.Lock()
						suspects = append(suspects, c06Suspect{j: j, got: got, k: k, it: it})
						mu.Unlock()
						return
					}
				}
			}(k)
		}
		ewg.Wait()
		close(stop)
		wg.Wait()
		for _, sp := range suspects {
			if inherentlyVaries(sp.j.prog, sp.j.input) {
				continue
			}
			mismatches++
			if mismatches <= 5 {
				c.disagree(Disagreement{Kind: "concurrent", Prog: sp.j.prog, Input: sp.j.input, InputS: fmt.Sprintf("goroutines=%d mode=%d goroutine=%d iteration=%d programs=%q", G, mode, sp.k, sp.it, progs),
					Go: sp.got, Model: sp.j.expect + " (sequential)"})
			}
		}
		if d := time.Since(roundStart); d > 5*time.Second {
			c.rep.Notes = append(c.rep.Notes, fmt.Sprintf("round %d (goroutines=%d mode=%d iterations=%d) took %.1fs (sequential reference pass %.1fs)", round, G, mode, iters, d.Seconds(), seqDone.Seconds()))
		}
		c.rep.Cases += G * iters
		c.rep.Buckets[fmt.Sprintf("goroutines=%d/mode=%d", G, mode)] += G * iters
		for _, p := range progs {
			c.note(p, "programs", true)
		}
	}
	c.rep.Exhaustive = append(c.rep.Exhaustive, fmt.Sprintf("%d rounds x (2,4,8,16,32 goroutines) x %d evaluations per goroutine; modes: shared Expr / Expr per goroutine / with Compile+Register in parallel", rounds, itersAll))
}
