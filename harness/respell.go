package main

// Respelling: the same program written in another, equally legal form (redundant parentheses, a value or function reached
// through a variable, a call written as a chain, a partial application or a lambda wrapper, a bare name written `$.name` or
// back-quoted, a predicate hoisted into a variable).  The respelled program is run on both sides like any other program:
// nothing is assumed about its meaning, so a rewrite that happens to change the meaning (or to be no program at all) costs
// nothing.  What it buys: fast paths that pattern-match on the syntactic form of an operand are exercised with every
// generator of every property.

import (
	"strings"
)

type span struct{ from, to int }

// codeSpans returns the byte ranges of prog outside string literals, back-quoted names and comments.
func codeMask(prog string) []bool {
	mask := make([]bool, len(prog))
	i := 0
	for i < len(prog) {
		ch := prog[i]
		switch {
		case ch == '"' || ch == '\'' || ch == '`':
			j := i + 1
			for j < len(prog) && prog[j] != ch {
				if prog[j] == '\\' && ch != '`' {
					j++
				}
				j++
			}
			i = j + 1
		case ch == '/' && i+1 < len(prog) && prog[i+1] == '*':
			j := strings.Index(prog[i+2:], "*/")
			if j < 0 {
				i = len(prog)
			} else {
				i = i + 2 + j + 2
			}
		default:
			mask[i] = true
			i++
		}
	}
	return mask
}

func isIdent(b byte) bool {
	return b == '_' || b >= '0' && b <= '9' || b >= 'a' && b <= 'z' || b >= 'A' && b <= 'Z'
}

// matchClose returns the index of the bracket closing the one at prog[open], or -1.
func matchClose(prog string, mask []bool, open int) int {
	depth := 0
	for i := open; i < len(prog); i++ {
		if !mask[i] {
			continue
		}
		switch prog[i] {
		case '(', '[', '{':
			depth++
		case ')', ']', '}':
			depth--
			if depth == 0 {
				return i
			}
		}
	}
	return -1
}

// splitArgs splits the text between a call's parentheses at top-level commas.
func splitArgs(s string) []string {
	mask := codeMask(s)
	var out []string
	depth, last := 0, 0
	for i := 0; i < len(s); i++ {
		if !mask[i] {
			continue
		}
		switch s[i] {
		case '(', '[', '{':
			depth++
		case ')', ']', '}':
			depth--
		case ',':
			if depth == 0 {
				out = append(out, s[last:i])
				last = i + 1
			}
		}
	}
	if strings.TrimSpace(s[last:]) != "" || len(out) > 0 {
		out = append(out, s[last:])
	}
	return out
}

var respellKeywords = map[string]bool{"and": true, "or": true, "in": true, "true": true, "false": true, "null": true, "function": true}

// respell returns one respelling of prog ("" when no rule applies).  The rules are tried from a random starting point.
func respell(r *rng, prog string) (string, string) {
	if strings.Contains(prog, "/") && !strings.Contains(prog, " / ") {
		// regex literals: the scanner below does not know them
		return "", ""
	}
	mask := codeMask(prog)
	// token positions
	var vars, names, calls, preds []span
	for i := 0; i < len(prog); i++ {
		if !mask[i] {
			continue
		}
		ch := prog[i]
		switch {
		case ch == '$':
			j := i + 1
			if j < len(prog) && prog[j] == '$' {
				j++
			} else {
				for j < len(prog) && isIdent(prog[j]) {
					j++
				}
			}
			// not a binding target, not a parameter
			k := j
			for k < len(prog) && prog[k] == ' ' {
				k++
			}
			binding := k+1 < len(prog) && prog[k] == ':' && prog[k+1] == '='
			param := false
			if p := strings.LastIndex(prog[:i], "function"); p >= 0 {
				rest := prog[p+len("function") : i]
				if !strings.Contains(rest, ")") && strings.Contains(rest, "(") {
					param = true
				}
			}
			if !binding && !param {
				if k < len(prog) && prog[k] == '(' && j > i+1 {
					calls = append(calls, span{i, j})
				}
				vars = append(vars, span{i, j})
			}
			i = j - 1
		case (ch >= 'a' && ch <= 'z' || ch >= 'A' && ch <= 'Z') && (i == 0 || !isIdent(prog[i-1]) && prog[i-1] != '$'):
			j := i
			for j < len(prog) && isIdent(prog[j]) {
				j++
			}
			w := prog[i:j]
			prevDigit := i > 0 && (prog[i-1] >= '0' && prog[i-1] <= '9' || prog[i-1] == '.') && (w == "e" || w == "E" || strings.HasPrefix(w, "e") || strings.HasPrefix(w, "E"))
			k := j
			for k < len(prog) && prog[k] == ' ' {
				k++
			}
			objKey := false
			if !respellKeywords[w] && !prevDigit && !(k < len(prog) && prog[k] == '(') && !objKey {
				names = append(names, span{i, j})
			}
			i = j - 1
		case ch == '[' && i > 0 && (isIdent(prog[i-1]) || prog[i-1] == ')' || prog[i-1] == ']' || prog[i-1] == '`'):
			if c := matchClose(prog, mask, i); c > i+1 {
				preds = append(preds, span{i, c})
			}
		}
	}
	start := r.intn(8)
	for t := 0; t < 8; t++ {
		switch (start + t) % 8 {
		case 0: // a variable in parentheses
			if len(vars) > 0 {
				v := vars[r.intn(len(vars))]
				return prog[:v.from] + "(" + prog[v.from:v.to] + ")" + prog[v.to:], "variable-in-parentheses"
			}
		case 1: // a name in parentheses, back-quoted, or as $.name
			if len(names) > 0 {
				n := names[r.intn(len(names))]
				w := prog[n.from:n.to]
				alt := []string{"(" + w + ")", "`" + w + "`", "$." + w, "(" + w + ")", "$." + w}[r.intn(5)]
				return prog[:n.from] + alt + prog[n.to:], "name-respelled"
			}
		case 2, 3, 4: // a call in another form
			if len(calls) > 0 {
				cl := calls[r.intn(len(calls))]
				open := cl.to
				for open < len(prog) && prog[open] == ' ' {
					open++
				}
				closeAt := matchClose(prog, mask, open)
				if closeAt < 0 {
					continue
				}
				fn := prog[cl.from:cl.to]
				argText := prog[open+1 : closeAt]
				args := splitArgs(argText)
				var alt string
				kind := r.intn(7)
				if len(args) == 0 && kind < 4 {
					kind = 4 + r.intn(3)
				}
				rest := ""
				if len(args) > 1 {
					rest = strings.Join(args[1:], ",")
				}
				switch kind {
				case 0:
					alt = "(" + args[0] + " ~> " + fn + "(" + rest + "))"
				case 1:
					q := "?"
					if rest != "" {
						q = "?, " + rest
					}
					alt = fn + "(" + q + ")(" + args[0] + ")"
				case 2:
					q := "$q9"
					if rest != "" {
						q = "$q9, " + rest
					}
					alt = "function($q9){" + fn + "(" + q + ")}(" + args[0] + ")"
				case 3:
					q := "?"
					if rest != "" {
						q = "?, " + rest
					}
					alt = "($p9 := " + fn + "(" + q + "); $d9 := $p9(" + args[0] + "); $p9(" + args[0] + "))"
				case 4:
					alt = "(" + fn + ")(" + argText + ")"
				case 5:
					alt = "($g9 := " + fn + "; $g9(" + argText + "))"
				default:
					alt = "(true ? " + fn + " : $nope9)(" + argText + ")"
				}
				return prog[:cl.from] + alt + prog[closeAt+1:], "call-respelled"
			}
		case 5: // a predicate through a variable
			if len(preds) > 0 {
				p := preds[r.intn(len(preds))]
				inner := prog[p.from+1 : p.to]
				if strings.TrimSpace(inner) == "" {
					continue
				}
				return "($i9 := " + inner + "; " + prog[:p.from+1] + "$i9" + prog[p.to:] + ")", "predicate-through-variable"
			}
		case 6: // the whole program in a block, or behind a variable
			return []string{"(" + prog + ")", "($w9 := " + prog + "; $w9)", "(0; " + prog + ")"}[r.intn(3)], "program-wrapped"
		case 7: // a variable's value through a block
			if len(vars) > 0 {
				v := vars[r.intn(len(vars))]
				if v.to < len(prog) && prog[v.to] == '(' {
					continue
				}
				return prog[:v.from] + "(0; " + prog[v.from:v.to] + ")" + prog[v.to:], "variable-through-block"
			}
		}
	}
	return "", ""
}
