/-
  Lemmas/Order.lean — comparators, their lexicographic product, and the laws a number
  system must satisfy for sorting theorems (`LawfulNum`).
-/
import JsonataModel.Model.Values

namespace Jsonata
open NumSys

/-- The order laws of the number type that sorting relies on.  They hold for `Int`
    (proved below) and for IEEE doubles without NaN (trusted, DESIGN.md §5.6). -/
class LawfulNum (N : Type) [NumSys N] : Prop where
  beq_refl : ∀ a : N, beq a a = true
  beq_symm : ∀ a b : N, beq a b = beq b a
  beq_trans : ∀ a b c : N, beq a b = true → beq b c = true → beq a c = true
  lt_irrefl : ∀ a : N, lt a a = false
  lt_asymm : ∀ a b : N, lt a b = true → lt b a = false
  lt_trans : ∀ a b c : N, lt a b = true → lt b c = true → lt a c = true
  trichotomy : ∀ a b : N, lt a b = true ∨ beq a b = true ∨ lt b a = true
  lt_not_beq : ∀ a b : N, lt a b = true → beq a b = false
  lt_congr_left : ∀ a b c : N, beq a b = true → lt a c = lt b c
  lt_congr_right : ∀ a b c : N, beq a b = true → lt c a = lt c b

instance : LawfulNum Int where
  beq_refl a := by simp [NumSys.beq]
  beq_symm a b := by
    show (a == b) = (b == a)
    rw [Bool.eq_iff_iff]
    constructor <;> (intro h; have h' := eq_of_beq h; subst h'; exact beq_self_eq_true _)
  beq_trans a b c := by simp only [NumSys.beq, beq_iff_eq]; omega
  lt_irrefl a := by simp [NumSys.lt]
  lt_asymm a b := by simp only [NumSys.lt, decide_eq_true_eq, decide_eq_false_iff_not]; omega
  lt_trans a b c := by simp only [NumSys.lt, decide_eq_true_eq]; omega
  trichotomy a b := by simp only [NumSys.lt, NumSys.beq, decide_eq_true_eq, beq_iff_eq]; omega
  lt_not_beq a b := by
    simp only [NumSys.lt, NumSys.beq, decide_eq_true_eq]
    intro h
    have : ¬ a = b := by omega
    simp [this]
  lt_congr_left a b c := by simp only [NumSys.beq, beq_iff_eq]; intro h; subst h; rfl
  lt_congr_right a b c := by simp only [NumSys.beq, beq_iff_eq]; intro h; subst h; rfl

/-! ### comparators -/

/-- `c` is a total preorder comparator on the elements satisfying `P`. -/
structure LawfulCmp {α : Type} (c : α → α → Ordering) (P : α → Prop) : Prop where
  symm : ∀ a b, P a → P b → c b a = (c a b).swap
  trans : ∀ a b d, P a → P b → P d → c a b ≠ .gt → c b d ≠ .gt → c a d ≠ .gt
  /-- equivalent elements compare alike with everything -/
  eq_congr : ∀ a b d, P a → P b → P d → c a b = .eq → c a d = c b d

theorem LawfulCmp.refl {α : Type} {c : α → α → Ordering} {P : α → Prop} (h : LawfulCmp c P)
    (a : α) (ha : P a) : c a a = .eq := by
  have := h.symm a a ha ha
  cases hc : c a a <;> simp [hc] at this ⊢

/-- lexicographic product of a list of comparators over key tuples -/
def lexCmp {α : Type} : List (α → α → Ordering) → List α → List α → Ordering
  | c :: cs, x :: xs, y :: ys =>
    match c x y with
    | .eq => lexCmp cs xs ys
    | o => o
  | _, _, _ => .eq

/-- a key tuple conforms to the per-term predicates -/
def Conforms {α : Type} : List (α → Prop) → List α → Prop
  | [], [] => True
  | p :: ps, x :: xs => p x ∧ Conforms ps xs
  | _, _ => False

theorem lexCmp_lawful {α : Type} (cs : List (α → α → Ordering)) (ps : List (α → Prop))
    (hlen : cs.length = ps.length)
    (hc : ∀ i (h1 : i < cs.length) (h2 : i < ps.length), LawfulCmp cs[i] ps[i]) :
    LawfulCmp (lexCmp cs) (Conforms ps) := by
  induction cs generalizing ps with
  | nil =>
    refine ⟨?_, ?_, ?_⟩ <;> intros <;> simp [lexCmp]
  | cons c cs ih =>
    cases ps with
    | nil => simp at hlen
    | cons p ps =>
      have h0 : LawfulCmp c p := hc 0 (by simp) (by simp)
      have ih' := ih ps (by simpa using hlen) (fun i h1 h2 => by
        have := hc (i + 1) (by simp; omega) (by simp; omega)
        simpa using this)
      refine ⟨?_, ?_, ?_⟩
      · intro a b ha hb
        cases a with
        | nil => simp [Conforms] at ha
        | cons x xs =>
          cases b with
          | nil => simp [Conforms] at hb
          | cons y ys =>
            obtain ⟨hx, hxs⟩ := ha
            obtain ⟨hy, hys⟩ := hb
            have hs := h0.symm x y hx hy
            simp only [lexCmp]
            cases hxy : c x y <;> simp [hxy] at hs <;> simp [hs, Ordering.swap]
            exact ih'.symm xs ys hxs hys
      · intro a b d ha hb hd
        cases a with
        | nil => simp [Conforms] at ha
        | cons x xs =>
          cases b with
          | nil => simp [Conforms] at hb
          | cons y ys =>
            cases d with
            | nil => simp [Conforms] at hd
            | cons z zs =>
              obtain ⟨hx, hxs⟩ := ha
              obtain ⟨hy, hys⟩ := hb
              obtain ⟨hz, hzs⟩ := hd
              simp only [lexCmp]
              intro h1 h2
              cases hxy : c x y with
              | gt => simp [hxy] at h1
              | lt =>
                -- x < y ≤ z ⇒ x < z
                cases hyz : c y z with
                | gt => simp [hyz] at h2
                | lt =>
                  have hxz : c x z ≠ .gt := h0.trans x y z hx hy hz (by simp [hxy]) (by simp [hyz])
                  cases hxz' : c x z with
                  | gt => exact absurd hxz' hxz
                  | lt => simp
                  | eq =>
                    -- x ~ z and x < y < z is impossible: z ≤ x < y gives z < y… use symmetry
                    have hzx : c z x = .eq := by rw [h0.symm x z hx hz, hxz']; rfl
                    have : c z y = c x y := h0.eq_congr z x y hz hx hy hzx
                    rw [hxy] at this
                    have hyz' : c z y = (c y z).swap := h0.symm y z hy hz
                    rw [hyz] at hyz'
                    simp [Ordering.swap] at hyz'
                    rw [hyz'] at this
                    cases this
                | eq =>
                  have : c x z = c x y := by
                    have hzy : c z y = .eq := by rw [h0.symm y z hy hz, hyz]; rfl
                    have e1 : c z x = c y x := h0.eq_congr z y x hz hy hx hzy
                    have s1 := h0.symm x z hx hz
                    have s2 := h0.symm x y hx hy
                    rw [s1, s2] at e1
                    cases h1' : c x z <;> cases h2' : c x y <;> simp_all [Ordering.swap]
                  simp [this, hxy]
              | eq =>
                have hcong : c x z = c y z := h0.eq_congr x y z hx hy hz hxy
                simp only [hxy] at h1
                cases hyz : c y z with
                | gt => simp [hyz] at h2
                | lt => simp [hcong, hyz]
                | eq =>
                  simp only [hcong, hyz]
                  simp only [hyz] at h2
                  exact ih'.trans xs ys zs hxs hys hzs h1 h2
      · intro a b d ha hb hd
        cases a with
        | nil => simp [Conforms] at ha
        | cons x xs =>
          cases b with
          | nil => simp [Conforms] at hb
          | cons y ys =>
            cases d with
            | nil => simp [Conforms] at hd
            | cons z zs =>
              obtain ⟨hx, hxs⟩ := ha
              obtain ⟨hy, hys⟩ := hb
              obtain ⟨hz, hzs⟩ := hd
              simp only [lexCmp]
              intro h
              cases hxy : c x y with
              | lt => simp [hxy] at h
              | gt => simp [hxy] at h
              | eq =>
                simp only [hxy] at h
                have hcong : c x z = c y z := h0.eq_congr x y z hx hy hz hxy
                rw [hcong]
                cases hyz : c y z <;> simp
                exact ih'.eq_congr xs ys zs hxs hys hzs h

/-- `le` derived from a comparator: "not greater" -/
def leOf {α : Type} (c : α → α → Ordering) (a b : α) : Bool := c a b != .gt

theorem leOf_trans {α : Type} {c : α → α → Ordering} {P : α → Prop} (h : LawfulCmp c P)
    (a b d : α) (ha : P a) (hb : P b) (hd : P d) :
    leOf c a b = true → leOf c b d = true → leOf c a d = true := by
  simp only [leOf, bne_iff_ne, ne_eq]
  exact h.trans a b d ha hb hd

theorem leOf_total {α : Type} {c : α → α → Ordering} {P : α → Prop} (h : LawfulCmp c P)
    (a b : α) (ha : P a) (hb : P b) : (leOf c a b || leOf c b a) = true := by
  have := h.symm a b ha hb
  simp only [leOf]
  cases hc : c a b <;> simp [hc, Ordering.swap] at this ⊢ <;> simp [this]

end Jsonata

namespace Jsonata

/-- `List.mergeSort` is a stable sort for a comparison that is transitive and total *on the
    members of the list* (the core lemmas ask for global transitivity and totality). -/
theorem mergeSort_relativized {α : Type} (le : α → α → Bool) (P : α → Prop) (l : List α)
    (hP : ∀ x ∈ l, P x)
    (trans : ∀ a b c, P a → P b → P c → le a b = true → le b c = true → le a c = true)
    (total : ∀ a b, P a → P b → (le a b || le b a) = true) :
    (l.mergeSort le).Pairwise (fun a b => le a b = true) ∧
    (∀ ys : List α, ys.Sublist l → ys.Pairwise (fun a b => le a b = true) → ys.Sublist (l.mergeSort le)) := by
  let l' : List {x // P x} := l.attachWith P hP
  let le' : {x // P x} → {x // P x} → Bool := fun a b => le a.1 b.1
  have trans' : ∀ a b c : {x // P x}, le' a b = true → le' b c = true → le' a c = true :=
    fun a b c => trans a.1 b.1 c.1 a.2 b.2 c.2
  have total' : ∀ a b : {x // P x}, (le' a b || le' b a) = true := fun a b => total a.1 b.1 a.2 b.2
  have hmap : (l'.mergeSort le').map Subtype.val = l.mergeSort le := by
    rw [List.map_mergeSort (s := le) (fun a _ b _ => rfl)]
    simp [l']
  constructor
  · have h := List.pairwise_mergeSort (le := le') trans' total' l'
    rw [← hmap, List.pairwise_map]
    exact h
  · intro ys hsub hpw
    have hl : l = l'.map Subtype.val := by simp [l']
    rw [hl, List.sublist_map_iff] at hsub
    obtain ⟨ys', hs', rfl⟩ := hsub
    rw [List.pairwise_map] at hpw
    have := List.sublist_mergeSort (le := le') trans' total' hpw hs'
    rw [← hmap]
    exact this.map _

end Jsonata
