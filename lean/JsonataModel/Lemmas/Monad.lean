/-
  Lemmas/Monad.lean — reasoning principles for `EvalM N = StateT (Store N) (Except Err)`.
-/
import JsonataModel.Model.Basic

namespace Jsonata

variable {N : Type} {α β : Type}

@[simp] theorem evalM_pure (a : α) (s : Store N) : (pure a : EvalM N α) s = .ok (a, s) := rfl

@[simp] theorem evalM_bind (x : EvalM N α) (f : α → EvalM N β) (s : Store N) :
    (x >>= f) s = match x s with
      | .ok (a, s') => f a s'
      | .error e => .error e := by
  show (StateT.bind x f) s = _
  unfold StateT.bind
  show (x s >>= _) = _
  cases h : x s with
  | error e => rfl
  | ok p => cases p; rfl

@[simp] theorem evalM_map (g : α → β) (x : EvalM N α) (s : Store N) :
    (g <$> x) s = match x s with
      | .ok (a, s') => .ok (g a, s')
      | .error e => .error e := by
  show (StateT.map g x) s = _
  unfold StateT.map
  show (x s >>= _) = _
  cases h : x s with
  | error e => rfl
  | ok p => cases p; rfl

@[simp] theorem evalM_throw (e : Err) (s : Store N) : (throw e : EvalM N α) s = .error e := rfl

/-- `ev` computes the store-independent function `p` (it may allocate frames, never fails). -/
def PureEv (ev : α → EvalM N β) (p : α → β) : Prop :=
  ∀ a s, ∃ s', ev a s = .ok (p a, s')

end Jsonata
