/-
  Lemmas/LexerProgress.lean — the lexer of Model/Lexer.lean never leaves the input and always makes progress.

  UTF-8 decoding width, the position invariant, every scanner primitive advances, `next` consumes at least one
  byte for every token other than EOF, lexing terminates, and the parser's measure `R` (bytes left plus one for
  a pending look-ahead token) never grows on `advance` and strictly falls unless the look-ahead is EOF.
  Shared by Props/C08 (Compile is total) and Props/C04 (reading back a tree needs the loop budgets to suffice).
  The headline statements are restated, with the same names, as property theorems in Props/C08.lean.
-/
import JsonataModel.Model.Parser

namespace Jsonata.LexerProgress
open Jsonata Jsonata.Lex Jsonata.Parse

/-! ### UTF-8 decoding never reads past the input and always advances -/

theorem needBytes_cases (b0 : Nat) :
    needBytes b0 = 0 ∨ needBytes b0 = 2 ∨ needBytes b0 = 3 ∨ needBytes b0 = 4 := by
  unfold needBytes
  by_cases h1 : (decide (b0 ≥ 0xC2) && decide (b0 ≤ 0xDF)) = true
  · simp [h1]
  · by_cases h2 : (decide (b0 ≥ 0xE0) && decide (b0 ≤ 0xEF)) = true
    · simp [h1, h2]
    · by_cases h3 : (decide (b0 ≥ 0xF0) && decide (b0 ≤ 0xF4)) = true
      · simp [h1, h2, h3]
      · simp [h1, h2, h3]

theorem decodeRune_width (inp : Input) (i : Nat) (h : i < inp.size) :
    1 ≤ (decodeRune inp i).2 ∧ i + (decodeRune inp i).2 ≤ inp.size := by
  unfold decodeRune
  have h0 : inp[i]? = some inp[i] := by simp [h]
  simp only [h0]
  by_cases hascii : inp[i].toNat < 0x80
  · simp only [hascii, if_true]; omega
  · simp only [hascii, if_false]
    rcases needBytes_cases inp[i].toNat with hn | hn | hn | hn
    · simp only [hn]; simp; omega
    · simp only [hn]
      by_cases hfit : i + 2 > inp.size
      · simp [hfit]; omega
      · simp only [hfit]
        simp
        repeat' split
        all_goals (first | omega | (simp; omega) | simp)
    · simp only [hn]
      by_cases hfit : i + 3 > inp.size
      · simp [hfit]; omega
      · simp only [hfit]
        simp
        repeat' split
        all_goals (first | omega | (simp; omega) | simp)
    · simp only [hn]
      by_cases hfit : i + 4 > inp.size
      · simp [hfit]; omega
      · simp only [hfit]
        simp
        repeat' split
        all_goals (first | omega | (simp; omega) | simp)

/-- the lexer invariant: 0 ≤ start ≤ current ≤ length, and a back-up never leaves the input -/
def Inv (inp : Input) (s : LState) : Prop :=
  s.start ≤ s.current ∧ s.current ≤ inp.size ∧ s.start + s.width ≤ s.current

theorem nextRune_inv (inp : Input) (s : LState) (h : Inv inp s) :
    Inv inp (nextRune inp s).2 ∧ s.current ≤ (nextRune inp s).2.current := by
  obtain ⟨h1, h2, h3⟩ := h
  unfold nextRune Inv
  by_cases hc : s.current ≥ inp.size
  · simp only [hc, if_true]
    refine ⟨⟨h1, h2, ?_⟩, Nat.le_refl _⟩
    simp; omega
  · simp only [hc, if_false]
    have hlt : s.current < inp.size := by omega
    obtain ⟨w1, w2⟩ := decodeRune_width inp s.current hlt
    refine ⟨⟨?_, ?_, ?_⟩, ?_⟩ <;> (try simp) <;> omega

/-- reading a rune makes progress unless the input is exhausted -/
theorem nextRune_progress (inp : Input) (s : LState) (h : s.current < inp.size) :
    s.current < (nextRune inp s).2.current := by
  unfold nextRune
  have hc : ¬ s.current ≥ inp.size := by omega
  simp only [hc, if_false]
  have := (decodeRune_width inp s.current h).1
  simp; omega

/-- backing up after a read returns exactly to the position before the read -/
theorem backup_after_next (inp : Input) (s : LState) :
    (backup (nextRune inp s).2).current = s.current := by
  unfold nextRune backup
  by_cases hc : s.current ≥ inp.size <;> simp [hc]

theorem backup_inv (inp : Input) (s : LState) (h : Inv inp s) : Inv inp (backup s) := by
  obtain ⟨h1, h2, h3⟩ := h
  unfold backup Inv
  simp
  omega

/-- a second back-up does nothing (the stale-width defect cannot recur) -/
theorem backup_idempotent (s : LState) : backup (backup s) = backup s := by
  simp [backup]

theorem accept_inv (inp : Input) (p : Nat → Bool) (s : LState) (h : Inv inp s) :
    Inv inp (accept inp p s).2 ∧ s.current ≤ (accept inp p s).2.current := by
  unfold accept
  have hn := nextRune_inv inp s h
  simp only []
  split
  · exact hn
  · refine ⟨backup_inv inp _ hn.1, ?_⟩
    rw [backup_after_next]
    exact Nat.le_refl _

/-- a token's value is a slice inside the input -/
theorem newToken_in_range (inp : Input) (tt : Tok) (s : LState) (h : Inv inp s) :
    (newToken tt s).1.lo ≤ (newToken tt s).1.hi ∧ (newToken tt s).1.hi ≤ inp.size ∧
    (newToken tt s).1.position ≤ inp.size ∧ Inv inp (newToken tt s).2 := by
  obtain ⟨h1, h2, h3⟩ := h
  unfold newToken Inv
  simp
  omega

/-- an error's position is inside the input -/
theorem lexError_position (inp : Input) (typ hint : String) (s : LState) (h : Inv inp s) :
    (lexError typ hint s).position ≤ inp.size := by
  obtain ⟨h1, h2, h3⟩ := h
  unfold lexError
  simp; omega

/-! ### the lexer makes progress: every token other than EOF consumes at least one byte -/

/-- the position is at or after `b`, even after backing up over the last rune read -/
def Adv (b : Nat) (s : LState) : Prop := b + s.width ≤ s.current

theorem adv_le {b : Nat} {s : LState} (h : Adv b s) : b ≤ s.current := by unfold Adv at h; omega

theorem nextRune_adv (inp : Input) (b : Nat) (s : LState) (h : b ≤ s.current) : Adv b (nextRune inp s).2 := by
  unfold nextRune Adv
  by_cases hc : s.current ≥ inp.size
  · simp [hc]; exact h
  · simp [hc]; omega

theorem backup_adv (b : Nat) (s : LState) (h : Adv b s) : Adv b (backup s) := by
  unfold Adv backup at *; simp; omega

theorem ignore_adv (b : Nat) (s : LState) (h : Adv b s) : Adv b (ignore s) := by
  unfold Adv ignore at *; simpa using h

theorem newToken_adv (b : Nat) (tt : Tok) (s : LState) (h : b ≤ s.current) : Adv b (newToken tt s).2 := by
  unfold Adv newToken; simpa using h

theorem accept_adv (inp : Input) (p : Nat → Bool) (b : Nat) (s : LState) (h : b ≤ s.current) :
    Adv b (accept inp p s).2 := by
  unfold accept
  have hn := nextRune_adv inp b s h
  simp only []
  split
  · exact hn
  · exact backup_adv b _ hn

theorem acceptAllLoop_adv (inp : Input) (p : Nat → Bool) (b : Nat) (fuel : Nat) (ok : Bool) (s : LState) (h : Adv b s) :
    Adv b (acceptAllLoop inp p fuel ok s).2 := by
  induction fuel generalizing ok s with
  | zero => simpa [acceptAllLoop] using h
  | succ f ih =>
    unfold acceptAllLoop
    have ha := accept_adv inp p b s (adv_le h)
    simp only []
    split
    · exact ih _ _ ha
    · exact ha

theorem acceptAll_adv (inp : Input) (p : Nat → Bool) (b : Nat) (s : LState) (h : Adv b s) :
    Adv b (acceptAll inp p s).2 := acceptAllLoop_adv inp p b _ _ s h

theorem scanRegexLoop_adv (inp : Input) (b : Nat) (fuel : Nat) (depth : Int) (s s' : LState)
    (h : b ≤ s.current) (hr : scanRegexLoop inp fuel depth s = .ok s') : Adv b s' := by
  induction fuel generalizing depth s with
  | zero => simp [scanRegexLoop] at hr
  | succ f ih =>
    unfold scanRegexLoop at hr
    have h1 := nextRune_adv inp b s h
    have h2 := nextRune_adv inp b _ (adv_le h1)
    simp only [] at hr
    repeat' split at hr
    all_goals first
      | (injection hr with e; rw [← e]; exact h1)
      | exact ih _ _ (adv_le h1) hr
      | exact ih _ _ (adv_le h2) hr
      | (exact absurd hr (by simp))

theorem scanStringLoop_adv (inp : Input) (q b : Nat) (fuel : Nat) (s s' : LState)
    (h : b ≤ s.current) (hr : scanStringLoop inp q fuel s = .ok s') : Adv b s' := by
  induction fuel generalizing s with
  | zero => simp [scanStringLoop] at hr
  | succ f ih =>
    unfold scanStringLoop at hr
    have h1 := nextRune_adv inp b s h
    have h2 := nextRune_adv inp b _ (adv_le h1)
    simp only [] at hr
    repeat' split at hr
    all_goals first
      | (injection hr with e; rw [← e]; exact h1)
      | exact ih _ (adv_le h1) hr
      | exact ih _ (adv_le h2) hr
      | (exact absurd hr (by simp))

theorem scanEscLoop_adv (inp : Input) (b : Nat) (fuel : Nat) (s s' : LState)
    (h : b ≤ s.current) (hr : scanEscLoop inp fuel s = .ok s') : Adv b s' := by
  induction fuel generalizing s with
  | zero => simp [scanEscLoop] at hr
  | succ f ih =>
    unfold scanEscLoop at hr
    have h1 := nextRune_adv inp b s h
    simp only [] at hr
    repeat' split at hr
    all_goals first
      | (injection hr with e; rw [← e]; exact h1)
      | exact ih _ (adv_le h1) hr
      | (exact absurd hr (by simp))

theorem scanNameLoop_adv (inp : Input) (b : Nat) (fuel : Nat) (s : LState) (h : Adv b s) :
    Adv b (scanNameLoop inp fuel s) := by
  induction fuel generalizing s with
  | zero => simpa [scanNameLoop] using h
  | succ f ih =>
    unfold scanNameLoop
    have h1 := nextRune_adv inp b s (adv_le h)
    simp only []
    repeat' split
    all_goals first
      | exact h1
      | exact backup_adv b _ h1
      | exact ih _ h1

theorem scanRegex_adv (inp : Input) (b : Nat) (s : LState) (t : Token) (s' : LState)
    (h : b ≤ s.current) (hr : scanRegex inp s = .ok (t, s')) : b ≤ s'.current := by
  unfold scanRegex at hr
  cases hl : scanRegexLoop inp (inp.size + 1) 0 s with
  | error e => simp [hl, bind, Except.bind] at hr
  | ok s1 =>
    have a1 := scanRegexLoop_adv inp b _ _ s s1 h hl
    have a2 := backup_adv b _ a1
    have a3 := newToken_adv b .regex _ (adv_le a2)
    have a4 := accept_adv inp (· == 47) b _ (adv_le a3)
    have a5 := ignore_adv b _ a4
    have a6 := acceptAll_adv inp isRegexFlag b _ a5
    have a7 := newToken_adv b .eof _ (adv_le a6)
    simp only [hl, bind, Except.bind, pure, Except.pure, acceptRune] at hr
    by_cases hf : (acceptAll inp isRegexFlag (ignore (accept inp (fun x => x == 47) (newToken Tok.regex (backup s1)).snd).snd)).fst = true
    · simp only [hf, ↓reduceIte] at hr
      injection hr with e; injection e with _ e2; rw [← e2]; exact adv_le a7
    · simp only [hf, ↓reduceIte] at hr
      injection hr with e; injection e with _ e2; rw [← e2]; exact adv_le a6

theorem scanString_adv (inp : Input) (q b : Nat) (s : LState) (t : Token) (s' : LState)
    (h : b ≤ s.current) (hr : scanString inp q s = .ok (t, s')) : b ≤ s'.current := by
  unfold scanString at hr
  cases hl : scanStringLoop inp q (inp.size + 1) s with
  | error e => simp [hl, bind, Except.bind] at hr
  | ok s1 =>
    have a1 := scanStringLoop_adv inp q b _ s s1 h hl
    have a2 := backup_adv b _ a1
    have a3 := newToken_adv b .string _ (adv_le a2)
    have a4 := accept_adv inp (· == q) b _ (adv_le a3)
    have a5 := ignore_adv b _ a4
    simp only [hl, bind, Except.bind, pure, Except.pure, acceptRune] at hr
    injection hr with e; injection e with _ e2; rw [← e2]; exact adv_le a5

theorem scanEscapedName_adv (inp : Input) (b : Nat) (s : LState) (t : Token) (s' : LState)
    (h : b ≤ s.current) (hr : scanEscapedName inp s = .ok (t, s')) : b ≤ s'.current := by
  unfold scanEscapedName at hr
  cases hl : scanEscLoop inp (inp.size + 1) s with
  | error e => simp [hl, bind, Except.bind] at hr
  | ok s1 =>
    have a1 := scanEscLoop_adv inp b _ s s1 h hl
    have a2 := backup_adv b _ a1
    have a3 := newToken_adv b .nameEsc _ (adv_le a2)
    have a4 := accept_adv inp (· == 96) b _ (adv_le a3)
    have a5 := ignore_adv b _ a4
    simp only [hl, bind, Except.bind, pure, Except.pure, acceptRune] at hr
    injection hr with e; injection e with _ e2; rw [← e2]; exact adv_le a5

/-- the rune at a byte position (what `nextRune` reads there) -/
def runeAt (inp : Input) (i : Nat) : Nat := if i ≥ inp.size then eofRune else (decodeRune inp i).1
def widthAt (inp : Input) (i : Nat) : Nat := if i ≥ inp.size then 0 else (decodeRune inp i).2

theorem nextRune_at (inp : Input) (s : LState) :
    (nextRune inp s).1 = runeAt inp s.current ∧ (nextRune inp s).2.current = s.current + widthAt inp s.current ∧
    (nextRune inp s).2.width = widthAt inp s.current := by
  unfold nextRune runeAt widthAt
  by_cases hc : s.current ≥ inp.size <;> simp [hc]

theorem widthAt_pos (inp : Input) (i : Nat) (h : runeAt inp i ≠ eofRune) : 1 ≤ widthAt inp i := by
  unfold runeAt at h
  unfold widthAt
  by_cases hc : i ≥ inp.size
  · simp [hc] at h
  · simp only [hc, if_false]
    exact (decodeRune_width inp i (by omega)).1

/-- `accept` succeeds exactly when the rune at the position is not EOF and satisfies the
    predicate; then it advances by the rune's width, otherwise it stays -/
theorem accept_at (inp : Input) (p : Nat → Bool) (s : LState) :
    ((accept inp p s).1 = (runeAt inp s.current != eofRune && p (runeAt inp s.current))) ∧
    ((accept inp p s).1 = true → (accept inp p s).2.current = s.current + widthAt inp s.current) ∧
    ((accept inp p s).1 = false → (accept inp p s).2.current = s.current) := by
  obtain ⟨h1, h2, h3⟩ := nextRune_at inp s
  unfold accept
  simp only []
  rw [h1]
  by_cases hc : (runeAt inp s.current != eofRune && p (runeAt inp s.current)) = true
  · simp only [hc, if_true]
    exact ⟨trivial, fun _ => h2, fun h => by simp at h⟩
  · simp only [hc]
    refine ⟨by simp at hc ⊢, fun h => by simp at h, fun _ => ?_⟩
    exact backup_after_next inp s

/-- after `acceptAll p` with the lexer's fuel, the rune at the position does not satisfy `p` -/
theorem acceptAllLoop_stops (inp : Input) (p : Nat → Bool) (fuel : Nat) (ok : Bool) (s : LState)
    (hf : inp.size - s.current < fuel) :
    let s' := (acceptAllLoop inp p fuel ok s).2
    (runeAt inp s'.current != eofRune && p (runeAt inp s'.current)) = false := by
  induction fuel generalizing ok s with
  | zero => omega
  | succ f ih =>
    obtain ⟨a1, a2, a3⟩ := accept_at inp p s
    unfold acceptAllLoop
    simp only []
    cases hacc : (accept inp p s).1 with
    | true =>
      simp only [if_true]
      have hpos : 1 ≤ widthAt inp s.current := by
        apply widthAt_pos
        rw [hacc] at a1
        intro he
        rw [he] at a1
        simp at a1
      have hcur := a2 hacc
      have hlt : s.current < inp.size := by
        rw [hacc] at a1
        unfold runeAt at a1
        by_cases hc : s.current ≥ inp.size
        · simp [hc] at a1
        · omega
      exact ih true _ (by omega)
    | false =>
      simp only [Bool.false_eq_true, if_false]
      have hcur := a3 hacc
      rw [hcur]
      rw [hacc] at a1
      exact a1.symm

theorem accept_ge (inp : Input) (p : Nat → Bool) (b : Nat) (s : LState) (h : b ≤ s.current) :
    b ≤ (accept inp p s).2.current := adv_le (accept_adv inp p b s h)

theorem acceptAllLoop_ge (inp : Input) (p : Nat → Bool) (b : Nat) (fuel : Nat) (ok : Bool) (s : LState) (h : b ≤ s.current) :
    b ≤ (acceptAllLoop inp p fuel ok s).2.current := by
  induction fuel generalizing ok s with
  | zero => simpa [acceptAllLoop] using h
  | succ f ih =>
    unfold acceptAllLoop
    have ha := accept_ge inp p b s h
    simp only []
    split
    · exact ih _ _ ha
    · exact ha

theorem acceptAll_ge (inp : Input) (p : Nat → Bool) (b : Nat) (s : LState) (h : b ≤ s.current) :
    b ≤ (acceptAll inp p s).2.current := acceptAllLoop_ge inp p b _ _ s h

theorem scanNameLoop_ge (inp : Input) (b : Nat) (fuel : Nat) (s : LState) (h : b ≤ s.current) :
    b ≤ (scanNameLoop inp fuel s).current := by
  induction fuel generalizing s with
  | zero => simpa [scanNameLoop] using h
  | succ f ih =>
    unfold scanNameLoop
    have h1 := nextRune_adv inp b s h
    simp only []
    repeat' split
    all_goals first
      | exact adv_le h1
      | exact adv_le (backup_adv b _ h1)
      | exact ih _ (adv_le h1)

/-- the tail of scanNumber (everything after the integer part) never moves left of `b` -/
theorem scanNumber_ge (inp : Input) (s : LState) (ch : Nat) (hch : runeAt inp s.current = ch)
    (hd : isDigit ch = true) (hne : ch ≠ eofRune) :
    s.current + widthAt inp s.current ≤ (scanNumber inp s).2.current := by
  obtain ⟨z1, z2, z3⟩ := accept_at inp (· == 48) s
  unfold scanNumber acceptRune
  simp only []
  generalize hs2 : (if (accept inp (fun x => x == 48) s).1 = true then (accept inp (fun x => x == 48) s).2
      else (acceptAll inp isDigit (accept inp isNonZeroDigit (accept inp (fun x => x == 48) s).2).2).2) = s2
  have hb : s.current + widthAt inp s.current ≤ s2.current := by
    rw [← hs2]
    cases hz : (accept inp (fun x => x == 48) s).1 with
    | true => simp only [if_true]; rw [z2 hz]; exact Nat.le_refl _
    | false =>
      simp only [Bool.false_eq_true, if_false]
      apply acceptAll_ge
      obtain ⟨n1, n2, n3⟩ := accept_at inp isNonZeroDigit (accept inp (fun x => x == 48) s).2
      have hcur := z3 hz
      rw [hcur] at n1 n2
      rw [hz, hch] at z1
      have hnz : isNonZeroDigit ch = true := by
        have hne' : (ch != eofRune) = true := by simpa using hne
        simp only [hne', Bool.true_and] at z1
        have h48 : ch ≠ 48 := by simpa using z1.symm
        unfold isDigit at hd; unfold isNonZeroDigit
        simp at hd ⊢; omega
      rw [hch] at n1
      have hok : (accept inp isNonZeroDigit (accept inp (fun x => x == 48) s).2).1 = true := by
        rw [n1]; simp [hne, hnz]
      rw [n2 hok]; exact Nat.le_refl _
  generalize s.current + widthAt inp s.current = b at hb
  have a3 := accept_ge inp (fun x => x == 46) b s2 hb
  have a4 := acceptAll_ge inp isDigit b _ a3
  have e := fun (s4 : LState) (h4 : b ≤ s4.current) => accept_ge inp (fun c => c == 101 || c == 69) b s4 h4
  have e6 := fun (s5 : LState) (h5 : b ≤ s5.current) => accept_ge inp (fun c => c == 43 || c == 45) b s5 h5
  have e7 := fun (s6 : LState) (h6 : b ≤ s6.current) => acceptAll_ge inp isDigit b s6 h6
  repeat' split
  all_goals simp only [newToken]
  all_goals first
    | exact hb
    | exact e _ a3
    | exact e _ a4
    | exact e7 _ (e6 _ (e _ a3))
    | exact e7 _ (e6 _ (e _ a4))

theorem scanName_ge (inp : Input) (s : LState) (ch : Nat) (hch : runeAt inp s.current = ch)
    (hne : ch ≠ eofRune) (hws : isWhitespace ch = false) (h1 : symbol1 ch = none) (h2 : symbol2 ch = none) :
    s.current + widthAt inp s.current ≤ (scanName inp s).2.current := by
  obtain ⟨z1, z2, z3⟩ := accept_at inp (· == 36) s
  have hfin : ∀ s3 : LState, s.current + widthAt inp s.current ≤ s3.current →
      s.current + widthAt inp s.current ≤ (newToken Tok.name s3).2.current := fun s3 h => by simpa [newToken] using h
  unfold scanName acceptRune
  simp only []
  cases hz : (accept inp (fun x => x == 36) s).1 with
  | true =>
    simp only [if_true]
    apply hfin
    apply scanNameLoop_ge
    simp only [ignore]
    rw [z2 hz]; exact Nat.le_refl _
  | false =>
    simp only [Bool.false_eq_true, if_false]
    have hcur := z3 hz
    obtain ⟨n1, n2, n3⟩ := nextRune_at inp (accept inp (fun x => x == 36) s).2
    rw [hcur, hch] at n1
    rw [hcur] at n2
    have hloop : s.current + widthAt inp s.current ≤ (scanNameLoop inp (inp.size + 1) (accept inp (fun x => x == 36) s).2).current := by
      unfold scanNameLoop
      simp only []
      have e0 : (ch == eofRune) = false := by simpa using hne
      simp only [n1, e0, Bool.false_eq_true, if_false, hws, h1, h2, Option.isSome_none, Bool.or_self]
      apply scanNameLoop_ge
      rw [n2]; exact Nat.le_refl _
    split
    · exact hfin _ hloop
    · exact hfin _ hloop

/-- **The lexer makes progress.**  Whenever `next` returns a token other than EOF, the position
    has moved forward by at least one byte — for every input (valid UTF-8 or not), every start
    state and either regex mode.  Hence a token stream has at most |input| tokens before EOF: the
    lexer cannot loop. -/
theorem next_progress (inp : Input) (allowRegex : Bool) (s0 : LState) (t : Token) (s' : LState)
    (h : next inp allowRegex s0 = .ok (t, s')) (hne : t.type ≠ .eof) : s0.current < s'.current := by
  -- after skipping whitespace
  have hws0 := acceptAllLoop_stops inp isWhitespace (inp.size + 1) false s0 (by omega)
  have hge0 := acceptAll_ge inp isWhitespace s0.current s0 (Nat.le_refl _)
  unfold next at h
  simp only [] at h
  generalize hs : ignore (acceptAll inp isWhitespace s0).2 = s at h
  have hsc : s.current = (acceptAll inp isWhitespace s0).2.current := by rw [← hs]; rfl
  have hge : s0.current ≤ s.current := by rw [hsc]; exact hge0
  have hws : (runeAt inp s.current != eofRune && isWhitespace (runeAt inp s.current)) = false := by
    rw [hsc]; exact hws0
  obtain ⟨n1, n2, n3⟩ := nextRune_at inp s
  generalize hch : (nextRune inp s).1 = ch at h n1
  generalize hs1 : (nextRune inp s).2 = s1 at h n2 n3
  by_cases heof : (ch == eofRune) = true
  · simp only [heof, if_true] at h
    injection h with e; injection e with e1 _
    rw [← e1] at hne; exact absurd rfl hne
  · simp only [heof, Bool.false_eq_true, if_false] at h
    have hne' : ch ≠ eofRune := by simpa using heof
    have hw : 1 ≤ widthAt inp s.current := widthAt_pos inp _ (by rw [← n1]; exact hne')
    have hb : s.current + 1 ≤ s1.current := by omega
    have hnotws : isWhitespace ch = false := by
      rw [← n1] at hws
      have : (ch != eofRune) = true := by simpa using hne'
      simpa [this] using hws
    -- in every branch the final position is at or after s1.current
    suffices hfin : s1.current ≤ s'.current by omega
    by_cases hrx : (allowRegex && ch == 47) = true
    · simp only [hrx, if_true] at h
      exact scanRegex_adv inp s1.current (ignore s1) t s' (Nat.le_refl _) h
    · simp only [hrx, Bool.false_eq_true, if_false] at h
      cases hsym2 : symbol2 ch with
      | some r2tt =>
        obtain ⟨r2, tt⟩ := r2tt
        simp only [hsym2] at h
        have ha := accept_ge inp (· == r2) s1.current s1 (Nat.le_refl _)
        by_cases hok : (acceptRune inp r2 s1).1 = true
        · simp only [hok, if_true] at h
          injection h with e; injection e with _ e2
          rw [← e2]; simpa [newToken, acceptRune] using ha
        · simp only [hok, Bool.false_eq_true, if_false] at h
          cases hsym1 : symbol1 ch with
          | some tt1 =>
            simp only [hsym1] at h
            injection h with e; injection e with _ e2
            rw [← e2]; simpa [newToken, acceptRune] using ha
          | none =>
            simp only [hsym1, Option.isSome_some, if_true] at h
            injection h with e; injection e with _ e2
            rw [← e2]; simpa [newToken, acceptRune] using ha
      | none =>
        simp only [hsym2] at h
        cases hsym1 : symbol1 ch with
        | some tt1 =>
          simp only [hsym1] at h
          injection h with e; injection e with _ e2
          rw [← e2]; simp [newToken]
        | none =>
          simp only [hsym1, Option.isSome_none, Bool.false_eq_true, if_false] at h
          have hbk : (backup s1).current = s.current := by rw [← hs1]; exact backup_after_next inp s
          by_cases hq : (ch == 34 || ch == 39) = true
          · simp only [hq, if_true] at h
            exact scanString_adv inp ch s1.current (ignore s1) t s' (Nat.le_refl _) h
          · simp only [hq, Bool.false_eq_true, if_false] at h
            by_cases hdig : isDigit ch = true
            · simp only [hdig, if_true] at h
              injection h with e
              have := scanNumber_ge inp (backup s1) ch (by rw [hbk]; exact n1.symm) hdig hne'
              rw [hbk] at this
              rw [e] at this
              simpa [n2] using this
            · simp only [hdig, Bool.false_eq_true, if_false] at h
              by_cases hesc : (ch == 96) = true
              · simp only [hesc, if_true] at h
                exact scanEscapedName_adv inp s1.current (ignore s1) t s' (Nat.le_refl _) h
              · simp only [hesc, Bool.false_eq_true, if_false] at h
                injection h with e
                have := scanName_ge inp (backup s1) ch (by rw [hbk]; exact n1.symm) hne' hnotws hsym1 hsym2
                rw [hbk] at this
                rw [e] at this
                simpa [n2] using this


/-- a token other than EOF is only produced when input is left -/
theorem next_noneof_lt (inp : Input) (allowRegex : Bool) (s0 : LState) (t : Token) (s' : LState)
    (h : next inp allowRegex s0 = .ok (t, s')) (hne : t.type ≠ .eof) : s0.current < inp.size := by
  have hge0 := acceptAll_ge inp isWhitespace s0.current s0 (Nat.le_refl _)
  unfold next at h
  simp only [] at h
  generalize hs : ignore (acceptAll inp isWhitespace s0).2 = s at h
  have hsc : s.current = (acceptAll inp isWhitespace s0).2.current := by rw [← hs]; rfl
  obtain ⟨n1, _, _⟩ := nextRune_at inp s
  by_cases heof : ((nextRune inp s).1 == eofRune) = true
  · simp only [heof, if_true] at h
    injection h with e; injection e with e1 _
    rw [← e1] at hne; exact absurd rfl hne
  · have : runeAt inp s.current ≠ eofRune := by rw [← n1]; simpa using heof
    unfold runeAt at this
    by_cases hc : s.current ≥ inp.size
    · simp [hc] at this
    · omega

/-- lex the whole input (never asking for a regex): tokens up to EOF, a lexical error, or `none`
    when the step budget runs out -/
def lexAll (inp : Input) : Nat → LState → Option (Except PErr (List Token))
  | 0, _ => none
  | n + 1, s =>
    match next inp false s with
    | .error e => some (.error e)
    | .ok (t, s') =>
      if t.type == .eof then some (.ok [t])
      else match lexAll inp n s' with
        | some (.ok ts) => some (.ok (t :: ts))
        | r => r

/-- **Lexing terminates.**  From any state, |remaining input| + 1 steps are enough to reach EOF or a
    lexical error: the budget is never the reason to stop, and there are at most |input| tokens before EOF. -/
theorem lexAll_terminates (inp : Input) (n : Nat) (s : LState) (h : inp.size - s.current < n) :
    (lexAll inp n s).isSome = true ∧
    (∀ ts, lexAll inp n s = some (.ok ts) → ts.length ≤ inp.size - s.current + 1) := by
  induction n generalizing s with
  | zero => omega
  | succ k ih =>
    unfold lexAll
    cases hn : next inp false s with
    | error e => simp
    | ok r =>
      obtain ⟨t, s'⟩ := r
      simp only []
      by_cases he : (t.type == Tok.eof) = true
      · simp [he]
      · simp only [he, Bool.false_eq_true, if_false]
        have hne : t.type ≠ .eof := by simpa using he
        have hp := next_progress inp false s t s' hn hne
        have hlt := next_noneof_lt inp false s t s' hn hne
        by_cases hsz : s'.current ≤ inp.size
        · obtain ⟨i1, i2⟩ := ih s' (by omega)
          cases hl : lexAll inp k s' with
          | none => rw [hl] at i1; simp at i1
          | some r =>
            cases r with
            | error e => simp
            | ok ts =>
              have := i2 ts hl
              simp
              omega
        · obtain ⟨i1, i2⟩ := ih s' (by omega)
          cases hl : lexAll inp k s' with
          | none => rw [hl] at i1; simp at i1
          | some r =>
            cases r with
            | error e => simp
            | ok ts =>
              have := i2 ts hl
              simp
              omega


/-! ### the parser's budgets suffice -/

/-- `next` never moves backwards (also when it returns EOF) -/
theorem next_ge (inp : Input) (allowRegex : Bool) (s0 : LState) (t : Token) (s' : LState)
    (h : next inp allowRegex s0 = .ok (t, s')) : s0.current ≤ s'.current := by
  -- after skipping whitespace
  have hws0 := acceptAllLoop_stops inp isWhitespace (inp.size + 1) false s0 (by omega)
  have hge0 := acceptAll_ge inp isWhitespace s0.current s0 (Nat.le_refl _)
  unfold next at h
  simp only [] at h
  generalize hs : ignore (acceptAll inp isWhitespace s0).2 = s at h
  have hsc : s.current = (acceptAll inp isWhitespace s0).2.current := by rw [← hs]; rfl
  have hge : s0.current ≤ s.current := by rw [hsc]; exact hge0
  have hws : (runeAt inp s.current != eofRune && isWhitespace (runeAt inp s.current)) = false := by
    rw [hsc]; exact hws0
  obtain ⟨n1, n2, n3⟩ := nextRune_at inp s
  generalize hch : (nextRune inp s).1 = ch at h n1
  generalize hs1 : (nextRune inp s).2 = s1 at h n2 n3
  by_cases heof : (ch == eofRune) = true
  · simp only [heof, if_true] at h
    injection h with e; injection e with _ e2
    rw [← e2, n2]; omega
  · simp only [heof, Bool.false_eq_true, if_false] at h
    have hne' : ch ≠ eofRune := by simpa using heof
    have hw : 1 ≤ widthAt inp s.current := widthAt_pos inp _ (by rw [← n1]; exact hne')
    have hb : s.current + 1 ≤ s1.current := by omega
    have hnotws : isWhitespace ch = false := by
      rw [← n1] at hws
      have : (ch != eofRune) = true := by simpa using hne'
      simpa [this] using hws
    -- in every branch the final position is at or after s1.current
    suffices hfin : s1.current ≤ s'.current by omega
    by_cases hrx : (allowRegex && ch == 47) = true
    · simp only [hrx, if_true] at h
      exact scanRegex_adv inp s1.current (ignore s1) t s' (Nat.le_refl _) h
    · simp only [hrx, Bool.false_eq_true, if_false] at h
      cases hsym2 : symbol2 ch with
      | some r2tt =>
        obtain ⟨r2, tt⟩ := r2tt
        simp only [hsym2] at h
        have ha := accept_ge inp (· == r2) s1.current s1 (Nat.le_refl _)
        by_cases hok : (acceptRune inp r2 s1).1 = true
        · simp only [hok, if_true] at h
          injection h with e; injection e with _ e2
          rw [← e2]; simpa [newToken, acceptRune] using ha
        · simp only [hok, Bool.false_eq_true, if_false] at h
          cases hsym1 : symbol1 ch with
          | some tt1 =>
            simp only [hsym1] at h
            injection h with e; injection e with _ e2
            rw [← e2]; simpa [newToken, acceptRune] using ha
          | none =>
            simp only [hsym1, Option.isSome_some, if_true] at h
            injection h with e; injection e with _ e2
            rw [← e2]; simpa [newToken, acceptRune] using ha
      | none =>
        simp only [hsym2] at h
        cases hsym1 : symbol1 ch with
        | some tt1 =>
          simp only [hsym1] at h
          injection h with e; injection e with _ e2
          rw [← e2]; simp [newToken]
        | none =>
          simp only [hsym1, Option.isSome_none, Bool.false_eq_true, if_false] at h
          have hbk : (backup s1).current = s.current := by rw [← hs1]; exact backup_after_next inp s
          by_cases hq : (ch == 34 || ch == 39) = true
          · simp only [hq, if_true] at h
            exact scanString_adv inp ch s1.current (ignore s1) t s' (Nat.le_refl _) h
          · simp only [hq, Bool.false_eq_true, if_false] at h
            by_cases hdig : isDigit ch = true
            · simp only [hdig, if_true] at h
              injection h with e
              have := scanNumber_ge inp (backup s1) ch (by rw [hbk]; exact n1.symm) hdig hne'
              rw [hbk] at this
              rw [e] at this
              simpa [n2] using this
            · simp only [hdig, Bool.false_eq_true, if_false] at h
              by_cases hesc : (ch == 96) = true
              · simp only [hesc, if_true] at h
                exact scanEscapedName_adv inp s1.current (ignore s1) t s' (Nat.le_refl _) h
              · simp only [hesc, Bool.false_eq_true, if_false] at h
                injection h with e
                have := scanName_ge inp (backup s1) ch (by rw [hbk]; exact n1.symm) hne' hnotws hsym1 hsym2
                rw [hbk] at this
                rw [e] at this
                simpa [n2] using this



/-- tokens that can still be consumed: bytes the lexer has not read, plus the look-ahead token -/
def R (inp : Input) (p : PState) : Nat := (inp.size - p.lex.current) + (if p.tok.type == .eof then 0 else 1)

theorem advance_R (inp : Input) (ar : Bool) (p q : PState) (h : advance inp ar p = .ok q) :
    R inp q ≤ R inp p ∧ (p.tok.type ≠ .eof → R inp q + 1 ≤ R inp p) := by
  unfold advance at h
  cases hn : next inp ar p.lex with
  | error e => simp [hn] at h
  | ok r =>
    obtain ⟨t, l⟩ := r
    simp only [hn] at h
    injection h with e
    subst e
    have hge := next_ge inp ar p.lex t l hn
    unfold R
    simp only []
    by_cases ht : t.type = .eof
    · simp only [ht, beq_self_eq_true, if_true]
      constructor
      · omega
      · intro hp
        have : (p.tok.type == Tok.eof) = false := by simpa using hp
        simp only [this, Bool.false_eq_true, if_false]; omega
    · have hlt := next_noneof_lt inp ar p.lex t l hn ht
      have hpr := next_progress inp ar p.lex t l hn ht
      have : (t.type == Tok.eof) = false := by simpa using ht
      simp only [this, Bool.false_eq_true, if_false]
      constructor
      · split <;> omega
      · intro hp
        have : (p.tok.type == Tok.eof) = false := by simpa using hp
        simp only [this, Bool.false_eq_true, if_false]; omega

/-- the lexer's errors are the three "unterminated" kinds -/

theorem R_le (inp : Input) (p : PState) : R inp p < inp.size + 2 := by
  unfold R; split <;> omega

end Jsonata.LexerProgress
