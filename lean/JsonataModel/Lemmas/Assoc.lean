/-
  Lemmas/Assoc.lean — association lists with "replace in place or add" updates
  (Go map assignment as modelled by `objSet` and by `bindVar`).
-/
namespace Jsonata

variable {β : Type}

theorem find_map_set_same (l : List (String × β)) (k : String) (v : β)
    (h : l.any (fun p => p.1 == k) = true) :
    ((l.map fun p => if p.1 == k then (k, v) else p).find? (fun p => p.1 == k)).map (·.2) = some v := by
  induction l with
  | nil => simp at h
  | cons q qs ih =>
    by_cases hq : q.1 = k
    · simp [hq]
    · have hq' : (q.1 == k) = false := by simpa using hq
      simp only [List.any_cons, hq', Bool.false_or] at h
      simp only [List.map_cons, hq', Bool.false_eq_true, if_false, List.find?_cons]
      exact ih h

theorem find_map_set_other (l : List (String × β)) (k k' : String) (v : β) (hne : k' ≠ k) :
    ((l.map fun p => if p.1 == k then (k, v) else p).find? (fun p => p.1 == k')).map (·.2) =
      (l.find? (fun p => p.1 == k')).map (·.2) := by
  have hne' : (k == k') = false := by simpa using (fun h : k = k' => hne h.symm)
  induction l with
  | nil => rfl
  | cons p ps ih =>
    by_cases hp : p.1 = k
    · have hpk' : (p.1 == k') = false := by rw [hp]; exact hne'
      simp only [List.map_cons, hp, beq_self_eq_true, if_true, List.find?_cons, hne', hpk']
      exact ih
    · have hp' : (p.1 == k) = false := by simpa using hp
      simp only [List.map_cons, hp', Bool.false_eq_true, if_false, List.find?_cons]
      cases hpk : (p.1 == k')
      · simpa using ih
      · simp

end Jsonata
