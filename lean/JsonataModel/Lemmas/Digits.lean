/-
  Lemmas/Digits.lean — decimal digit strings: value, length, padding, and FormatNumber on the
  pictures "1" and "01" (the layouts the date components use).
-/
import JsonataModel.Model.Date

namespace Jsonata.Digits
open Jsonata Jsonata.Num Jsonata.FmtNum Jsonata.Date

/-! digits of a natural number in base 10 -/

def dig10 (n : Nat) : List Char := toBaseAux 10 (n + 1) n []

theorem digitChar_isDig : ∀ d, d < 10 → isDig (digitChar d) = true := by decide
theorem digitChar_val : ∀ d, d < 10 → (digitChar d).toNat - 48 = d := by decide
theorem digitChar_ne_zero' : ∀ d, d < 10 → (0 < d → digitChar d ≠ '0') := by decide
theorem digitChar_ne_zero (d : Nat) (h0 : 0 < d) (h : d < 10) : digitChar d ≠ '0' := digitChar_ne_zero' d h h0

/-- toBaseAux only puts digits in front of the accumulator -/
theorem toBaseAux_append (fuel n : Nat) (acc : List Char) :
    toBaseAux 10 fuel n acc = toBaseAux 10 fuel n [] ++ acc := by
  induction fuel generalizing n acc with
  | zero => simp [toBaseAux]
  | succ f ih =>
    unfold toBaseAux
    split
    · simp
    · rw [ih (n / 10) (digitChar (n % 10) :: acc), ih (n / 10) [digitChar (n % 10)]]
      simp

theorem dig10_step (n : Nat) (h : 10 ≤ n) : dig10 n = dig10 (n / 10) ++ [digitChar (n % 10)] := by
  have hn : ¬ n < 10 := by omega
  have key : ∀ (f1 f2 m : Nat) (acc : List Char), m < f1 → m < f2 → toBaseAux 10 f1 m acc = toBaseAux 10 f2 m acc := by
    intro f1
    induction f1 with
    | zero => intro f2 m acc h1; omega
    | succ k ih =>
      intro f2 m acc h1 h2
      cases f2 with
      | zero => omega
      | succ j =>
        unfold toBaseAux
        split
        · rfl
        · rename_i hm
          have : m / 10 < m := Nat.div_lt_self (by omega) (by omega)
          exact ih j (m / 10) _ (by omega) (by omega)
  unfold dig10
  rw [toBaseAux]
  simp only [hn, if_false]
  rw [toBaseAux_append]
  congr 1
  have : n / 10 < n := Nat.div_lt_self (by omega) (by omega)
  exact key n (n / 10 + 1) (n / 10) [] (by omega) (by omega)

theorem dig10_small (n : Nat) (h : n < 10) : dig10 n = [digitChar n] := by
  simp [dig10, toBaseAux, h]

/-- all characters are digits -/
theorem dig10_isDig (n : Nat) : ∀ c ∈ dig10 n, isDig c = true := by
  induction n using Nat.strongRecOn with
  | _ n ih =>
    by_cases h : n < 10
    · rw [dig10_small n h]; intro c hc; simp at hc; subst hc; exact digitChar_isDig n h
    · rw [dig10_step n (by omega)]
      intro c hc
      rcases List.mem_append.mp hc with hc | hc
      · exact ih (n / 10) (Nat.div_lt_self (by omega) (by omega)) c hc
      · simp at hc; subst hc; exact digitChar_isDig _ (Nat.mod_lt _ (by omega))

/-- the value of the digit string -/
theorem natOfDigits_append (a : List Char) (c : Char) : natOfDigits (a ++ [c]) = natOfDigits a * 10 + (c.toNat - 48) := by
  simp [natOfDigits, List.foldl_append]

theorem dig10_value (n : Nat) : natOfDigits (dig10 n) = n := by
  induction n using Nat.strongRecOn with
  | _ n ih =>
    by_cases h : n < 10
    · rw [dig10_small n h]; simp [natOfDigits, digitChar_val n h]
    · rw [dig10_step n (by omega), natOfDigits_append, ih (n / 10) (Nat.div_lt_self (by omega) (by omega)),
        digitChar_val _ (Nat.mod_lt _ (by omega))]
      have := Nat.div_add_mod n 10
      omega

/-- number of digits -/
theorem dig10_length (n k : Nat) (hk : 1 ≤ k) : (dig10 n).length ≤ k ↔ n < 10 ^ k := by
  induction k generalizing n with
  | zero => omega
  | succ j ih =>
    by_cases h : n < 10
    · rw [dig10_small n h]
      simp
      have : 10 ^ (j + 1) ≥ 10 := by
        have := Nat.pow_le_pow_right (show 1 ≤ 10 by decide) (show 1 ≤ j + 1 by omega)
        simpa using this
      omega
    · rw [dig10_step n (by omega)]
      simp only [List.length_append, List.length_singleton]
      by_cases hj : j = 0
      · subst hj
        have hl : 1 ≤ (dig10 (n / 10)).length := by
          cases hd : dig10 (n / 10) with
          | nil =>
            have hv := dig10_value (n / 10)
            rw [hd] at hv
            simp [natOfDigits] at hv
            omega
          | cons _ _ => simp
        have h10 : (10 : Nat) ^ (0 + 1) = 10 := by decide
        rw [h10]
        constructor
        · intro hle; omega
        · intro hlt; omega
      · have := ih (n / 10) (by omega)
        rw [Nat.pow_succ]
        constructor
        · intro hle
          have := this.mp (by omega)
          omega
        · intro hlt
          have : n / 10 < 10 ^ j := by omega
          have := (ih (n / 10) (by omega)).mpr this
          omega

/-- no leading zero -/
theorem dig10_head (n : Nat) (hn : 0 < n) : ∃ c rest, dig10 n = c :: rest ∧ c ≠ '0' := by
  induction n using Nat.strongRecOn with
  | _ n ih =>
    by_cases h : n < 10
    · exact ⟨digitChar n, [], dig10_small n h, digitChar_ne_zero n hn h⟩
    · obtain ⟨c, rest, hc, hne⟩ := ih (n / 10) (Nat.div_lt_self (by omega) (by omega)) (by omega)
      exact ⟨c, rest ++ [digitChar (n % 10)], by rw [dig10_step n (by omega), hc]; rfl, hne⟩

/-! zero padding -/

def padz (k n : Nat) : List Char := List.replicate (k - (dig10 n).length) '0' ++ dig10 n

theorem natOfDigits_zeros (j : Nat) (l : List Char) : natOfDigits (List.replicate j '0' ++ l) = natOfDigits l := by
  induction j with
  | zero => rfl
  | succ i ih =>
    rw [List.replicate_succ, List.cons_append]
    simp only [natOfDigits, List.foldl_cons] at ih ⊢
    exact ih

theorem padz_value (k n : Nat) : natOfDigits (padz k n) = n := by
  rw [padz, natOfDigits_zeros, dig10_value]

theorem padz_isDig (k n : Nat) : ∀ c ∈ padz k n, isDig c = true := by
  intro c hc
  rcases List.mem_append.mp hc with h | h
  · rw [List.mem_replicate] at h; rw [h.2]; decide
  · exact dig10_isDig n c h

theorem padz_length (k n : Nat) (hk : 1 ≤ k) (h : n < 10 ^ k) : (padz k n).length = k := by
  have := (dig10_length n k hk).mpr h
  simp [padz]; omega

theorem takeDigitsN_padz (k n : Nat) (hk : 1 ≤ k) (h : n < 10 ^ k) (rest : List Char) :
    takeDigitsN k (padz k n ++ rest) = some (n, rest) := by
  have hl := padz_length k n hk h
  have ht : (padz k n ++ rest).take k = padz k n := by
    rw [List.take_append_of_le_length (by omega), List.take_of_length_le (by omega)]
  have hd : (padz k n ++ rest).drop k = rest := by
    rw [List.drop_append_of_le_length (by omega), List.drop_of_length_le (by omega)]; rfl
  unfold takeDigitsN
  simp only [ht, hd, hl, beq_self_eq_true, Bool.true_and]
  have hall : (padz k n).all isDig = true := by
    rw [List.all_eq_true]; exact padz_isDig k n
  simp [hall, padz_value]

/-! rendering of an integer through FormatNumber with the pictures "1", "01" (mandatory digits only) -/

theorem dropWhile_zero_dig10 (a : Nat) (ha : 0 < a) : (dig10 a).dropWhile (fun r => r == '0') = dig10 a := by
  obtain ⟨c, rest, hc, hne⟩ := dig10_head a ha
  rw [hc]
  have : (c == '0') = false := by simpa using hne
  simp [List.dropWhile, this]

def simpleVars (k : Nat) : Vars :=
  { numType := .plain, intGroups := [], groupSize := 0, minInt := k, scaling := k, fracGroups := [], minFrac := 0, maxFrac := 0,
    minExp := 0, prefix_ := [], suffix := [] }

theorem picture_1 : processPicture ['1'] {} false = some (simpleVars 1) := by rfl
theorem picture_01 : processPicture ['0', '1'] {} false = some (simpleVars 2) := by rfl

theorem dig10_ne_nil (a : Nat) : dig10 a ≠ [] := by
  intro h
  have := dig10_value a
  rw [h] at this
  by_cases ha : a < 10
  · rw [dig10_small a ha] at h; cases h
  · simp [natOfDigits] at this; omega

theorem toBase_nat (a : Nat) : toBase (a : Int) 10 = dig10 a := by
  simp [toBase, dig10]

theorem numberString_int (a : Nat) : numberString a 0 0 = (dig10 a, []) := by
  have hlen : 0 < (dig10 a).length := List.length_pos_iff.mpr (dig10_ne_nil a)
  have hq : (roundScaled (a : Int) 0 ((0 : Nat) : Int)).toNat = a := by
    simp [roundScaled]
  unfold numberString
  simp only [hq, toBase_nat]
  have : ¬ (dig10 a).length ≤ 0 := by omega
  simp [this]

theorem formatInteger_simple (k a : Nat) (hk : 1 ≤ k) :
    formatInteger (mapZero {} (dig10 a)) (simpleVars k) {} = padz k a := by
  have hmz : mapZero {} (dig10 a) = dig10 a := by simp [mapZero]
  have hz : (({} : DecFmt).isZeroDigit) = fun r => r == '0' := rfl
  rw [hmz]
  unfold formatInteger
  simp only [simpleVars, hz]
  by_cases ha : 0 < a
  · have hdw := dropWhile_zero_dig10 a ha
    simp [hdw, padz]
  · have ha0 : a = 0 := by omega
    subst ha0
    have hd0 : dig10 0 = ['0'] := dig10_small 0 (by decide)
    have hdw : (['0'] : List Char).dropWhile (fun r => r == '0') = [] := by decide
    rw [hd0, hdw]
    cases k with
    | zero => omega
    | succ j => simp [padz, hd0, List.replicate_succ']

theorem formatNumber_simple (pic : List Char) (k : Nat) (hk : 1 ≤ k) (hp : pic ≠ [])
    (hpic : processPicture pic {} false = some (simpleVars k)) (a : Nat) :
    formatNumber (a : Int) 0 false pic {} = some (padz k a) := by
  have hne : pic.isEmpty = false := by cases pic <;> simp_all
  unfold formatNumber
  simp only [hne, hpic]
  simp only [simpleVars, Int.natAbs_natCast, bne_self_eq_false, Bool.false_and]
  have h1 := numberString_int a
  have h2 := formatInteger_simple k a hk
  simp only [simpleVars] at h2
  simp [h1]
  exact h2

theorem formatInt_01 (a : Nat) : formatInt (a : Int) ['0', '1'] = .ok (padz 2 a) := by
  have hneg : decide ((a : Int) < 0) = false := by
    have : ¬ ((a : Int) < 0) := by omega
    simp [this]
  unfold formatInt
  rw [hneg, formatNumber_simple ['0', '1'] 2 (by decide) (by simp) picture_01 a]

theorem formatInt_1 (a : Nat) : formatInt (a : Int) ['1'] = .ok (padz 1 a) := by
  have hneg : decide ((a : Int) < 0) = false := by
    have : ¬ ((a : Int) < 0) := by omega
    simp [this]
  unfold formatInt
  rw [hneg, formatNumber_simple ['1'] 1 (by decide) (by simp) picture_1 a]

end Jsonata.Digits
