import JsonataModel.Lemmas.Digits
/-!
# The text layer of $fromMillis / $toMillis (lemmas for C19)

`format_default`: rendering a broken-down instant through the default picture gives the ISO 8601
text `isoText`.  `parse_iso`: parsing that text against the layout of the first default parse
picture gives the fields back.  Both are symbolic in the fields: no bound on the instant other
than the four-digit year that time.Parse's "2006" element reads.
-/
open Jsonata Jsonata.Num Jsonata.FmtNum Jsonata.Date Jsonata.Digits

namespace Jsonata.DateText


theorem pic_eq : defaultPicture = ['[','Y',']','-','[','M','0','1',']','-','[','D','0','1',']','T','[','H','0','1',']',':','[','m',']',':','[','s',']','.','[','f','0','0','1',']','[','Z','0','1',':','0','1','t',']'] := by decide

theorem mk_Y : parseMarker ['Y'] = some ('Y', {}) := by rfl
theorem mk_M01 : parseMarker ['M','0','1'] = some ('M', { format := ['0','1'] }) := by rfl
theorem mk_D01 : parseMarker ['D','0','1'] = some ('D', { format := ['0','1'] }) := by rfl
theorem mk_H01 : parseMarker ['H','0','1'] = some ('H', { format := ['0','1'] }) := by rfl
theorem mk_m : parseMarker ['m'] = some ('m', {}) := by rfl
theorem mk_s : parseMarker ['s'] = some ('s', {}) := by rfl
theorem mk_f : parseMarker ['f','0','0','1'] = some ('f', { format := ['0','0','1'] }) := by rfl
theorem mk_Z : parseMarker ['Z','0','1',':','0','1','t'] = some ('Z', { format := ['0','1',':','0','1'], modifier := .traditional }) := by rfl

/-- the broken-down instant has natural-number fields in the ranges of a clock and a calendar -/
structure Fields (t : T) (y mo d h mi s ml : Nat) : Prop where
  year : t.year = y
  month : t.month = mo
  day : t.day = d
  hour : t.hour = h
  minute : t.minute = mi
  second : t.second = s
  milli : t.milli = ml

theorem expand_Y (t : T) (y : Nat) (hy : t.year = y) : expandMarker t ['Y'] = .ok (padz 1 y) := by
  simp [expandMarker, mk_Y, defaultFormat, expandComponent, formatYear, isDecimalFormat, isDig, countDigits, formatIntComponent, hy, formatInt_1]

theorem expand_M (t : T) (n : Nat) (h : t.month = n) : expandMarker t ['M','0','1'] = .ok (padz 2 n) := by
  simp [expandMarker, mk_M01, expandComponent, isNameFormat, isDecimalFormat, isDig, formatIntComponent, h, formatInt_01]

theorem expand_D (t : T) (n : Nat) (h : t.day = n) : expandMarker t ['D','0','1'] = .ok (padz 2 n) := by
  simp [expandMarker, mk_D01, expandComponent, decimalOnly, isDecimalFormat, isDig, formatIntComponent, h, formatInt_01]

theorem expand_H (t : T) (n : Nat) (h : t.hour = n) : expandMarker t ['H','0','1'] = .ok (padz 2 n) := by
  simp [expandMarker, mk_H01, expandComponent, decimalOnly, isDecimalFormat, isDig, formatIntComponent, h, formatInt_01]

theorem expand_m (t : T) (n : Nat) (h : t.minute = n) : expandMarker t ['m'] = .ok (padz 2 n) := by
  simp [expandMarker, mk_m, defaultFormat, expandComponent, decimalOnly, isDecimalFormat, isDig, formatIntComponent, h, formatInt_01]

theorem expand_s (t : T) (n : Nat) (h : t.second = n) : expandMarker t ['s'] = .ok (padz 2 n) := by
  simp [expandMarker, mk_s, defaultFormat, expandComponent, decimalOnly, isDecimalFormat, isDig, formatIntComponent, h, formatInt_01]

theorem dig10_mul10 (n : Nat) (hn : 0 < n) : dig10 (n * 10) = dig10 n ++ ['0'] := by
  have h := dig10_step (n * 10) (by omega)
  have h1 : n * 10 / 10 = n := by omega
  have h2 : n * 10 % 10 = 0 := by omega
  rw [h, h1, h2]; rfl

theorem dig10_mul_pow (n k : Nat) (hn : 0 < n) : dig10 (n * 10 ^ k) = dig10 n ++ List.replicate k '0' := by
  induction k with
  | zero => simp only [Nat.pow_zero, Nat.mul_one, List.replicate_zero, List.append_nil]
  | succ j ih =>
    have : n * 10 ^ (j + 1) = (n * 10 ^ j) * 10 := by rw [Nat.pow_succ]; ac_rfl
    rw [this, dig10_mul10 _ (Nat.mul_pos hn (Nat.pow_pos (by omega))), ih, List.replicate_succ', List.append_assoc]

theorem digits9_eq (n : Nat) : digits9 (n : Int) = padz 9 n := by
  simp [digits9, toBase_nat, padz]

theorem frac3 (ml : Nat) (h : ml < 1000) : (digits9 ((ml : Int) * 1000000)).take 3 = padz 3 ml := by
  have hc : ((ml : Int) * 1000000) = ((ml * 10 ^ 6 : Nat) : Int) := by
    have : (10 : Nat) ^ 6 = 1000000 := by decide
    rw [this]; omega
  rw [hc, digits9_eq]
  by_cases h0 : ml = 0
  · subst h0; decide
  · have hpos : 0 < ml := by omega
    have hl3 := (dig10_length ml 3 (by omega)).mpr (by omega)
    have hp : padz 9 (ml * 10 ^ 6) = padz 3 ml ++ List.replicate 6 '0' := by
      simp only [padz, dig10_mul_pow ml 6 hpos, List.length_append, List.length_replicate]
      have : 9 - ((dig10 ml).length + 6) = 3 - (dig10 ml).length := by omega
      rw [this, List.append_assoc]
    rw [hp]
    have hlen := padz_length 3 ml (by omega) (by omega)
    rw [List.take_append_of_le_length (by omega)]
    rw [List.take_of_length_le (by omega)]

theorem expand_f (t : T) (ml : Nat) (h : t.milli = ml) (hml : ml < 1000) :
    expandMarker t ['f','0','0','1'] = .ok (padz 3 ml) := by
  have := frac3 ml hml
  simp [expandMarker, mk_f, expandComponent, formatNano, isDecimalFormat, isAllDigits, isDig, h, this]

def tzText (off : Int) : S :=
  let hours := Int.tdiv off 3600
  let minutes := Int.tdiv (Int.tmod off 3600) 60
  if hours == 0 && minutes == 0 then ['Z']
  else (if hours < 0 || minutes < 0 then ['-'] else ['+']) ++ padz 2 hours.natAbs ++ [':'] ++ padz 2 minutes.natAbs

theorem style_split : tzStyle ['0','1',':','0','1'] = .split ['0','1'] ['0','1'] [':'] := by rfl

theorem formatTz_split (t : T) :
    formatTz t { format := ['0','1',':','0','1'], modifier := .traditional } false = .ok (tzText t.offset) := by
  have h1 : ∀ a : Nat, formatInt ((a : Nat) : Int) ['0', '1'] = .ok (padz 2 a) := formatInt_01
  unfold formatTz
  simp only [style_split, tzText]
  by_cases hz : (Int.tdiv t.offset 3600 == 0 && Int.tdiv (Int.tmod t.offset 3600) 60 == 0) = true
  · simp [hz, padRight]; rfl
  · simp [hz, h1, padRight]; rfl

theorem expand_Z (t : T) : expandMarker t ['Z','0','1',':','0','1','t'] = .ok (tzText t.offset) := by
  simp only [expandMarker, mk_Z, expandComponent]
  simp [formatTz_split]


def isoText (y mo d h mi s ml : Nat) (off : Int) : S :=
  padz 1 y ++ '-' :: (padz 2 mo ++ '-' :: (padz 2 d ++ 'T' :: (padz 2 h ++ ':' :: (padz 2 mi ++ ':' :: (padz 2 s ++ '.' :: (padz 3 ml ++ tzText off))))))

set_option maxRecDepth 4000 in
theorem format_default (t : T) (y mo d h mi s ml : Nat) (F : Fields t y mo d h mi s ml) (hml : ml < 1000) :
    formatTime t defaultPicture = some (isoText y mo d h mi s ml t.offset) := by
  have e1 := expand_Y t y F.year
  have e2 := expand_M t mo F.month
  have e3 := expand_D t d F.day
  have e4 := expand_H t h F.hour
  have e5 := expand_m t mi F.minute
  have e6 := expand_s t s F.second
  have e7 := expand_f t ml F.milli hml
  have e8 := expand_Z t
  rw [pic_eq]
  simp [formatTime, scanLoop, scanStep, slice, e1, e2, e3, e4, e5, e6, e7, e8, isoText]



def pic1 : S := "[Y]-[M01]-[D01]T[H01]:[m]:[s][Z01:01t]".toList
def items1 : List LItem := [.year, .lit '-', .month, .lit '-', .day, .lit 'T', .hour, .lit ':', .minute, .lit ':', .second, .zoneColon]

theorem ref_layout : formatTime refTime pic1 = some "2006-01-02T15:04:05-07:00".toList := by decide
theorem ref_minus7 : minus7 ("2006-01-02T15:04:05-07:00".toList.length + 1) "2006-01-02T15:04:05-07:00".toList = "2006-01-02T15:04:05Z07:00".toList := by decide
theorem ref_items : layoutItems ("2006-01-02T15:04:05Z07:00".toList.length + 1) "2006-01-02T15:04:05Z07:00".toList = some items1 := by decide

theorem parseWith_pic1 (s : S) : parseWith s pic1 =
    match parseItems items1 s {} with
    | none => .fail
    | some p => match parsedToMillis p with | some ms => .ok ms | none => .fail := by
  simp only [parseWith, ref_layout, ref_minus7, ref_items]
  rfl



theorem isDig_not_sign (c : Char) (h : isDig c = true) : c ≠ '-' ∧ c ≠ '+' ∧ c ≠ 'Z' := by
  refine ⟨?_, ?_, ?_⟩ <;> (intro e; subst e; revert h; decide)

theorem padz1_eq (y : Nat) : padz 1 y = dig10 y := by
  have := List.length_pos_iff.mpr (dig10_ne_nil y)
  have h : 1 - (dig10 y).length = 0 := by omega
  simp [padz, h]

theorem year_len (y : Nat) (h1 : 1000 ≤ y) (h2 : y ≤ 9999) : (padz 1 y).length = 4 := by
  rw [padz1_eq]
  have a := (dig10_length y 4 (by omega)).mpr (by omega)
  have b := (dig10_length y 3 (by omega))
  have : ¬ (dig10 y).length ≤ 3 := fun h => by have := b.mp h; omega
  omega

theorem year_step (y : Nat) (h1 : 1000 ≤ y) (h2 : y ≤ 9999) (rest : S) (its : List LItem) (p : Parsed) :
    parseItems (.year :: its) (padz 1 y ++ rest) p = parseItems its rest { p with year := y } := by
  have hlen := year_len y h1 h2
  have ht : (padz 1 y ++ rest).take 4 = padz 1 y := by
    rw [List.take_append_of_le_length (by omega), List.take_of_length_le (by omega)]
  have hd : (padz 1 y ++ rest).drop 4 = rest := by
    rw [List.drop_append_of_le_length (by omega), List.drop_of_length_le (by omega)]; rfl
  have hall : (padz 1 y).all isDig = true := List.all_eq_true.mpr (padz_isDig 1 y)
  have hv := padz_value 1 y
  rw [parseItems]
  simp only [ht, hd, hlen]
  match hp : padz 1 y with
  | [] => rw [hp] at hlen; simp at hlen
  | c :: cs =>
    have hc : isDig c = true := padz_isDig 1 y c (by rw [hp]; simp)
    obtain ⟨n1, n2, _⟩ := isDig_not_sign c hc
    rw [hp] at hall hv
    simp [n1, n2, hall, hv]



theorem lit_step (c : Char) (r : S) (its : List LItem) (p : Parsed) :
    parseItems (.lit c :: its) (c :: r) p = parseItems its r p := by
  simp [parseItems]

theorem month_step (n : Nat) (h1 : 1 ≤ n) (h2 : n ≤ 12) (r : S) (its : List LItem) (p : Parsed) :
    parseItems (.month :: its) (padz 2 n ++ r) p = parseItems its r { p with month := n } := by
  have := takeDigitsN_padz 2 n (by omega) (by omega) r
  rw [parseItems]; simp only [this]
  have a : ¬ n < 1 := by omega
  have b : ¬ n > 12 := by omega
  simp [a, b]

theorem day_step (n : Nat) (h2 : n < 100) (r : S) (its : List LItem) (p : Parsed) :
    parseItems (.day :: its) (padz 2 n ++ r) p = parseItems its r { p with day := n } := by
  have := takeDigitsN_padz 2 n (by omega) (by omega) r
  rw [parseItems]; simp only [this]

theorem minute_step (n : Nat) (h2 : n < 60) (r : S) (its : List LItem) (p : Parsed) :
    parseItems (.minute :: its) (padz 2 n ++ r) p = parseItems its r { p with minute := n } := by
  have := takeDigitsN_padz 2 n (by omega) (by omega) r
  rw [parseItems]; simp only [this]
  have a : ¬ n ≥ 60 := by omega
  simp [a]

theorem padz2_shape (n : Nat) (h : n < 100) : ∃ a b, padz 2 n = [a, b] ∧ isDig a = true ∧ isDig b = true := by
  have hl := padz_length 2 n (by omega) (by omega)
  match hp : padz 2 n with
  | [a, b] =>
    refine ⟨a, b, rfl, ?_, ?_⟩
    · exact padz_isDig 2 n a (by rw [hp]; simp)
    · exact padz_isDig 2 n b (by rw [hp]; simp)
  | [] => rw [hp] at hl; simp at hl
  | [_] => rw [hp] at hl; simp at hl
  | _ :: _ :: _ :: _ => rw [hp] at hl; simp at hl

theorem hour_step (n : Nat) (h2 : n < 24) (r : S) (its : List LItem) (p : Parsed) :
    parseItems (.hour :: its) (padz 2 n ++ r) p = parseItems its r { p with hour := n } := by
  obtain ⟨a, b, hp, ha, hb⟩ := padz2_shape n (by omega)
  have hv := padz_value 2 n
  rw [hp] at hv
  rw [parseItems, hp]
  have c : ¬ n ≥ 24 := by omega
  simp [take1or2, ha, hb, hv, c]




theorem tzText_head (off : Int) : ∃ c r, tzText off = c :: r ∧ isDig c = false := by
  unfold tzText
  simp only []
  split
  · exact ⟨'Z', [], rfl, by decide⟩
  · split
    · exact ⟨'-', _, rfl, by decide⟩
    · exact ⟨'+', _, rfl, by decide⟩

theorem takeWhile_digits (l r : S) (c : Char) (hl : ∀ x ∈ l, isDig x = true) (hc : isDig c = false) :
    (l ++ c :: r).takeWhile isDig = l ∧ (l ++ c :: r).dropWhile isDig = c :: r := by
  induction l with
  | nil => simp [List.takeWhile, List.dropWhile, hc]
  | cons a as ih =>
    have ha := hl a (by simp)
    have := ih (fun x hx => hl x (by simp [hx]))
    simp [List.takeWhile, List.dropWhile, ha, this]

theorem padz3_shape (n : Nat) (h : n < 1000) : ∃ a b c, padz 3 n = [a, b, c] ∧ isDig a = true := by
  have hl := padz_length 3 n (by omega) (by omega)
  match hp : padz 3 n with
  | [a, b, c] => exact ⟨a, b, c, rfl, padz_isDig 3 n a (by rw [hp]; simp)⟩
  | [] => rw [hp] at hl; simp at hl
  | [_] => rw [hp] at hl; simp at hl
  | [_, _] => rw [hp] at hl; simp at hl
  | _ :: _ :: _ :: _ :: _ => rw [hp] at hl; simp at hl

theorem fracMillis_padz3 (n : Nat) (h : n < 1000) : fracMillis (padz 3 n) = n := by
  have hl := padz_length 3 n (by omega) (by omega)
  have : (padz 3 n ++ ['0', '0', '0']).take 3 = padz 3 n := by
    rw [List.take_append_of_le_length (by omega), List.take_of_length_le (by omega)]
  simp [fracMillis, this, padz_value]

theorem second_step (n ml : Nat) (h2 : n < 60) (hml : ml < 1000) (off : Int) (p : Parsed) :
    parseItems [.second, .zoneColon] (padz 2 n ++ '.' :: (padz 3 ml ++ tzText off)) p
      = parseItems [.zoneColon] (tzText off) { p with second := n, milli := ml } := by
  have h := takeDigitsN_padz 2 n (by omega) (by omega) ('.' :: (padz 3 ml ++ tzText off))
  obtain ⟨c, r, htz, hc⟩ := tzText_head off
  obtain ⟨a, b, d, hp3, ha⟩ := padz3_shape ml hml
  have htw := takeWhile_digits (padz 3 ml) r c (padz_isDig 3 ml) hc
  have hfm := fracMillis_padz3 ml hml
  rw [parseItems]; simp only [h]
  have a60 : ¬ n ≥ 60 := by omega
  rw [htz]
  rw [hp3] at htw hfm ⊢
  simp only [List.cons_append, List.nil_append] at htw ⊢
  simp [a60, ha, htw, hfm]




theorem tz_parts (off : Int) :
    (0 ≤ off → Int.tdiv off 3600 = off / 3600 ∧ Int.tdiv (Int.tmod off 3600) 60 = (off % 3600) / 60) ∧
    (off < 0 → Int.tdiv off 3600 = -((-off) / 3600) ∧ Int.tdiv (Int.tmod off 3600) 60 = -(((-off) % 3600) / 60)) := by
  constructor
  · intro h
    have h2 : 0 ≤ off % 3600 := Int.emod_nonneg _ (by omega)
    rw [Int.tmod_eq_emod_of_nonneg h, Int.tdiv_eq_ediv_of_nonneg h, Int.tdiv_eq_ediv_of_nonneg h2]
    exact ⟨rfl, rfl⟩
  · intro h
    have hn : 0 ≤ -off := by omega
    have h2 : 0 ≤ (-off) % 3600 := Int.emod_nonneg _ (by omega)
    have e : off = -(-off) := by omega
    constructor
    · rw [e, Int.neg_tdiv, Int.tdiv_eq_ediv_of_nonneg hn]; simp
    · rw [e, Int.neg_tmod, Int.neg_tdiv, Int.tmod_eq_emod_of_nonneg hn, Int.tdiv_eq_ediv_of_nonneg h2]; simp

theorem zone_value (off H M : Int) (h60 : off % 60 = 0) (hlo : -90000 < off) (hhi : off < 90000)
    (hp : (0 ≤ off → H = off / 3600 ∧ M = (off % 3600) / 60) ∧ (off < 0 → H = -((-off) / 3600) ∧ M = -(((-off) % 3600) / 60))) :
    (H = 0 ∧ M = 0 → off = 0) ∧ H.natAbs ≤ 24 ∧ M.natAbs < 60 ∧
    ((H < 0 ∨ M < 0) → -((((H.natAbs : Int) * 60 + M.natAbs) * 60)) = off) ∧
    (¬ (H < 0 ∨ M < 0) → ((((H.natAbs : Int) * 60 + M.natAbs) * 60)) = off) := by
  by_cases h : 0 ≤ off
  · obtain ⟨e1, e2⟩ := hp.1 h
    subst e1 e2
    omega
  · obtain ⟨e1, e2⟩ := hp.2 (by omega)
    subst e1 e2
    omega

theorem zone_step (off : Int) (h60 : off % 60 = 0) (hlo : -90000 < off) (hhi : off < 90000) (p : Parsed) :
    parseItems [.zoneColon] (tzText off) p = some { p with offset := off } := by
  have hp := tz_parts off
  unfold tzText
  generalize Int.tdiv off 3600 = H at hp ⊢
  generalize Int.tdiv (Int.tmod off 3600) 60 = M at hp ⊢
  obtain ⟨hz, hH, hM, hneg, hpos⟩ := zone_value off H M h60 hlo hhi hp
  simp only []
  by_cases hZ : (H == 0 && M == 0) = true
  · have : H = 0 ∧ M = 0 := by simpa using hZ
    have := hz this
    subst this
    simp [hZ, parseItems, parseZone]
  · simp only [hZ, Bool.false_eq_true, if_false]
    have t1 := takeDigitsN_padz 2 H.natAbs (by omega) (by omega) (':' :: padz 2 M.natAbs)
    have t2 := takeDigitsN_padz 2 M.natAbs (by omega) (by omega) []
    simp only [List.append_nil] at t2
    by_cases hs : (H < 0 ∨ M < 0)
    · have hs' : (decide (H < 0) || decide (M < 0)) = true := by simpa using hs
      have := hneg hs
      simp only [hs', if_true, List.cons_append, List.nil_append, List.append_assoc]
      rw [parseItems]
      simp [parseZone, t1, t2]
      have g : ¬ (24 < H.natAbs ∨ 60 < M.natAbs) := by omega
      simp [g, this, parseItems]
    · have hs' : (decide (H < 0) || decide (M < 0)) = false := by simpa using hs
      have := hpos hs
      simp only [hs', Bool.false_eq_true, if_false, List.cons_append, List.nil_append, List.append_assoc]
      rw [parseItems]
      simp [parseZone, t1, t2]
      have g : ¬ (24 < H.natAbs ∨ 60 < M.natAbs) := by omega
      simp [g, this, parseItems]


theorem parse_iso (y mo d h mi s ml : Nat) (off : Int)
    (hy1 : 1000 ≤ y) (hy2 : y ≤ 9999) (hmo1 : 1 ≤ mo) (hmo2 : mo ≤ 12) (hd : d < 100) (hh : h < 24)
    (hmi : mi < 60) (hs : s < 60) (hml : ml < 1000)
    (h60 : off % 60 = 0) (hlo : -90000 < off) (hhi : off < 90000) :
    parseItems items1 (isoText y mo d h mi s ml off) {} =
      some { year := y, month := mo, day := d, hour := h, minute := mi, second := s, milli := ml, offset := off } := by
  unfold items1 isoText
  rw [year_step y hy1 hy2, lit_step, month_step mo hmo1 hmo2, lit_step, day_step d hd, lit_step,
    hour_step h hh, lit_step, minute_step mi hmi, lit_step, second_step s ml hs hml, zone_step off h60 hlo hhi]

end Jsonata.DateText
