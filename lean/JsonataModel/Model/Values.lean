/-
  Model/Values.lean — value-level helpers transliterated from eval.go / jlib/boolean.go:
  arrayify, normalizeArray, sequence.Value, Boolean, eq, lt, in.
-/
import JsonataModel.Model.Basic

namespace Jsonata
open NumSys

variable {N : Type}

/-- eval.go `arrayify`: arrays as they are, "no value" ↦ [], anything else ↦ [v]. -/
def arrayify : Option (Val N) → List (Val N)
  | none => []
  | some (.arr xs) => xs
  | some v => [v]

/-- eval.go `makeArray` on a defined value. -/
def makeArrayV : Val N → List (Val N)
  | .arr xs => xs
  | v => [v]

/-- eval.go `normalizeArray`. -/
def normalizeArray : Val N → Val N
  | .arr [x] => x
  | v => v

/-- eval.go `sequence.Value`. -/
def seqValue (items : List (Val N)) (keep : Bool) : Option (Val N) :=
  match items with
  | [] => none
  | [x] => if keep then some (.arr [x]) else some x
  | xs => some (.arr xs)

/-- The evaluator-internal result of a path: a plain value or a result sequence. -/
inductive RV (N : Type)
  | val (v : Val N)
  | seq (items : List (Val N)) (keep : Bool)

/-- What `eval` does with every sub-expression result (eval.go `eval`, last lines). -/
def RV.collapse : RV N → Option (Val N)
  | .val v => some v
  | .seq items keep => seqValue items keep

section
variable [NumSys N]

mutual
/-- jlib/boolean.go `Boolean` on a defined value. -/
def truthy : Val N → Bool
  | .bool b => b
  | .str s => s != ""
  | .num x => !(beq x (ofInt 0))
  | .arr xs => truthyAny xs
  | .obj kvs => !kvs.isEmpty
  | _ => false
def truthyAny : List (Val N) → Bool
  | [] => false
  | x :: xs => truthy x || truthyAny xs
end

def truthyO : Option (Val N) → Bool
  | none => false
  | some v => truthy v

mutual
/-- eval.go `eq` (numbers/strings/booleans by value, arrays and objects structurally,
    null = null; function values are compared by identity: a built-in equals itself, closures created by different evaluations never compare equal). -/
def valEq : Val N → Val N → Bool
  | .num a, .num b => beq a b
  | .str a, .str b => a == b
  | .bool a, .bool b => a == b
  | .null, .null => true
  | .builtin a, .builtin b => a == b   -- one process-wide object per built-in
  | .arr xs, .arr ys => listEq xs ys
  | .obj xs, .obj ys => xs.length == ys.length && objSub xs ys
  | _, _ => false
def listEq : List (Val N) → List (Val N) → Bool
  | [], [] => true
  | x :: xs, y :: ys => valEq x y && listEq xs ys
  | _, _ => false
/-- every member of the first object is a member of the second with an equal value -/
def objSub : List (String × Val N) → List (String × Val N) → Bool
  | [], _ => true
  | (k, v) :: rest, ys => lookupEq k v ys && objSub rest ys
def lookupEq (k : String) (v : Val N) : List (String × Val N) → Bool
  | [] => false
  | (k', v') :: ys => if k == k' then valEq v v' else lookupEq k v ys
end

/-- eval.go `lt`: defined for two numbers or two strings only. -/
def valLt : Val N → Val N → Option Bool
  | .num a, .num b => some (lt a b)
  | .str a, .str b => some (decide (a < b))
  | _, _ => none

/-- eval.go `in`. -/
def valIn (l r : Val N) : Bool :=
  (arrayify (some r)).any (valEq l)

end

/-- association-list lookup (Go map index) -/
def objGet (kvs : List (String × Val N)) (k : String) : Option (Val N) :=
  match kvs.find? (fun p => p.1 == k) with
  | some p => some p.2
  | none => none

/-- Go map assignment: replace in place or append. -/
def objSet (kvs : List (String × Val N)) (k : String) (v : Val N) : List (String × Val N) :=
  if kvs.any (fun p => p.1 == k) then kvs.map (fun p => if p.1 == k then (k, v) else p)
  else kvs ++ [(k, v)]

def objDel (kvs : List (String × Val N)) (k : String) : List (String × Val N) :=
  kvs.filter (fun p => p.1 != k)

end Jsonata
