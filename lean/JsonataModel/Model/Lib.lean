/-
  Model/Lib.lean — the built-in function library (env.go baseEnv, callable.go
  goCallable.Call, jlib/*.go) over model values.
-/
import JsonataModel.Model.Eval
import JsonataModel.Model.Strings
import JsonataModel.Model.Regex
import JsonataModel.Model.Number
import JsonataModel.Model.FormatNumber
import JsonataModel.Model.Date

namespace Jsonata
open NumSys

variable {N : Type}

/-! ### JSON text (jlib.String → encoding/json) -/

def hexDigit (n : Nat) : Char :=
  if n < 10 then Char.ofNat (48 + n) else Char.ofNat (87 + n)

def u4 (n : Nat) : List Char :=
  ['\\', 'u', hexDigit (n / 4096 % 16), hexDigit (n / 256 % 16), hexDigit (n / 16 % 16), hexDigit (n % 16)]

/-- encoding/json string escaping with HTML escaping on (the encoder default). -/
def jsonEscapeChar (c : Char) : List Char :=
  if c == '"' then ['\\', '"']
  else if c == '\\' then ['\\', '\\']
  else if c == '\n' then ['\\', 'n']
  else if c == '\r' then ['\\', 'r']
  else if c == '\t' then ['\\', 't']
  else if c == '\x08' then ['\\', 'b']
  else if c == '\x0c' then ['\\', 'f']
  else if c.toNat < 0x20 then u4 c.toNat
  else if c == '<' || c == '>' || c == '&' then u4 c.toNat
  else if c.toNat == 0x2028 || c.toNat == 0x2029 then u4 c.toNat
  else [c]

def jsonQuote (s : String) : String :=
  String.ofList (['"'] ++ s.toList.flatMap jsonEscapeChar ++ ['"'])

/-- insertion sort of object members by key (encoding/json sorts map keys) -/
def insertKV {α} (p : String × α) : List (String × α) → List (String × α)
  | [] => [p]
  | q :: qs => if p.1 < q.1 then p :: q :: qs else q :: insertKV p qs

def sortKVs {α} : List (String × α) → List (String × α)
  | [] => []
  | p :: ps => insertKV p (sortKVs ps)

section
variable [NumSys N]

mutual
def jsonText : Val N → String
  | .null => "null"
  | .bool b => if b then "true" else "false"
  | .num x => toText x
  | .str s => jsonQuote s
  | .arr xs => "[" ++ ",".intercalate (jsonTextL xs) ++ "]"
  | .obj kvs => "{" ++ ",".intercalate ((sortKVs (jsonTextKV kvs)).map fun p => jsonQuote p.1 ++ ":" ++ p.2) ++ "}"
  | _ => "\"\""
def jsonTextL : List (Val N) → List String
  | [] => []
  | x :: xs => jsonText x :: jsonTextL xs
def jsonTextKV : List (String × Val N) → List (String × String)
  | [] => []
  | (k, v) :: kvs => (k, jsonText v) :: jsonTextKV kvs
end

mutual
/-- does a value contain a non-finite number (json.Marshal refuses those) -/
def hasNonFinite : Val N → Bool
  | .num x => isInf x || isNaN x
  | .arr xs => hasNonFiniteL xs
  | .obj kvs => hasNonFiniteKV kvs
  | _ => false
def hasNonFiniteL : List (Val N) → Bool
  | [] => false
  | x :: xs => hasNonFinite x || hasNonFiniteL xs
def hasNonFiniteKV : List (String × Val N) → Bool
  | [] => false
  | (_, v) :: kvs => hasNonFinite v || hasNonFiniteKV kvs
end

/-- jlib.String -/
def stringOf (v : Val N) : Except Err String :=
  match v with
  | .str s => .ok s
  | v => if v.isFn then .ok "" else if hasNonFinite v then .error (.lib "string") else .ok (jsonText v)

/-- the string form used by `&` (undefined ↦ "") -/
def stringifyO : Option (Val N) → Except Err String
  | none => .ok ""
  | some v => stringOf v

/-! ### parameter descriptors of the Go functions behind the built-ins -/

inductive PT
  | str | num | int | any | callable | bool
  | optStr | optInt | optNum | optAny | optCallable
  | strCallable | strNumBool
  deriving DecidableEq, Repr

inductive UH | none_ | arg0 | append_
  deriving DecidableEq, Repr

inductive CH | none_ | argc0 | argc1 | substring | beforeAfter | pad | split | match_ | replace | formatNumber
  deriving DecidableEq, Repr

structure BuiltinSpec where
  params : List PT
  variadic : Bool := false
  uh : UH := .arg0
  ch : CH := .argc0
  deriving Repr

/-- env.go baseEnv: parameter types of the Go function, handlers. -/
def builtinSpec : String → Option BuiltinSpec
  | "string" => some { params := [.any] }
  | "length" => some { params := [.str] }
  | "substring" => some { params := [.str, .int, .optInt], ch := .substring }
  | "substringBefore" => some { params := [.str, .str], ch := .beforeAfter }
  | "substringAfter" => some { params := [.str, .str], ch := .beforeAfter }
  | "uppercase" => some { params := [.str] }
  | "lowercase" => some { params := [.str] }
  | "pad" => some { params := [.str, .int, .optStr], ch := .pad }
  | "trim" => some { params := [.str] }
  | "contains" => some { params := [.str, .strCallable], ch := .argc1 }
  | "split" => some { params := [.str, .strCallable, .optInt], ch := .split }
  | "join" => some { params := [.any, .optStr], ch := .none_ }
  | "match" => some { params := [.str, .callable, .optInt], ch := .match_ }
  | "replace" => some { params := [.str, .strCallable, .strCallable, .optInt], ch := .replace }
  | "formatNumber" => some { params := [.num, .str, .optAny], ch := .formatNumber }
  | "formatBase" => some { params := [.num, .optNum] }
  | "base64encode" => some { params := [.str] }
  | "base64decode" => some { params := [.str] }
  | "decodeUrl" => some { params := [.str] }
  | "decodeUrlComponent" => some { params := [.str] }
  | "encodeUrl" => some { params := [.str] }
  | "encodeUrlComponent" => some { params := [.str] }
  | "number" => some { params := [.strNumBool] }
  | "abs" => some { params := [.num] }
  | "floor" => some { params := [.num] }
  | "ceil" => some { params := [.num] }
  | "round" => some { params := [.num, .optInt] }
  | "power" => some { params := [.num, .num], ch := .argc1 }
  | "sqrt" => some { params := [.num] }
  | "random" => some { params := [], uh := .none_, ch := .none_ }
  | "sum" => some { params := [.any], ch := .none_ }
  | "max" => some { params := [.any], ch := .none_ }
  | "min" => some { params := [.any], ch := .none_ }
  | "average" => some { params := [.any], ch := .none_ }
  | "boolean" => some { params := [.any] }
  | "not" => some { params := [.any], uh := .none_ }
  | "exists" => some { params := [.any], uh := .none_, ch := .none_ }
  | "distinct" => some { params := [.any], uh := .none_, ch := .none_ }
  | "count" => some { params := [.any], uh := .none_, ch := .none_ }
  | "reverse" => some { params := [.any], ch := .none_ }
  | "sort" => some { params := [.any, .optCallable], ch := .none_ }
  | "shuffle" => some { params := [.any], ch := .none_ }
  | "zip" => some { params := [.any], variadic := true, uh := .none_, ch := .none_ }
  | "append" => some { params := [.any, .any], uh := .append_, ch := .none_ }
  | "map" => some { params := [.any, .callable], ch := .none_ }
  | "filter" => some { params := [.any, .callable], ch := .none_ }
  | "reduce" => some { params := [.any, .callable, .optAny], ch := .none_ }
  | "single" => some { params := [.any, .callable], ch := .none_ }
  | "each" => some { params := [.any, .callable] }
  | "sift" => some { params := [.any, .callable], ch := .argc1 }
  | "keys" => some { params := [.any] }
  | "lookup" => some { params := [.any, .str] }
  | "spread" => some { params := [.any] }
  | "merge" => some { params := [.any], ch := .none_ }
  | "fromMillis" => some { params := [.int, .optStr, .optStr] }
  | "toMillis" => some { params := [.str, .optStr, .optStr] }
  | "type" => some { params := [.any] }
  | "error" => some { params := [.str], uh := .none_, ch := .none_ }
  | _ => none

def isStrOrFn : Option (Val N) → Bool
  | some (.str _) => true
  | some v => v.isFn
  | none => false

def isNumO : Option (Val N) → Bool | some (.num _) => true | _ => false
def isStrO : Option (Val N) → Bool | some (.str _) => true | _ => false
def isFnO : Option (Val N) → Bool | some v => v.isFn | none => false

/-- env.go contextHandler* -/
def ctxHandler (ch : CH) (argv : List (Option (Val N))) : Bool :=
  match ch, argv with
  | .none_, _ => false
  | .argc0, a => a.length == 0
  | .argc1, a => a.length == 1
  | .substring, [a] => isNumO a
  | .substring, [a, b] => isNumO a && isNumO b
  | .beforeAfter, [a] => isStrO a
  | .pad, [a] => isNumO a
  | .pad, [a, b] => isNumO a && isStrO b
  | .split, [a] => isStrOrFn a
  | .split, [a, b] => isStrOrFn a && isNumO b
  | .match_, [a] => isFnO a
  | .match_, [a, b] => isFnO a && isNumO b
  | .replace, [a, b] => isStrOrFn a && isStrOrFn b
  | .replace, [a, b, c] => isStrOrFn a && isStrOrFn b && isNumO c
  | .formatNumber, [a] => isStrO a
  | .formatNumber, [a, _] => isStrO a
  | _, _ => false

def undefHandler (uh : UH) (argv : List (Option (Val N))) : Bool :=
  match uh, argv with
  | .none_, _ => false
  | .arg0, a :: _ => a.isNone
  | .arg0, [] => false
  | .append_, [a, b] => a.isNone && b.isNone
  | .append_, _ => false

def PT.isOpt : PT → Bool
  | .optStr | .optInt | .optNum | .optAny | .optCallable => true
  | _ => false

/-- callable.go processGoCallableArg (none = the argument does not fit the parameter) -/
def processArg (pt : PT) (arg : Option (Val N)) : Option (Option (Val N)) :=
  match arg with
  | none => if pt.isOpt || pt == .any then some none else none
  | some v =>
    match pt, v with
    | .str, .str s | .optStr, .str s => some (some (.str s))
    | .num, .num x | .optNum, .num x => some (some (.num x))
    | .int, .num x | .optInt, .num x => some (some (.num (ofInt (toInt x))))
    | .any, v | .optAny, v => some (some v)
    | .bool, .bool b => some (some (.bool b))
    | .callable, v | .optCallable, v => if v.isFn then some (some v) else none
    | .strCallable, .str s => some (some (.str s))
    | .strCallable, v => if v.isFn then some (some v) else none
    | .strNumBool, .str s => some (some (.str s))
    | .strNumBool, .num x => some (some (.num x))
    | .strNumBool, .bool b => some (some (.bool b))
    | _, _ => none

def processArgs (params : List PT) : Nat → List (Option (Val N)) → Except Err (List (Option (Val N)))
  | _, [] => .ok []
  | i, a :: rest =>
    let pt := (params[i]?).getD (params.getLast?.getD .any)
    match processArg pt a with
    | none => .error (.argType (i + 1))
    | some a' => (processArgs params (i + 1) rest).map (a' :: ·)

/-- callable.go goCallable.validateArgCount: `none` means "the call yields no value". -/
def goArgCount (spec : BuiltinSpec) (ctx : Option (Val N)) (argv : List (Option (Val N))) :
    Except Err (Option (List (Option (Val N)))) :=
  let argv1 := if ctxHandler spec.ch argv then ctx :: argv else argv
  if undefHandler spec.uh argv1 then .ok none
  else
    let paramCount := spec.params.length
    let argv2 := padOptional (spec.params.map PT.isOpt) argv1
    if spec.variadic && argv2.length < paramCount - 1 then .error .argCount
    else if !spec.variadic && argv2.length != paramCount then .error .argCount
    else .ok (some argv2)

/-! ### library functions -/

/-- ParamCount() of each callable kind -/
def paramCount : Val N → Nat
  | .builtin name => ((builtinSpec name).map (·.params.length)).getD 0
  | .lambda ps _ _ _ _ => ps.length
  | .partialFn _ args _ _ => (args.filter fun a => match a with | .placeholder => true | _ => false).length
  | .transformFn .. => 1
  | .chain .. => 1
  | .regexFn .. => 1
  | _ => 0

def clamp (n lo hi : Nat) : Nat := if n < lo then lo else if n > hi then hi else n

/-- jlib `forceArray` then iteration: the members a higher-order function visits -/
def forceArr : Option (Val N) → List (Val N)
  | none => []
  | some (.arr xs) => xs
  | some v => [v]

def libErr (fn : String) : EvalM N α := throw (.lib fn)

/-- jlib.Map -/
def libMap (r : Rec N) (v : Option (Val N)) (f : Val N) : EvalM N (Option (Val N)) := do
  let xs := forceArr v
  let whole : Val N := .arr xs
  let argc := clamp (paramCount f) 0 3
  let rec go : Nat → List (Val N) → EvalM N (List (Val N))
    | _, [] => pure []
    | i, x :: rest => do
      let argv : List (Option (Val N)) := [some x, some (.num (ofInt i)), some whole]
      let res ← r.call f none (argv.take argc)
      let tail ← go (i + 1) rest
      match res with
      | some y => pure (y :: tail)
      | none => pure tail
  let out ← go 0 xs
  return some (.arr out)

/-- jlib.Filter -/
def libFilterL (r : Rec N) (v : Option (Val N)) (f : Val N) : EvalM N (List (Val N)) := do
  let xs := forceArr v
  let whole : Val N := .arr xs
  let argc := clamp (paramCount f) 0 3
  let rec go : Nat → List (Val N) → EvalM N (List (Val N))
    | _, [] => pure []
    | i, x :: rest => do
      let argv : List (Option (Val N)) := [some x, some (.num (ofInt i)), some whole]
      let res ← r.call f none (argv.take argc)
      let tail ← go (i + 1) rest
      if truthyO res then pure (x :: tail) else pure tail
  go 0 xs

/-- jlib.Reduce -/
def libReduce (r : Rec N) (v : Option (Val N)) (f : Val N) (init : Option (Val N)) :
    EvalM N (Option (Val N)) := do
  if paramCount f != 2 then libErr "reduce"
  let xs := forceArr v
  let (acc, rest) : Option (Val N) × List (Val N) :=
    match init, xs with
    | some i, xs => (some i, xs)
    | none, x :: rest => (some x, rest)
    | none, [] => (none, [])
  let rec go : Option (Val N) → List (Val N) → EvalM N (Option (Val N))
    | acc, [] => pure acc
    | acc, x :: rest => do
      let res ← r.call f none [acc, some x]
      go res rest
  go acc rest

/-- jlib.Sum/Max/Min/Average share this operand check -/
def numbersOf (fn : String) (v : Val N) : Except Err (List N) :=
  match v with
  | .arr xs => match allNums xs with
    | some ns => .ok ns
    | none => .error (.lib fn)
  | .num x => .ok [x]
  | _ => .error (.lib fn)

def finiteOr (fn : String) (x : N) : Except Err (Option (Val N)) :=
  if isInf x || isNaN x then .error (.lib fn) else .ok (some (.num x))

def libSum (v : Val N) : Except Err (Option (Val N)) := do
  let ns ← numbersOf "sum" v
  finiteOr "sum" (ns.foldl add (ofInt 0))

def libMax (v : Val N) : Except Err (Option (Val N)) := do
  match v, (← numbersOf "max" v) with
  | .arr _, [] => pure none
  | _, [] => pure none
  | _, n :: ns => pure (some (.num (ns.foldl (fun m x => if lt m x then x else m) n)))

def libMin (v : Val N) : Except Err (Option (Val N)) := do
  match (← numbersOf "min" v) with
  | [] => pure none
  | n :: ns => pure (some (.num (ns.foldl (fun m x => if lt x m then x else m) n)))

def libAverage (v : Val N) : Except Err (Option (Val N)) := do
  match v, (← numbersOf "average" v) with
  | .num x, _ => pure (some (.num x))
  | _, [] => pure none
  | _, ns => finiteOr "average" (div (ns.foldl add (ofInt 0)) (ofInt ns.length))

/-- jlib.Distinct: first occurrence of each distinct value -/
def distinctL : List (Val N) → List (Val N) → List (Val N)
  | [], _ => []
  | x :: xs, seen =>
    if seen.any (valEq x) then distinctL xs seen else x :: distinctL xs (x :: seen)

/-- jlib.Zip on the already force-arrayed arguments -/
def zipL : Nat → List (List (Val N)) → List (Val N)
  | 0, _ => []
  | n + 1, cols =>
    if cols.any List.isEmpty then []
    else .arr (cols.filterMap List.head?) :: zipL n (cols.map List.tail)

/-- jlib merge: take from the right list iff swap(lhs[0], rhs[0]) -/
def mergeBy (swap : Val N → Val N → EvalM N Bool) : Nat → List (Val N) → List (Val N) → EvalM N (List (Val N))
  | 0, l, r => pure (l ++ r)
  | _, l, [] => pure l
  | _, [], r => pure r
  | fuel + 1, a :: l, b :: r => do
    if (← swap a b) then
      let rest ← mergeBy swap fuel (a :: l) r
      pure (b :: rest)
    else
      let rest ← mergeBy swap fuel l (b :: r)
      pure (a :: rest)

/-- jlib mergeSort: split at n/2 -/
def mergeSortBy (swap : Val N → Val N → EvalM N Bool) : Nat → List (Val N) → EvalM N (List (Val N))
  | 0, xs => pure xs
  | fuel + 1, xs =>
    if xs.length < 2 then pure xs
    else do
      let pos := xs.length / 2
      let l ← mergeSortBy swap fuel (xs.take pos)
      let r ← mergeSortBy swap fuel (xs.drop pos)
      mergeBy swap (l.length + r.length) l r

def allStrs : List (Val N) → Option (List String)
  | [] => some []
  | .str s :: xs => (allStrs xs).map (s :: ·)
  | _ => none

/-- jlib.Sort -/
def libSort (r : Rec N) (v : Val N) (swap : Option (Val N)) : EvalM N (Option (Val N)) := do
  match v with
  | .arr xs =>
    match swap with
    | some f =>
      let sw (a b : Val N) : EvalM N Bool := do
        match (← r.call f none [some a, some b]) with
        | some (.bool b) => pure b
        | _ => libErr "sort"
      let out ← mergeSortBy sw (xs.length + 1) xs
      pure (some (.arr out))
    | none =>
      match allNums xs, allStrs xs with
      | some ns, _ => pure (some (.arr ((ns.mergeSort (fun a b => !lt b a)).map Val.num)))
      | none, some ss => pure (some (.arr ((ss.mergeSort (fun a b => !(decide (b < a)))).map Val.str)))
      | none, none => libErr "sort"
  | v => pure (some (.arr [v]))

/-- first occurrences only -/
def dedupStr : List String → List String → List String
  | [], _ => []
  | k :: ks, seen => if seen.contains k then dedupStr ks seen else k :: dedupStr ks (k :: seen)

mutual
/-- jlib.Keys: distinct member names, first occurrence first -/
def keysOf : Val N → List String
  | .obj kvs => kvs.map (·.1)
  | .arr xs => dedupStr (keysOfL xs) []
  | _ => []
def keysOfL : List (Val N) → List String
  | [] => []
  | x :: xs => keysOf x ++ keysOfL xs
end

mutual
/-- jlib.Spread: one single-member object per member; arrays are spread member-wise -/
def spreadItems : Val N → List (Val N)
  | .obj kvs => kvs.map fun p => .obj [p]
  | .arr xs => spreadItemsL xs
  | v => [v]
def spreadItemsL : List (Val N) → List (Val N)
  | [] => []
  | x :: xs => spreadItems x ++ spreadItemsL xs
end

def spreadOf : Val N → Option (Val N) ⊕ List (Val N)
  | .obj kvs => .inr (spreadItems (.obj kvs))
  | .arr xs => .inr (spreadItems (.arr xs))
  | v => .inl (some v)

/-- jlib mergeMap: the members of one object written into the accumulator (later wins) -/
def mergeInto (acc : List (String × Val N)) : Val N → List (String × Val N)
  | .obj kvs => kvs.foldl (fun a p => objSet a p.1 p.2) acc
  | _ => acc

/-- jlib.Merge -/
def libMerge (v : Val N) : Except Err (Option (Val N)) :=
  match v with
  | .obj kvs => .ok (some (.obj kvs))
  | .arr xs =>
    if xs.all Val.isObj then .ok (some (.obj (xs.foldl mergeInto [])))
    else .error (.lib "merge")
  | _ => .error (.lib "merge")

/-- jlib.Each on a map -/
def libEach (r : Rec N) (v : Val N) (f : Val N) : EvalM N (Option (Val N)) := do
  match v with
  | .obj kvs =>
    let argc := paramCount f
    if argc < 1 || argc > 3 then libErr "each"
    let rec go : List (String × Val N) → EvalM N (List (Val N))
      | [] => pure []
      | (k, x) :: rest => do
        let argv : List (Option (Val N)) := [some x, some (.str k), some (.obj kvs)]
        let res ← r.call f none (argv.take argc)
        let tail ← go rest
        match res with | some y => pure (y :: tail) | none => pure tail
    match (← go kvs) with
    | [] => pure none
    | [x] => pure (some x)
    | xs => pure (some (.arr xs))
  | _ => libErr "each"

/-- jlib.Sift on a map -/
def libSift (r : Rec N) (v : Val N) (f : Val N) : EvalM N (Option (Val N)) := do
  match v with
  | .obj kvs =>
    let argc := paramCount f
    if argc < 1 || argc > 3 then libErr "sift"
    let rec go : List (String × Val N) → EvalM N (List (String × Val N))
      | [] => pure []
      | (k, x) :: rest => do
        let argv : List (Option (Val N)) := [some x, some (.str k), some (.obj kvs)]
        let res ← r.call f none (argv.take argc)
        let tail ← go rest
        if truthyO res then pure ((k, x) :: tail) else pure tail
    match (← go kvs) with
    | [] => pure none
    | m => pure (some (.obj m))
  | _ => libErr "sift"

def typeOfV : Val N → String
  | .null => "null" | .bool _ => "boolean" | .num _ => "number" | .str _ => "string"
  | .arr _ => "array" | .obj _ => "object" | _ => "function"

def strV (cs : List Char) : Val N := .str (String.ofList cs)

/-- case mapping on the code points the generators use (ASCII and U+00C0..U+00FE) -/
def upperChar (c : Char) : Char :=
  if c.toNat ≥ 97 && c.toNat ≤ 122 then Char.ofNat (c.toNat - 32)
  else if c.toNat ≥ 0xe0 && c.toNat ≤ 0xfe && c.toNat != 0xf7 then Char.ofNat (c.toNat - 32)
  else c
def lowerChar (c : Char) : Char :=
  if c.toNat ≥ 65 && c.toNat ≤ 90 then Char.ofNat (c.toNat + 32)
  else if c.toNat ≥ 0xc0 && c.toNat ≤ 0xde && c.toNat != 0xd7 then Char.ofNat (c.toNat + 32)
  else c

def optInt : Option (Val N) → Option Int
  | some (.num x) => some (toInt x)
  | _ => none

def optStrL : Option (Val N) → Option (List Char)
  | some (.str s) => some s.toList
  | _ => none

/-! ### numbers (jlib/number.go) -/

/-- jlib.Round: the shortest decimal of x rounded half-even at the p-th fraction digit -/
def libRound (x : N) (p : Int) : N :=
  if beq x (ofInt 0) then ofInt 0
  else if p ≥ 0 && beq x (trunc x) then x
  else if p < -400 then ofInt 0     -- no double has 400 integer digits (and 10^|p| need not be computed)
  else
    let me := toDec x
    if isInf (ofDec me.1 (me.2 + p) : N) then x
    else
      let k := Num.roundScaled me.1 me.2 p
      if k == 0 then ofInt 0 else ofDec k (-p)

/-- jlib.Number on a string -/
def libNumberStr (s : String) : Except Err (Val N) :=
  if Num.reNumber s.toList then
    let me := Num.decOfText s.toList
    let x : N := ofDec me.1 me.2
    if isInf x then .error (.lib "number")
    else if me.1 == 0 && s.toList.head? == some '-' then .ok (.num (neg (ofInt 0)))
    else .ok (.num x)
  else .error (.lib "number")

/-- jlib.FormatBase -/
def libFormatBase (x : N) (base : Option N) : Except Err (Val N) :=
  let radix : Int := match base with | some b => toInt (libRound b 0) | none => 10
  if radix < 2 || radix > 36 then .error (.lib "formatBase")
  else .ok (.str (String.ofList (Num.toBase (toInt (libRound x 0)) radix.toNat)))

/-- jlib.FormatNumber: options object, then jxpath.FormatNumber on the exact decimal -/
def libFormatNumber (x : N) (pic : String) (opts : Option (Val N)) : Except Err (Val N) :=
  let fmt? : Option FmtNum.DecFmt :=
    match opts with
    | none => some {}
    | some (.obj kvs) =>
      kvs.foldl (fun acc kv => match acc, kv.2 with
        | some f, .str v => FmtNum.updateFmt f kv.1 v.toList
        | _, _ => none) (some {})
    | some _ => none
  match fmt? with
  | none => .error (.lib "formatNumber")
  | some f =>
    if isNaN x || isInf x then .error (.unsupported "formatNumber of a non-finite number")
    else
      let me := toDec x
      match FmtNum.formatNumber me.1 me.2 (lt x (ofInt 0)) pic.toList f with
      | some out => .ok (.str (String.ofList out))
      | none => .error (.lib "formatNumber")

/-! ### regular-expression consumers (jlib/string.go) -/

/-- the object a match callable returns (callable.go matchCallable.Call) -/
def matchObj (m : MatchRec) (rest : List MatchRec) : Val N :=
  .obj [("end", .num (ofInt m.stop)), ("groups", .arr (m.groups.map .str)), ("match", .str m.text),
        ("next", .matchNext rest), ("start", .num (ofInt m.start))]

/-- regexCallable.Call / matchCallable.Call: the first match object of a list, or no value -/
def firstMatch : List MatchRec → Option (Val N)
  | [] => none
  | m :: rest => some (matchObj m rest)

/-- callMatchFunc: read the members of one match object -/
def readMatch (v : Val N) : Except Err (MatchRec × Val N) :=
  match v with
  | .obj kvs =>
    match objGet kvs "match", objGet kvs "start", objGet kvs "end", objGet kvs "groups", objGet kvs "next" with
    | some (.str t), some (.num a), some (.num b), some (.arr gs), some nx =>
      match allStrs gs with
      | some gss =>
        if nx.isFn then
          -- a negative offset can never pass extractMatches' check: it is recorded as the
          -- impossible pair (1, 0), which that check rejects as well
          if toInt a < 0 || toInt b < 0 then .ok ({ text := t, start := 1, stop := 0, groups := gss }, nx)
          else .ok ({ text := t, start := (toInt a).toNat, stop := (toInt b).toNat, groups := gss }, nx)
        else .error (.lib "match")
      | none => .error (.lib "match")
    | _, _, _, _, _ => .error (.lib "match")
  | _ => .error (.lib "match")

/-- callMatchFunc: follow the `next` chain (fuel bounds a user-defined chain) -/
def collectMatches (r : Rec N) : Nat → Val N → List (Option (Val N)) → List MatchRec → EvalM N (List MatchRec)
  | 0, _, _, _ => throw .fuel
  | fuel + 1, fn, argv, acc => do
    let res ← r.call fn none argv
    match res with
    | none => pure acc.reverse
    | some v =>
      match readMatch v with
      | .error e => throw e
      | .ok (m, nx) => collectMatches r fuel nx [] (m :: acc)

/-- extractMatches: all matches of the pattern function on `s`, offsets checked, then the limit -/
def extractMatches (r : Rec N) (fn : Val N) (s : String) (limit : Option Nat) : EvalM N (List MatchRec) := do
  let ms ← collectMatches r 100000 fn [some (.str s)] []
  if !Rx.orderedB s.utf8ByteSize 0 (ms.map fun m => (m.start, m.stop)) then libErr "match"
  else match limit with
    | some l => pure (ms.take l)
    | none => pure ms

def matchResultObj (m : MatchRec) : Val N :=
  .obj [("groups", .arr (m.groups.map .str)), ("index", .num (ofInt m.start)), ("match", .str m.text)]

/-- jlib.Match -/
def libMatch (r : Rec N) (s : String) (fn : Val N) (lim : Option Int) : EvalM N (Option (Val N)) := do
  match lim with
  | some l => if l < 0 then libErr "match" else
      let ms ← extractMatches r fn s (some l.toNat)
      pure (some (.arr (ms.map matchResultObj)))
  | none =>
      let ms ← extractMatches r fn s none
      pure (some (.arr (ms.map matchResultObj)))

/-- jlib.Split with a pattern function -/
def libSplitRx (r : Rec N) (s : String) (fn : Val N) (lim : Option Int) : EvalM N (Option (Val N)) := do
  if (match lim with | some l => decide (l < 0) | none => false) then libErr "split" else
  let ms ← extractMatches r fn s none
  let parts := Rx.splitBy (Rx.bytesOf s) 0 (ms.map fun m => (m.start, m.stop))
  match parts.mapM Rx.strOfBytes with
  | none => throw (.unsupported "split inside a character")
  | some ps =>
    let ps := match lim with | some l => if l.toNat < ps.length then ps.take l.toNat else ps | none => ps
    pure (some (.arr (ps.map Val.str)))

/-- the replacement for each match: template expansion or a function call -/
def replacementsFor (r : Rec N) (repl : Val N) : List MatchRec → EvalM N (List (Nat × Nat × List UInt8))
  | [] => pure []
  | m :: ms => do
    -- Go walks the matches from the last to the first
    let rest ← replacementsFor r repl ms
    let txt ← (match repl with
      | .str t =>
        if t.toList.contains '$' then
          pure (String.ofList (Rx.expand m.text.toList (m.groups.map String.toList) (t.length + 1) t.toList))
        else pure t
      | f => do
        let v ← r.call f none [some (matchResultObj m)]
        match v with
        | some (.str t) => pure t
        | _ => libErr "replace" : EvalM N String)
    pure ((m.start, m.stop, Rx.bytesOf txt) :: rest)

/-- jlib.Replace with a pattern function -/
def libReplaceRx (r : Rec N) (s : String) (fn : Val N) (repl : Val N) (lim : Option Int) :
    EvalM N (Option (Val N)) := do
  if (match lim with | some l => decide (l < 0) | none => false) then libErr "replace" else
  if !(repl.isStr || repl.isFn) then libErr "replace" else
  let ms ← extractMatches r fn s (lim.map Int.toNat)
  let reps ← replacementsFor r repl ms
  match Rx.strOfBytes (Rx.replaceBack (Rx.bytesOf s) reps) with
  | some out => pure (some (.str out))
  | none => throw (.unsupported "replace inside a character")

/-- Dispatch of a built-in after argument processing. `args` has one entry per
    parameter (absent optionals are `none`). -/
def builtinImpl (r : Rec N) (name : String) (args : List (Option (Val N))) :
    EvalM N (Option (Val N)) := do
  match name, args with
  | "string", [some v] => match stringOf v with | .ok s => pure (some (.str s)) | .error e => throw e
  | "string", [none] => pure none
  | "length", [some (.str s)] => pure (some (.num (ofInt s.length)))
  | "substring", [some (.str s), some (.num st), len] =>
      pure (some (strV (Str.substring s.toList (toInt st) (optInt len))))
  | "substringBefore", [some (.str s), some (.str c)] => pure (some (strV (Str.substringBefore s.toList c.toList)))
  | "substringAfter", [some (.str s), some (.str c)] => pure (some (strV (Str.substringAfter s.toList c.toList)))
  | "uppercase", [some (.str s)] => pure (some (strV (s.toList.map upperChar)))
  | "lowercase", [some (.str s)] => pure (some (strV (s.toList.map lowerChar)))
  | "pad", [some (.str s), some (.num w), ch] => pure (some (strV (Str.pad s.toList (toInt w) (optStrL ch))))
  | "trim", [some (.str s)] => pure (some (strV (Str.trim s.toList)))
  | "contains", [some (.str s), some (.str p)] => pure (some (.bool (Str.contains s.toList p.toList)))
  | "contains", [some (.str s), some f] =>
      if f.isFn then do
        let ms ← extractMatches r f s none
        pure (some (.bool (!ms.isEmpty)))
      else libErr "contains"
  | "match", [some (.str s), some f, lim] => libMatch r s f (optInt lim)
  | "split", [some (.str s), some (.str sep), lim] =>
      match optInt lim with
      | some l => if l < 0 then libErr "split" else
          pure (some (.arr ((Str.applyLimit (Str.split s.toList sep.toList) (some l)).map strV)))
      | none => pure (some (.arr ((Str.split s.toList sep.toList).map strV)))
  | "split", [some (.str s), some f, lim] =>
      if f.isFn then libSplitRx r s f (optInt lim) else libErr "split"
  | "join", [some v, sep] =>
      match v with
      | .str s => pure (some (.str s))
      | .arr xs => match allStrs xs with
        | some ss => pure (some (strV (Str.join (ss.map String.toList) ((optStrL sep).getD []))))
        | none => libErr "join"
      | _ => libErr "join"
  | "replace", [some (.str s), some (.str p), some (.str rep), lim] =>
      match optInt lim with
      | some l => if l < 0 then libErr "replace" else
          if p.isEmpty then libErr "replace" else pure (some (strV (Str.replace s.toList p.toList rep.toList l)))
      | none => if p.isEmpty then libErr "replace" else pure (some (strV (Str.replace s.toList p.toList rep.toList (-1))))
  | "replace", [some (.str _), some (.str p), some _, lim] =>
      match optInt lim with
      | some l => if l < 0 then libErr "replace" else libErr "replace"
      | none => let _ := p; libErr "replace"
  | "replace", [some (.str s), some f, some rep, lim] =>
      if f.isFn then libReplaceRx r s f rep (optInt lim) else libErr "replace"
  | "abs", [some (.num x)] => pure (some (.num (if lt x (ofInt 0) then neg x else if beq x (ofInt 0) then ofInt 0 else x)))
  | "floor", [some (.num x)] => pure (some (.num (floor x)))
  | "ceil", [some (.num x)] => pure (some (.num (ceil x)))
  | "round", [some (.num x), p] =>
      -- env.go roundToJSONNumber: an infinite result (rounding 1.7e308 to hundreds of digits left of the point) is an error
      let r := libRound x ((optInt p).getD 0)
      if isInf r || isNaN r then libErr "round" else pure (some (.num r))
  | "sqrt", [some (.num x)] => if lt x (ofInt 0) then libErr "sqrt" else pure (some (.num (sqrt x)))
  | "power", [some (.num x), some (.num y)] =>
      let r := pow x y
      if isInf r || isNaN r then libErr "power" else pure (some (.num r))
  | "number", [some (.bool b)] => pure (some (.num (ofInt (if b then 1 else 0))))
  | "number", [some (.num x)] => pure (some (.num x))
  | "number", [some (.str s)] => match libNumberStr s with | .ok v => pure (some v) | .error e => throw e
  | "formatNumber", [some (.num x), some (.str pic), opts] =>
      match libFormatNumber x pic opts with | .ok v => pure (some v) | .error e => throw e
  | "fromMillis", [some (.num ms), pic, tz] =>
      match Date.fromMillis (toInt ms) ((optStrL pic).getD []) ((optStrL tz).getD []) with
      | some out => pure (some (.str (String.ofList out)))
      | none => libErr "fromMillis"
  | "toMillis", [some (.str s), pic, _] =>
      match Date.toMillis s.toList ((optStrL pic).getD []) with
      | .ok ms => pure (some (.num (ofInt ms)))
      | .fail => libErr "toMillis"
      | .outside => throw (.unsupported "toMillis picture outside the modelled layouts")
  | "formatBase", [some (.num x), b] =>
      match libFormatBase x (match b with | some (.num y) => some y | _ => none) with
      | .ok v => pure (some v) | .error e => throw e
  | "sum", [some v] => match libSum v with | .ok x => pure x | .error e => throw e
  | "max", [some v] => match libMax v with | .ok x => pure x | .error e => throw e
  | "min", [some v] => match libMin v with | .ok x => pure x | .error e => throw e
  | "average", [some v] => match libAverage v with | .ok x => pure x | .error e => throw e
  | "boolean", [v] => pure (some (.bool (truthyO v)))
  | "not", [v] => pure (some (.bool (!truthyO v)))
  | "exists", [v] => pure (some (.bool v.isSome))
  | "count", [v] => pure (some (.num (ofInt (forceArr v).length)))
  | "distinct", [v] =>
      match v with
      | some (.arr xs) => pure (some (.arr (distinctL xs [])))
      | v => pure v
  | "reverse", [some v] => pure (some (.arr (arrayify (some v)).reverse))
  | "append", [a, b] =>
      match a, b with
      | some a, none => pure (some a)
      | none, some b => pure (some b)
      | a, b => pure (some (.arr (arrayify a ++ arrayify b)))
  | "zip", args =>
      if args.isEmpty then libErr "zip"
      else if args.any Option.isNone then pure (some (.arr []))
      else
        let cols := args.map forceArr
        let size := (cols.map List.length).foldl min (cols.headD []).length
        pure (some (.arr (zipL size cols)))
  | "sort", [some v, sw] => libSort r v sw
  | "map", [v, some f] => libMap r v f
  | "filter", [v, some f] => do pure (some (.arr (← libFilterL r v f)))
  | "single", [v, some f] => do
      match (← libFilterL r v f) with
      | [x] => pure (some x)
      | _ => libErr "single"
  | "reduce", [v, some f, init] => libReduce r v f init
  | "each", [some v, some f] => libEach r v f
  | "sift", [some v, some f] => libSift r v f
  | "keys", [some v] =>
      match keysOf v with
      | [] => pure none
      | [k] => pure (some (.str k))
      | ks => pure (some (.arr (ks.map Val.str)))
  | "lookup", [v, some (.str k)] => pure (evalName k v)
  | "spread", [some v] =>
      match spreadOf v with
      | .inl x => pure x
      | .inr l => pure (some (.arr l))
  | "merge", [some v] => match libMerge v with | .ok x => pure x | .error e => throw e
  | "type", [some v] => pure (some (.str (typeOfV v)))
  | "type", [none] => pure none
  | "error", [some (.str _)] => throw (.lib "error")
  | n, _ => throw (.unsupported ("builtin " ++ n))

/-- callable.go goCallable.Call for a built-in. -/
def callBuiltin (r : Rec N) (name : String) (ctx : Option (Val N)) (argv : List (Option (Val N))) :
    EvalM N (Option (Val N)) := do
  match builtinSpec name with
  | none => throw (.unsupported ("builtin " ++ name))
  | some spec =>
    match goArgCount spec ctx argv with
    | .error e => throw e
    | .ok none => pure none
    | .ok (some argv') =>
      match processArgs spec.params 0 argv' with
      | .error e => throw e
      | .ok args => builtinImpl r name args

end

end Jsonata
