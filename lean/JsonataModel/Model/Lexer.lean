/-
  Model/Lexer.lean — jparse/lexer.go transliterated, on bytes.

  The lexer state is (start, current, width) over the input bytes; `nextRune` decodes UTF-8
  exactly like utf8.DecodeRuneInString (invalid bytes decode to U+FFFD with width 1).
  Slices `input[start:current]` are taken with checked bounds (`Array.extract` truncates; the
  invariant start ≤ current ≤ length is a theorem of Props/C08).
-/
namespace Jsonata.Lex

/-- token types (jparse/lexer.go, same order) -/
inductive Tok
  | eof | error
  | string | number | boolean | null | name | nameEsc | variable | regex
  | bracketOpen | bracketClose | braceOpen | braceClose | parenOpen | parenClose
  | dot | comma | colon | semicolon | condition | plus | minus | mult | div | mod | pipe
  | equal | notEqual | less | lessEqual | greater | greaterEqual | apply | sort | concat
  | range | assign | descendent
  | and_ | or_ | in_
  deriving DecidableEq, Repr, Inhabited

def Tok.goName : Tok → String
  | .eof => "typeEOF" | .error => "typeError" | .string => "typeString" | .number => "typeNumber"
  | .boolean => "typeBoolean" | .null => "typeNull" | .name => "typeName" | .nameEsc => "typeNameEsc"
  | .variable => "typeVariable" | .regex => "typeRegex" | .bracketOpen => "typeBracketOpen"
  | .bracketClose => "typeBracketClose" | .braceOpen => "typeBraceOpen" | .braceClose => "typeBraceClose"
  | .parenOpen => "typeParenOpen" | .parenClose => "typeParenClose" | .dot => "typeDot"
  | .comma => "typeComma" | .colon => "typeColon" | .semicolon => "typeSemicolon"
  | .condition => "typeCondition" | .plus => "typePlus" | .minus => "typeMinus" | .mult => "typeMult"
  | .div => "typeDiv" | .mod => "typeMod" | .pipe => "typePipe" | .equal => "typeEqual"
  | .notEqual => "typeNotEqual" | .less => "typeLess" | .lessEqual => "typeLessEqual"
  | .greater => "typeGreater" | .greaterEqual => "typeGreaterEqual" | .apply => "typeApply"
  | .sort => "typeSort" | .concat => "typeConcat" | .range => "typeRange" | .assign => "typeAssign"
  | .descendent => "typeDescendent" | .and_ => "typeAnd" | .or_ => "typeOr" | .in_ => "typeIn"

def allToks : List Tok :=
  [.eof, .error, .string, .number, .boolean, .null, .name, .nameEsc, .variable, .regex,
   .bracketOpen, .bracketClose, .braceOpen, .braceClose, .parenOpen, .parenClose, .dot, .comma,
   .colon, .semicolon, .condition, .plus, .minus, .mult, .div, .mod, .pipe, .equal, .notEqual,
   .less, .lessEqual, .greater, .greaterEqual, .apply, .sort, .concat, .range, .assign,
   .descendent, .and_, .or_, .in_]

/-- 1-character symbols (lexer.go symbols1) -/
def symbol1 (r : Nat) : Option Tok :=
  if r == 91 then some .bracketOpen else if r == 93 then some .bracketClose
  else if r == 123 then some .braceOpen else if r == 125 then some .braceClose
  else if r == 40 then some .parenOpen else if r == 41 then some .parenClose
  else if r == 46 then some .dot else if r == 44 then some .comma
  else if r == 59 then some .semicolon else if r == 58 then some .colon
  else if r == 63 then some .condition else if r == 43 then some .plus
  else if r == 45 then some .minus else if r == 42 then some .mult
  else if r == 47 then some .div else if r == 37 then some .mod
  else if r == 124 then some .pipe else if r == 61 then some .equal
  else if r == 60 then some .less else if r == 62 then some .greater
  else if r == 94 then some .sort else if r == 38 then some .concat
  else none

/-- 2-character symbols (lexer.go symbols2): first rune ↦ (second rune, token) -/
def symbol2 (r : Nat) : Option (Nat × Tok) :=
  if r == 33 then some (61, .notEqual) else if r == 60 then some (61, .lessEqual)
  else if r == 62 then some (61, .greaterEqual) else if r == 46 then some (46, .range)
  else if r == 126 then some (62, .apply) else if r == 58 then some (61, .assign)
  else if r == 42 then some (42, .descendent)
  else none

def keyword (s : String) : Option Tok :=
  if s == "and" then some .and_ else if s == "or" then some .or_ else if s == "in" then some .in_
  else if s == "true" || s == "false" then some .boolean else if s == "null" then some .null
  else none

def isWhitespace (r : Nat) : Bool := r == 32 || r == 9 || r == 10 || r == 13 || r == 11
def isRegexFlag (r : Nat) : Bool := r == 105 || r == 109 || r == 115
def isDigit (r : Nat) : Bool := r ≥ 48 && r ≤ 57
def isNonZeroDigit (r : Nat) : Bool := r ≥ 49 && r ≤ 57

/-- the rune value used for end of input (Go: eof = -1) -/
def eofRune : Nat := 0x7fffffff

/-! ### UTF-8 decoding (utf8.DecodeRuneInString) -/

def runeError : Nat := 0xFFFD

def isCont (b : Nat) (lo hi : Nat) : Bool := b ≥ lo && b ≤ hi

/-- number of bytes the lead byte announces (0: not a valid lead byte) -/
def needBytes (b0 : Nat) : Nat :=
  if b0 ≥ 0xC2 && b0 ≤ 0xDF then 2 else if b0 ≥ 0xE0 && b0 ≤ 0xEF then 3
  else if b0 ≥ 0xF0 && b0 ≤ 0xF4 then 4 else 0

/-- decode the rune starting at byte offset `i`: (rune, width); invalid encodings give
    (U+FFFD, 1) -/
def decodeRune (inp : Array UInt8) (i : Nat) : Nat × Nat :=
  match inp[i]? with
  | none => (runeError, 0)
  | some b0' =>
    let b0 := b0'.toNat
    if b0 < 0x80 then (b0, 1)
    else
      let need := needBytes b0
      if need == 0 || i + need > inp.size then (runeError, 1)
      else
        let b (k : Nat) : Nat := ((inp[i + k]?).map (·.toNat)).getD 0
        let lo := if b0 == 0xE0 then 0xA0 else if b0 == 0xF0 then 0x90 else 0x80
        let hi := if b0 == 0xED then 0x9F else if b0 == 0xF4 then 0x8F else 0xBF
        if need == 2 then
          if isCont (b 1) 0x80 0xBF then ((b0 - 0xC0) * 64 + (b 1 - 0x80), 2) else (runeError, 1)
        else if need == 3 then
          if isCont (b 1) lo hi && isCont (b 2) 0x80 0xBF
          then ((b0 - 0xE0) * 4096 + (b 1 - 0x80) * 64 + (b 2 - 0x80), 3) else (runeError, 1)
        else
          if isCont (b 1) lo hi && isCont (b 2) 0x80 0xBF && isCont (b 3) 0x80 0xBF
          then ((b0 - 0xF0) * 262144 + (b 1 - 0x80) * 4096 + (b 2 - 0x80) * 64 + (b 3 - 0x80), 4)
          else (runeError, 1)

/-! ### lexer state -/

structure LState where
  start : Nat
  current : Nat
  width : Nat
  deriving Repr, Inhabited, DecidableEq

structure Token where
  type : Tok
  /-- byte range of the value in the input (`input[lo:hi]`) … -/
  lo : Nat
  hi : Nat
  /-- … with an optional prefix (the translated regex flags `(?i)`) -/
  pre : String := ""
  position : Nat
  deriving Repr, Inhabited

/-- parser/lexer error: type name (jparse.ErrType), token byte range, position, hint -/
structure PErr where
  type : String
  lo : Nat := 0
  hi : Nat := 0
  position : Nat := 0
  hint : String := ""
  deriving Repr, Inhabited

abbrev Input := Array UInt8

def nextRune (inp : Input) (s : LState) : Nat × LState :=
  if s.current ≥ inp.size then (eofRune, { s with width := 0 })
  else
    let (r, w) := decodeRune inp s.current
    (r, { s with width := w, current := s.current + w })

def backup (s : LState) : LState := { s with current := s.current - s.width, width := 0 }

def ignore (s : LState) : LState := { s with start := s.current }

def accept (inp : Input) (p : Nat → Bool) (s : LState) : Bool × LState :=
  let (r, s1) := nextRune inp s
  if r != eofRune && p r then (true, s1) else (false, backup s1)

def acceptRune (inp : Input) (r : Nat) (s : LState) : Bool × LState := accept inp (· == r) s

def acceptAllLoop (inp : Input) (p : Nat → Bool) : Nat → Bool → LState → Bool × LState
  | 0, b, s => (b, s)
  | fuel + 1, b, s =>
    let (ok, s1) := accept inp p s
    if ok then acceptAllLoop inp p fuel true s1 else (b, s1)

def acceptAll (inp : Input) (p : Nat → Bool) (s : LState) : Bool × LState :=
  acceptAllLoop inp p (inp.size + 1) false s

def newToken (tt : Tok) (s : LState) : Token × LState :=
  ({ type := tt, lo := s.start, hi := s.current, position := s.start },
   { s with width := 0, start := s.current })

def lexError (typ : String) (hint : String) (s : LState) : PErr :=
  { type := typ, lo := s.start, hi := s.current, position := s.start, hint := hint }

abbrev LexM := Except PErr (Token × LState)

/-- lexer.go scanRegex -/
def scanRegexLoop (inp : Input) : Nat → Int → LState → Except PErr LState
  | 0, _, s => .error (lexError "ErrUnterminatedRegex" "/" s)
  | fuel + 1, depth, s =>
    let (r, s1) := nextRune inp s
    if r == 47 then
      if depth == 0 then .ok s1 else scanRegexLoop inp fuel depth s1
    else if r == 40 || r == 91 || r == 123 then scanRegexLoop inp fuel (depth + 1) s1
    else if r == 41 || r == 93 || r == 125 then scanRegexLoop inp fuel (depth - 1) s1
    else if r == 92 then
      let (r2, s2) := nextRune inp s1
      if r2 != eofRune && r2 != 10 then scanRegexLoop inp fuel depth s2
      else .error (lexError "ErrUnterminatedRegex" "/" s2)
    else if r == eofRune || r == 10 then .error (lexError "ErrUnterminatedRegex" "/" s1)
    else scanRegexLoop inp fuel depth s1

def bytesToString (inp : Input) (lo hi : Nat) : String :=
  match String.fromUTF8? (inp.extract lo hi |> ByteArray.mk) with
  | some s => s
  | none => String.ofList ((inp.extract lo hi).toList.map fun b => if b.toNat < 128 then Char.ofNat b.toNat else '�')

def scanRegex (inp : Input) (s : LState) : LexM := do
  let s1 ← scanRegexLoop inp (inp.size + 1) 0 s
  let s2 := backup s1
  let (t, s3) := newToken .regex s2
  let (_, s4) := acceptRune inp 47 s3
  let s5 := ignore s4
  let (hasFlags, s6) := acceptAll inp isRegexFlag s5
  if hasFlags then
    let (fl, s7) := newToken .eof s6
    -- an empty pattern stays empty (the parser rejects it): //i is not the pattern (?i)
    pure ({ t with pre := if t.lo == t.hi then "" else "(?" ++ bytesToString inp fl.lo fl.hi ++ ")" }, s7)
  else pure (t, s6)

/-- lexer.go scanString -/
def scanStringLoop (inp : Input) (quote : Nat) : Nat → LState → Except PErr LState
  | 0, s => .error (lexError "ErrUnterminatedString" (String.ofList [Char.ofNat quote]) s)
  | fuel + 1, s =>
    let (r, s1) := nextRune inp s
    if r == quote then .ok s1
    else if r == 92 then
      let (r2, s2) := nextRune inp s1
      if r2 != eofRune then scanStringLoop inp quote fuel s2
      else .error (lexError "ErrUnterminatedString" (String.ofList [Char.ofNat quote]) s2)
    else if r == eofRune then .error (lexError "ErrUnterminatedString" (String.ofList [Char.ofNat quote]) s1)
    else scanStringLoop inp quote fuel s1

def scanString (inp : Input) (quote : Nat) (s : LState) : LexM := do
  let s1 ← scanStringLoop inp quote (inp.size + 1) s
  let s2 := backup s1
  let (t, s3) := newToken .string s2
  let (_, s4) := acceptRune inp quote s3
  pure (t, ignore s4)

/-- lexer.go scanNumber -/
def scanNumber (inp : Input) (s : LState) : Token × LState :=
  let (z, s1) := acceptRune inp 48 s
  let s2 := if z then s1 else
    let (_, a) := accept inp isNonZeroDigit s1
    (acceptAll inp isDigit a).2
  let pos := s2.current
  let (dot, s3) := acceptRune inp 46 s2
  let go (s4 : LState) : Token × LState :=
    let (e, s5) := accept inp (fun c => c == 101 || c == 69) s4
    if e then
      let (_, s6) := accept inp (fun c => c == 43 || c == 45) s5
      let (_, s7) := acceptAll inp isDigit s6
      newToken .number s7
    else newToken .number s5
  if dot then
    let (digits, s4) := acceptAll inp isDigit s3
    if !digits then newToken .number { s4 with current := pos, width := 0 }
    else go s4
  else go s3

/-- lexer.go scanEscapedName -/
def scanEscLoop (inp : Input) : Nat → LState → Except PErr LState
  | 0, s => .error (lexError "ErrUnterminatedName" "`" s)
  | fuel + 1, s =>
    let (r, s1) := nextRune inp s
    if r == 96 then .ok s1
    else if r == eofRune || r == 10 then .error (lexError "ErrUnterminatedName" "`" s1)
    else scanEscLoop inp fuel s1

def scanEscapedName (inp : Input) (s : LState) : LexM := do
  let s1 ← scanEscLoop inp (inp.size + 1) s
  let s2 := backup s1
  let (t, s3) := newToken .nameEsc s2
  let (_, s4) := acceptRune inp 96 s3
  pure (t, ignore s4)

/-- lexer.go scanName -/
def scanNameLoop (inp : Input) : Nat → LState → LState
  | 0, s => s
  | fuel + 1, s =>
    let (ch, s1) := nextRune inp s
    if ch == eofRune then s1
    else if isWhitespace ch then backup s1
    else if (symbol1 ch).isSome || (symbol2 ch).isSome then backup s1
    else scanNameLoop inp fuel s1

def scanName (inp : Input) (s : LState) : Token × LState :=
  let (isVar, s1) := acceptRune inp 36 s
  let s2 := if isVar then ignore s1 else s1
  let s3 := scanNameLoop inp (inp.size + 1) s2
  let (t, s4) := newToken .name s3
  if isVar then ({ t with type := .variable }, s4)
  else match keyword (bytesToString inp t.lo t.hi) with
    | some tt => ({ t with type := tt }, s4)
    | none => (t, s4)

/-- lexer.go next -/
def next (inp : Input) (allowRegex : Bool) (s0 : LState) : LexM :=
  let s := ignore (acceptAll inp isWhitespace s0).2
  let (ch, s1) := nextRune inp s
  if ch == eofRune then .ok ({ type := .eof, lo := s1.current, hi := s1.current, position := s1.current }, s1)
  else if allowRegex && ch == 47 then scanRegex inp (ignore s1)
  else
    let two : Option (Token × LState) :=
      match symbol2 ch with
      | some (r2, tt) =>
        let (ok, s2) := acceptRune inp r2 s1
        if ok then some (newToken tt s2) else none
      | none => none
    match two with
    | some r => .ok r
    | none =>
      -- a failed look-ahead has backed up; the position is just after `ch` again
      let s2 : LState := match symbol2 ch with
        | some (r2, _) => (acceptRune inp r2 s1).2
        | none => s1
      match symbol1 ch with
      | some tt => .ok (newToken tt s2)
      | none =>
        if (symbol2 ch).isSome then .ok (newToken .name s2)
        else if ch == 34 || ch == 39 then scanString inp ch (ignore s2)
        else if isDigit ch then .ok (scanNumber inp (backup s2))
        else if ch == 96 then scanEscapedName inp (ignore s2)
        else .ok (scanName inp (backup s2))

def initState : LState := { start := 0, current := 0, width := 0 }

end Jsonata.Lex
