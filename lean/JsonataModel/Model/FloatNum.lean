/-
  Model/FloatNum.lean — `NumSys Float`: the instance the driver runs.

  Lean compiles `Float` to C `double`; + − × ÷, floor, comparisons and bit casts are
  the IEEE-754 binary64 operations Go's float64 uses (trusted, DESIGN.md §5.6).
  `fmod`, float→int truncation and the shortest round-trip decimal text are computed
  here exactly, with unbounded `Nat`/`Int` arithmetic on the bit pattern.
-/
import JsonataModel.Model.Basic
import JsonataModel.Model.Decimal

namespace Jsonata.FloatNum

/-- sign, integer significand and binary exponent of a finite double: |x| = m · 2^e -/
def decode (x : Float) : Bool × Nat × Int :=
  let bits := x.toBits.toNat
  let sign := bits / 2^63 == 1
  let e : Nat := (bits / 2^52) % 2048
  let m : Nat := bits % 2^52
  if e == 0 then (sign, m, -1074) else (sign, m + 2^52, (e : Int) - 1075)

/-- m · 2^e as a double, exact whenever the value is representable -/
def encode (neg : Bool) (m : Nat) (e : Int) : Float :=
  let v := Float.scaleB (Float.ofNat m) e
  if neg then -v else v

def isFinite (x : Float) : Bool := !(x.isNaN || x.isInf)

/-- C `fmod` / Go `math.Mod`, exact -/
def fmod (x y : Float) : Float :=
  if x.isNaN || y.isNaN || x.isInf || y == 0 then (0.0 / 0.0)
  else if y.isInf then x
  else if x == 0 then x
  else
    let (sx, mx, ex) := decode x
    let (_, my, ey) := decode y
    let e0 := min ex ey
    let X := mx * 2 ^ (ex - e0).toNat
    let Y := my * 2 ^ (ey - e0).toNat
    let r := X % Y
    if r == 0 then (if sx then -0.0 else 0.0) else encode sx r e0

/-- truncation toward zero of a finite double -/
def toIntExact (x : Float) : Int :=
  -- Go's float64 → int conversion of a value that does not fit is implementation-defined; on amd64
  -- (CVTTSD2SQ) it is the "integer indefinite" value -2^63, also for NaN and infinities
  if !isFinite x then -(2 ^ 63 : Int) else
  let (s, m, e) := decode x
  let n : Nat := if e ≥ 0 then m * 2 ^ e.toNat else m / 2 ^ (-e).toNat
  let v : Int := if s then -(n : Int) else n
  if v ≥ 2 ^ 63 || v < -(2 ^ 63 : Int) then -(2 ^ 63 : Int) else v

def trunc (x : Float) : Float := if x < 0 then x.ceil else x.floor

/-! ### shortest round-trip decimal digits (strconv format 'g', precision -1), exact -/

/-- compare the rational a/b with 10^t : is a/b ≥ 10^t ? -/
def geTenPow (a b : Nat) (t : Int) : Bool :=
  if t ≥ 0 then a ≥ b * 10 ^ t.toNat else a * 10 ^ (-t).toNat ≥ b

/-- t such that 10^(t-1) ≤ a/b < 10^t (a > 0) -/
def decExp (a b : Nat) : Int :=
  let est : Int := (((Nat.log2 a : Int) - (Nat.log2 b : Int)) * 30103) / 100000
  let rec up (fuel : Nat) (t : Int) : Int :=
    match fuel with
    | 0 => t
    | f + 1 => if geTenPow a b t then up f (t + 1) else t
  let rec down (fuel : Nat) (t : Int) : Int :=
    match fuel with
    | 0 => t
    | f + 1 => if !geTenPow a b (t - 1) then down f (t - 1) else t
  down 700 (up 700 est)

def natDigits (n : Nat) : List Nat :=
  (Nat.toDigits 10 n).map fun c => c.toNat - 48

def stripTrailingZeros (ds : List Nat) : List Nat :=
  (ds.reverse.dropWhile (· == 0)).reverse

/-- shortest digits `ds` and decimal point position `dp` (value = 0.ds × 10^dp) of m·2^e,
    `boundary` = the lower neighbour is only half as far away (m is a power of two). -/
def shortestDigits (m : Nat) (e : Int) (boundary : Bool) : List Nat × Int :=
  -- everything scaled by 4: V = 4m, interval [LO, HI], all times 2^(e-2)
  let e2 := e - 2
  let scaleN : Nat := if e2 ≥ 0 then 2 ^ e2.toNat else 1
  let den : Nat := if e2 ≥ 0 then 1 else 2 ^ (-e2).toNat
  let V := 4 * m * scaleN
  let LO := (4 * m - (if boundary then 1 else 2)) * scaleN
  let HI := (4 * m + 2) * scaleN
  let incl := m % 2 == 0
  let t := decExp V den
  let rec go (fuel : Nat) (k : Nat) : List Nat × Int :=
    match fuel with
    | 0 => (natDigits m, 0)
    | f + 1 =>
      let p : Int := t - k
      -- value/10^p = V / (den * 10^p)  (p ≥ 0)  or  V*10^(-p) / den
      let num := if p ≥ 0 then V else V * 10 ^ (-p).toNat
      let dn := if p ≥ 0 then den * 10 ^ p.toNat else den
      let lo := if p ≥ 0 then LO else LO * 10 ^ (-p).toNat
      let hi := if p ≥ 0 then HI else HI * 10 ^ (-p).toNat
      let d0 := num / dn
      let inI (d : Nat) : Bool :=
        if incl then lo ≤ d * dn && d * dn ≤ hi else lo < d * dn && d * dn < hi
      let c0 := inI d0
      let c1 := inI (d0 + 1)
      let pick : Option Nat :=
        if c0 && c1 then
          let r0 := num - d0 * dn
          let r1 := (d0 + 1) * dn - num
          if r0 < r1 then some d0 else if r1 < r0 then some (d0 + 1)
          else some (if d0 % 2 == 0 then d0 else d0 + 1)
        else if c0 then some d0 else if c1 then some (d0 + 1) else none
      match pick with
      | some d =>
        let ds := natDigits d
        (stripTrailingZeros ds, (ds.length : Int) + p)
      | none => go f (k + 1)
  go 18 1

def digitsToString (ds : List Nat) : String :=
  String.ofList (ds.map fun d => Char.ofNat (48 + d))

/-- encoding/json's text for a finite float64 -/
def jsonNumber (x : Float) : String :=
  if x == 0 then (if x.toBits == 0 then "0" else "-0")
  else
    let (s, m, e) := decode x
    let bits := x.toBits.toNat
    let boundary := bits % 2^52 == 0 && (bits / 2^52) % 2048 > 1
    let (ds, dp) := shortestDigits m e boundary
    let sign := if s then "-" else ""
    let ax := x.abs
    let n := ds.length
    if ax < 1e-6 || ax ≥ 1e21 then
      -- %e with the shortest digits, exponent without zero padding
      let mant := match ds with
        | [] => "0"
        | d :: rest => digitsToString [d] ++ (if rest.isEmpty then "" else "." ++ digitsToString rest)
      let ex := dp - 1
      sign ++ mant ++ "e" ++ (if ex < 0 then "-" else "+") ++ toString ex.natAbs
    else if dp ≤ 0 then
      sign ++ "0." ++ String.ofList (List.replicate (-dp).toNat '0') ++ digitsToString ds
    else if dp.toNat ≥ n then
      sign ++ digitsToString ds ++ String.ofList (List.replicate (dp.toNat - n) '0')
    else
      sign ++ digitsToString (ds.take dp.toNat) ++ "." ++ digitsToString (ds.drop dp.toNat)

/-- shortest round-trip decimal of a finite double as a signed mantissa and exponent -/
def toDecimal (x : Float) : Int × Int :=
  if x == 0 || !isFinite x then (0, 0)
  else
    let (s, m, e) := decode x
    let bits := x.toBits.toNat
    let boundary := bits % 2^52 == 0 && (bits / 2^52) % 2048 > 1
    let (ds, dp) := shortestDigits m e boundary
    let mant : Nat := ds.foldl (fun a d => a * 10 + d) 0
    ((if s then -(mant : Int) else mant), dp - ds.length)

/-- the double nearest to m · 10^e (ties to even; overflow gives ±Inf) -/
def ofDecimal (m e : Int) : Float :=
  if m == 0 then 0.0 else
  let a := m.natAbs
  let digits : Int := (Nat.toDigits 10 a).length
  let r : Float :=
    if digits + e > 400 then (1.0 / 0.0)
    else if digits + e < -400 then 0.0
    else
      match (if e ≥ 0 then Decimal.roundRatio (a * 10 ^ e.toNat) 1 else Decimal.roundRatio a (10 ^ (-e).toNat)) with
      | some x => x
      | none => (1.0 / 0.0)
  if m < 0 then -r else r

/-- strconv.FormatFloat(|x|, 'f', dp, 64): exact value rounded half-even to dp digits -/
def fixedString (x : Float) (dp : Nat) : String :=
  if x.isNaN then "NaN" else if x.isInf then "+Inf" else
  let (_, m, e) := decode x
  -- |x| · 10^dp = m · 2^e · 10^dp  as num/den
  let num := if e ≥ 0 then m * 2 ^ e.toNat * 10 ^ dp else m * 10 ^ dp
  let den : Nat := if e ≥ 0 then 1 else 2 ^ (-e).toNat
  let q := num / den
  let r := num % den
  let n := if 2 * r > den then q + 1 else if 2 * r < den then q else (if q % 2 == 0 then q else q + 1)
  let ds := Nat.toDigits 10 n
  let ds := if ds.length ≤ dp then List.replicate (dp + 1 - ds.length) '0' ++ ds else ds
  let ip := ds.take (ds.length - dp)
  let fp := ds.drop (ds.length - dp)
  String.ofList ip ++ (if dp == 0 then "" else "." ++ String.ofList fp)

end Jsonata.FloatNum

namespace Jsonata
open FloatNum

instance : NumSys Float where
  add := (· + ·)
  sub := (· - ·)
  mul := (· * ·)
  div := (· / ·)
  mod := fmod
  neg := fun x => -x
  floor := Float.floor
  trunc := FloatNum.trunc
  lt := fun a b => a < b
  beq := fun a b => a == b
  isInf := Float.isInf
  isNaN := Float.isNaN
  ofInt := Float.ofInt
  toInt := toIntExact
  toText := jsonNumber
  ceil := Float.ceil
  toDec := toDecimal
  ofDec := ofDecimal
  fixed := fixedString
  pow := Float.pow
  sqrt := Float.sqrt

end Jsonata
