/-
  Model/Conc.lean — the sharing protocol between concurrent evaluations.

  What is shared between evaluations is the process-wide environment of built-in function
  objects (and the parsed trees, which C05 shows are never written).  A call of a built-in
  has two steps that other goroutines can interleave with: *setup* (the call site records its
  name and context item for the function) and *invoke* (the function reads them back).  The
  model runs any number of threads under an arbitrary schedule, with either protocol:
  `shared` — setup writes into the shared function object (the code before fix fd22912);
  `copy`   — setup writes into a per-call copy (the code as it is now).
-/
namespace Jsonata.Conc

inductive Protocol | shared | copy
  deriving DecidableEq, Repr

inductive Phase
  | idle
  /-- setup done for a call of `f` with this thread's context `c` -/
  | ready (f : String) (c : Nat)
  deriving DecidableEq, Repr, Inhabited

structure Thread where
  /-- the calls this evaluation still has to make: (built-in, this evaluation's context item) -/
  todo : List (String × Nat)
  phase : Phase := .idle
  /-- the context field of this thread's per-call copy -/
  priv : Nat := 0
  /-- what the calls made so far found as "their" context -/
  seen : List Nat := []
  deriving Repr, Inhabited

structure State where
  /-- context field of each shared function object -/
  shared : List (String × Nat) := []
  threads : List Thread
  /-- log of writes to shared memory: (thread, function) -/
  sharedWrites : List (Nat × String) := []
  deriving Repr, Inhabited

def getShared (m : List (String × Nat)) (f : String) : Nat := ((m.find? (·.1 == f)).map (·.2)).getD 0
def setShared (m : List (String × Nat)) (f : String) (c : Nat) : List (String × Nat) := (f, c) :: m.filter (·.1 != f)

/-- thread `t` takes its next step -/
def step (p : Protocol) (s : State) (t : Nat) : State :=
  match s.threads[t]? with
  | none => s
  | some th =>
    match th.phase, th.todo with
    | .idle, [] => s
    | .idle, (f, c) :: _ =>
      match p with
      | .shared =>
        { s with shared := setShared s.shared f c, sharedWrites := s.sharedWrites ++ [(t, f)],
                 threads := s.threads.set t { th with phase := .ready f c } }
      | .copy =>
        { s with threads := s.threads.set t { th with phase := .ready f c, priv := c } }
    | .ready f _, todo =>
      let found := match p with | .shared => getShared s.shared f | .copy => th.priv
      { s with threads := s.threads.set t { th with phase := .idle, todo := todo.drop 1, seen := th.seen ++ [found] } }

def run (p : Protocol) (s : State) (schedule : List Nat) : State := schedule.foldl (step p) s

def init (programs : List (List (String × Nat))) : State :=
  { threads := programs.map fun todo => { todo := todo } }

/-- what a thread's calls see when it runs alone -/
def alone (todo : List (String × Nat)) : List Nat := todo.map (·.2)

end Jsonata.Conc
