/-
  Model/Basic.lean — value, syntax-tree and outcome types of the jsonata-go model.

  Core Lean only (no Mathlib): this file is linked into the `driver` executable.

  Conventions (DESIGN.md §4):
  * numbers are abstract (`[NumSys N]`); the driver instantiates `N := Float`
    (IEEE binary64, the same operations Go's float64 uses), examples use `Int`;
  * objects are association lists (insertion order; comparisons sort by key);
  * "no value" (Go: the zero reflect.Value) is `none : Option (Val N)`.
-/
namespace Jsonata

/-- The arithmetic the evaluator needs from its number type. -/
class NumSys (N : Type) where
  add : N → N → N
  sub : N → N → N
  mul : N → N → N
  div : N → N → N
  mod : N → N → N          -- Go math.Mod (C fmod): truncated remainder, sign of the dividend
  neg : N → N
  floor : N → N
  trunc : N → N
  lt : N → N → Bool
  beq : N → N → Bool
  isInf : N → Bool
  isNaN : N → Bool
  ofInt : Int → N
  /-- Go `int(x)` for finite in-range x: truncation toward zero. -/
  toInt : N → Int
  /-- the JSON encoder's text for a finite number (shortest round-trip form) -/
  toText : N → String
  ceil : N → N
  /-- shortest round-trip decimal of a finite number: x = m · 10^e (m = 0 for zero) -/
  toDec : N → Int × Int
  /-- the number nearest to m · 10^e (strconv.ParseFloat; may be infinite) -/
  ofDec : Int → Int → N
  /-- strconv 'f' format of |x| with `dp` fraction digits (correctly rounded, half-even) -/
  fixed : N → Nat → String
  pow : N → N → N
  sqrt : N → N

/-- Exact instance used for non-vacuity examples and `decide`-style witnesses. -/
instance : NumSys Int where
  add := (· + ·)
  sub := (· - ·)
  mul := (· * ·)
  div := Int.tdiv
  mod := Int.tmod
  neg := (- ·)
  floor := id
  trunc := id
  lt := fun a b => decide (a < b)
  beq := fun a b => a == b
  isInf := fun _ => false
  isNaN := fun _ => false
  ofInt := id
  toInt := id
  toText := fun a => toString a
  ceil := id
  toDec := fun a => (a, 0)
  ofDec := fun m e => if e ≥ 0 then m * 10 ^ e.toNat else Int.tdiv m (10 ^ (-e).toNat)
  fixed := fun a dp => toString a.natAbs ++ (if dp == 0 then "" else "." ++ String.ofList (List.replicate dp '0'))
  pow := fun a b => a ^ b.toNat
  sqrt := fun a => (Nat.sqrt a.toNat : Int)

inductive NumOp | add | sub | mul | div | mod
  deriving DecidableEq, Repr, Inhabited

inductive CmpOp | eq | ne | lt | le | gt | ge | in_
  deriving DecidableEq, Repr, Inhabited

inductive BoolOp | and_ | or_
  deriving DecidableEq, Repr, Inhabited

inductive SortDir | default_ | asc | desc
  deriving DecidableEq, Repr, Inhabited

/-- Parameter option of a lambda signature (jparse.ParamOpt). -/
inductive ParamOpt | none_ | optional | variadic | contextable
  deriving DecidableEq, Repr, Inhabited

/-- One parameter of a lambda signature (jparse.Param); `ty` is the ParamType bit set. -/
inductive Param
  | mk (ty : Nat) (opt : ParamOpt) (subs : List Param)
  deriving Repr, Inhabited

namespace Param
def ty : Param → Nat | .mk t _ _ => t
def opt : Param → ParamOpt | .mk _ o _ => o
def subs : Param → List Param | .mk _ _ s => s
end Param

-- ParamType bits (jparse/node.go)
def ptNumber : Nat := 1
def ptString : Nat := 2
def ptBool   : Nat := 4
def ptNull   : Nat := 8
def ptArray  : Nat := 16
def ptObject : Nat := 32
def ptFunc   : Nat := 64
def ptJSON   : Nat := 128
def ptAny    : Nat := 256

/-- One regular-expression match as the engine reports it (byte offsets). -/
structure MatchRec where
  text : String
  start : Nat
  stop : Nat
  groups : List String
  deriving Repr, Inhabited, DecidableEq

/-- the engine's graph on the subject strings a regex literal may meet -/
abbrev RxTable := List (String × List MatchRec)

/-- The optimised syntax tree returned by `jparse.Parse` (exported node types). -/
inductive Node (N : Type) : Type
  | str (s : String)
  | num (x : N)
  | bool (b : Bool)
  | null
  | regex (pat : String) (tbl : RxTable)
  | var (name : String)
  | name (v : String)
  | path (steps : List (Node N)) (keep : Bool)
  | neg (rhs : Node N)
  | range (l r : Node N)
  | array (items : List (Node N))
  | object (pairs : List (Node N × Node N))
  | block (exprs : List (Node N))
  | wildcard
  | descendent
  | transform (pattern updates : Node N) (deletes : Option (Node N))
  | lambda (params : List String) (body : Node N)
  | typedLambda (params : List String) (sig : List Param) (body : Node N)
  | partial_ (fn : Node N) (args : List (Node N))
  | placeholder
  | call (fn : Node N) (args : List (Node N))
  | predicate (expr : Node N) (filters : List (Node N))
  | group (expr : Node N) (pairs : List (Node N × Node N))
  | cond (c t : Node N) (e : Option (Node N))
  | assign (name : String) (value : Node N)
  | numop (op : NumOp) (l r : Node N)
  | cmpop (op : CmpOp) (l r : Node N)
  | boolop (op : BoolOp) (l r : Node N)
  | concat (l r : Node N)
  | sort (expr : Node N) (terms : List (SortDir × Node N))
  | apply (l r : Node N)
  deriving Inhabited

/-- JSONata values. Function values are constructors of `Val` (no separate
    callable type, which keeps the nested inductive simple). -/
inductive Val (N : Type) : Type
  | null
  | bool (b : Bool)
  | num (x : N)
  | str (s : String)
  | arr (xs : List (Val N))
  | obj (kvs : List (String × Val N))
  /-- a built-in of the base environment (a Go function) -/
  | builtin (name : String)
  /-- user lambda: parameter names, optional signature, body, defining frame, context item -/
  | lambda (params : List String) (sig : Option (List Param)) (body : Node N) (env : Nat)
      (ctx : Option (Val N))
  | partialFn (f : Val N) (args : List (Node N)) (env : Nat) (ctx : Option (Val N))
  | transformFn (pattern updates : Node N) (deletes : Option (Node N)) (env : Nat)
  | chain (f g : Val N)
  | regexFn (pat : String) (tbl : RxTable)
  /-- the `next` member of a match object: remaining matches -/
  | matchNext (rest : List MatchRec)
  deriving Inhabited

namespace Val
def isFn : Val N → Bool
  | .builtin _ | .lambda .. | .partialFn .. | .transformFn .. | .chain .. | .regexFn ..
  | .matchNext _ => true
  | _ => false

def isArr : Val N → Bool | .arr _ => true | _ => false
def isObj : Val N → Bool | .obj _ => true | _ => false
def isNum : Val N → Bool | .num _ => true | _ => false
def isStr : Val N → Bool | .str _ => true | _ => false
end Val

/-- Kinds of `EvalError` (error.go ErrType, same order). -/
inductive EvalErrKind
  | nonIntegerLHS | nonIntegerRHS | nonNumberLHS | nonNumberRHS
  | nonComparableLHS | nonComparableRHS | typeMismatch
  | nonCallable | nonCallableApply | nonCallablePartial
  | numberInf | numberNaN | maxRangeItems
  | illegalKey | duplicateKey | clone | illegalUpdate | illegalDelete
  | nonSortable | sortMismatch
  deriving DecidableEq, Repr, Inhabited

def EvalErrKind.name : EvalErrKind → String
  | .nonIntegerLHS => "ErrNonIntegerLHS" | .nonIntegerRHS => "ErrNonIntegerRHS"
  | .nonNumberLHS => "ErrNonNumberLHS" | .nonNumberRHS => "ErrNonNumberRHS"
  | .nonComparableLHS => "ErrNonComparableLHS" | .nonComparableRHS => "ErrNonComparableRHS"
  | .typeMismatch => "ErrTypeMismatch" | .nonCallable => "ErrNonCallable"
  | .nonCallableApply => "ErrNonCallableApply" | .nonCallablePartial => "ErrNonCallablePartial"
  | .numberInf => "ErrNumberInf" | .numberNaN => "ErrNumberNaN"
  | .maxRangeItems => "ErrMaxRangeItems" | .illegalKey => "ErrIllegalKey"
  | .duplicateKey => "ErrDuplicateKey" | .clone => "ErrClone"
  | .illegalUpdate => "ErrIllegalUpdate" | .illegalDelete => "ErrIllegalDelete"
  | .nonSortable => "ErrNonSortable" | .sortMismatch => "ErrSortMismatch"

/-- Every way an evaluation can fail to produce a value. -/
inductive Err
  | eval (k : EvalErrKind)
  | argCount
  | argType (which : Nat)
  /-- an `error` value returned by a library function -/
  | lib (fn : String)
  /-- the model ran out of fuel (only for unboundedly recursive user functions) -/
  | fuel
  /-- a modelled partial operation was used outside its domain (Go would panic) -/
  | panic (site : String)
  /-- the program uses something outside the model; the correspondence skips it -/
  | unsupported (what : String)
  deriving DecidableEq, Repr, Inhabited

/-- A frame of the scope chain (env.go `environment`). A symbol may be bound to
    "no value", which still shadows outer bindings. -/
structure Frame (N : Type) where
  parent : Option Nat
  syms : List (String × Option (Val N))
  deriving Inhabited

/-- The append-only frame store of one evaluation. -/
structure Store (N : Type) where
  frames : Array (Frame N) := #[]
  deriving Inhabited

abbrev EvalM (N : Type) := StateT (Store N) (Except Err)

end Jsonata
