/-
  Model/FormatNumber.lean — jlib/jxpath/formatnumber.go on code-point lists and exact decimals.

  The number is its shortest round-trip decimal `m · 10^e` (`NumSys.toDec`); scaling,
  exponent normalisation and rounding are integer arithmetic, as in the implementation
  (math/big on the same decimal).
-/
import JsonataModel.Model.Number

namespace Jsonata.FmtNum
open Jsonata.Num

abbrev S := List Char

structure DecFmt where
  decSep : Char := '.'
  grpSep : Char := ','
  expSep : Char := 'e'
  minus : Char := '-'
  infinity : S := "Infinity".toList
  nan : S := "NaN".toList
  percent : S := "%".toList
  permille : S := "‰".toList
  zero : Char := '0'
  digit : Char := '#'
  patSep : Char := ';'
  deriving Repr, Inhabited

def DecFmt.isZeroDigit (f : DecFmt) (r : Char) : Bool := r == f.zero
def DecFmt.isDecimalDigit (f : DecFmt) (r : Char) : Bool := f.zero.toNat ≤ r.toNat && r.toNat ≤ f.zero.toNat + 9
def DecFmt.isDigit (f : DecFmt) (r : Char) : Bool := r == f.digit || f.isDecimalDigit r
def DecFmt.isActive (f : DecFmt) (r : Char) : Bool :=
  r == f.decSep || r == f.expSep || r == f.grpSep || r == f.patSep || r == f.digit || f.isDecimalDigit r

/-! ### string helpers -/

/-- strings.Count for a non-empty pattern: non-overlapping occurrences -/
def countSub (pat : S) : Nat → S → Nat
  | 0, _ => 0
  | _, [] => 0
  | fuel + 1, c :: cs =>
    if pat.isEmpty then 0
    else if pat.isPrefixOf (c :: cs) then 1 + countSub pat fuel ((c :: cs).drop pat.length)
    else countSub pat fuel cs

/-- strings.Count (an empty pattern counts the gaps) -/
def count (pat s : S) : Nat := if pat.isEmpty then s.length + 1 else countSub pat (s.length + 1) s

def containsSub (pat s : S) : Bool := pat.isEmpty || count pat s > 0

/-- split at the first occurrence of `r`: (before, after) or `none` -/
def splitFirst (r : Char) : S → Option (S × S)
  | [] => none
  | c :: cs => if c == r then some ([], cs) else (splitFirst r cs).map fun p => (c :: p.1, p.2)

/-- splitStringAtRune: exactly one occurrence splits, none leaves the string, more give ("", "") -/
def splitAtRune (s : S) (r : Char) : S × S :=
  match splitFirst r s with
  | none => (s, [])
  | some (a, b) => if b.contains r then ([], []) else (a, b)

def indexWhere (p : Char → Bool) : S → Option Nat
  | [] => none
  | c :: cs => if p c then some 0 else (indexWhere p cs).map (· + 1)

def lastIndexWhere (p : Char → Bool) (s : S) : Option Nat :=
  (indexWhere p s.reverse).map fun i => s.length - 1 - i

/-! ### picture analysis -/

structure Parts where
  prefix_ : S
  suffix : S
  mantissa : S
  exponent : S
  integer : S
  fractional : S
  picture : S
  active : S
  deriving Repr, Inhabited

def extractParts (sub : S) (f : DecFmt) : Parts :=
  let isAct := fun r => r != f.expSep && f.isActive r
  let first := (indexWhere isAct sub).getD 0
  let last := match lastIndexWhere isAct sub with
    | some i => i + 1
    | none => sub.length
  let pre := sub.take first
  let suf := sub.drop last
  let act := (sub.take last).drop first
  let (mant, expo) := match splitFirst f.expSep act with
    | some (a, b) => (a, b)
    | none => (act, [])
  let (ip, fp) := match splitFirst f.decSep mant with
    | some (a, b) => (a, b)
    | none => (mant, suf)
  { prefix_ := pre, suffix := suf, mantissa := mant, exponent := expo, integer := ip,
    fractional := fp, picture := sub, active := act }

/-- validateSubpictureParts: `true` = accepted -/
def validateParts (p : Parts) (f : DecFmt) : Bool :=
  let percents := count f.percent p.picture
  let permilles := count f.permille p.picture
  -- counted in the active part only: in the prefix or suffix the character is passive text (F37)
  let exponents := count [f.expSep] p.active
  let intDigitThenOptional :=
    match indexWhere f.isDecimalDigit p.integer with
    | some i => (p.integer.drop (i + 1)).contains f.digit
    | none => false
  let fracOptionalThenDigit :=
    match indexWhere (· == f.digit) p.fractional with
    | some i => (p.fractional.drop (i + 1)).any f.isDecimalDigit
    | none => false
  !(count [f.decSep] p.picture > 1) &&
  !(percents > 1) && !(permilles > 1) && !(percents > 0 && permilles > 0) &&
  p.mantissa.any f.isDigit &&
  !(p.active.any fun r => !f.isActive r) &&
  !(p.integer.getLast? == some f.grpSep || p.fractional.head? == some f.grpSep) &&
  !(containsSub [f.grpSep, f.grpSep] p.picture) &&
  !intDigitThenOptional && !fracOptionalThenDigit &&
  !(exponents > 1) &&
  !(exponents > 0 && (percents > 0 || permilles > 0)) &&
  !(exponents > 0 && p.exponent.any fun r => !f.isDecimalDigit r)

inductive NumType | plain | percent | permille
  deriving DecidableEq, Repr, Inhabited

structure Vars where
  numType : NumType
  intGroups : List Nat
  groupSize : Nat
  minInt : Nat
  scaling : Nat
  fracGroups : List Nat
  minFrac : Nat
  maxFrac : Nat
  minExp : Nat
  prefix_ : S
  suffix : S
  deriving Repr, Inhabited

def countWhere (p : Char → Bool) (s : S) : Nat := (s.filter p).length

/-- getGroupPositions -/
def groupPositions (sep : Char) (p : Char → Bool) (lookLeft : Bool) : Nat → S → List Nat → List Nat
  | 0, _, acc => acc
  | fuel + 1, s, acc =>
    match splitFirst sep s with
    | none => acc
    | some (before, after) =>
      let n := countWhere p (if lookLeft then before else after)
      let n := if lookLeft then (match acc.getLast? with | some l => n + l | none => n) else n
      groupPositions sep p lookLeft fuel after (acc ++ [n])

def gcdOf (xs : List Nat) : Nat := xs.foldl Nat.gcd 0

/-- getGroupSize: the positions are exactly the multiples of their gcd -/
def groupSize (ps : List Nat) : Nat :=
  if ps.isEmpty then 0
  else
    let g := gcdOf ps
    if (List.range ps.length).all fun i => ps.contains (g * (i + 1)) then g else 0

def analyseParts (p : Parts) (f : DecFmt) : Vars :=
  let typ := if containsSub f.percent p.picture then NumType.percent
    else if containsSub f.permille p.picture then NumType.permille else NumType.plain
  let ig := groupPositions f.grpSep f.isDigit false (p.integer.length + 1) p.integer []
  let fg := groupPositions f.grpSep f.isDigit true (p.fractional.length + 1) p.fractional []
  let minInt0 := countWhere f.isDecimalDigit p.integer
  let minFrac0 := countWhere f.isDecimalDigit p.fractional
  let maxFrac0 := countWhere f.isDigit p.fractional
  let hasExp := !p.exponent.isEmpty
  let (minInt1, minFrac1, maxFrac1) :=
    if minInt0 == 0 && maxFrac0 == 0 then
      (if hasExp then (minInt0, 1, 1) else (1, minFrac0, maxFrac0))
    else (minInt0, minFrac0, maxFrac0)
  let minInt2 := if hasExp && minInt1 == 0 && p.integer.contains f.digit then 1 else minInt1
  let minFrac2 := if minInt2 == 0 && minFrac1 == 0 then 1 else minFrac1
  { numType := typ, intGroups := ig, groupSize := groupSize ig, minInt := minInt2, scaling := minInt0,
    fracGroups := fg, minFrac := minFrac2, maxFrac := maxFrac1,
    minExp := countWhere f.isDecimalDigit p.exponent, prefix_ := p.prefix_, suffix := p.suffix }

def processSub (sub : S) (f : DecFmt) : Option Vars :=
  let p := extractParts sub f
  if validateParts p f then some (analyseParts p f) else none

/-- processPicture -/
def processPicture (pic : S) (f : DecFmt) (isNeg : Bool) : Option Vars :=
  let (p1, p2) := splitAtRune pic f.patSep
  if p1.isEmpty then none
  else
    match processSub p1 f with
    | none => none
    | some v1 =>
      if p2.isEmpty then
        some (if isNeg then { v1 with prefix_ := f.minus :: v1.prefix_ } else v1)
      else
        match processSub p2 f with
        | none => none
        | some v2 => some (if isNeg then v2 else v1)

/-! ### rendering -/

/-- insertSeparatorsEvery: a separator before every `g`-th digit counted from the right -/
def sepEvery (sep : Char) (g : Nat) (s : S) : S :=
  if g == 0 || s.length ≤ g then s
  else
    let rec go : Nat → S → S → S      -- fuel, reversed remaining, acc
      | 0, _, acc => acc
      | fuel + 1, rs, acc =>
        if rs.length ≤ g then rs.reverse ++ acc
        else go fuel (rs.drop g) (sep :: (rs.take g).reverse ++ acc)
    go (s.length + 1) s.reverse []

/-- insertSeparatorsAt, integer part: positions count digits from the right; a position with
    no digit to its left is skipped -/
def sepAtRight (sep : Char) : List Nat → S → S
  | [], s => s
  | n :: ns, s =>
    if s.length ≤ n then sepAtRight sep ns s
    else s.take (s.length - n) ++ sep :: sepAtRight sep ns (s.drop (s.length - n))

/-- insertSeparatorsAt, fractional part: positions count digits from the decimal point
    (`consumed` digits are already out); a position with no digit to its right ends the walk -/
def sepAtLeft (sep : Char) : Nat → List Nat → S → S
  | _, [], s => s
  | consumed, p :: ps, s =>
    let n := p - consumed
    if n == 0 then sepAtLeft sep consumed ps s
    else if n ≥ s.length then s
    else s.take n ++ sep :: sepAtLeft sep p ps (s.drop n)

def formatInteger (s : S) (v : Vars) (f : DecFmt) : S :=
  let s := s.dropWhile f.isZeroDigit
  let s := List.replicate (v.minInt - s.length) f.zero ++ s
  if v.groupSize > 0 then sepEvery f.grpSep v.groupSize s
  else if !v.intGroups.isEmpty then sepAtRight f.grpSep v.intGroups s
  else s

def formatFractional (s : S) (v : Vars) (f : DecFmt) : S :=
  let s := (s.reverse.dropWhile f.isZeroDigit).reverse
  let s := s ++ List.replicate (v.minFrac - s.length) f.zero
  if !v.fracGroups.isEmpty then sepAtLeft f.grpSep 0 v.fracGroups s else s

def formatExponent (s : S) (v : Vars) (f : DecFmt) : S :=
  List.replicate (v.minExp - s.length) f.zero ++ s

/-- |m|·10^e compared with 10^k -/
def ltPow10 (a : Nat) (e k : Int) : Bool :=
  if e ≥ k then a * 10 ^ (e - k).toNat < 1 else a < 10 ^ (k - e).toNat
def gtPow10 (a : Nat) (e k : Int) : Bool :=
  if e ≥ k then a * 10 ^ (e - k).toNat > 1 else a > 10 ^ (k - e).toNat

/-- the two normalisation loops of FormatNumber on `a · 10^e`: the new `e` and the exponent -/
def normalise (a : Nat) (scaling : Int) : Nat → Int → Int → Int × Int
  | 0, e, x => (e, x)
  | fuel + 1, e, x =>
    if ltPow10 a e (scaling - 1) then normalise a scaling fuel (e + 1) (x - 1)
    else if gtPow10 a e scaling then normalise a scaling fuel (e - 1) (x + 1)
    else (e, x)

/-- makeNumberString: |a·10^e| rounded half-even to `dp` places, "int.frac" with ASCII digits -/
def numberString (a : Nat) (e : Int) (dp : Nat) : S × S :=
  let q := (roundScaled a e dp).toNat
  let ds := toBase q 10
  let ds := if ds.length ≤ dp then List.replicate (dp + 1 - ds.length) '0' ++ ds else ds
  (ds.take (ds.length - dp), ds.drop (ds.length - dp))

def mapZero (f : DecFmt) (s : S) : S :=
  if f.zero == '0' then s
  else s.map fun r => if isDig r then Char.ofNat (f.zero.toNat + (r.toNat - 48)) else r

/-- jxpath.FormatNumber for a finite number `m · 10^e` (`neg` = value < 0) -/
def formatNumber (m e : Int) (neg : Bool) (pic : S) (f : DecFmt) : Option S :=
  if pic.isEmpty then none else
  match processPicture pic f neg with
  | none => none
  | some v =>
    let a0 := m.natAbs
    let (a, e1) : Nat × Int := match v.numType with
      | .percent => (a0 * 100, e)
      | .permille => (a0 * 1000, e)
      | .plain => (a0, e)
    let (e2, expo) : Int × Int :=
      if v.minExp != 0 && a != 0 then normalise a v.scaling 800 e1 0 else (e1, 0)
    let (si, sf) := numberString a e2 v.maxFrac
    let ip := formatInteger (mapZero f si) v f
    let fp := if sf.isEmpty then [] else formatFractional (mapZero f sf) v f
    let ep := if v.minExp != 0 then formatExponent (mapZero f (toBase expo.natAbs 10)) v f else []
    some (v.prefix_ ++ ip ++ (if fp.isEmpty then [] else f.decSep :: fp) ++
      (if ep.isEmpty then [] else f.expSep :: ((if expo < 0 then [f.minus] else []) ++ ep)) ++ v.suffix)

/-! ### decimal-format options (jlib/string.go updateDecimalFormat) -/

def updateFmt (f : DecFmt) (key : String) (value : S) : Option DecFmt :=
  match key with
  | "infinity" => some { f with infinity := value }
  | "NaN" => some { f with nan := value }
  | "percent" => some { f with percent := value }
  | "per-mille" => some { f with permille := value }
  | _ =>
    match value with
    | [r] =>
      if r == '�' then none else
      match key with
      | "decimal-separator" => some { f with decSep := r }
      | "grouping-separator" => some { f with grpSep := r }
      | "exponent-separator" => some { f with expSep := r }
      | "minus-sign" => some { f with minus := r }
      | "zero-digit" => some { f with zero := r }
      | "digit" => some { f with digit := r }
      | "pattern-separator" => some { f with patSep := r }
      | _ => none
    | _ => none

end Jsonata.FmtNum
