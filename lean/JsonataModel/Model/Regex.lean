/-
  Model/Regex.lean — the regular-expression consumers of jlib/string.go and callable.go.

  The engine (Go's regexp package, RE2 semantics) is a parameter: a regex value carries the
  graph of `FindAllStringSubmatchIndex` on the subject strings it may meet (supplied by the
  correspondence harness from the real engine), every function below takes the engine's match
  list as an argument.  Offsets are byte offsets into the UTF-8 subject, as in Go.
-/
import JsonataModel.Model.Basic

namespace Jsonata.Rx

/-- `s[a:b]` -/
def slice {α} (l : List α) (a b : Nat) : List α := (l.drop a).take (b - a)

/-- jlib.Split with a regex separator: the text between consecutive matches -/
def splitBy {α} (s : List α) : Nat → List (Nat × Nat) → List (List α)
  | pos, [] => [s.drop pos]
  | pos, (a, b) :: ms => slice s pos a :: splitBy s b ms

/-- replaceMatchFunc: matches are spliced from the last to the first -/
def replaceBack {α} (src : List α) (ms : List (Nat × Nat × List α)) : List α :=
  ms.foldr (fun m acc => acc.take m.1 ++ m.2.2 ++ acc.drop m.2.1) src

/-- the meaning of a replacement: untouched text and replacements, left to right -/
def replaceSpec {α} (s : List α) : Nat → List (Nat × Nat × List α) → List α
  | pos, [] => s.drop pos
  | pos, (a, b, r) :: ms => slice s pos a ++ r ++ replaceSpec s b ms

/-- consecutive, non-overlapping, inside the string (what extractMatches checks) -/
def Ordered (len : Nat) : Nat → List (Nat × Nat) → Prop
  | pos, [] => pos ≤ len
  | pos, (a, b) :: ms => pos ≤ a ∧ a ≤ b ∧ Ordered len b ms

def orderedB (len : Nat) : Nat → List (Nat × Nat) → Bool
  | pos, [] => pos ≤ len
  | pos, (a, b) :: ms => pos ≤ a && a ≤ b && orderedB len b ms

/-! ### replacement templates (expandReplaceString) -/

def isDigit (c : Char) : Bool := '0' ≤ c && c ≤ '9'

/-- runesToNumbers: the value of a digit string, saturating above 2^20 -/
def satNum (ds : List Char) : Nat :=
  ds.foldl (fun n c => if n > 2 ^ 20 then n else n * 10 + (c.toNat - '0'.toNat)) 0

/-- the longest prefix of the digit string (lengths `k, k-1, …, 1`) that numbers an existing
    group: `(prefix length, group text)` -/
def pickGroup (ds : List Char) (groups : List (List Char)) : Nat → Option (Nat × List Char)
  | 0 => none
  | k + 1 =>
    let n := satNum (ds.take (k + 1))
    if n - 1 < groups.length then some (k + 1, groups.getD (n - 1) [])
    else pickGroup ds groups k

/-- expandReplaceString -/
def expand (mtext : List Char) (groups : List (List Char)) : Nat → List Char → List Char
  | 0, _ => []
  | _, [] => []
  | fuel + 1, '$' :: rest =>
    match rest with
    | [] => ['$']
    | r :: rest' =>
      if r == '$' then '$' :: expand mtext groups fuel rest'
      else if !isDigit r then '$' :: expand mtext groups fuel (r :: rest')
      else if r == '0' then mtext ++ expand mtext groups fuel rest'
      else
        let ds := (r :: rest').takeWhile isDigit
        match pickGroup ds groups ds.length with
        | some (k, g) => g ++ expand mtext groups fuel ((r :: rest').drop k)
        | none => expand mtext groups fuel rest'
  | fuel + 1, c :: rest => c :: expand mtext groups fuel rest

/-! ### bytes -/

def bytesOf (s : String) : List UInt8 := s.toUTF8.toList

def strOfBytes (l : List UInt8) : Option String := String.fromUTF8? (ByteArray.mk l.toArray)

end Jsonata.Rx
