/-
  Model/Number.lean — jlib/number.go and jlib/string.go FormatBase on exact decimals.

  A finite number is handled through its shortest round-trip decimal `m · 10^e`
  (`NumSys.toDec`, the text `$string` prints) and converted back with `NumSys.ofDec`
  (strconv.ParseFloat).  Everything between the two is exact integer arithmetic.
-/
import JsonataModel.Model.Basic

namespace Jsonata.Num

/-! ### the grammar of `$number` (reNumber) -/

def isDig (c : Char) : Bool := '0' ≤ c && c ≤ '9'

/-- drop a non-empty run of digits; `none` if there is none -/
def digits1 (s : List Char) : Option (List Char) :=
  match s with
  | c :: cs => if isDig c then some (cs.dropWhile isDig) else none
  | [] => none

/-- optional leading minus sign -/
def stripMinus (s : List Char) : List Char :=
  match s with
  | '-' :: r => r
  | _ => s

/-- optional fraction: a dot must be followed by digits -/
def fracStep (s : List Char) : Option (List Char) :=
  match s with
  | '.' :: r => digits1 r
  | _ => some s

/-- optional sign of the exponent -/
def stripSign (s : List Char) : List Char :=
  match s with
  | '+' :: t => t
  | '-' :: t => t
  | _ => s

/-- optional exponent up to the end of the text -/
def expOk (s : List Char) : Bool :=
  match s with
  | [] => true
  | c :: r =>
    if c == 'e' || c == 'E' then
      match digits1 (stripSign r) with
      | some [] => true
      | _ => false
    else false

/-- `^-?[0-9]+(\.[0-9]+)?([Ee][-+]?[0-9]+)?$` -/
def reNumber (s : List Char) : Bool :=
  match digits1 (stripMinus s) with
  | none => false
  | some s2 =>
    match fracStep s2 with
    | none => false
    | some s3 => expOk s3

/-- value of a digit run -/
def natOfDigits (ds : List Char) : Nat := ds.foldl (fun n c => n * 10 + (c.toNat - 48)) 0

/-- the exact decimal `(mantissa, exponent)` a number text denotes (for texts `reNumber` accepts) -/
def decOfText (s : List Char) : Int × Int :=
  let (neg, s1) := match s with | '-' :: r => (true, r) | _ => (false, s)
  let ip := s1.takeWhile isDig
  let r1 := s1.dropWhile isDig
  let (fp, r2) := match r1 with
    | '.' :: r => (r.takeWhile isDig, r.dropWhile isDig)
    | _ => ([], r1)
  let ex : Int := match r2 with
    | _ :: '-' :: t => -(natOfDigits t : Int)
    | _ :: '+' :: t => natOfDigits t
    | _ :: t => natOfDigits t
    | [] => 0
  let m : Int := natOfDigits (ip ++ fp)
  ((if neg then -m else m), ex - fp.length)

/-! ### half-even rounding of exact decimals -/

/-- the integer nearest to n/d (d > 0), ties to the even one -/
def halfEven (n : Int) (d : Nat) : Int :=
  let q := n / (d : Int)        -- floor division
  let r := n % (d : Int)        -- 0 ≤ r < d
  if 2 * r < d then q
  else if 2 * r > d then q + 1
  else if q % 2 == 0 then q else q + 1

/-- m · 10^e rounded to `p` fraction digits: the integer k with result k · 10^(-p) -/
def roundScaled (m e p : Int) : Int :=
  let s := e + p
  if s ≥ 0 then m * 10 ^ s.toNat else halfEven m (10 ^ (-s).toNat)

/-! ### radix numerals (strconv.FormatInt) -/

def digitChar (d : Nat) : Char :=
  if d < 10 then Char.ofNat (48 + d) else Char.ofNat (87 + d)

/-- digits of n in base b, most significant first (fuel ≥ number of digits) -/
def toBaseAux (b : Nat) : Nat → Nat → List Char → List Char
  | 0, _, acc => acc
  | fuel + 1, n, acc =>
    if n < b then digitChar n :: acc
    else toBaseAux b fuel (n / b) (digitChar (n % b) :: acc)

def toBase (n : Int) (b : Nat) : List Char :=
  let ds := toBaseAux b (n.natAbs + 1) n.natAbs []
  if n < 0 then '-' :: ds else ds

def digitVal (c : Char) : Nat :=
  if c.toNat < 58 then c.toNat - 48 else c.toNat - 87

/-- read a numeral back -/
def ofBase (b : Nat) (s : List Char) : Int :=
  match s with
  | '-' :: ds => -((ds.foldl (fun n c => n * b + digitVal c) 0 : Nat) : Int)
  | ds => ((ds.foldl (fun n c => n * b + digitVal c) 0 : Nat) : Int)

end Jsonata.Num
