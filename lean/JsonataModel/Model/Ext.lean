/-
  Model/Ext.lean — extensions: callable.go goCallable for arbitrary Go signatures, and the
  registries of jsonata.go as a state machine.
-/
import JsonataModel.Model.Lib

namespace Jsonata.Ext
open Jsonata NumSys

/-! ### Go parameter types and what the Go function receives -/

inductive GoTy
  | f64 | int | u8 | str | bool | bytes | iface | value | slice | map | callable
  | opt (t : GoTy)
  deriving DecidableEq, Repr, Inhabited

def GoTy.isOpt : GoTy → Bool | .opt _ => true | _ => false

/-- one received argument (after conversion to the parameter type) -/
inductive Recv (N : Type)
  | f64 (x : N) | int (n : Int) | u8 (n : Int) | str (s : String) | bool (b : Bool) | bytes (s : String)
  /-- interface{}, reflect.Value, []interface{}, map[string]interface{}, Callable: the value itself -/
  | any (v : Val N)
  /-- the zero interface{} / reflect.Value an undefined argument becomes -/
  | nilAny
  | optUnset
  | optSet (r : Recv N)
  deriving Inhabited

variable {N : Type} [NumSys N]

/-- processGoCallableArg for a defined argument and a non-optional parameter -/
def convertPlain (v : Val N) (t : GoTy) : Option (Recv N) :=
  match t, v with
  | .iface, v | .value, v => some (.any v)
  | .f64, .num x => some (.f64 x)
  | .int, .num x => some (.int (toInt x))
  | .u8, .num x => some (.u8 (toInt x))
  | .str, .str s => some (.str s)
  | .bytes, .str s => some (.bytes s)
  | .bool, .bool b => some (.bool b)
  | .slice, .arr xs => some (.any (.arr xs))
  | .map, .obj kvs => some (.any (.obj kvs))
  | .callable, v => if v.isFn then some (.any v) else none
  | _, _ => none

/-- processGoCallableArg (none = ArgTypeError) -/
def convert (arg : Option (Val N)) (t : GoTy) : Option (Recv N) :=
  match arg, t with
  | none, .opt _ => some .optUnset
  | none, .iface | none, .value => some .nilAny
  | none, _ => none
  | some v, .opt inner => (convertPlain v inner).map .optSet
  | some v, t => convertPlain v t

inductive CHk | none_ | whenNoArgs | whenFirstIsString
  deriving DecidableEq, Repr, Inhabited
inductive UHk | none_ | anyUndefined | firstUndefined
  deriving DecidableEq, Repr, Inhabited

structure Spec where
  params : List GoTy
  variadic : Bool
  ch : CHk
  uh : UHk
  deriving Repr, Inhabited

def chFires (ch : CHk) (argv : List (Option (Val N))) : Bool :=
  match ch with
  | .none_ => false
  | .whenNoArgs => argv.isEmpty
  | .whenFirstIsString => match argv with | some (.str _) :: _ => true | _ => false

def uhFires (uh : UHk) (argv : List (Option (Val N))) : Bool :=
  match uh with
  | .none_ => false
  | .anyUndefined => argv.any Option.isNone
  | .firstUndefined => match argv with | none :: _ => true | _ => false

inductive Outcome (N : Type)
  | called (args : List (Recv N))
  | undef
  | argCount
  | argType (i : Nat)
  deriving Inhabited

def convertAll (params : List GoTy) : Nat → List (Option (Val N)) → Except Nat (List (Recv N))
  | _, [] => .ok []
  | i, a :: rest =>
    let t := (params[i]?).getD (params.getLast?.getD .iface)
    match convert a t with
    | none => .error (i + 1)
    | some r => (convertAll params (i + 1) rest).map (r :: ·)

/-- goCallable.Call up to the call of the Go function -/
def call (spec : Spec) (ctx : Option (Val N)) (argv : List (Option (Val N))) : Outcome N :=
  let argv1 := if chFires spec.ch argv then ctx :: argv else argv
  if uhFires spec.uh argv1 then .undef
  else
    let n := spec.params.length
    let argv2 := padOptional (spec.params.map GoTy.isOpt) argv1
    if spec.variadic && argv2.length < n - 1 then .argCount
    else if !spec.variadic && argv2.length != n then .argCount
    else match convertAll spec.params 0 argv2 with
      | .error i => .argType i
      | .ok rs => .called rs

/-- registration-time validation of the parameter list (validateGoCallableParams) -/
def validParams (params : List GoTy) (variadic : Bool) : Bool :=
  let rec go : List GoTy → Bool → Bool
    | [], _ => true
    | p :: ps, seenOpt =>
      match p with
      | .opt inner =>
        !inner.isOpt && !(variadic && ps.isEmpty) && go ps true
      | _ => !seenOpt && go ps false
  go params false

/-- jsonata.go validName: letters, digits, underscore; not empty (ASCII part) -/
def validName (s : String) : Bool :=
  !s.isEmpty && s.toList.all fun c => c.isAlphanum || c == '_' || c.toNat ≥ 128

/-! ### registries (jsonata.go): package level and per expression -/

abbrev Reg := List (String × Nat)     -- name ↦ identity of the registered value

def Reg.set (r : Reg) (k : String) (v : Nat) : Reg := (k, v) :: r.filter (·.1 != k)
def Reg.get (r : Reg) (k : String) : Option Nat := (r.find? (·.1 == k)).map (·.2)

structure World where
  global : Reg := []
  exprs : List Reg := []        -- registry of each compiled expression, oldest first
  deriving Repr, Inhabited

inductive Op
  | regGlobal (name : String) (v : Nat)
  | compile
  | regLocal (e : Nat) (name : String) (v : Nat)
  deriving Repr, Inhabited

def step (w : World) : Op → World
  | .regGlobal k v => { w with global := w.global.set k v }
  | .compile => { w with exprs := w.exprs ++ [w.global] }
  | .regLocal e k v => { w with exprs := w.exprs.modify e (·.set k v) }

/-- what `$name` resolves to in expression `e` (`none`: fall through to the built-ins) -/
def lookup (w : World) (e : Nat) (k : String) : Option Nat := (w.exprs.getD e []).get k

end Jsonata.Ext
