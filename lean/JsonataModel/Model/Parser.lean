/-
  Model/Parser.lean — jparse/jparse.go (Pratt loop, nud/led tables, binding powers) and
  jparse/node.go (nuds, leds, signature parsing, escape decoding, optimize) transliterated.
-/
import JsonataModel.Model.Basic
import JsonataModel.Model.Lexer
import JsonataModel.Model.Decimal

namespace Jsonata.Parse
open Jsonata Jsonata.Lex

/-! ### binding powers (jparse.go bps / initBindingPowers) -/

/-- precedence rows, highest first -/
def bpsRows : List (List Tok) :=
  [[.parenOpen, .bracketOpen], [.dot], [.braceOpen], [.mult, .div, .mod], [.plus, .minus, .concat],
   [.equal, .notEqual, .less, .lessEqual, .greater, .greaterEqual, .in_, .sort, .apply],
   [.and_], [.or_], [.condition], [.assign]]

def bpStep : Nat := 10

def bpFrom : List (List Tok) → Nat → Tok → Nat
  | [], _, _ => 0
  | row :: rows, n, t => if row.contains t then n * bpStep else bpFrom rows (n - 1) t

/-- `lookupBp`: (number of rows − row index) × 10 for infix tokens, 0 otherwise -/
def bp (t : Tok) : Nat := bpFrom bpsRows bpsRows.length t

/-! ### the raw parse tree (before optimize) -/

inductive PNode : Type
  | str (s : String)
  | num (x : Float)
  | bool (b : Bool)
  | null
  | regex (pat : String)
  | var (name : String)
  | name (v : String)
  | neg (rhs : PNode)
  | range (l r : PNode)
  | array (items : List PNode)
  | object (pairs : List (PNode × PNode))
  | block (exprs : List PNode)
  | wildcard
  | descendent
  | transform (pattern updates : PNode) (deletes : Option PNode)
  | lambda (params : List String) (sig : Option (List Param)) (body : PNode)
  | partial_ (fn : PNode) (args : List PNode)
  | placeholder
  | call (fn : PNode) (args : List PNode)
  | group (expr : PNode) (pairs : List (PNode × PNode))
  | cond (c t : PNode) (e : Option PNode)
  | assign (name : String) (value : PNode)
  | numop (op : NumOp) (l r : PNode)
  | cmpop (op : CmpOp) (l r : PNode)
  | boolop (op : BoolOp) (l r : PNode)
  | concat (l r : PNode)
  | sort (expr : PNode) (terms : List (SortDir × PNode))
  | apply (l r : PNode)
  -- interim nodes (unexported in Go)
  | dot (l r : PNode)
  | singleton (l : PNode)
  | predRaw (l r : PNode)
  deriving Inhabited

structure PState where
  lex : LState
  tok : Token
  deriving Inhabited

abbrev PM (α : Type) := Except PErr (α × PState)

def tokErr (typ : String) (t : Token) (hint : String := "") : PErr :=
  { type := typ, lo := t.lo, hi := t.hi, position := t.position, hint := hint }

def tokValue (inp : Input) (t : Token) : String := t.pre ++ bytesToString inp t.lo t.hi

/-- parser.advance -/
def advance (inp : Input) (allowRegex : Bool) (p : PState) : Except PErr PState :=
  match next inp allowRegex p.lex with
  | .ok (t, l) => .ok { lex := l, tok := t }
  | .error e => .error e

/-- parser.consume -/
def consume (inp : Input) (expected : Tok) (allowRegex : Bool) (p : PState) : Except PErr PState :=
  if p.tok.type != expected then
    .error (tokErr (if p.tok.type == .eof then "ErrMissingToken" else "ErrUnexpectedToken") p.tok expected.goName)
  else advance inp allowRegex p

/-! ### escapes (node.go unescape / decodeRunes / parseRune) -/

def hexDigitVal (c : Char) : Option Nat :=
  if c.toNat ≥ 48 && c.toNat ≤ 57 then some (c.toNat - 48)
  else if c.toNat ≥ 97 && c.toNat ≤ 102 then some (c.toNat - 87)
  else if c.toNat ≥ 65 && c.toNat ≤ 70 then some (c.toNat - 55)
  else none

/-- node.go parseRune on exactly the given characters (−1 ↦ none) -/
def parseRune (hex : List Char) : Option Nat :=
  if hex.isEmpty then none
  else hex.foldlM (fun acc c => (hexDigitVal c).map (acc * 16 + ·)) 0

/-- node.go decodeRunes: the next `n` runes, padded with U+FFFD -/
def decodeRunes (s : List Char) (n : Nat) : List Char × List Char :=
  let taken := s.take n
  (taken ++ List.replicate (n - taken.length) '�', s.drop n)

def jsonEscape (c : Char) : Option Char :=
  if c == '"' then some '"' else if c == '\\' then some '\\' else if c == '/' then some '/'
  else if c == 'b' then some '\x08' else if c == 'f' then some '\x0c' else if c == 'n' then some '\n'
  else if c == 'r' then some '\r' else if c == 't' then some '\t' else none

def isSurrogate (r : Nat) : Bool := r ≥ 0xD800 && r ≤ 0xDFFF
def validRune (r : Nat) : Bool := (r < 0xD800) || (r > 0xDFFF && r ≤ 0x10FFFF)

/-- utf16.DecodeRune -/
def decodeSurrogates (r1 r2 : Nat) : Option Nat :=
  if r1 ≥ 0xD800 && r1 < 0xDC00 && r2 ≥ 0xDC00 && r2 < 0xE000
  then some ((r1 - 0xD800) * 1024 + (r2 - 0xDC00) + 0x10000) else none

/-- node.go unescape: `.ok s` or `.error hint` (the invalid escape sequence) -/
def unescape : Nat → List Char → Except String (List Char)
  | 0, s => .ok s
  | fuel + 1, s =>
    match s with
    | [] => .ok []
    | '\\' :: rest =>
      match rest with
      | [] => .error (String.ofList ['�'])     -- DecodeRuneInString("") = RuneError
      | esc :: rest1 =>
        match jsonEscape esc with
        | some c => (unescape fuel rest1).map (c :: ·)
        | none =>
          if esc == 'u' then
            let (hex, rest2) := decodeRunes rest1 4
            match parseRune hex with
            | none => .error (String.ofList ('u' :: hex))
            | some r =>
              if validRune r then (unescape fuel rest2).map (Char.ofNat r :: ·)
              else if isSurrogate r then
                let (hex2, rest3) := decodeRunes rest2 6
                match hex2 with
                | '\\' :: 'u' :: h2 =>
                  match parseRune h2 with
                  | some r2 =>
                    match decodeSurrogates r r2 with
                    | some rr => (unescape fuel rest3).map (Char.ofNat rr :: ·)
                    | none => .error (String.ofList ('u' :: hex))
                  | none => .error (String.ofList ('u' :: hex))
                | _ => .error (String.ofList ('u' :: hex))
              else .error (String.ofList ('u' :: hex))
          else .error (String.ofList [esc])
    | c :: rest => (unescape fuel rest).map (c :: ·)

/-! ### signatures (node.go parseParams / getBracketedString) -/

def paramTypeOf (c : Char) : Option Nat :=
  if c == 'n' then some ptNumber else if c == 's' then some ptString else if c == 'b' then some ptBool
  else if c == 'l' then some ptNull else if c == 'a' then some ptArray else if c == 'o' then some ptObject
  else if c == 'f' then some ptFunc else if c == 'j' then some ptJSON else if c == 'x' then some ptAny
  else none

def paramOptOf (c : Char) : Option ParamOpt :=
  if c == '?' then some .optional else if c == '+' then some .variadic else if c == '-' then some .contextable
  else none

/-- node.go getBracketedString: the text between the opening bracket at the start of `s` and
    its matching closing bracket -/
def getBracketed (s : List Char) (open_ close : Char) : Option (List Char) :=
  match s with
  | [] => none
  | c :: rest =>
    if c != open_ then none
    else
      let rec go : List Char → Nat → List Char → Option (List Char)
        | [], _, _ => none
        | d :: ds, depth, acc =>
          if d == open_ then go ds (depth + 1) (d :: acc)
          else if d == close then
            if depth == 1 then some acc.reverse else go ds (depth - 1) (d :: acc)
          else go ds depth (d :: acc)
      go rest 1 []

def bitOr (a b : Nat) : Nat := a ||| b

def setLastOpt (ps : List Param) (o : ParamOpt) : List Param :=
  match ps.reverse with
  | [] => []
  | p :: rest => (.mk p.ty o p.subs :: rest).reverse

def setLastSubs (ps : List Param) (subs : List Param) : List Param :=
  match ps.reverse with
  | [] => []
  | p :: rest => (.mk p.ty p.opt subs :: rest).reverse

def paramTypeString (t : Nat) : String :=
  let s := (if hasBitP t ptNumber then "n" else "") ++ (if hasBitP t ptString then "s" else "") ++
    (if hasBitP t ptBool then "b" else "") ++ (if hasBitP t ptNull then "l" else "") ++
    (if hasBitP t ptArray then "a" else "") ++ (if hasBitP t ptObject then "o" else "") ++
    (if hasBitP t ptFunc then "f" else "") ++ (if hasBitP t ptJSON then "j" else "") ++
    (if hasBitP t ptAny then "x" else "")
  if s.length > 1 then "(" ++ s ++ ")" else s
where hasBitP (t b : Nat) : Bool := (t / b) % 2 == 1

/-- node.go parseParams -/
def parseParams : Nat → List Char → List Param → Except PErr (List Param)
  | 0, _, ps => .ok ps
  | fuel + 1, s, ps =>
    match s with
    | [] => .ok ps
    | r :: rest =>
      if r == ':' then .ok ps
      else match paramTypeOf r with
      | some t => parseParams fuel rest (ps ++ [.mk t .none_ []])
      | none =>
        if r == '(' then
          match getBracketed s '(' ')' with
          | none => .error { type := "ErrInvalidUnionType", hint := String.ofList s }
          | some part =>
            let rec types : List Char → Nat → Except PErr Nat
              | [], acc => .ok acc
              | c :: cs, acc => match paramTypeOf c with
                | some t => types cs (bitOr acc t)
                | none => .error { type := "ErrInvalidUnionType", hint := String.ofList [c] }
            match types part 0 with
            | .error e => .error e
            | .ok t => parseParams fuel (s.drop (part.length + 2)) (ps ++ [.mk t .none_ []])
        else match paramOptOf r with
        | some o =>
          if ps.isEmpty then .error { type := "ErrUnmatchedOption", hint := String.ofList [r] }
          else parseParams fuel rest (setLastOpt ps o)
        | none =>
          if r == '<' then
            match ps.getLast? with
            | none => .error { type := "ErrUnmatchedSubtype" }
            | some lastP =>
              if lastP.ty != ptArray && lastP.ty != ptFunc then
                .error { type := "ErrInvalidSubtype", hint := paramTypeString lastP.ty }
              else match getBracketed s '<' '>' with
                | none => .error { type := "ErrUnmatchedSubtype" }
                | some part =>
                  match parseParams fuel part [] with
                  | .error e => .error e
                  | .ok sub => parseParams fuel (s.drop (part.length + 2)) (setLastSubs ps sub)
          else .error { type := "ErrInvalidParamType", hint := String.ofList [r] }

/-! ### the Pratt parser -/

def numOpOfTok : Tok → Option NumOp
  | .plus => some .add | .minus => some .sub | .mult => some .mul | .div => some .div | .mod => some .mod
  | _ => none

def cmpOpOfTok : Tok → Option CmpOp
  | .equal => some .eq | .notEqual => some .ne | .less => some .lt | .lessEqual => some .le
  | .greater => some .gt | .greaterEqual => some .ge | .in_ => some .in_
  | _ => none

/-- the text a node prints as (node.go String methods), needed for error hints only -/
def hintOf : PNode → String
  | _ => ""

/-- a comma-separated list `item (, item)* close` with the first token already checked -/
def parseList (inp : Input) : Nat → (PState → Except PErr (PNode × PState)) → PState → Except PErr (List PNode × PState)
  | 0, _, p => .error (tokErr "fuel" p.tok)
  | n + 1, item, p => do
    let (x, p1) ← item p
    if p1.tok.type != .comma then .ok ([x], p1)
    else do
      let p2 ← consume inp .comma true p1
      let (xs, p3) ← parseList inp n item p2
      .ok (x :: xs, p3)

def parsePairs (inp : Input) (pe : Nat → PState → Except PErr (PNode × PState)) : Nat → PState → Except PErr (List (PNode × PNode) × PState)
  | 0, p => .error (tokErr "fuel" p.tok)
  | n + 1, p => do
    let (k, p1) ← pe 0 p
    let p2 ← consume inp .colon true p1
    let (v, p3) ← pe 0 p2
    if p3.tok.type != .comma then .ok ([(k, v)], p3)
    else do
      let p4 ← consume inp .comma true p3
      let (rest, p5) ← parsePairs inp pe n p4
      .ok ((k, v) :: rest, p5)

def parseBlockExprs (inp : Input) (pe : Nat → PState → Except PErr (PNode × PState)) : Nat → PState → Except PErr (List PNode × PState)
  | 0, p => .error (tokErr "fuel" p.tok)
  | n + 1, p =>
    if p.tok.type == .parenClose then .ok ([], p)
    else do
      let (e, p1) ← pe 0 p
      if p1.tok.type != .semicolon then .ok ([e], p1)
      else do
        let p2 ← consume inp .semicolon true p1
        let (es, p3) ← parseBlockExprs inp pe n p2
        .ok (e :: es, p3)

def parseSortTerms (inp : Input) (pe : Nat → PState → Except PErr (PNode × PState)) : Nat → PState → Except PErr (List (SortDir × PNode) × PState)
  | 0, p => .error (tokErr "fuel" p.tok)
  | n + 1, p => do
    let (dir, p1) ← (match p.tok.type with
      | .less => do let q ← consume inp .less true p; pure (SortDir.asc, q)
      | .greater => do let q ← consume inp .greater true p; pure (SortDir.desc, q)
      | _ => pure (SortDir.default_, p) : Except PErr (SortDir × PState))
    let (e, p2) ← pe 0 p1
    if p2.tok.type != .comma then .ok ([(dir, e)], p2)
    else do
      let p3 ← consume inp .comma true p2
      let (ts, p4) ← parseSortTerms inp pe n p3
      .ok ((dir, e) :: ts, p4)

/-- function-call arguments with placeholders -/
def parseArgs (inp : Input) (pe : Nat → PState → Except PErr (PNode × PState)) : Nat → PState → Except PErr (List PNode × Bool × PState)
  | 0, p => .error (tokErr "fuel" p.tok)
  | n + 1, p => do
    let (arg, isPh, p1) ← (if p.tok.type == .condition then do
        let q ← consume inp .condition true p
        pure (PNode.placeholder, true, q)
      else do
        let (a, q) ← pe 0 p
        pure (a, false, q) : Except PErr (PNode × Bool × PState))
    if p1.tok.type != .comma then .ok ([arg], isPh, p1)
    else do
      let p2 ← consume inp .comma true p1
      let (rest, ph2, p3) ← parseArgs inp pe n p2
      .ok (arg :: rest, isPh || ph2, p3)

/-- extractParamNames -/
def parseParamNames (inp : Input) (pe : Nat → PState → Except PErr (PNode × PState)) : Nat → Token → List String → PState → Except PErr (List String × PState)
  | 0, _, _, p => .error (tokErr "fuel" p.tok)
  | n + 1, currTok, used, p => do
    let (arg, p1) ← pe 0 p
    match arg with
    | .var name =>
      if used.contains name then .error (tokErr "ErrDuplicateParam" currTok)
      else if p1.tok.type != .comma then .ok ([name], p1)
      else do
        let p2 ← consume inp .comma true p1
        let (rest, p3) ← parseParamNames inp pe n p2.tok (name :: used) p2
        .ok (name :: rest, p3)
    | _ => .error (tokErr "ErrIllegalParam" currTok)

/-- extractSignature: collect token values up to the matching `>` -/
def sigLoop (inp : Input) : Nat → Nat → String → PState → Except PErr (String × PState)
  | 0, _, _, p => .error (tokErr "fuel" p.tok)
  | n + 1, depth, sig, p =>
    if p.tok.type == .braceOpen || p.tok.type == .eof then .ok (sig, p)
    else do
      let p1 ← advance inp true p
      match p1.tok.type with
      | .greater =>
        if depth == 1 then .ok (sig, p1)
        else sigLoop inp n (depth - 1) (sig ++ tokValue inp p1.tok) p1
      | .less => sigLoop inp n (depth + 1) (sig ++ tokValue inp p1.tok) p1
      | _ => sigLoop inp n depth (sig ++ tokValue inp p1.tok) p1

/-- null denotations -/
def nud (inp : Input) (pe : Nat → PState → Except PErr (PNode × PState)) (t : Token) (p : PState) : Except PErr (PNode × PState) :=
  match t.type with
  | .string =>
    let raw := (bytesToString inp t.lo t.hi).toList
    match unescape (raw.length + 1) raw with
    | .ok s => .ok (.str (String.ofList s), p)
    | .error hint =>
      .error (tokErr (if hint.toList.head? == some 'u' then "ErrIllegalEscapeHex" else "ErrIllegalEscape") t hint)
  | .number =>
    match Decimal.parseFloat (bytesToString inp t.lo t.hi).toList with
    | .ok x => .ok (.num x, p)
    | .rangeErr => .error (tokErr "ErrNumberRange" t)
    | .syntaxErr => .error (tokErr "ErrInvalidNumber" t)
  | .boolean => .ok (.bool (bytesToString inp t.lo t.hi == "true"), p)
  | .null => .ok (.null, p)
  | .regex =>
    let v := tokValue inp t
    if v == "" then .error (tokErr "ErrEmptyRegex" t) else .ok (.regex v, p)
  | .variable => .ok (.var (bytesToString inp t.lo t.hi), p)
  | .name | .nameEsc | .in_ | .and_ | .or_ => .ok (.name (bytesToString inp t.lo t.hi), p)
  | .bracketOpen =>
    -- parseArray
    if p.tok.type == .bracketClose then do
      let p1 ← consume inp .bracketClose false p
      .ok (.array [], p1)
    else do
      let item (q : PState) : Except PErr (PNode × PState) := do
        let (x, q1) ← pe 0 q
        if q1.tok.type == .range then do
          let q2 ← consume inp .range true q1
          let (y, q3) ← pe 0 q2
          .ok (.range x y, q3)
        else .ok (x, q1)
      let (items, p1) ← parseList inp (inp.size + 2) item p
      let p2 ← consume inp .bracketClose false p1
      .ok (.array items, p2)
  | .braceOpen =>
    if p.tok.type == .braceClose then do
      let p1 ← consume inp .braceClose false p
      .ok (.object [], p1)
    else do
      let (pairs, p1) ← parsePairs inp pe (inp.size + 2) p
      let p2 ← consume inp .braceClose false p1
      .ok (.object pairs, p2)
  | .parenOpen => do
    let (exprs, p1) ← parseBlockExprs inp pe (inp.size + 2) p
    let p2 ← consume inp .parenClose false p1
    .ok (.block exprs, p2)
  | .mult => .ok (.wildcard, p)
  | .descendent => .ok (.descendent, p)
  | .minus => do
    -- the operand of a unary minus is parsed above the binary operators, below the postfix brackets and the dot
    let (rhs, p1) ← pe (bp .braceOpen) p
    .ok (.neg rhs, p1)
  | .pipe => do
    let (pat, p1) ← pe 0 p
    let p2 ← consume inp .pipe true p1
    let (upd, p3) ← pe 0 p2
    if p3.tok.type == .comma then do
      let p4 ← consume inp .comma true p3
      let (del, p5) ← pe 0 p4
      let p6 ← consume inp .pipe false p5
      .ok (.transform pat upd (some del), p6)
    else do
      let p4 ← consume inp .pipe false p3
      .ok (.transform pat upd none, p4)
  | _ => .error (tokErr "ErrPrefix" t)

/-- left denotations -/
def led (inp : Input) (pe : Nat → PState → Except PErr (PNode × PState)) (t : Token) (lhs : PNode) (p : PState) : Except PErr (PNode × PState) :=
  match t.type with
  | .parenOpen =>
    let isLambda : Bool := match lhs with
      | .name v => v == "function" || v == "λ"
      | _ => false
    if isLambda then do
      -- parseLambdaDefinition
      let (names, p1) ← (if p.tok.type == .parenClose then pure ([], p)
        else parseParamNames inp pe (inp.size + 2) p.tok [] p : Except PErr (List String × PState))
      let p2 ← consume inp .parenClose false p1
      let (sig, p3) ← (if p2.tok.type != .less then pure (none, p2) else do
          let (s, q) ← sigLoop inp (inp.size + 2) 1 "" p2
          let q1 ← consume inp .greater true q
          pure (some s, q1) : Except PErr (Option String × PState))
      let params ← (match sig with
        | none => pure none
        | some s =>
          match parseParams (s.length + 1) s.toList [] with
          | .error e => .error e
          | .ok ps =>
            if ps.length != names.length then .error (tokErr "ErrParamCount" p3.tok) else pure (some ps)
        : Except PErr (Option (List Param)))
      let p4 ← consume inp .braceOpen true p3
      let (body, p5) ← pe 0 p4
      let p6 ← consume inp .braceClose false p5
      .ok (.lambda names params body, p6)
    else if p.tok.type == .parenClose then do
      let p1 ← consume inp .parenClose false p
      .ok (.call lhs [], p1)
    else do
      let (args, isPartial, p1) ← parseArgs inp pe (inp.size + 2) p
      let p2 ← consume inp .parenClose false p1
      .ok (if isPartial then .partial_ lhs args else .call lhs args, p2)
  | .bracketOpen =>
    if p.tok.type == .bracketClose then do
      let p1 ← consume inp .bracketClose false p
      .ok (.singleton lhs, p1)
    else do
      let (rhs, p1) ← pe 0 p
      let p2 ← consume inp .bracketClose false p1
      .ok (.predRaw lhs rhs, p2)
  | .braceOpen =>
    if p.tok.type == .braceClose then do
      let p1 ← consume inp .braceClose false p
      .ok (.group lhs [], p1)
    else do
      let (pairs, p1) ← parsePairs inp pe (inp.size + 2) p
      let p2 ← consume inp .braceClose false p1
      .ok (.group lhs pairs, p2)
  | .condition => do
    let (thn, p1) ← pe 0 p
    if p1.tok.type == .colon then do
      let p2 ← consume inp .colon true p1
      let (els, p3) ← pe 0 p2
      .ok (.cond lhs thn (some els), p3)
    else .ok (.cond lhs thn none, p1)
  | .assign =>
    match lhs with
    | .var name => do
      let (v, p1) ← pe (bp .assign - 1) p
      .ok (.assign name v, p1)
    | _ => .error (tokErr "ErrIllegalAssignment" t (hintOf lhs))
  | .apply => do
    let (rhs, p1) ← pe (bp .apply) p
    .ok (.apply lhs rhs, p1)
  | .concat => do
    let (rhs, p1) ← pe (bp .concat) p
    .ok (.concat lhs rhs, p1)
  | .sort => do
    let p1 ← consume inp .parenOpen true p
    let (terms, p2) ← parseSortTerms inp pe (inp.size + 2) p1
    let p3 ← consume inp .parenClose false p2
    .ok (.sort lhs terms, p3)
  | .dot => do
    let (rhs, p1) ← pe (bp .dot) p
    .ok (.dot lhs rhs, p1)
  | .and_ => do
    let (rhs, p1) ← pe (bp .and_) p
    .ok (.boolop .and_ lhs rhs, p1)
  | .or_ => do
    let (rhs, p1) ← pe (bp .or_) p
    .ok (.boolop .or_ lhs rhs, p1)
  | tt =>
    match numOpOfTok tt, cmpOpOfTok tt with
    | some op, _ => do
      let (rhs, p1) ← pe (bp tt) p
      .ok (.numop op lhs rhs, p1)
    | none, some op => do
      let (rhs, p1) ← pe (bp tt) p
      .ok (.cmpop op lhs rhs, p1)
    | none, none => .error (tokErr "ErrInfix" t)
/-- the `for rbp < bp(token)` loop -/
def ledLoop (inp : Input) (pe : Nat → PState → Except PErr (PNode × PState)) :
    Nat → Nat → PNode → PState → Except PErr (PNode × PState)
  | 0, _, _, p => .error (tokErr "fuel" p.tok)
  | n + 1, rbp, lhs, p =>
    if rbp < bp p.tok.type then do
      let t := p.tok
      let p1 ← advance inp true p
      let (lhs', p2) ← led inp pe t lhs p1
      ledLoop inp pe n rbp lhs' p2
    else .ok (lhs, p)

/-- jparse.go `tokenType.opensOperand`: a token in prefix position after which an operand must follow (an
    opening bracket, unary minus, the opening pipe of a transform); a slash after it starts a regular expression -/
def opensOperand : Tok → Bool
  | .parenOpen | .bracketOpen | .braceOpen | .minus | .pipe => true
  | _ => false

/-- parser.parseExpression -/
def parseExpr (inp : Input) : Nat → Nat → PState → Except PErr (PNode × PState)
  | 0, _, p => .error (tokErr "fuel" p.tok)
  | fuel + 1, rbp, p => do
    if p.tok.type == .eof then .error (tokErr "ErrUnexpectedEOF" p.tok)
    let t := p.tok
    let p1 ← advance inp (opensOperand t.type) p
    let (lhs, p2) ← nud inp (parseExpr inp fuel) t p1
    ledLoop inp (parseExpr inp fuel) (inp.size + 2) rbp lhs p2

/-! ### optimize (node.go *.optimize) -/

def isLiteralNode : Node Float → Bool
  | .num _ | .str _ | .bool _ | .null => true
  | _ => false

mutual
/-- dotNode / predicateNode / singletonArrayNode / NameNode / NegationNode / GroupNode rewrites -/
def optimize : PNode → Except PErr (Node Float)
  | .str s => .ok (.str s)
  | .num x => .ok (.num x)
  | .bool b => .ok (.bool b)
  | .null => .ok .null
  | .regex p => .ok (.regex p [])
  | .var n => .ok (.var n)
  | .name v => .ok (.path [.name v] false)
  | .neg rhs => do
    let r ← optimize rhs
    match r with
    | .num x => .ok (.num (-x))
    | _ => .ok (.neg r)
  | .range l r => do .ok (.range (← optimize l) (← optimize r))
  | .array items => do .ok (.array (← optimizeL items))
  | .object pairs => do
    .ok (.object (← optimizeP pairs))
  | .block exprs => do .ok (.block (← optimizeL exprs))
  | .wildcard => .ok .wildcard
  | .descendent => .ok .descendent
  | .transform p u d => do
    let p' ← optimize p
    let u' ← optimize u
    match d with
    | none => .ok (.transform p' u' none)
    | some dn => do .ok (.transform p' u' (some (← optimize dn)))
  | .lambda ps sig body => do
    let b ← optimize body
    match sig with
    | none => .ok (.lambda ps b)
    | some s => .ok (.typedLambda ps s b)
  | .partial_ f args => do .ok (.partial_ (← optimize f) (← optimizeL args))
  | .placeholder => .ok .placeholder
  | .call f args => do .ok (.call (← optimize f) (← optimizeL args))
  | .group e pairs => do
    let e' ← optimize e
    match e' with
    | .group _ _ => .error { type := "ErrGroupGroup" }
    | _ => do
      let ps ← optimizeP pairs
      .ok (.group e' ps)
  | .cond c t e => do
    let c' ← optimize c
    let t' ← optimize t
    match e with
    | none => .ok (.cond c' t' none)
    | some en => do .ok (.cond c' t' (some (← optimize en)))
  | .assign n v => do .ok (.assign n (← optimize v))
  | .numop op l r => do .ok (.numop op (← optimize l) (← optimize r))
  | .cmpop op l r => do .ok (.cmpop op (← optimize l) (← optimize r))
  | .boolop op l r => do .ok (.boolop op (← optimize l) (← optimize r))
  | .concat l r => do .ok (.concat (← optimize l) (← optimize r))
  | .sort e terms => do
    let e' ← optimize e
    let ts ← optimizeT terms
    .ok (.sort e' ts)
  | .apply l r => do .ok (.apply (← optimize l) (← optimize r))
  | .dot l r => do
    let l' ← optimize l
    if isLiteralNode l' then .error { type := "ErrPathLiteral" }
    let (steps1, keep1) : List (Node Float) × Bool := match l' with
      | .path steps keep => (steps, keep)
      | n => ([n], false)
    let r' ← optimize r
    if isLiteralNode r' then .error { type := "ErrPathLiteral" }
    match r' with
    | .path steps keep => .ok (.path (steps1 ++ steps) (keep1 || keep))
    | n => .ok (.path (steps1 ++ [n]) keep1)
  | .singleton l => do
    let l' ← optimize l
    match l' with
    | .path steps _ => .ok (.path steps true)
    | n => .ok (.path [n] true)
  | .predRaw l r => do
    let l' ← optimize l
    let r' ← optimize r
    match l' with
    | .group _ _ => .error { type := "ErrGroupPredicate" }
    | .path steps keep =>
      match steps.reverse with
      | [] => .ok (.predicate l' [r'])
      | last :: initRev =>
        match last with
        | .predicate e filters => .ok (.path (initRev.reverse ++ [.predicate e (filters ++ [r'])]) keep)
        | _ => .ok (.path (initRev.reverse ++ [.predicate last [r']]) keep)
    | n => .ok (.predicate n [r'])

/-- `mapM optimize` over a list of nodes (first error wins), written out so that the recursion is structural -/
def optimizeL : List PNode → Except PErr (List (Node Float))
  | [] => .ok []
  | x :: xs => do
    let y ← optimize x
    let ys ← optimizeL xs
    .ok (y :: ys)

def optimizeP : List (PNode × PNode) → Except PErr (List (Node Float × Node Float))
  | [] => .ok []
  | (k, v) :: rest => do
    let k' ← optimize k
    let v' ← optimize v
    let r ← optimizeP rest
    .ok ((k', v') :: r)

def optimizeT : List (SortDir × PNode) → Except PErr (List (SortDir × Node Float))
  | [] => .ok []
  | (d, x) :: rest => do
    let x' ← optimize x
    let r ← optimizeT rest
    .ok ((d, x') :: r)
end

/-- jparse.Parse -/
def parse (inp : Input) : Except PErr (Node Float) := do
  let fuel := 2 * inp.size + 8
  let p0 ← advance inp true { lex := initState, tok := default }
  let (node, p) ← parseExpr inp fuel 0 p0
  if p.tok.type != .eof then .error (tokErr "ErrSyntaxError" p.tok)
  optimize node

end Jsonata.Parse
