/-
  Model/Strings.lean — jlib/string.go on code-point lists (`List Char`).

  Go strings are byte strings; the functions below are the repo's algorithms with
  `utf8.RuneCountInString` / `positionOfNthRune` / `strings.Index` … replaced by
  their meaning on the code-point list of a valid UTF-8 string (the stdlib
  contracts recorded in DESIGN.md §5).  Integer parameters are unbounded `Int`.
-/
namespace Jsonata.Str

abbrev S := List Char

/-- jlib.Substring(s, start, length?) — transliteration, including its early exits. -/
def substring (s : S) (start : Int) (length : Option Int) : S :=
  let n : Int := s.length
  if (match length with | some l => l ≤ 0 | none => false) || start ≥ n then []
  else
    let start := if start < 0 then start + n else start
    -- `if start > 0 { s = s[positionOfNthRune(s, start):] }`
    let s1 := if start > 0 then s.drop start.toNat else s
    match length with
    | some l => if l < (s1.length : Int) then s1.take l.toNat else s1
    | none => s1

/-- first index at which `pat` occurs in `s` (strings.Index on code points) -/
def indexOf (pat : S) : S → Option Nat
  | [] => if pat.isEmpty then some 0 else none
  | c :: cs =>
    if pat.isPrefixOf (c :: cs) then some 0
    else (indexOf pat cs).map (· + 1)

def substringBefore (s sep : S) : S :=
  match indexOf sep s with
  | some i => s.take i
  | none => s

def substringAfter (s sep : S) : S :=
  match indexOf sep s with
  | some i => s.drop (i + sep.length)
  | none => s

def contains (s pat : S) : Bool := (indexOf pat s).isSome

/-- the first `n` items of the infinite repetition of `ch` (strings.Repeat then cut) -/
def cycle (ch : S) : Nat → S
  | n => ((List.replicate n ch).flatten).take n

/-- the pad string of jlib.Pad: a space when absent or empty -/
def padChars : Option S → S
  | some c => if c.isEmpty then [' '] else c
  | none => [' ']

/-- jlib.Pad(s, width, chars?) -/
def pad (s : S) (width : Int) (chars : Option S) : S :=
  let padlen : Int := width.natAbs - s.length
  if padlen ≤ 0 then s
  else
    let padding := cycle (padChars chars) padlen.toNat
    if width < 0 then padding ++ s else s ++ padding

/-- strings.Split(s, sep) for a non-empty separator, with an accumulator for the current part -/
def splitGo (sep : S) : Nat → S → S → List S
  | 0, cur, _ => [cur.reverse]
  | fuel + 1, cur, rest =>
    match rest with
    | [] => [cur.reverse]
    | c :: cs =>
      if sep.isPrefixOf (c :: cs) then cur.reverse :: splitGo sep fuel [] ((c :: cs).drop sep.length)
      else splitGo sep fuel (c :: cur) cs

/-- strings.Split: exhaustive split; an empty separator splits per code point. -/
def split (s sep : S) : List S :=
  if sep.isEmpty then s.map (fun c => [c])
  else splitGo sep (s.length + 1) [] s

def applyLimit {α} (parts : List α) (limit : Option Int) : List α :=
  match limit with
  | some l => if l < (parts.length : Int) then parts.take l.toNat else parts
  | none => parts

def join (parts : List S) (sep : S) : S :=
  match parts with
  | [] => []
  | p :: ps => p ++ (ps.map (fun q => sep ++ q)).flatten

/-- strings.Replace(src, pat, repl, limit) for a non-empty pattern (limit < 0: all) -/
def replaceGo (pat repl : S) : Nat → Int → S → S
  | 0, _, rest => rest
  | fuel + 1, limit, rest =>
    if limit == 0 then rest
    else match rest with
      | [] => []
      | c :: cs =>
        if pat.isPrefixOf (c :: cs) then repl ++ replaceGo pat repl fuel (limit - 1) ((c :: cs).drop pat.length)
        else c :: replaceGo pat repl fuel limit cs

def replace (src pat repl : S) (limit : Int) : S :=
  replaceGo pat repl (src.length + 1) limit src

/-- RE2 `\s`: [\t\n\f\r ] -/
def isReSpace (c : Char) : Bool :=
  c == ' ' || c == '\t' || c == '\n' || c == '\x0c' || c == '\r'

/-- unicode.IsSpace restricted to Latin-1 plus the common Unicode spaces -/
def isUniSpace (c : Char) : Bool :=
  isReSpace c || c == '\x0b' || c == '\u0085' || c == ' ' || c == ' ' ||
  (c.toNat ≥ 0x2000 && c.toNat ≤ 0x200a) || c == ' ' || c == ' ' ||
  c == ' ' || c == ' ' || c == '　'

/-- `reWhitespace.ReplaceAllString(s, " ")`: every maximal run of `\s` becomes one space
    (`inRun`: the previous character belonged to a run already replaced). -/
def collapseWsAux : Bool → S → S
  | _, [] => []
  | inRun, c :: cs =>
    if isReSpace c then
      if inRun then collapseWsAux true cs else ' ' :: collapseWsAux true cs
    else c :: collapseWsAux false cs

def collapseWs (s : S) : S := collapseWsAux false s

def trimSpace (s : S) : S :=
  ((s.dropWhile isUniSpace).reverse.dropWhile isUniSpace).reverse

def trim (s : S) : S := trimSpace (collapseWs s)

end Jsonata.Str
