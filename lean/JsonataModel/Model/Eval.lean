/-
  Model/Eval.lean — the tree-walking evaluator of eval.go, transliterated.

  Every function of eval.go that recurses into `eval` is written here as a
  *component* that takes the recursive evaluator as a parameter (`Rec`): the
  theorems about paths, predicates, grouping, sorting … therefore hold for
  whatever the steps / predicates / keys evaluate to.  `Model/Interp.lean` ties
  the knot with fuel.
-/
import JsonataModel.Model.Values

namespace Jsonata
open NumSys

variable {N : Type}

/-- The recursive calls a component may make. -/
structure Rec (N : Type) where
  /-- eval.go `eval node input env` -/
  ev : Node N → Option (Val N) → Nat → EvalM N (Option (Val N))
  /-- `Callable.Call(argv)` for a function value; `ctx` is the context item the
      call site supplies to a built-in (`some data` from evalFunctionCall). -/
  call : Val N → Option (Option (Val N)) → List (Option (Val N)) → EvalM N (Option (Val N))

/-! ### environment (env.go) -/

def newFrame (parent : Nat) : EvalM N Nat := do
  let s ← get
  set ({ frames := s.frames.push { parent := some parent, syms := [] } } : Store N)
  return s.frames.size

/-- Go map assignment on a frame's symbol table: replace in place or add -/
def bindSyms (syms : List (String × Option (Val N))) (name : String) (v : Option (Val N)) :
    List (String × Option (Val N)) :=
  if syms.any (fun p => p.1 == name) then syms.map (fun p => if p.1 == name then (name, v) else p)
  else (name, v) :: syms

/-- env.go `bind` -/
def bindVar (env : Nat) (name : String) (v : Option (Val N)) : EvalM N Unit := fun s =>
  .ok ((), match s.frames[env]? with
    | some fr => { frames := s.frames.set! env { fr with syms := bindSyms fr.syms name v } }
    | none => s)

/-- env.go `lookup`, walking the scope chain; `fuel` bounds the chain length
    (the chain is acyclic: a frame's parent always has a smaller index). -/
def lookupIn (frames : Array (Frame N)) : Nat → Nat → String → Option (Option (Val N))
  | 0, _, _ => none
  | fuel + 1, env, name =>
    match frames[env]? with
    | none => none
    | some fr =>
      match fr.syms.find? (fun p => p.1 == name) with
      | some p => some p.2
      | none =>
        match fr.parent with
        | some p => lookupIn frames fuel p name
        | none => none

/-- Names bound in the process-wide base environment (env.go `baseEnv`). -/
def builtinNames : List String :=
  ["string", "length", "substring", "substringBefore", "substringAfter", "uppercase",
   "lowercase", "pad", "trim", "contains", "split", "join", "match", "replace",
   "formatNumber", "formatBase", "base64encode", "base64decode", "decodeUrl",
   "decodeUrlComponent", "encodeUrl", "encodeUrlComponent", "number", "abs", "floor",
   "ceil", "round", "power", "sqrt", "random", "sum", "max", "min", "average", "boolean",
   "not", "exists", "distinct", "count", "reverse", "sort", "shuffle", "zip", "append",
   "map", "filter", "reduce", "single", "each", "sift", "keys", "lookup", "spread", "merge",
   "fromMillis", "toMillis", "type", "error"]

def lookupVar (env : Nat) (name : String) : EvalM N (Option (Val N)) := do
  let s ← get
  match lookupIn s.frames (s.frames.size + 1) env name with
  | some v => return v
  | none =>
    if builtinNames.contains name then return some (.builtin name)
    else if name == "millis" || name == "now" then throw (.unsupported "clock")
    else return none

def liftE {α : Type} (x : Except Err α) : EvalM N α :=
  match x with
  | .ok a => pure a
  | .error e => throw e

section
variable [NumSys N]

/-! ### names, wildcards, descendants -/

mutual
/-- eval.go `evalName` / `evalNameArray` on a defined value: the list of member
    values selected by field `k` (an array context contributes its members,
    recursively). -/
def fieldItems (k : String) : Val N → List (Val N)
  | .obj kvs => (objGet kvs k).toList
  | .arr xs => fieldItemsL k xs
  | _ => []
def fieldItemsL (k : String) : List (Val N) → List (Val N)
  | [] => []
  | x :: xs => fieldItems k x ++ fieldItemsL k xs
end

/-- `evalName` as seen through `eval`: an object yields the member itself, an
    array yields the collapsed sequence of its members' members. -/
def evalName (k : String) : Option (Val N) → Option (Val N)
  | some (.obj kvs) => objGet kvs k
  | some (.arr xs) => seqValue (fieldItemsL k xs) false
  | _ => none

mutual
/-- eval.go `flattenArray` -/
def flattenArr : Val N → List (Val N)
  | .arr xs => flattenArrL xs
  | v => [v]
def flattenArrL : List (Val N) → List (Val N)
  | [] => []
  | x :: xs => flattenArr x ++ flattenArrL xs
end

/-- eval.go `walkObjectValues` (function values are atoms). -/
def childValues : Val N → List (Val N)
  | .arr xs => xs
  | .obj kvs => kvs.map (·.2)
  | _ => []

/-- eval.go `evalWildcard` + `appendWildcard`. -/
def evalWildcard : Option (Val N) → Option (Val N)
  | none => none
  | some v => seqValue ((childValues v).flatMap flattenArr) false

mutual
/-- eval.go `recurseDescendents` -/
def descendants : Val N → List (Val N)
  | .arr xs => descendantsL xs
  | .obj kvs => Val.obj kvs :: descendantsKV kvs
  | v => [v]
def descendantsL : List (Val N) → List (Val N)
  | [] => []
  | x :: xs => descendants x ++ descendantsL xs
def descendantsKV : List (String × Val N) → List (Val N)
  | [] => []
  | (_, v) :: kvs => descendants v ++ descendantsKV kvs
end

def evalDescendent : Option (Val N) → Option (Val N)
  | none => none
  | some v => seqValue (descendants v) false

/-! ### paths -/

/-- eval.go `startsWithVariable`: a variable, possibly filtered by predicates or sorted -/
def startsWithVar : Node N → Bool
  | .var _ => true
  | .predicate e _ => startsWithVar e
  | .sort e _ => startsWithVar e
  | _ => false

/-- Is the first step a variable, possibly filtered or sorted? (eval.go evalPath) -/
def firstStepIsVar : List (Node N) → Bool
  | step :: _ => startsWithVar step
  | [] => false

def isConsNode : Node N → Bool
  | .array _ => true
  | _ => false

/-- `evalOverArray` / `evalOverSequence`: evaluate the step once per item, keep what is defined. -/
def evalOver (ev : Option (Val N) → EvalM N (Option (Val N))) :
    List (Option (Val N)) → EvalM N (List (Val N))
  | [] => pure []
  | x :: xs => do
    let r ← ev x
    let rs ← evalOver ev xs
    match r with
    | some v => pure (v :: rs)
    | none => pure rs

/-- one-level flattening of step results (cons-array steps exempt) -/
def flattenStep (isCons : Bool) : List (Val N) → List (Val N)
  | [] => []
  | v :: vs =>
    match isCons, v with
    | false, .arr xs => xs ++ flattenStep isCons vs
    | _, _ => v :: flattenStep isCons vs

/-- eval.go `evalPathStep`. -/
def evalPathStep (ev : Option (Val N) → EvalM N (Option (Val N))) (isCons : Bool)
    (items : List (Option (Val N))) (last : Bool) : EvalM N (Option (RV N)) := do
  let results ← evalOver ev items
  match last, results with
  | true, [.arr xs] => return some (.val (.arr xs))
  | _, _ =>
    match flattenStep isCons results with
    | [] => return none
    | out => return some (.seq out false)

def rvItems : RV N → List (Option (Val N))
  | .val (.arr xs) => xs.map some
  | .val v => [some v]
  | .seq items _ => items.map some

/-- the loop of eval.go `evalPath` over the steps (index `i`, `n` steps in all);
    `items` are the members of the current output (array or sequence). -/
def evalPathLoop (r : Rec N) (env : Nat) (n : Nat) :
    Nat → List (Node N) → List (Option (Val N)) → EvalM N (Option (RV N))
  | _, [], _ => pure none
  | i, step :: rest, items => do
    let next ← (
      if i == 0 && isConsNode step then do
        -- a leading array constructor is evaluated once, against the whole initial output
        let v ← r.ev step (some (.arr (items.filterMap id))) env
        pure (v.map RV.val)
      else evalPathStep (fun x => r.ev step x env) (isConsNode step) items (i + 1 == n))
    match next with
    | none => pure none
    | some (.val (.arr [])) => pure none
    | some o =>
      match rest with
      | [] => pure (some o)
      | _ => evalPathLoop r env n (i + 1) rest (rvItems o)

/-- the initial output of eval.go `evalPath` -/
def pathInit (steps : List (Node N)) (data : Option (Val N)) : List (Option (Val N)) :=
  match firstStepIsVar steps, data with
  | false, some (.arr xs) => xs.map some
  | _, d => [d]

/-- eval.go `evalPath`. -/
def evalPath (r : Rec N) (steps : List (Node N)) (keep : Bool) (data : Option (Val N))
    (env : Nat) : EvalM N (Option (Val N)) := do
  let out ← evalPathLoop r env steps.length 0 steps (pathInit steps data)
  match out with
  | none => return none
  | some (.seq items _) => return seqValue items keep
  | some (.val v) => return some v

/-! ### predicates -/

def allNums : List (Val N) → Option (List N)
  | [] => some []
  | .num x :: xs => (allNums xs).map (x :: ·)
  | _ => none

/-- how often does the index list select position `i` of `n` items (floor, negative wrap) -/
def indexHits (nItems : Nat) (i : Nat) : List N → Nat
  | [] => 0
  | x :: xs =>
    let idx := toInt (floor x)
    let idx := if idx < 0 then idx + nItems else idx
    (if idx == (i : Int) then 1 else 0) + indexHits nItems i xs

/-- eval.go `applyFilter`: loop body for item `i`. -/
def filterKeep (nItems i : Nat) (res : Option (Val N)) : Nat :=
  let res' : Option (Val N) := match res with
    | some (.num x) => some (.arr [.num x])
    | r => r
  match res' with
  | some (.arr xs) =>
    match allNums xs with
    | some ns => indexHits nItems i ns
    | none => if truthy (.arr xs) then 1 else 0
  | r => if truthyO r then 1 else 0

def applyFilterLoop (ev : Option (Val N) → EvalM N (Option (Val N))) (nItems : Nat) :
    Nat → List (Val N) → EvalM N (List (Val N))
  | _, [] => pure []
  | i, item :: rest => do
    let res ← ev (some item)
    let k := filterKeep nItems i res
    let tail ← applyFilterLoop ev nItems (i + 1) rest
    pure (List.replicate k item ++ tail)

def applyFilter (ev : Option (Val N) → EvalM N (Option (Val N))) (items : List (Val N)) :
    EvalM N (List (Val N)) :=
  applyFilterLoop ev items.length 0 items

def applyFilters (r : Rec N) (env : Nat) : List (Node N) → List (Val N) → EvalM N (List (Val N))
  | [], items => pure items
  | f :: fs, items => do
    let out ← applyFilter (fun x => r.ev f x env) items
    if out.isEmpty then pure [] else applyFilters r env fs out

/-- eval.go `evalPredicate`. -/
def evalPredicate (r : Rec N) (expr : Node N) (filters : List (Node N)) (data : Option (Val N))
    (env : Nat) : EvalM N (Option (Val N)) := do
  let items ← r.ev expr data env
  match items with
  | none => return none
  | some v =>
    match filters with
    | [] => return some (normalizeArray v)
    | _ =>
      let out ← applyFilters r env filters (arrayify (some v))
      match out with
      | [] => return none
      | [x] => return some x
      | xs => return some (.arr xs)

/-! ### operators -/

def numOpApply : NumOp → N → N → N
  | .add => add | .sub => sub | .mul => mul | .div => div | .mod => mod

/-- eval.go `evalNumericOperator` after both operands are evaluated. -/
def numericOp (op : NumOp) (l r : Option (Val N)) : Except Err (Option (Val N)) :=
  match l, r with
  | some (.num a), some (.num b) =>
    let x := numOpApply op a b
    if isInf x then .error (.eval .numberInf)
    else if isNaN x then .error (.eval .numberNaN)
    else .ok (some (.num x))
  | some (.num _), none => .ok none
  | none, some (.num _) => .ok none
  | none, none => .ok none
  | some (.num _), some _ => .error (.eval .nonNumberRHS)
  | none, some _ => .error (.eval .nonNumberRHS)
  | some _, _ => .error (.eval .nonNumberLHS)

def negateOp : Option (Val N) → Except Err (Option (Val N))
  | none => .ok none
  | some (.num a) => .ok (some (.num (neg a)))
  | some _ => .error (.eval .nonNumberRHS)

def needComparable : CmpOp → Bool
  | .eq | .ne | .in_ => false
  | _ => true

def isNumOrStr : Val N → Bool
  | .num _ | .str _ => true
  | _ => false

/-- eval.go `evalComparisonOperator` after both operands are evaluated. -/
def comparisonOp (op : CmpOp) (l r : Option (Val N)) : Except Err (Option (Val N)) :=
  let gate : Option Err :=
    if needComparable op then
      match l, r with
      | some a, _ => if !isNumOrStr a then some (.eval .nonComparableLHS) else
          match r with
          | some b => if !isNumOrStr b then some (.eval .nonComparableRHS)
              else if a.isNum != b.isNum then some (.eval .typeMismatch) else none
          | none => none
      | none, some b => if !isNumOrStr b then some (.eval .nonComparableRHS) else none
      | none, none => none
    else none
  match gate with
  | some e => .error e
  | none =>
    match l, r with
    | some a, some b =>
      let ltv (x y : Val N) : Bool := (valLt x y).getD false
      let b' : Bool := match op with
        | .in_ => valIn a b
        | .eq => valEq a b
        | .ne => !valEq a b
        | .lt => ltv a b
        | .le => ltv a b || valEq a b
        | .gt => !(ltv a b || valEq a b)
        | .ge => !ltv a b
      .ok (some (.bool b'))
    | _, _ => .ok (some (.bool false))

def booleanOp (op : BoolOp) (l r : Option (Val N)) : Val N :=
  match op with
  | .and_ => .bool (truthyO l && truthyO r)
  | .or_ => .bool (truthyO l || truthyO r)

/-- maximum size of a range (eval.go `maxRangeItems`) -/
def maxRangeItems : Nat := 10000000

def rangeList (lo : Int) : Nat → List (Val N)
  | 0 => []
  | n + 1 => .num (ofInt lo) :: rangeList (lo + 1) n

def isIntegerN (x : N) : Bool := beq x (trunc x)

/-- the members of `[a..b]`: the i-th member is `a + i` computed in the number system (for doubles:
    the double nearest to the i-th integer; beyond 2^53 not every integer is representable) -/
def rangeFromAux (a : N) : Nat → Nat → List (Val N)
  | _, 0 => []
  | i, n + 1 => .num (add a (ofInt i)) :: rangeFromAux a (i + 1) n

def rangeFrom (a : N) (n : Nat) : List (Val N) := rangeFromAux a 0 n

/-- eval.go `evalRange` after both bounds are evaluated. -/
def rangeOp (l r : Option (Val N)) : Except Err (Option (Val N)) :=
  let chk (v : Option (Val N)) : Option (Option N) :=  -- none = defined but not an integer
    match v with
    | none => some none
    | some (.num x) => if isIntegerN x then some (some x) else none
    | some _ => none
  match chk l, chk r with
  | none, _ => .error (.eval .nonIntegerLHS)
  | some _, none => .error (.eval .nonIntegerRHS)
  | some (some a), some (some b) =>
    if lt b a then .ok none
    else
      let size := toInt (sub b a) + 1
      if size < 0 || size > (maxRangeItems : Int) then .error (.eval .maxRangeItems)
      else .ok (some (.arr (rangeFrom a size.toNat)))
  | _, _ => .ok none

/-! ### object construction and grouping -/

structure KeyIdx where
  key : String
  pair : Nat
  items : List Nat

/-- eval.go `groupItemsByKey`, inner loop over the items for one computed key. -/
def groupAddKey (groups : List KeyIdx) (key : String) (pair j : Nat) : Except Err (List KeyIdx) :=
  match groups.find? (fun g => g.key == key) with
  | none => .ok (groups ++ [{ key := key, pair := pair, items := [j] }])
  | some g =>
    if g.pair != pair then .error (.eval .duplicateKey)
    else .ok (groups.map fun g' => if g'.key == key then { g' with items := g'.items ++ [j] } else g')

def groupItemsLoop (ev : Option (Val N) → EvalM N (Option (Val N))) (pair : Nat) :
    Nat → List (Option (Val N)) → List KeyIdx → EvalM N (List KeyIdx)
  | _, [], groups => pure groups
  | j, item :: rest, groups => do
    let v ← ev item
    match v with
    | some (.str key) =>
      match groupAddKey groups key pair j with
      | .ok g => groupItemsLoop ev pair (j + 1) rest g
      | .error e => throw e
    | _ => throw (.eval .illegalKey)

def groupPairsLoop (r : Rec N) (env : Nat) (items : List (Option (Val N))) :
    Nat → List (Node N × Node N) → List KeyIdx → EvalM N (List KeyIdx)
  | _, [], groups => pure groups
  | i, (k, _) :: rest, groups =>
    match k with
    | .str key =>
      if groups.any (fun g => g.key == key) then throw (.eval .duplicateKey)
      else groupPairsLoop r env items (i + 1) rest (groups ++ [{ key := key, pair := i, items := [] }])
    | _ => do
      let g ← groupItemsLoop (fun x => r.ev k x env) i 0 items groups
      groupPairsLoop r env items (i + 1) rest g

def pickItems (items : List (Option (Val N))) (idx : List Nat) : List (Option (Val N)) :=
  idx.filterMap fun j => items[j]?

def optsToArr (xs : List (Option (Val N))) : Val N :=
  .arr (xs.filterMap id)

/-- eval.go `evalObject`: `data` is the already evaluated context (makeArray applied here). -/
def evalObject (r : Rec N) (pairs : List (Node N × Node N)) (data : Option (Val N)) (env : Nat) :
    EvalM N (Option (Val N)) := do
  let items : List (Option (Val N)) := match data with
    | some (.arr xs) => xs.map some
    | d => [d]
  let dataArr : Option (Val N) := match data with
    | some (.arr xs) => some (.arr xs)
    | some v => some (.arr [v])
    | none => some (.arr [])
  -- With no context value the implementation evaluates the pairs against a one-slot array whose slot holds
  -- no value (so that object literals still denote themselves); model values cannot express that array, so
  -- the executable model abstains unless every value is a scalar literal (which does not look at the context)
  let scalar : Node N → Bool := fun n => match n with
    | .num _ | .str _ | .bool _ | .null => true
    | _ => false
  if data.isNone && !(pairs.all fun kv => scalar kv.2) then
    throw (.unsupported "object constructor or grouping without a context value")
  let groups ← groupPairsLoop r env items 0 pairs []
  let nItems := items.length
  let rec build : List KeyIdx → List (String × Val N) → EvalM N (List (String × Val N))
    | [], acc => pure acc
    | g :: gs, acc => do
      let ctx : Option (Val N) :=
        if g.items.length != 0 && g.items.length != nItems
        then some (optsToArr (pickItems items g.items)) else dataArr
      match pairs[g.pair]? with
      | none => build gs acc
      | some (_, vnode) =>
        let v ← r.ev vnode ctx env
        match v with
        | some v => build gs (acc ++ [(g.key, v)])
        | none => build gs acc
  let members ← build groups []
  return some (.obj members)

/-! ### sorting -/

inductive TermKind | unknown | number | string
  deriving DecidableEq

/-- eval.go `buildSortInfo`, the per-term type bookkeeping for one key: numbers and strings
    only, and never both within one term. -/
def sortKeyCheck (kind : TermKind) (v : Option (Val N)) : Except Err (Option (Val N) × TermKind) :=
  match v with
  | none => .ok (none, kind)
  | some (.num x) => if kind == .string then .error (.eval .sortMismatch) else .ok (some (.num x), .number)
  | some (.str s) => if kind == .number then .error (.eval .sortMismatch) else .ok (some (.str s), .string)
  | some _ => .error (.eval .nonSortable)

/-- eval.go `buildSortInfo`: key tuple of one item. -/
def sortKeysFor (r : Rec N) (env : Nat) (item : Val N) :
    List (SortDir × Node N) → List TermKind → EvalM N (List (Option (Val N)) × List TermKind)
  | [], _ => pure ([], [])
  | (_, e) :: ts, kinds => do
    let v ← r.ev e (some item) env
    let (v', kind') ← liftE (sortKeyCheck (kinds.headD .unknown) v)
    let (vs, ks) ← sortKeysFor r env item ts kinds.tail
    pure (v' :: vs, kind' :: ks)

def buildSortInfo (r : Rec N) (env : Nat) (terms : List (SortDir × Node N)) :
    List (Val N) → List TermKind → EvalM N (List (Val N × List (Option (Val N))))
  | [], _ => pure []
  | item :: rest, kinds => do
    let (keys, kinds') ← sortKeysFor r env item terms kinds
    let tail ← buildSortInfo r env terms rest kinds'
    pure ((item, keys) :: tail)

/-- eval.go `makeLessFunc`. -/
def sortLess : List SortDir → List (Option (Val N)) → List (Option (Val N)) → Bool
  | [], _, _ => false
  | _, [], _ => false
  | _, _, [] => false
  | d :: ds, vi :: vis, vj :: vjs =>
    match vi, vj with
    | none, none => sortLess ds vis vjs
    | none, some _ => false
    | some _, none => true
    | some a, some b =>
      if valEq a b then sortLess ds vis vjs
      else if d == .desc then (valLt b a).getD false else (valLt a b).getD false

/-- eval.go `evalSort` (sort.SliceStable is modelled by the stable `List.mergeSort`). -/
def evalSort (r : Rec N) (expr : Node N) (terms : List (SortDir × Node N)) (data : Option (Val N))
    (env : Nat) : EvalM N (Option (Val N)) := do
  let items ← r.ev expr data env
  match items with
  | none => return none
  | some v =>
    let xs := arrayify (some v)
    let info ← buildSortInfo r env terms xs (terms.map fun _ => TermKind.unknown)
    let dirs := terms.map (·.1)
    let sorted := info.mergeSort (fun a b => !sortLess dirs b.2 a.2)
    match sorted.map (·.1) with
    | [x] => return some x
    | ys => return some (.arr ys)

/-! ### array constructor -/

def evalArrayItems (r : Rec N) (data : Option (Val N)) (env : Nat) :
    List (Node N) → EvalM N (List (Val N))
  | [] => pure []
  | item :: rest => do
    let v ← r.ev item data env
    let tail ← evalArrayItems r data env rest
    match v with
    | none => pure tail
    | some v =>
      match item with
      | .array _ => pure (v :: tail)
      | _ => pure (arrayify (some v) ++ tail)

/-! ### blocks -/

def evalSeq (r : Rec N) (data : Option (Val N)) (env : Nat) :
    List (Node N) → Option (Val N) → EvalM N (Option (Val N))
  | [], last => pure last
  | e :: es, _ => do
    let v ← r.ev e data env
    evalSeq r data env es v

/-! ### lambda signatures (callable.go lambdaCallable.validate…) -/

def hasBit (t b : Nat) : Bool := (t / b) % 2 == 1

/-- callable.go `validArgType` (sub-parameter check through `fuel`-free recursion on the value). -/
partial def validArgTypeP (arg : Val N) (p : Param) : Bool :=
  let typ := p.ty
  if hasBit typ ptAny then true else
  let j := hasBit typ ptJSON
  match arg with
  | .str _ => j || hasBit typ ptString
  | .num _ => j || hasBit typ ptNumber
  | .bool _ => j || hasBit typ ptBool
  | .arr xs =>
    if j then true
    else if hasBit typ ptArray then
      match p.subs with
      | [] => true
      | sp :: _ => xs.all (fun v => validArgTypeP v sp)
    else false
  | .obj _ => j || hasBit typ ptObject
  | .null => false
  | _ => hasBit typ ptFunc

/-- The same check with an explicit depth bound (signatures nest finitely), used by theorems. -/
def validArgType : Nat → Val N → Param → Bool
  | 0, _, _ => false
  | d + 1, arg, p =>
    let typ := p.ty
    if hasBit typ ptAny then true else
    let j := hasBit typ ptJSON
    match arg with
    | .str _ => j || hasBit typ ptString
    | .num _ => j || hasBit typ ptNumber
    | .bool _ => j || hasBit typ ptBool
    | .arr xs =>
      if j then true
      else if hasBit typ ptArray then
        match p.subs with
        | [] => true
        | sp :: _ => xs.all (fun v => validArgType d v sp)
      else false
    | .obj _ => j || hasBit typ ptObject
    | .null => false
    | _ => hasBit typ ptFunc

/-- "append undefined for the trailing optional parameters that were not supplied"
    (the loop shared by goCallable.validateArgCount and lambdaCallable.validateArgCount):
    `opts[i]` says whether parameter i is optional -/
def padOptional (opts : List Bool) (argv : List (Option (Val N))) : List (Option (Val N)) :=
  argv ++ ((opts.drop argv.length).takeWhile id).map (fun _ => none)

/-- callable.go lambdaCallable.validateArgCount -/
def lambdaArgCount (sig : List Param) (ctx : Option (Val N)) (argv : List (Option (Val N))) :
    Except Err (List (Option (Val N))) :=
  let paramCount := sig.length
  let argv1 :=
    if argv.length < paramCount && (sig.head?.map (·.opt)) == some ParamOpt.contextable
    then ctx :: argv else argv
  let argv2 := padOptional (sig.map fun p => p.opt == .optional) argv1
  let isVar := paramCount > 0 && (sig.getLast?.map (·.opt)) == some ParamOpt.variadic
  if argv2.length < paramCount || (argv2.length > paramCount && !isVar) then .error .argCount
  else .ok argv2

/-- callable.go lambdaCallable.validateArgTypes -/
def lambdaArgTypes (sig : List Param) : Nat → List (Option (Val N)) → Except Err (List (Option (Val N)))
  | _, [] => .ok []
  | i, arg :: rest =>
    match arg with
    | none => (lambdaArgTypes sig (i + 1) rest).map (none :: ·)
    | some a =>
      let param : Param :=
        if i < sig.length then sig[i]?.getD (.mk 0 .none_ [])
        else sig.getLast?.getD (.mk 0 .none_ [])
      let a' : Val N := if param.ty == ptArray then .arr (arrayify (some a)) else a
      if validArgType 64 a' param then (lambdaArgTypes sig (i + 1) rest).map (some a' :: ·)
      else .error (.argType (i + 1))

/-- callable.go lambdaCallable.wrapVariadicArgs (absent variadic arguments are skipped: fix F12) -/
def wrapVariadic (sig : List Param) (argv : List (Option (Val N))) : List (Option (Val N)) :=
  let paramCount := sig.length
  if paramCount < 1 || (sig.getLast?.map (·.opt)) != some ParamOpt.variadic then argv
  else
    let fixed := argv.take (paramCount - 1)
    let vars := argv.drop (paramCount - 1)
    fixed ++ [some (.arr (vars.filterMap id))]

def validateLambdaArgs (sig : Option (List Param)) (ctx : Option (Val N))
    (argv : List (Option (Val N))) : Except Err (List (Option (Val N))) :=
  match sig with
  | none => .ok argv
  | some sig => do
    let a ← lambdaArgCount sig ctx argv
    let a ← lambdaArgTypes sig 0 a
    pure (wrapVariadic sig a)

def bindParams (env : Nat) : List String → List (Option (Val N)) → EvalM N Unit
  | [], _ => pure ()
  | p :: ps, [] => do bindVar env p none; bindParams env ps []
  | p :: ps, a :: as => do bindVar env p a; bindParams env ps as

/-- callable.go partialCallable.Call: substitute placeholders in order -/
def partialArgs (r : Rec N) (ctx : Option (Val N)) (env : Nat) :
    List (Node N) → List (Option (Val N)) → EvalM N (List (Option (Val N)))
  | [], _ => pure []
  | .placeholder :: rest, argv => do
    let v := argv.head?.getD none
    let tail ← partialArgs r ctx env rest argv.tail
    pure (v :: tail)
  | a :: rest, argv => do
    let v ← r.ev a ctx env
    let tail ← partialArgs r ctx env rest argv
    pure (v :: tail)

def evalArgs (r : Rec N) (data : Option (Val N)) (env : Nat) :
    List (Node N) → EvalM N (List (Option (Val N)))
  | [] => pure []
  | a :: as => do
    let v ← r.ev a data env
    let vs ← evalArgs r data env as
    pure (v :: vs)

end

end Jsonata
