/-
  Model/Interp.lean — eval.go `eval` (the node dispatch) and `Callable.Call`,
  tied together with fuel.
-/
import JsonataModel.Model.Lib

namespace Jsonata
open NumSys

variable {N : Type} [NumSys N]

/-- eval.go `evalFunctionCall` once the callee value is known. -/
def callWithArgs (r : Rec N) (fnv : Option (Val N)) (argNodes : List (Node N))
    (data : Option (Val N)) (env : Nat) (errKind : EvalErrKind) : EvalM N (Option (Val N)) := do
  match fnv with
  | some f =>
    if f.isFn then
      let argv ← evalArgs r data env argNodes
      r.call f (some data) argv
    else throw (.eval errKind)
  | none => throw (.eval errKind)

/-! ### object transformation (callable.go transformationCallable)

The Go code clones the argument through JSON and then updates, in place, the
objects the pattern selects *inside the clone*.  The model identifies objects of
the clone by the path from its root: `locate` evaluates nothing itself — the
pattern is evaluated by the ordinary evaluator on a copy whose objects carry a
reserved member holding their path, and the selected paths are read back. -/

def tagKey : String := "\x00#loc"

mutual
def tagVal (pathRev : List Nat) : Val N → Val N
  | .arr xs => .arr (tagList pathRev 0 xs)
  | .obj kvs => .obj ((tagKey, .arr (pathRev.reverse.map fun (i : Nat) => Val.num (ofInt (Int.ofNat i)))) :: tagKVs pathRev 0 kvs)
  | v => v
def tagList (pathRev : List Nat) : Nat → List (Val N) → List (Val N)
  | _, [] => []
  | i, x :: xs => tagVal (i :: pathRev) x :: tagList pathRev (i + 1) xs
def tagKVs (pathRev : List Nat) : Nat → List (String × Val N) → List (String × Val N)
  | _, [] => []
  | i, (k, v) :: kvs => (k, tagVal (i :: pathRev) v) :: tagKVs pathRev (i + 1) kvs
end

mutual
def untagVal : Val N → Val N
  | .arr xs => .arr (untagList xs)
  | .obj kvs => .obj (untagKVs kvs)
  | v => v
def untagList : List (Val N) → List (Val N)
  | [] => []
  | x :: xs => untagVal x :: untagList xs
def untagKVs : List (String × Val N) → List (String × Val N)
  | [] => []
  | (k, v) :: kvs => if k == tagKey then untagKVs kvs else (k, untagVal v) :: untagKVs kvs
end

mutual
/-- no object of the value uses the reserved tag member name -/
def NoTag : Val N → Prop
  | .arr xs => NoTagL xs
  | .obj kvs => NoTagKV kvs
  | _ => True
def NoTagL : List (Val N) → Prop
  | [] => True
  | x :: xs => NoTag x ∧ NoTagL xs
def NoTagKV : List (String × Val N) → Prop
  | [] => True
  | (k, v) :: kvs => k ≠ tagKey ∧ NoTag v ∧ NoTagKV kvs
end

mutual
/-- JSON round trip of the clone: function values become "" -/
def cloneVal : Val N → Val N
  | .arr xs => .arr (cloneL xs)
  | .obj kvs => .obj (cloneKV kvs)
  | .null => .null | .bool b => .bool b | .num x => .num x | .str s => .str s
  | _ => .str ""
def cloneL : List (Val N) → List (Val N)
  | [] => []
  | x :: xs => cloneVal x :: cloneL xs
def cloneKV : List (String × Val N) → List (String × Val N)
  | [] => []
  | (k, v) :: kvs => (k, cloneVal v) :: cloneKV kvs
end

def pathOfTag : Val N → Option (List Nat)
  | .obj kvs =>
    match objGet kvs tagKey with
    | some (.arr xs) => some (xs.filterMap fun v => match v with | .num x => some (toInt x).toNat | _ => none)
    | _ => none
  | _ => none

mutual
/-- the tagged object with location `p`, found by its tag (positions shift when members are deleted or
    added, tags do not) -/
def getAt (v : Val N) (p : List Nat) : Option (Val N) :=
  match v with
  | .arr xs => getAtL xs p
  | .obj kvs =>
    if pathOfTag (.obj kvs) == some p then some (.obj kvs)
    else getAtKV kvs p
  | _ => none
def getAtL (xs : List (Val N)) (p : List Nat) : Option (Val N) :=
  match xs with
  | [] => none
  | x :: rest => match getAt x p with
    | some r => some r
    | none => getAtL rest p
def getAtKV (kvs : List (String × Val N)) (p : List Nat) : Option (Val N) :=
  match kvs with
  | [] => none
  | (k, v) :: rest =>
    match (if k == tagKey then none else getAt v p) with
    | some r => some r
    | none => getAtKV rest p
end

mutual
/-- replace the tagged object with location `p` -/
def modifyAt (f : Val N → Val N) (v : Val N) (p : List Nat) : Val N :=
  match v with
  | .arr xs => .arr (modifyAtL f xs p)
  | .obj kvs =>
    if pathOfTag (.obj kvs) == some p then f (.obj kvs)
    else .obj (modifyAtKV f kvs p)
  | v => v
def modifyAtL (f : Val N → Val N) (xs : List (Val N)) (p : List Nat) : List (Val N) :=
  match xs with
  | [] => []
  | x :: rest => modifyAt f x p :: modifyAtL f rest p
def modifyAtKV (f : Val N → Val N) (kvs : List (String × Val N)) (p : List Nat) : List (String × Val N) :=
  match kvs with
  | [] => []
  | (k, v) :: rest => (if k == tagKey then (k, v) else (k, modifyAt f v p)) :: modifyAtKV f rest p
end

def allStrsV : List (Val N) → Option (List String)
  | [] => some []
  | .str s :: xs => (allStrsV xs).map (s :: ·)
  | _ => none

/-- transformationCallable.Call -/
def callTransform (r : Rec N) (pattern updates : Node N) (deletes : Option (Node N)) (env : Nat)
    (argv : List (Option (Val N))) : EvalM N (Option (Val N)) := do
  match argv with
  | [arg] =>
    match arg with
    | none => pure none
    | some v =>
      if !(v.isArr || v.isObj) then throw (.argType 1)
      let clone : Val N := tagVal [] (cloneVal v)
      let sel ← r.ev pattern (some clone) env
      let paths := (arrayify sel).filterMap pathOfTag
      let rec go : List (List Nat) → Val N → EvalM N (Val N)
        | [], cur => pure cur
        | p :: ps, cur => do
          match getAt cur p with
          | some (.obj kvs) =>
            -- the update and delete clauses see the object without the location tags
            let item : Val N := untagVal (.obj kvs)
            let upd ← r.ev updates (some item) env
            let kvs1 ← (match upd with
              | none => pure kvs
              | some (.obj ukvs) => pure (ukvs.foldl (fun a q => if q.1 == tagKey then a else objSet a q.1 q.2) kvs)
              | some _ => throw (.eval .illegalUpdate) : EvalM N (List (String × Val N)))
            let kvs2 ← (match deletes with
              | none => pure kvs1
              | some dn => do
                let d ← r.ev dn (some (untagVal (.obj kvs1))) env
                match d with
                | none => pure kvs1
                | some dv =>
                  match allStrsV (arrayify (some dv)) with
                  | some names => pure (names.foldl (fun a k => if k == tagKey then a else objDel a k) kvs1)
                  | none => throw (.eval .illegalDelete) : EvalM N (List (String × Val N)))
            go ps (modifyAt (fun _ => .obj kvs2) cur p)
          | _ => go ps cur
      let out ← go paths clone
      pure (some (untagVal out))
  | _ => throw .argCount

/-- `Callable.Call` for every kind of function value. -/
def callVal (r : Rec N) (f : Val N) (ctx : Option (Option (Val N))) (argv : List (Option (Val N))) :
    EvalM N (Option (Val N)) := do
  match f with
  | .builtin name => callBuiltin r name (ctx.getD none) argv
  | .lambda params sig body env lctx =>
    let argv' ← liftE (validateLambdaArgs sig lctx argv)
    let fr ← newFrame env
    bindParams fr params argv'
    r.ev body lctx fr
  | .partialFn g args env pctx =>
    let argv' ← partialArgs r pctx env args argv
    r.call g none argv'
  | .transformFn p u d env => callTransform r p u d env argv
  | .chain g h =>
    let v := argv.head?.getD none
    let v1 ← r.call g none [v]
    r.call h none [v1]
  | .regexFn _ tbl =>
    -- regexCallable.Call: no argument or a non-string argument gives no value
    match argv with
    | some (.str s) :: _ =>
      match tbl.lookup s with
      | some ms => pure (firstMatch ms)
      | none => throw (.unsupported "regex engine on an unlisted subject")
    | _ => pure none
  | .matchNext rest => pure (firstMatch rest)
  | _ => throw (.eval .nonCallable)

/-- eval.go `eval`: dispatch on the node type (sequence results are collapsed inside
    the path / wildcard / descendant / name cases). -/
def evalNode (r : Rec N) (node : Node N) (data : Option (Val N)) (env : Nat) :
    EvalM N (Option (Val N)) := do
  match node with
  | .str s => pure (some (.str s))
  | .num x => pure (some (.num x))
  | .bool b => pure (some (.bool b))
  | .null => pure (some .null)
  | .regex p tbl => pure (some (.regexFn p tbl))
  | .var name => if name == "" then pure data else lookupVar env name
  | .name k => pure (evalName k data)
  | .path steps keep => evalPath r steps keep data env
  | .neg rhs => do
    let v ← r.ev rhs data env
    liftE (negateOp v)
  | .range l rr => do
    let a ← r.ev l data env
    let b ← r.ev rr data env
    liftE (rangeOp a b)
  | .array items => do
    let xs ← evalArrayItems r data env items
    pure (some (.arr xs))
  | .object pairs => evalObject r pairs data env
  | .block exprs => do
    let fr ← newFrame env
    evalSeq r data fr exprs none
  | .wildcard => pure (evalWildcard data)
  | .descendent => pure (evalDescendent data)
  | .transform p u d => pure (some (.transformFn p u d env))
  | .lambda params body => pure (some (.lambda params none body env data))
  | .typedLambda params sig body => pure (some (.lambda params (some sig) body env data))
  | .partial_ fn args => do
    let f ← r.ev fn data env
    match f with
    | some fv => if fv.isFn then pure (some (.partialFn fv args env data)) else throw (.eval .nonCallablePartial)
    | none => throw (.eval .nonCallablePartial)
  | .placeholder => throw (.panic "eval: unexpected node type PlaceholderNode")
  | .call fn args => do
    let f ← r.ev fn data env
    callWithArgs r f args data env .nonCallable
  | .predicate expr filters => evalPredicate r expr filters data env
  | .group expr pairs => do
    let items ← r.ev expr data env
    evalObject r pairs items env
  | .cond c t e => do
    let cv ← r.ev c data env
    if truthyO cv then r.ev t data env
    else match e with
      | some en => r.ev en data env
      | none => pure none
  | .assign name value => do
    let v ← r.ev value data env
    bindVar env name v
    pure v
  | .numop op l rr => do
    let a ← r.ev l data env
    let b ← r.ev rr data env
    liftE (numericOp op a b)
  | .cmpop op l rr => do
    let a ← r.ev l data env
    let b ← r.ev rr data env
    -- `=`, `!=` and `in` on two function values that are not built-ins compare object identity in the
    -- implementation (a closure equals itself, never another one); values of the model have no identity,
    -- so the executable model abstains (the specification `comparisonOp` treats them as different objects)
    let fnKind : Val N → Nat := fun v => match v with
      | .lambda .. => 1 | .partialFn .. => 2 | .transformFn .. => 3 | .chain .. => 4 | .regexFn .. => 5 | .matchNext _ => 6 | _ => 0
    let identity : Bool := match op, a, b with
      | .eq, some x, some y => fnKind x != 0 && fnKind x == fnKind y
      | .ne, some x, some y => fnKind x != 0 && fnKind x == fnKind y
      | .in_, some x, some y => fnKind x != 0 && (arrayify (some y)).any (fun z => fnKind z == fnKind x)
      | _, _, _ => false
    if identity then liftE (.error (.unsupported "identity of function values"))
    liftE (comparisonOp op a b)
  | .boolop op l rr => do
    let a ← r.ev l data env
    let b ← r.ev rr data env
    pure (some (booleanOp op a b))
  | .concat l rr => do
    let a ← r.ev l data env
    let b ← r.ev rr data env
    let s1 ← liftE (stringifyO a)
    let s2 ← liftE (stringifyO b)
    pure (some (.str (s1 ++ s2)))
  | .sort expr terms => evalSort r expr terms data env
  | .apply l rr =>
    match rr with
    | .call fn args => do
      -- `lhs ~> f(args)` is `f(lhs, args)`: a fresh call, the parsed tree is not touched
      let f ← r.ev fn data env
      callWithArgs r f (l :: args) data env .nonCallable
    | _ => do
      let a ← r.ev l data env
      let b ← r.ev rr data env
      match b with
      | some g =>
        if !g.isFn then throw (.eval .nonCallableApply)
        match a with
        | some f => if f.isFn then pure (some (.chain f g)) else r.call g none [a]
        | none => r.call g none [a]
      | none => throw (.eval .nonCallableApply)

mutual
/-- eval.go `eval` with a fuel bound on the nesting of evaluator calls -/
def eval : Nat → Node N → Option (Val N) → Nat → EvalM N (Option (Val N))
  | 0, _, _, _ => throw .fuel
  | f + 1, n, d, env =>
    evalNode { ev := fun n d e => eval f n d e, call := fun g c a => callFn f g c a } n d env
def callFn : Nat → Val N → Option (Option (Val N)) → List (Option (Val N)) → EvalM N (Option (Val N))
  | 0, _, _, _ => throw .fuel
  | f + 1, g, c, a =>
    callVal { ev := fun n d e => eval f n d e, call := fun g c a => callFn f g c a } g c a
end

/-- `Expr.Eval` (jsonata.go): fresh environment whose top frame binds `$` to the input. -/
def evalTop (fuel : Nat) (node : Node N) (input : Option (Val N)) : Except Err (Option (Val N)) :=
  let store : Store N := { frames := #[{ parent := none, syms := [("$", input)] }] }
  match (eval fuel node input 0).run store with
  | .ok (v, _) => .ok v
  | .error e => .error e

end Jsonata
