/-
  Model/Decimal.lean — strconv.ParseFloat(s, 64) for the decimal number syntax the lexer
  produces: the nearest double (ties to even), overflow reported, underflow to zero.
  Exact arithmetic on `Nat`.
-/
namespace Jsonata.Decimal

inductive ParseResult
  | ok (x : Float)
  | rangeErr
  | syntaxErr
  deriving Inhabited

def digitVal (c : Char) : Option Nat :=
  if c.toNat ≥ 48 && c.toNat ≤ 57 then some (c.toNat - 48) else none

/-- split a leading run of digits: (value, number of digits, rest) -/
def takeDigits : List Char → Nat → Nat → Nat × Nat × List Char
  | [], acc, n => (acc, n, [])
  | c :: cs, acc, n =>
    match digitVal c with
    | some d => takeDigits cs (acc * 10 + d) (n + 1)
    | none => (acc, n, c :: cs)

/-- nearest double to num/den (num, den > 0), ties to even; `none` = overflow -/
def roundRatio (num den : Nat) : Option Float :=
  -- choose k so that floor(num * 2^k / den) has 54 bits
  let bl (n : Nat) : Int := if n == 0 then 0 else (Nat.log2 n : Int) + 1
  let k0 : Int := 54 - (bl num - bl den)
  let quot (k : Int) : Nat × Nat :=   -- quotient and remainder of num * 2^k / den
    if k ≥ 0 then ((num * 2 ^ k.toNat) / den, (num * 2 ^ k.toNat) % den)
    else (num / (den * 2 ^ (-k).toNat), num % (den * 2 ^ (-k).toNat))
  -- adjust k so that the quotient has exactly 54 bits
  let k1 : Int := if bl (quot k0).1 > 54 then k0 - 1 else if bl (quot k0).1 < 54 then k0 + 1 else k0
  -- binary exponent of the unit of the 53-bit mantissa: value ≈ (q/2) * 2^(1 - k)
  let k : Int := if 1 - k1 < -1074 then 1075 else k1
  let (q, rem) := quot k
  let half := q % 2
  let m0 := q / 2
  let m := if half == 1 && (rem != 0 || m0 % 2 == 1) then m0 + 1 else m0
  let e : Int := 1 - k
  -- overflow: m * 2^e ≥ 2^1024
  if m == 0 then some 0.0
  else if bl m + e > 1024 then none
  else some (Float.scaleB (Float.ofNat m) e)

/-- parse `digits [. digits] [(e|E) [+|-] digits]` -/
def parseFloat (s : List Char) : ParseResult :=
  let (ip, n1, r1) := takeDigits s 0 0
  if n1 == 0 then .syntaxErr else
  let (mant, fracDigits, r2) : Nat × Nat × List Char :=
    match r1 with
    | '.' :: rest =>
      let (v, n2, r) := takeDigits rest ip 0
      (v, n2, r)
    | _ => (ip, 0, r1)
  if (match r1 with | '.' :: _ => fracDigits == 0 | _ => false) then .syntaxErr else
  let expPart : Option (Int × List Char) :=
    match r2 with
    | c :: rest =>
      if c == 'e' || c == 'E' then
        let (neg, rest') : Bool × List Char := match rest with
          | '+' :: t => (false, t)
          | '-' :: t => (true, t)
          | t => (false, t)
        let (ev, n3, r3) := takeDigits rest' 0 0
        if n3 == 0 then none else some ((if neg then -(ev : Int) else (ev : Int)), r3)
      else some (0, c :: rest)
    | [] => some (0, [])
  match expPart with
  | none => .syntaxErr
  | some (e10, rest) =>
    if !rest.isEmpty then .syntaxErr
    else if mant == 0 then .ok 0.0
    else
      let e : Int := e10 - fracDigits
      -- coarse bounds keep the big numbers small
      let digits : Int := (Nat.toDigits 10 mant).length
      if digits + e > 400 then .rangeErr
      else if digits + e < -400 then .ok 0.0
      else
        let r := if e ≥ 0 then roundRatio (mant * 10 ^ e.toNat) 1 else roundRatio mant (10 ^ (-e).toNat)
        match r with
        | some x => .ok x
        | none => .rangeErr

end Jsonata.Decimal
