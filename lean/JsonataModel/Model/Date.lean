/-
  Model/Date.lean — jlib/date.go and jlib/jxpath/formatdate.go.

  An instant is an integer number of milliseconds since the Unix epoch; calendar fields come
  from the proleptic Gregorian calendar computed with integer arithmetic (the `time` package
  is a parameter of the implementation: this file is its specification, and the
  correspondence checks the two against each other).
-/
import JsonataModel.Model.FormatNumber

namespace Jsonata.Date
open Jsonata.FmtNum Jsonata.Num

/-! ### the proleptic Gregorian calendar -/

/-- days since 1970-01-01 of the civil date y-m-d -/
def daysFromCivil (y : Int) (m d : Int) : Int :=
  let y' := if m ≤ 2 then y - 1 else y
  let era := y' / 400
  let yoe := y' - era * 400
  let mp := (m + 9) % 12
  let doy := (153 * mp + 2) / 5 + d - 1
  let doe := yoe * 365 + yoe / 4 - yoe / 100 + doy
  era * 146097 + doe - 719468

/-- the civil date (year, month 1..12, day 1..31) of a day number: 400-year eras of 146097
    days, centuries of 36524 days (the fourth one day longer), 4-year cycles of 1461 days,
    years of 365 days (the fourth one day longer), counted from 1 March -/
def civilFromDays (z : Int) : Int × Int × Int :=
  let w := z + 719468
  let era := w / 146097
  let doe := w - era * 146097
  let c := if doe / 36524 > 3 then 3 else doe / 36524
  let r1 := doe - c * 36524
  let q := r1 / 1461
  let r2 := r1 - q * 1461
  let yy := if r2 / 365 > 3 then 3 else r2 / 365
  let doy := r2 - yy * 365
  let y := c * 100 + q * 4 + yy + era * 400
  let mp := (5 * doy + 2) / 153
  let d := doy - (153 * mp + 2) / 5 + 1
  let m := if mp < 10 then mp + 3 else mp - 9
  (if m ≤ 2 then y + 1 else y, m, d)

/-- 0 = Sunday … 6 = Saturday (1970-01-01 was a Thursday) -/
def weekday (z : Int) : Int := (z + 4) % 7

def isLeap (y : Int) : Bool := y % 4 == 0 && (y % 100 != 0 || y % 400 == 0)

def daysInMonth (y m : Int) : Int :=
  if m == 2 then (if isLeap y then 29 else 28)
  else if m == 4 || m == 6 || m == 9 || m == 11 then 30 else 31

/-- ISO 8601 week number: the week (Monday first) containing the year's first Thursday is week 1 -/
def isoWeek (z : Int) : Int :=
  let wd := (weekday z + 6) % 7
  let zt := z - wd + 3
  let yt := (civilFromDays zt).1
  (zt - daysFromCivil yt 1 1) / 7 + 1

/-- the broken-down instant the formatter reads -/
structure T where
  year : Int
  month : Int
  day : Int
  yday : Int
  wday : Int
  week : Int
  hour : Int
  minute : Int
  second : Int
  milli : Int
  offset : Int          -- seconds east of UTC
  zone : S
  deriving Repr, Inhabited

def msPerDay : Int := 86400000

/-- msToTime(ms).In(FixedZone(name, offset)) -/
def fields (ms : Int) (offset : Int) (zone : S) : T :=
  let l := ms + offset * 1000
  let z := l / msPerDay
  let r := l % msPerDay
  let c := civilFromDays z
  { year := c.1, month := c.2.1, day := c.2.2, yday := z - daysFromCivil c.1 1 1 + 1, wday := weekday z,
    week := isoWeek z, hour := r / 3600000, minute := r / 60000 % 60, second := r / 1000 % 60,
    milli := r % 1000, offset := offset, zone := zone }

/-! ### language tables (jxpath/language.go) -/

def dayNames : List (List String) := [
  ["Sunday", "Sun", "Su"], ["Monday", "Mon", "Mo"], ["Tuesday", "Tues", "Tue", "Tu"],
  ["Wednesday", "Weds", "Wed", "We"], ["Thursday", "Thurs", "Thur", "Thu", "Th"],
  ["Friday", "Fri", "Fr"], ["Saturday", "Sat", "Sa"]]

def monthNames : List (List String) := [
  [], ["January", "Jan", "Ja"], ["February", "Feb", "Fe"], ["March", "Mar", "Mr"], ["April", "Apr", "Ap"],
  ["May", "My"], ["June", "Jun", "Jn"], ["July", "Jul", "Jl"], ["August", "Aug", "Au"],
  ["September", "Sept", "Sep", "Se"], ["October", "Oct", "Oc"], ["November", "Nov", "No"],
  ["December", "Dec", "De"]]

def amNames : List String := ["am", "a"]
def pmNames : List String := ["pm", "p"]
def tzPrefix : S := "GMT".toList

/-! ### variable markers -/

inductive Modifier | none_ | ordinal | cardinal | alphabetic | traditional
  deriving DecidableEq, Repr, Inhabited

structure Marker where
  format : S := []
  modifier : Modifier := .none_
  minW : Nat := 0
  maxW : Nat := 0
  deriving Repr, Inhabited

/-- an error of the picture (`err`) or "this presentation is not supported for the component"
    (`unsupported`: the component is then shown in its default presentation) -/
inductive FErr | unsupported | err
  deriving DecidableEq, Repr, Inhabited

abbrev R := Except FErr S

def isWs (c : Char) : Bool := c == ' ' || c == '\t' || c == '\n' || c == '\r' || c == '\x0b'

def isAllDigits (s : S) : Bool := !s.isEmpty && s.all isDig
def isDecimalFormat (s : S) : Bool := s.any isDig
def isNameFormat (s : S) : Bool := s == ['N'] || s == ['n'] || s == ['N', 'n']
def countDigits (s : S) : Nat := (s.filter fun c => isDig c || c == '#').length

def defaultFormat (c : Char) : S :=
  match c with
  | 'Y' | 'M' | 'D' | 'd' | 'W' | 'w' | 'H' | 'h' | 'f' => ['1']
  | 'F' | 'P' | 'C' | 'E' => ['n']
  | 'm' | 's' => ['0', '1']
  | 'Z' | 'z' => "01:01".toList
  | _ => []

/-- parseWidth: `*` is "no bound" (0) -/
def parseWidth (s : S) : Option Nat :=
  if s == ['*'] then some 0
  else if !isAllDigits s then none
  else
    let n := natOfDigits s
    if n ≥ 2 ^ 63 then none else if n < 1 then none else some n

def splitOn (sep : Char) (s : S) : List S :=
  s.foldr (fun c acc => if c == sep then [] :: acc else match acc with
    | [] => [[c]]
    | a :: as => (c :: a) :: as) [[]]

def parseWidthModifier (s : S) : Option (Nat × Nat) :=
  match splitOn '-' s with
  | [a] => (parseWidth a).map fun n => (n, 0)
  | [a, b] =>
    match parseWidth a, parseWidth b with
    | some mn, some mx => if mx != 0 && mx < mn then none else some (mn, mx)
    | _, _ => none
  | _ => none

def parsePresentation (s : S) : S × Modifier :=
  match s.reverse with
  | [] => ([], .none_)
  | [_] => (s, .none_)
  | last :: restRev =>
    match last with
    | 'a' => (restRev.reverse, .alphabetic)
    | 't' => (restRev.reverse, .traditional)
    | 'c' => (restRev.reverse, .cardinal)
    | 'o' => (restRev.reverse, .ordinal)
    | _ => (s, .none_)

/-- parseVariableMarker: component letter and marker -/
def parseMarker (s0 : S) : Option (Char × Marker) :=
  let s := s0.filter fun c => !isWs c
  match s with
  | [] => none
  | [c] => some (c, {})
  | c :: rest =>
    -- split at the last comma
    let (pres, width?) : S × Option S :=
      match lastIndexWhere (· == ',') rest with
      | none => (rest, none)
      | some i => (rest.take i, some (rest.drop (i + 1)))
    match width? with
    | some [] => none
    | _ =>
      let (fmt, md) := if pres.isEmpty then (([] : S), Modifier.none_) else parsePresentation pres
      match width? with
      | none => some (c, { format := fmt, modifier := md })
      | some w =>
        match parseWidthModifier w with
        | none => none
        | some (mn, mx) => some (c, { format := fmt, modifier := md, minW := mn, maxW := mx })

/-! ### components -/

def ordinalSuffix (n : Int) : S :=
  let m10 := Int.tmod n 10
  let m100 := Int.tmod n 100
  if m10 == 1 && m100 != 11 then ['s', 't']
  else if m10 == 2 && m100 != 12 then ['n', 'd']
  else if m10 == 3 && m100 != 13 then ['r', 'd']
  else ['t', 'h']

/-- formatInteger: FormatNumber(float64(n), layout, default format) -/
def formatInt (n : Int) (layout : S) : R :=
  match formatNumber n 0 (n < 0) layout {} with
  | some s => .ok s
  | none => .error .err

def formatIntComponent (n : Int) (mk : Marker) : R := do
  let s ← formatInt n mk.format
  pure (if mk.modifier == .ordinal then s ++ ordinalSuffix n else s)

def upperC (c : Char) : Char := if 'a' ≤ c && c ≤ 'z' then Char.ofNat (c.toNat - 32) else c
def lowerC (c : Char) : Char := if 'A' ≤ c && c ≤ 'Z' then Char.ofNat (c.toNat + 32) else c

def toTitle : Bool → S → S
  | _, [] => []
  | up, c :: cs => if isWs c then c :: toTitle true cs else (if up then upperC c else lowerC c) :: toTitle false cs

def bestFitting (names : List S) (maxlen : Nat) : S :=
  match names with
  | [] => []
  | first :: _ =>
    if maxlen == 0 then first
    else match names.find? (fun s => s.length ≤ maxlen) with
      | some s => s
      | none => first.take maxlen

def padRight (s : S) (w : Nat) : S := s ++ List.replicate (w - s.length) ' '

def formatName (names : List S) (mk : Marker) : R :=
  let s := bestFitting names mk.maxW
  if s.isEmpty then .error .err
  else
    let s := if mk.format == ['N'] then s.map upperC
      else if mk.format == ['n'] then s.map lowerC
      else if mk.format == ['N', 'n'] then toTitle true s else s
    .ok (padRight s mk.minW)

def namesOf (tbl : List (List String)) (i : Int) : List S := ((tbl.getD i.toNat []).map String.toList)

def pow10 (n : Nat) : Int := 10 ^ n

def formatYear (t : T) (mk : Marker) : R :=
  if !isDecimalFormat mk.format then .error .unsupported
  else
    let size := if mk.maxW > 0 then mk.maxW else (if countDigits mk.format ≥ 2 then countDigits mk.format else 0)
    let y := if size > 0 && size < 10 then Int.tmod t.year (pow10 size) else t.year
    formatIntComponent y mk

def digits9 (n : Int) : S :=
  let ds := toBase n 10
  List.replicate (9 - ds.length) '0' ++ ds

def formatNano (t : T) (mk : Marker) : R :=
  if !isDecimalFormat mk.format then .error .unsupported
  else
    let l := mk.format.length
    let all := digits9 (t.milli * 1000000)
    if l == 1 || !isAllDigits mk.format then .ok all else .ok (all.take (min l 9))

inductive TzStyle | none_ | short | long | split (h m sep : S) | military | name
  deriving Repr, Inhabited

def isAlnum (c : Char) : Bool := isDig c || ('a' ≤ c && c ≤ 'z') || ('A' ≤ c && c ≤ 'Z')

def tzStyle (s : S) : TzStyle :=
  if s == ['Z'] then .military
  else if isNameFormat s then .name
  else if isAllDigits s then
    (if s.length ≤ 2 then .short else if s.length ≤ 4 then .long else .none_)
  else
    -- ^([0-9]+)([^0-9A-Za-z])([0-9]+)$
    let h := s.takeWhile isDig
    match s.dropWhile isDig with
    | sep :: m => if !h.isEmpty && !isAlnum sep && isAllDigits m then .split h m [sep] else .none_
    | [] => .none_

def militaryLetter (h : Int) : S :=
  if h == 0 then ['Z']
  else if 1 ≤ h && h ≤ 9 then [Char.ofNat (64 + h.toNat)]
  else if 10 ≤ h && h ≤ 12 then [Char.ofNat (65 + h.toNat)]
  else if -12 ≤ h && h ≤ -1 then [Char.ofNat (77 + (-h).toNat)]
  else []

def two (n : Int) : S :=
  let ds := toBase n.natAbs 10
  List.replicate (2 - ds.length) '0' ++ ds

def formatTz (t : T) (mk : Marker) (prefixed : Bool) : R := do
  let style := tzStyle mk.format
  let numeric := match style with | .short | .long | .split .. => true | _ => false
  let hours := Int.tdiv t.offset 3600
  let minutes := Int.tdiv (Int.tmod t.offset 3600) 60
  let sign : S := if hours < 0 || minutes < 0 then ['-'] else ['+']
  let ah : Int := hours.natAbs
  let am : Int := minutes.natAbs
  let (tz, numeric) ← (
    if mk.modifier == .traditional && numeric && hours == 0 && minutes == 0 then pure (['Z'], false)
    else match style with
      | .short => do
        let s ← formatInt ah mk.format
        pure (sign ++ s ++ (if minutes != 0 then ':' :: two am else []), numeric)
      | .long => do
        let s ← formatInt (ah * 100 + am) mk.format
        pure (sign ++ s, numeric)
      | .split lh lm sep => do
        let hh ← formatInt ah lh
        let mm ← formatInt am lm
        pure (sign ++ hh ++ sep ++ mm, numeric)
      | .name =>
        if t.zone.isEmpty then throw .unsupported
        else do
          let s ← formatName [t.zone] { format := mk.format }
          pure (s, numeric)
      | .military =>
        if minutes == 0 && -12 ≤ hours && hours ≤ 12 then pure (militaryLetter hours, numeric)
        else throw .unsupported
      | .none_ => throw .unsupported : Except FErr (S × Bool))
  let tz := if prefixed && numeric then tzPrefix ++ tz else tz
  pure (padRight tz mk.minW)

def decimalOnly (mk : Marker) (n : Int) : R :=
  if !isDecimalFormat mk.format then .error .unsupported else formatIntComponent n mk

def expandComponent (t : T) (c : Char) (mk : Marker) : R :=
  match c with
  | 'Y' => formatYear t mk
  | 'M' =>
    if isNameFormat mk.format then formatName (namesOf monthNames t.month) mk
    else if isDecimalFormat mk.format then formatIntComponent t.month mk
    else .error .unsupported
  | 'D' => decimalOnly mk t.day
  | 'd' => decimalOnly mk t.yday
  | 'F' =>
    if isNameFormat mk.format then formatName (namesOf dayNames t.wday) mk
    else if isDecimalFormat mk.format then formatIntComponent (t.wday + 1) mk
    else .error .unsupported
  | 'W' => decimalOnly mk t.week
  | 'w' => decimalOnly mk (t.day / 7 + 1)
  | 'H' => decimalOnly mk t.hour
  | 'h' => decimalOnly mk (if t.hour % 12 == 0 then 12 else t.hour % 12)
  | 'P' =>
    if !isNameFormat mk.format then .error .unsupported
    else formatName ((if t.hour ≥ 12 then pmNames else amNames).map String.toList) mk
  | 'm' => decimalOnly mk t.minute
  | 's' => decimalOnly mk t.second
  | 'f' => formatNano t mk
  | 'Z' => formatTz t mk false
  | 'z' => formatTz t mk true
  | 'C' => if !isNameFormat mk.format then .error .unsupported else formatName ["AD".toList] mk
  | 'E' => if !isNameFormat mk.format then .error .unsupported else formatName ["CE".toList] mk
  | _ => .error .err

/-- expandVariableMarker: default presentation when none is given or the given one is not
    supported for the component -/
def expandMarker (t : T) (s : S) : Except FErr S :=
  match parseMarker s with
  | none => .error .err
  | some (c, mk) =>
    let isDefault := mk.format.isEmpty
    let mk1 : Marker := if isDefault then { mk with modifier := .none_, format := defaultFormat c } else mk
    match expandComponent t c mk1 with
    | .error .unsupported =>
      if isDefault then .error .err
      else
        match expandComponent t c { mk1 with modifier := .none_, format := defaultFormat c } with
        | .error _ => .error .err
        | .ok s => .ok s
    | r => r

/-! ### the picture scanner (FormatTime) -/

structure Scan where
  start : Nat := 0
  inMarker : Bool := false
  dbl : Bool := false
  expanded : Bool := false
  out : S := []

def slice (s : S) (a b : Nat) : S := (s.take b).drop a

/-- one step of FormatTime's loop at index `i` -/
def scanStep (t : T) (pic : S) (st : Scan) (i : Nat) (r : Char) : Option Scan :=
  if r == '[' then
    if st.inMarker then
      (if i != st.start then none else some { st with inMarker := false })
    else some { st with out := st.out ++ slice pic st.start i, start := i + 1, inMarker := true }
  else if r == ']' then
    if st.inMarker then
      if i == st.start then none
      else match expandMarker t (slice pic st.start i) with
        | .error _ => none
        | .ok s => some { st with out := st.out ++ s, start := i + 1, inMarker := false, expanded := true }
    else if st.dbl then some { st with dbl := false }
    else if pic.getD (i + 1) ' ' != ']' || i + 1 ≥ pic.length then none
    else some { st with dbl := true, out := st.out ++ slice pic st.start i, start := i + 1 }
  else some st

def scanLoop (t : T) (pic : S) : Nat → S → Scan → Option Scan
  | _, [], st => some st
  | i, r :: rs, st =>
    match scanStep t pic st i r with
    | none => none
    | some st' => scanLoop t pic (i + 1) rs st'

/-- jxpath.FormatTime -/
def formatTime (t : T) (pic : S) : Option S :=
  match scanLoop t pic 0 pic {} with
  | none => none
  | some st =>
    if st.inMarker || !st.expanded then none
    else some (st.out ++ pic.drop st.start)

/-! ### $fromMillis -/

/-- two decimal digits -/
def atoi2 (s : S) : Option Int :=
  match s with
  | [a, b] => if isDig a && isDig b then some (natOfDigits [a, b]) else none
  | _ => none

/-- parseTimeZone: a sign and four digits HHMM (minutes at most 59); offset in seconds -/
def parseTimeZone (tz : S) : Option Int :=
  if tz.length != 5 || tz.any (fun c => c.toNat ≥ 128) then none
  else
    match tz with
    | sg :: rest =>
      let mult : Option Int := if sg == '-' then some (-1) else if sg == '+' then some 1 else none
      match mult, atoi2 (rest.take 2), atoi2 (rest.drop 2) with
      | some k, some h, some m => if m > 59 then none else some (k * (60 * (60 * h + m)))
      | _, _, _ => none
    | [] => none

def defaultPicture : S := "[Y]-[M01]-[D01]T[H01]:[m]:[s].[f001][Z01:01t]".toList

/-- jlib.FromMillis -/
def fromMillis (ms : Int) (picture tz : S) : Option S :=
  let pic := if picture.isEmpty then defaultPicture else picture
  if tz.isEmpty then formatTime (fields ms 0 "UTC".toList) pic
  else match parseTimeZone tz with
    | none => none
    | some off => formatTime (fields ms off tz) pic

/-! ### $toMillis for ISO 8601 and numeric fixed-width pictures

  The implementation formats Go's reference time with the picture and hands the result to
  time.Parse as a layout.  The model covers the layouts that consist of the elements
  2006 01 02 15 04 05 .000 Z07:00 Z0700 and literal separators (which is what the default
  pictures and the pictures of the property's inverse law produce). -/

inductive LItem | year | month | day | hour | minute | second | frac (n : Nat) | zoneColon | zone | lit (c : Char)
  deriving Repr, Inhabited, DecidableEq

/-- the layout elements of a layout string (the reference time rendered through a picture) -/
def layoutItems : Nat → S → Option (List LItem)
  | 0, _ => none
  | _, [] => some []
  | fuel + 1, s =>
    let rest (n : Nat) (it : LItem) := (layoutItems fuel (s.drop n)).map (it :: ·)
    if "2006".toList.isPrefixOf s then rest 4 .year
    else if "Z07:00".toList.isPrefixOf s then rest 6 .zoneColon
    else if "Z0700".toList.isPrefixOf s then rest 5 .zone
    else if "01".toList.isPrefixOf s then rest 2 .month
    else if "02".toList.isPrefixOf s then rest 2 .day
    else if "15".toList.isPrefixOf s then rest 2 .hour
    else if "04".toList.isPrefixOf s then rest 2 .minute
    else if "05".toList.isPrefixOf s then rest 2 .second
    else match s with
      | '.' :: '0' :: _ =>
        let zs := (s.drop 1).takeWhile (· == '0')
        if ((s.drop (1 + zs.length)).head?.map isDig).getD false then rest 1 (.lit '.')
        else rest (1 + zs.length) (.frac zs.length)
      | ',' :: '0' :: _ => none
      | ',' :: '9' :: _ => none
      | c :: _ =>
        -- anything that could be another layout element is outside the model
        if isDig c || ('a' ≤ c && c ≤ 'z') || ('A' ≤ c && c ≤ 'Z' && c != 'T') || c == '_' then none
        else rest 1 (.lit c)
      | [] => some []

structure Parsed where
  year : Int := 0
  month : Int := 1
  day : Int := 1
  hour : Int := 0
  minute : Int := 0
  second : Int := 0
  milli : Int := 0
  offset : Int := 0
  deriving Repr, Inhabited

def takeDigitsN (n : Nat) (s : S) : Option (Nat × S) :=
  let ds := s.take n
  if ds.length == n && ds.all isDig then some (natOfDigits ds, s.drop n) else none

/-- time.Parse's getnum(value, fixed = false): one or two digits -/
def take1or2 (s : S) : Option (Nat × S) :=
  match s with
  | a :: b :: rest => if isDig a && isDig b then some (natOfDigits [a, b], rest)
    else if isDig a then some (natOfDigits [a], b :: rest) else none
  | [a] => if isDig a then some (natOfDigits [a], []) else none
  | [] => none

/-- nanoseconds → milliseconds of a fraction digit string (at most 9 digits are significant) -/
def fracMillis (ds : S) : Int := (natOfDigits ((ds ++ ['0', '0', '0']).take 3) : Int)

def parseZone (colon : Bool) (s : S) : Option (Int × S) :=
  match s with
  | 'Z' :: rest => some (0, rest)
  | sg :: rest =>
    if sg != '+' && sg != '-' then none
    else
      match takeDigitsN 2 rest with
      | none => none
      | some (h, r1) =>
        let r2? := if colon then (match r1 with | ':' :: r => some r | _ => none) else some r1
        match r2? with
        | none => none
        | some r2 =>
          match takeDigitsN 2 r2 with
          | none => none
          | some (m, r3) =>
            let off : Int := (h * 60 + m) * 60
            if h > 24 || m > 60 then none
            else some ((if sg == '-' then -off else off), r3)
  | [] => none

/-- parse a value against layout items (time.Parse) -/
def parseItems : List LItem → S → Parsed → Option Parsed
  | [], [], p => some p
  | [], _ :: _, _ => none
  | it :: its, s, p =>
    match it with
    | .year =>
      -- four bytes: an optional sign and digits
      let ys := s.take 4
      if ys.length != 4 then none
      else
        let (neg, ds) := match ys with | '-' :: r => (true, r) | '+' :: r => (false, r) | _ => (false, ys)
        if ds.isEmpty || !ds.all isDig then none
        else parseItems its (s.drop 4) { p with year := if neg then -(natOfDigits ds : Int) else natOfDigits ds }
    | .month => match takeDigitsN 2 s with
      | some (n, r) => if n < 1 || n > 12 then none else parseItems its r { p with month := n }
      | none => none
    | .day => match takeDigitsN 2 s with
      | some (n, r) => parseItems its r { p with day := n }
      | none => none
    | .hour => match take1or2 s with
      | some (n, r) => if n ≥ 24 then none else parseItems its r { p with hour := n }
      | none => none
    | .minute => match takeDigitsN 2 s with
      | some (n, r) => if n ≥ 60 then none else parseItems its r { p with minute := n }
      | none => none
    | .second => match takeDigitsN 2 s with
      | some (n, r) =>
        if n ≥ 60 then none
        else
          -- a fraction may follow the seconds even when the layout has none
          -- (time.Parse looks at the next layout element, skipping literal text)
          let nextIsFrac := match its.find? (fun i => match i with | .lit _ => false | _ => true) with
            | some (.frac _) => true | _ => false
          match r with
          | sep :: d :: rest =>
            if !nextIsFrac && (sep == '.' || sep == ',') && isDig d then
              let ds := (d :: rest).takeWhile isDig
              parseItems its ((d :: rest).dropWhile isDig) { p with second := n, milli := fracMillis ds }
            else parseItems its r { p with second := n }
          | _ => parseItems its r { p with second := n }
      | none => none
    | .frac k => match s with
      | '.' :: r => match takeDigitsN k r with
        | some (_, r') => parseItems its r' { p with milli := fracMillis (r.take k) }
        | none => none
      | ',' :: r => match takeDigitsN k r with
        | some (_, r') => parseItems its r' { p with milli := fracMillis (r.take k) }
        | none => none
      | _ => none
    | .zoneColon => match parseZone true s with
      | some (off, r) => parseItems its r { p with offset := off }
      | none => none
    | .zone => match parseZone false s with
      | some (off, r) => parseItems its r { p with offset := off }
      | none => none
    | .lit c => match s with
      | c' :: r => if c == c' then parseItems its r p else none
      | [] => none

def parsedToMillis (p : Parsed) : Option Int :=
  if p.day < 1 || p.day > daysInMonth p.year p.month then none
  else some ((daysFromCivil p.year p.month p.day * 86400 + p.hour * 3600 + p.minute * 60 + p.second - p.offset) * 1000 + p.milli)

/-- the reference time 2006-01-02T15:04:05-07:00 -/
def refTime : T := fields 1136239445000 (-25200) "MST".toList

/-- replace "-07"/"-007"… by "Z07"… (reMinus7) -/
def minus7 : Nat → S → S
  | 0, s => s
  | _, [] => []
  | fuel + 1, '-' :: rest =>
    let zs := rest.takeWhile (· == '0')
    match rest.dropWhile (· == '0') with
    | '7' :: r => 'Z' :: zs ++ '7' :: minus7 fuel r
    | _ => '-' :: minus7 fuel rest
  | fuel + 1, c :: rest => c :: minus7 fuel rest

inductive ParseOutcome | ok (ms : Int) | fail | outside
  deriving Repr, Inhabited

def parseWith (s pic : S) : ParseOutcome :=
  match formatTime refTime pic with
  | none => .fail
  | some layout0 =>
    let layout := minus7 (layout0.length + 1) layout0
    match layoutItems (layout.length + 1) layout with
    | none => .outside
    | some items =>
      match parseItems items s {} with
      | none => .fail
      | some p => match parsedToMillis p with
        | some ms => .ok ms
        | none => .fail

def defaultParsePictures : List S := [
  "[Y]-[M01]-[D01]T[H01]:[m]:[s][Z01:01t]".toList, "[Y]-[M01]-[D01]T[H01]:[m]:[s][Z0100t]".toList,
  "[Y]-[M01]-[D01]T[H01]:[m]:[s]".toList, "[Y]-[M01]-[D01]".toList, "[Y]".toList]

/-- jlib.ToMillis -/
def toMillis (s picture : S) : ParseOutcome :=
  let pics := if picture.isEmpty then defaultParsePictures else [picture]
  pics.foldl (fun acc pic => match acc with
    | .fail => parseWith s pic
    | r => r) .fail

end Jsonata.Date
