/-
  Model/Proto.lean — the line protocol between the Go harness and the driver:
  S-expressions; numbers as 16 hex digits of the IEEE bit pattern, strings as hex
  of their UTF-8 bytes (no decimal float and no escaping ever crosses the wire).
-/
import JsonataModel.Model.Basic
import JsonataModel.Model.FloatNum

namespace Jsonata.Proto

inductive Sexp
  | atom (s : String)
  | list (xs : List Sexp)
  deriving Inhabited

/-- tokens: "(" ")" and maximal runs of other non-space characters -/
def tokenize (cs : List Char) : List String :=
  let rec go : List Char → List Char → List String → List String
    | [], cur, acc => (if cur.isEmpty then acc else String.ofList cur.reverse :: acc).reverse
    | c :: rest, cur, acc =>
      let flush := if cur.isEmpty then acc else String.ofList cur.reverse :: acc
      if c == '(' then go rest [] ("(" :: flush)
      else if c == ')' then go rest [] (")" :: flush)
      else if c == ' ' then go rest [] flush
      else go rest (c :: cur) acc
  go cs [] []

/-- parse one S-expression from a token list, with a stack of open lists -/
def parseTokens (toks : List String) : Option Sexp :=
  let rec go : List String → List (List Sexp) → Option Sexp
    | [], _ => none
    | t :: rest, stack =>
      if t == "(" then go rest ([] :: stack)
      else if t == ")" then
        match stack with
        | [] => none
        | cur :: [] => if rest.isEmpty then some (.list cur.reverse) else none
        | cur :: parent :: more => go rest ((.list cur.reverse :: parent) :: more)
      else
        match stack with
        | [] => if rest.isEmpty then some (.atom t) else none
        | cur :: more => go rest ((.atom t :: cur) :: more)
  go toks []

def parseSexp (s : String) : Option Sexp := parseTokens (tokenize s.toList)

def hexVal (c : Char) : Option Nat :=
  if c.toNat ≥ 48 && c.toNat ≤ 57 then some (c.toNat - 48)
  else if c.toNat ≥ 97 && c.toNat ≤ 102 then some (c.toNat - 87)
  else if c.toNat ≥ 65 && c.toNat ≤ 70 then some (c.toNat - 55)
  else none

def hexToNat (cs : List Char) : Option Nat :=
  cs.foldlM (fun acc c => (hexVal c).map (acc * 16 + ·)) 0

def hexToBytes : List Char → Option (List UInt8)
  | [] => some []
  | [_] => none
  | a :: b :: rest => do
    let x ← hexVal a
    let y ← hexVal b
    let tl ← hexToBytes rest
    pure (UInt8.ofNat (x * 16 + y) :: tl)

def hexToString (cs : List Char) : Option String := do
  let bs ← hexToBytes cs
  String.fromUTF8? (ByteArray.mk bs.toArray)

def hexDigitC (n : Nat) : Char :=
  if n < 10 then Char.ofNat (48 + n) else Char.ofNat (87 + n)

def bytesToHex (bs : List UInt8) : String :=
  String.ofList (bs.flatMap fun b => [hexDigitC (b.toNat / 16), hexDigitC (b.toNat % 16)])

def stringToHex (s : String) : String := bytesToHex s.toUTF8.toList

def natToHex16 (n : Nat) : String :=
  String.ofList ((List.range 16).reverse.map fun i => hexDigitC ((n / 16 ^ i) % 16))

/-- strip the one-character tag of an atom -/
def atomBody (s : String) : List Char := s.toList.drop 1
def atomTag (s : String) : Char := s.toList.headD ' '

def strOfAtom (s : String) : Option String :=
  if atomTag s == 's' then hexToString (atomBody s) else none

def numOfAtom (s : String) : Option Float :=
  if atomTag s == 'n' then (hexToNat (atomBody s)).map fun n => Float.ofBits (UInt64.ofNat n) else none

/-! ### values -/

partial def valOfSexp : Sexp → Option (Val Float)
  | .atom "z" => some .null
  | .atom "t" => some (.bool true)
  | .atom "f" => some (.bool false)
  | .atom "F" => some (.builtin "?")
  | .atom a =>
    match atomTag a with
    | 'n' => (numOfAtom a).map Val.num
    | 's' => (strOfAtom a).map Val.str
    | _ => none
  | .list (.atom "a" :: xs) => (xs.mapM valOfSexp).map Val.arr
  | .list (.atom "o" :: kvs) =>
    let rec pairs : List Sexp → Option (List (String × Val Float))
      | [] => some []
      | .atom k :: v :: rest => do
        let k ← strOfAtom k
        let v ← valOfSexp v
        let tl ← pairs rest
        pure ((k, v) :: tl)
      | _ => none
    (pairs kvs).map Val.obj
  | _ => none

def optValOfSexp : Sexp → Option (Option (Val Float))
  | .atom "u" => some none
  | s => (valOfSexp s).map some

/-- canonical text of a value: object members sorted by key, functions as `F` -/
partial def valToText : Val Float → String
  | .null => "z"
  | .bool true => "t"
  | .bool false => "f"
  | .num x => "n" ++ natToHex16 (if x.isNaN then 0x7ff8000000000000 else x.toBits.toNat)
  | .str s => "s" ++ stringToHex s
  | .arr xs => "(a" ++ String.join (xs.map fun x => " " ++ valToText x) ++ ")"
  | .obj kvs =>
    let sorted := (kvs.toArray.qsort (fun a b => a.1 < b.1)).toList
    "(o" ++ String.join (sorted.map fun p => " s" ++ stringToHex p.1 ++ " " ++ valToText p.2) ++ ")"
  | _ => "F"

/-! ### syntax trees -/

def numOpOf : String → Option NumOp
  | "+" => some .add | "-" => some .sub | "*" => some .mul | "/" => some .div | "%" => some .mod
  | _ => none

def cmpOpOf : String → Option CmpOp
  | "=" => some .eq | "!=" => some .ne | "<" => some .lt | "<=" => some .le
  | ">" => some .gt | ">=" => some .ge | "in" => some .in_
  | _ => none

def boolOpOf : String → Option BoolOp
  | "and" => some .and_ | "or" => some .or_ | _ => none

def sortDirOf : String → Option SortDir
  | "d" => some .default_ | "<" => some .asc | ">" => some .desc | _ => none

def paramOptOf : String → Option ParamOpt
  | "_" => some .none_ | "?" => some .optional | "+" => some .variadic | "-" => some .contextable
  | _ => none

partial def paramOfSexp : Sexp → Option Param
  | .list (.atom "p" :: .atom ty :: .atom opt :: subs) => do
    let t ← ty.toNat?
    let o ← paramOptOf opt
    let ss ← subs.mapM paramOfSexp
    pure (.mk t o ss)
  | _ => none

def matchOfSexp : Sexp → Option MatchRec
  | .list (.atom "m" :: .atom a :: .atom b :: .atom t :: gs) => do
    let a ← a.toNat?
    let b ← b.toNat?
    let t ← strOfAtom t
    let gs ← gs.mapM (fun g => match g with | .atom x => strOfAtom x | _ => none)
    pure { text := t, start := a, stop := b, groups := gs }
  | _ => none

/-- `(t <subject> <match>…)`: the engine's matches on one subject string -/
def rxEntryOfSexp : Sexp → Option (String × List MatchRec)
  | .list (.atom "t" :: .atom s :: ms) => do pure (← strOfAtom s, ← ms.mapM matchOfSexp)
  | _ => none

partial def nodeOfSexp : Sexp → Option (Node Float)
  | .list [.atom "str", .atom s] => (strOfAtom s).map Node.str
  | .list [.atom "num", .atom n] => (numOfAtom n).map Node.num
  | .list [.atom "bool", .atom b] => some (.bool (b == "t"))
  | .list [.atom "null"] => some .null
  | .list (.atom "regex" :: .atom s :: tbl) => do
    pure (.regex (← strOfAtom s) (← tbl.mapM rxEntryOfSexp))
  | .list [.atom "var", .atom s] => (strOfAtom s).map Node.var
  | .list [.atom "name", .atom s] => (strOfAtom s).map Node.name
  | .list (.atom "path" :: .atom k :: steps) => do
    let ss ← steps.mapM nodeOfSexp
    pure (.path ss (k == "K"))
  | .list [.atom "neg", x] => (nodeOfSexp x).map Node.neg
  | .list [.atom "range", l, r] => do pure (.range (← nodeOfSexp l) (← nodeOfSexp r))
  | .list (.atom "array" :: items) => (items.mapM nodeOfSexp).map Node.array
  | .list (.atom "object" :: kvs) => (pairsOf kvs).map Node.object
  | .list (.atom "block" :: es) => (es.mapM nodeOfSexp).map Node.block
  | .list [.atom "wild"] => some .wildcard
  | .list [.atom "desc"] => some .descendent
  | .list [.atom "transform", p, u] => do pure (.transform (← nodeOfSexp p) (← nodeOfSexp u) none)
  | .list [.atom "transform", p, u, d] => do
    pure (.transform (← nodeOfSexp p) (← nodeOfSexp u) (some (← nodeOfSexp d)))
  | .list [.atom "lambda", .list (.atom "params" :: ps), body] => do
    let names ← ps.mapM fun | .atom a => strOfAtom a | _ => none
    pure (.lambda names (← nodeOfSexp body))
  | .list [.atom "tlambda", .list (.atom "params" :: ps), .list (.atom "sig" :: sg), body] => do
    let names ← ps.mapM fun | .atom a => strOfAtom a | _ => none
    let sig ← sg.mapM paramOfSexp
    pure (.typedLambda names sig (← nodeOfSexp body))
  | .list (.atom "partial" :: f :: args) => do
    pure (.partial_ (← nodeOfSexp f) (← args.mapM nodeOfSexp))
  | .list [.atom "ph"] => some .placeholder
  | .list (.atom "call" :: f :: args) => do
    pure (.call (← nodeOfSexp f) (← args.mapM nodeOfSexp))
  | .list (.atom "pred" :: e :: fs) => do
    pure (.predicate (← nodeOfSexp e) (← fs.mapM nodeOfSexp))
  | .list (.atom "group" :: e :: kvs) => do
    pure (.group (← nodeOfSexp e) (← pairsOf kvs))
  | .list [.atom "cond", c, t] => do pure (.cond (← nodeOfSexp c) (← nodeOfSexp t) none)
  | .list [.atom "cond", c, t, e] => do
    pure (.cond (← nodeOfSexp c) (← nodeOfSexp t) (some (← nodeOfSexp e)))
  | .list [.atom "assign", .atom n, v] => do pure (.assign (← strOfAtom n) (← nodeOfSexp v))
  | .list [.atom "numop", .atom op, l, r] => do
    pure (.numop (← numOpOf op) (← nodeOfSexp l) (← nodeOfSexp r))
  | .list [.atom "cmpop", .atom op, l, r] => do
    pure (.cmpop (← cmpOpOf op) (← nodeOfSexp l) (← nodeOfSexp r))
  | .list [.atom "boolop", .atom op, l, r] => do
    pure (.boolop (← boolOpOf op) (← nodeOfSexp l) (← nodeOfSexp r))
  | .list [.atom "concat", l, r] => do pure (.concat (← nodeOfSexp l) (← nodeOfSexp r))
  | .list (.atom "sort" :: e :: terms) => do
    let ts ← terms.mapM fun
      | .list [.atom "term", .atom d, x] => do pure ((← sortDirOf d), (← nodeOfSexp x))
      | _ => none
    pure (.sort (← nodeOfSexp e) ts)
  | .list [.atom "apply", l, r] => do pure (.apply (← nodeOfSexp l) (← nodeOfSexp r))
  | _ => none
where
  pairsOf : List Sexp → Option (List (Node Float × Node Float))
    | [] => some []
    | k :: v :: rest => do
      let kn ← nodeOfSexp k
      let vn ← nodeOfSexp v
      let tl ← pairsOf rest
      pure ((kn, vn) :: tl)
    | _ => none

def errToText : Err → String
  | .eval k => "err eval:" ++ k.name
  | .argCount => "err argcount"
  | .argType w => "err argtype:" ++ toString w
  | .lib f => "err lib:" ++ f
  | .fuel => "err fuel"
  | .panic s => "err panic:" ++ s
  | .unsupported w => "skip " ++ w

def outcomeToText : Except Err (Option (Val Float)) → String
  | .ok none => "undef"
  | .ok (some v) => "ok " ++ valToText v
  | .error e => errToText e

end Jsonata.Proto

namespace Jsonata.Proto

def numOpText : NumOp → String
  | .add => "+" | .sub => "-" | .mul => "*" | .div => "/" | .mod => "%"
def cmpOpText : CmpOp → String
  | .eq => "=" | .ne => "!=" | .lt => "<" | .le => "<=" | .gt => ">" | .ge => ">=" | .in_ => "in"
def boolOpText : BoolOp → String | .and_ => "and" | .or_ => "or"
def sortDirText : SortDir → String | .default_ => "d" | .asc => "<" | .desc => ">"
def paramOptText : ParamOpt → String | .none_ => "_" | .optional => "?" | .variadic => "+" | .contextable => "-"

partial def paramToText : Param → String
  | .mk t o subs => "(p " ++ toString t ++ " " ++ paramOptText o ++ String.join (subs.map fun s => " " ++ paramToText s) ++ ")"

def numAtom (x : Float) : String :=
  "n" ++ natToHex16 (if x.isNaN then 0x7ff8000000000000 else x.toBits.toNat)

/-- the same text the Go harness prints for a jparse tree (harness/ser.go nodeSexp) -/
partial def nodeToText : Node Float → String
  | .str s => "(str s" ++ stringToHex s ++ ")"
  | .num x => "(num " ++ numAtom x ++ ")"
  | .bool b => if b then "(bool t)" else "(bool f)"
  | .null => "(null)"
  | .regex p _ => "(regex s" ++ stringToHex p ++ ")"
  | .var n => "(var s" ++ stringToHex n ++ ")"
  | .name v => "(name s" ++ stringToHex v ++ ")"
  | .path steps keep => "(path " ++ (if keep then "K" else "k") ++ many steps ++ ")"
  | .neg r => "(neg " ++ nodeToText r ++ ")"
  | .range l r => "(range " ++ nodeToText l ++ " " ++ nodeToText r ++ ")"
  | .array items => "(array" ++ many items ++ ")"
  | .object pairs => "(object" ++ manyPairs pairs ++ ")"
  | .block es => "(block" ++ many es ++ ")"
  | .wildcard => "(wild)"
  | .descendent => "(desc)"
  | .transform p u d => "(transform " ++ nodeToText p ++ " " ++ nodeToText u ++
      (match d with | some x => " " ++ nodeToText x | none => "") ++ ")"
  | .lambda ps body => "(lambda " ++ names ps ++ " " ++ nodeToText body ++ ")"
  | .typedLambda ps sig body => "(tlambda " ++ names ps ++ " (sig" ++ String.join (sig.map fun p => " " ++ paramToText p) ++ ") " ++ nodeToText body ++ ")"
  | .partial_ f args => "(partial " ++ nodeToText f ++ many args ++ ")"
  | .placeholder => "(ph)"
  | .call f args => "(call " ++ nodeToText f ++ many args ++ ")"
  | .predicate e fs => "(pred " ++ nodeToText e ++ many fs ++ ")"
  | .group e pairs => "(group " ++ nodeToText e ++ manyPairs pairs ++ ")"
  | .cond c t e => "(cond " ++ nodeToText c ++ " " ++ nodeToText t ++ (match e with | some x => " " ++ nodeToText x | none => "") ++ ")"
  | .assign n v => "(assign s" ++ stringToHex n ++ " " ++ nodeToText v ++ ")"
  | .numop op l r => "(numop " ++ numOpText op ++ " " ++ nodeToText l ++ " " ++ nodeToText r ++ ")"
  | .cmpop op l r => "(cmpop " ++ cmpOpText op ++ " " ++ nodeToText l ++ " " ++ nodeToText r ++ ")"
  | .boolop op l r => "(boolop " ++ boolOpText op ++ " " ++ nodeToText l ++ " " ++ nodeToText r ++ ")"
  | .concat l r => "(concat " ++ nodeToText l ++ " " ++ nodeToText r ++ ")"
  | .sort e terms => "(sort " ++ nodeToText e ++ String.join (terms.map fun (d, x) => " (term " ++ sortDirText d ++ " " ++ nodeToText x ++ ")") ++ ")"
  | .apply l r => "(apply " ++ nodeToText l ++ " " ++ nodeToText r ++ ")"
where
  many (ns : List (Node Float)) : String := String.join (ns.map fun n => " " ++ nodeToText n)
  manyPairs (ps : List (Node Float × Node Float)) : String :=
    String.join (ps.map fun (k, v) => " " ++ nodeToText k ++ " " ++ nodeToText v)
  names (ps : List String) : String := "(params" ++ String.join (ps.map fun n => " s" ++ stringToHex n) ++ ")"

end Jsonata.Proto
