/-
  Props/C09.lean — property C09: Eval is total — outcomes are returned, never thrown.

  Every function of the model is a total Lean function (Lean checked the termination of each
  one: structural recursion on lists, values or fuel), so "terminates" holds of the model by
  construction; what is proved here is that the outcome of the modelled operations is always a
  value, 'no value' or an *evaluation error* — never the model's `panic` or `fuel` outcome —
  and that the evaluator's node dispatch covers every node type the parser can produce
  (regenerated fact).  Panics that originate inside Go's reflect package have no counterpart in
  the model; for those the property is carried by the correspondence alone (DESIGN.md §6 C09).
-/
import JsonataModel.Model.Interp
import JsonataModel.Props.C13
import JsonataModel.Generated.Facts

namespace Jsonata.Props.C09
open Jsonata NumSys

variable {N : Type} [NumSys N]

/-- outcomes that may not escape an evaluation of a program without unbounded recursion -/
def Err.isCrash : Err → Bool
  | .panic _ => true
  | .fuel => true
  | _ => false

def NoCrash {α : Type} (x : Except Err α) : Prop := ∀ e, x = .error e → Err.isCrash e = false

theorem noCrash_ok {α : Type} (x : α) : NoCrash (.ok x : Except Err α) := by
  intro e he; cases he

theorem noCrash_err {α : Type} (e : Err) (h : Err.isCrash e = false) :
    NoCrash (.error e : Except Err α) := by
  intro e' he; cases he; exact h

theorem noCrash_map {α β : Type} (f : α → β) (x : Except Err α) (h : NoCrash x) :
    NoCrash (Except.map f x) := by
  intro e he
  cases x with
  | ok v => cases he
  | error e' => simp [Except.map] at he; subst he; exact h _ rfl

theorem noCrash_bind {α β : Type} (x : Except Err α) (f : α → Except Err β) (hx : NoCrash x)
    (hf : ∀ a, NoCrash (f a)) : NoCrash (x >>= f) := by
  intro e he
  cases x with
  | ok v => exact hf v e he
  | error e' =>
    have : (Except.error e' >>= f) = Except.error e' := rfl
    rw [this] at he; cases he; exact hx _ rfl

/-- split every `if`/`match` of the goal and close the leaves -/
macro "nocrash" : tactic =>
  `(tactic| repeat (first | apply noCrash_ok | (apply noCrash_err; rfl) | split | (dsimp only)))

/-- the operators never crash, whatever the kinds of their operands (ill-typed programs
    produce errors or 'no value') -/
theorem operators_no_crash (op : NumOp) (cop : CmpOp) (l r : Option (Val N)) :
    NoCrash (numericOp op l r) ∧ NoCrash (comparisonOp cop l r) ∧ NoCrash (rangeOp l r) ∧
    NoCrash (negateOp l) := by
  refine ⟨?_, ?_, ?_, ?_⟩
  · unfold numericOp; nocrash
  · unfold comparisonOp
    simp only []
    split
    · rename_i e hg
      apply noCrash_err
      -- the type gate only ever yields evaluation errors
      revert hg
      repeat' split
      all_goals (intro h; first | (cases h; rfl) | (simp at h))
    · nocrash
  · unfold rangeOp; simp only []; nocrash
  · unfold negateOp; nocrash

/-- argument checking of typed lambdas and built-ins reports ArgCount / ArgType errors, never a crash -/
theorem argument_checks_no_crash (sig : List Param) (ctx : Option (Val N)) (argv : List (Option (Val N)))
    (spec : BuiltinSpec) :
    NoCrash (lambdaArgCount sig ctx argv) ∧ NoCrash (goArgCount spec ctx argv) := by
  constructor
  · unfold lambdaArgCount; simp only []; nocrash
  · unfold goArgCount; simp only []; nocrash

theorem argtypes_no_crash (sig : List Param) (i : Nat) (argv : List (Option (Val N))) :
    NoCrash (lambdaArgTypes sig i argv) := by
  induction argv generalizing i with
  | nil => unfold lambdaArgTypes; exact noCrash_ok _
  | cons a rest ih =>
    unfold lambdaArgTypes
    rcases a with _ | a
    · exact noCrash_map _ _ (ih (i + 1))
    · simp only []
      repeat' (first | exact noCrash_map _ _ (ih (i + 1)) | (apply noCrash_err; rfl) | split)

/-- the sort-key bookkeeping reports its two errors, never a crash -/
theorem sortKeyCheck_no_crash (k : TermKind) (v : Option (Val N)) : NoCrash (sortKeyCheck k v) := by
  unfold sortKeyCheck; nocrash

/-- the aggregates and `$merge` report library errors, never a crash -/
theorem aggregates_no_crash (v : Val N) :
    NoCrash (libSum v) ∧ NoCrash (libAverage v) ∧ NoCrash (libMerge v) := by
  have hn : ∀ fn, NoCrash (numbersOf fn v) := by
    intro fn; unfold numbersOf; nocrash
  refine ⟨?_, ?_, ?_⟩
  · unfold libSum
    apply noCrash_bind _ _ (hn _)
    intro ns; unfold finiteOr; nocrash
  · unfold libAverage
    apply noCrash_bind _ _ (hn _)
    intro ns
    split
    · exact noCrash_ok _
    · exact noCrash_ok _
    · unfold finiteOr; nocrash
  · unfold libMerge; nocrash

/-! ### more of the library: conversions, argument processing, matchers -/

/-- string conversion (`$string`, `&`) reports a library error for non-finite numbers, never a crash -/
theorem stringify_no_crash (v : Val N) (o : Option (Val N)) :
    NoCrash (stringOf v) ∧ NoCrash (stringifyO o) := by
  have h : ∀ v : Val N, NoCrash (stringOf v) := by
    intro v; unfold stringOf; nocrash
  refine ⟨h v, ?_⟩
  unfold stringifyO
  cases o with
  | none => exact noCrash_ok _
  | some v => exact h v

/-- converting the arguments of a built-in to its Go parameter types reports ArgType, never a crash:
    any value in any argument position (type-chaotic programs) -/
theorem processArgs_no_crash (params : List PT) (i : Nat) (argv : List (Option (Val N))) :
    NoCrash (processArgs params i argv) := by
  induction argv generalizing i with
  | nil => unfold processArgs; exact noCrash_ok _
  | cons a rest ih =>
    unfold processArgs
    simp only []
    split
    · apply noCrash_err; rfl
    · exact noCrash_map _ _ (ih (i + 1))

/-- `$max` / `$min` on anything -/
theorem maxmin_no_crash (v : Val N) : NoCrash (libMax v) ∧ NoCrash (libMin v) := by
  have hn : ∀ fn, NoCrash (numbersOf fn v) := by
    intro fn; unfold numbersOf; nocrash
  constructor
  · unfold libMax
    apply noCrash_bind _ _ (hn _)
    intro ns; nocrash
  · unfold libMin
    apply noCrash_bind _ _ (hn _)
    intro ns; nocrash

/-- `$number` on any string and `$formatBase` with any radix (numbers at the edges of the number grammar) -/
theorem number_text_no_crash (s : String) (x : N) (base : Option N) :
    NoCrash (libNumberStr (N := N) s) ∧ NoCrash (libFormatBase x base) := by
  constructor
  · unfold libNumberStr; simp only []; nocrash
  · unfold libFormatBase; simp only []; nocrash

/-- reading a user-supplied match object (a function used as a matcher may return anything) -/
theorem readMatch_no_crash (v : Val N) : NoCrash (readMatch v) := by
  unfold readMatch; nocrash


/-! ### regenerated fact: the evaluator's type switch handles every node type -/

/-- the node types of the model's syntax tree, by their jparse names -/
def modelNodeTypes : List String :=
  ["StringNode", "NumberNode", "BooleanNode", "NullNode", "RegexNode", "VariableNode", "NameNode",
   "PathNode", "NegationNode", "RangeNode", "ArrayNode", "ObjectNode", "BlockNode", "ConditionalNode",
   "AssignmentNode", "WildcardNode", "DescendentNode", "GroupNode", "PredicateNode", "SortNode",
   "LambdaNode", "TypedLambdaNode", "ObjectTransformationNode", "PartialNode", "FunctionCallNode",
   "FunctionApplicationNode", "NumericOperatorNode", "ComparisonOperatorNode", "BooleanOperatorNode",
   "StringConcatenationNode"]

/-- eval.go's `eval` dispatches on exactly the node types the model evaluates (the only other
    node type, PlaceholderNode, occurs only as an argument of a PartialNode) -/
theorem fact_eval_handles_all_nodes : Generated.evalNodeTypes = modelNodeTypes := by decide

/-- evaluating a placeholder outside a partial application is the one modelled crash site,
    and the parser never puts one there -/
theorem placeholder_is_only_crash_site (r : Rec N) (d : Option (Val N)) (env : Nat) (s : Store N) :
    evalNode r .placeholder d env s = .error (.panic "eval: unexpected node type PlaceholderNode") := rfl

end Jsonata.Props.C09
