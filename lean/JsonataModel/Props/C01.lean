/-
  Props/C01.lean — property C01: paths map over sequences, flatten one level and
  normalise empty / singleton results.  Every statement is for all step
  evaluators, all numbers of steps and all documents.
-/
import JsonataModel.Model.Interp
import JsonataModel.Spec.Path
import JsonataModel.Lemmas.Monad

namespace Jsonata.Props.C01
open Jsonata Jsonata.Spec NumSys

variable {N : Type} [NumSys N]

/-! ### one step -/

theorem flattenStep_eq (isCons : Bool) (rs : List (Val N)) :
    flattenStep isCons rs = flatten1 isCons rs := by
  induction rs with
  | nil => rfl
  | cons v vs ih =>
    cases isCons <;> cases v <;> simp [flattenStep, flatten1, ih] <;> rfl

/-- the step is evaluated once per context item, in order, and absent values are dropped -/
theorem evalOver_pure (ev : Option (Val N) → EvalM N (Option (Val N)))
    (p : Option (Val N) → Option (Val N)) (hev : PureEv ev p)
    (items : List (Option (Val N))) (s : Store N) :
    ∃ s', evalOver ev items s = .ok (stepResults p items, s') := by
  induction items generalizing s with
  | nil => exact ⟨s, rfl⟩
  | cons x xs ih =>
    obtain ⟨s1, h1⟩ := hev x s
    obtain ⟨s2, h2⟩ := ih s1
    refine ⟨s2, ?_⟩
    simp only [evalOver, evalM_bind, h1, h2, stepResults, List.filterMap_cons]
    cases p x <;> simp [stepResults]

/-- an error of the step on the first context item is the outcome -/
theorem evalOver_error (ev : Option (Val N) → EvalM N (Option (Val N))) (x : Option (Val N))
    (xs : List (Option (Val N))) (s : Store N) (e : Err) (h : ev x s = .error e) :
    evalOver ev (x :: xs) s = .error e := by
  simp [evalOver, h]

/-- `evalPathStep`: results flattened one level (constructor steps exempt); a single
    array-valued result of the last step is returned as it is; nothing is no value. -/
theorem evalPathStep_spec (ev : Option (Val N) → EvalM N (Option (Val N)))
    (p : Option (Val N) → Option (Val N)) (hev : PureEv ev p) (isCons last : Bool)
    (items : List (Option (Val N))) (s : Store N) :
    ∃ s', evalPathStep ev isCons items last s = .ok (
      (match last, stepResults p items with
       | true, [.arr xs] => some (RV.val (.arr xs))
       | _, rs => match flatten1 isCons rs with
         | [] => none
         | out => some (RV.seq out false)), s') := by
  obtain ⟨s1, h1⟩ := evalOver_pure ev p hev items s
  refine ⟨s1, ?_⟩
  simp only [evalPathStep, evalM_bind, h1]
  cases last <;> rcases hr : stepResults p items with _ | ⟨v, _ | ⟨w, ws⟩⟩ <;>
    simp [flattenStep_eq] <;>
    first
    | (cases v <;> simp [flattenStep_eq] <;> (split <;> simp_all))
    | (split <;> simp_all)

/-! ### the whole path -/

theorem specSteps_cons (sem : Node N → Option (Val N) → Option (Val N)) (first : Bool)
    (step : Node N) (rest : List (Node N)) (items : List (Option (Val N))) :
    specSteps sem first (step :: rest) items =
      (if (first && isConsNode step) = true then
        match sem step (some (.arr (items.filterMap id))) with
        | none => none
        | some (.arr []) => none
        | some v =>
          match rest with
          | [] => some (.inr v)
          | _ => specSteps sem false rest (match v with | .arr xs => xs.map some | w => [some w])
      else
        match rest, stepResults (sem step) items with
        | [], [.arr []] => none
        | [], [.arr xs] => some (.inr (.arr xs))
        | [], _ =>
          match flatten1 (isConsNode step) (stepResults (sem step) items) with
          | [] => none
          | out => some (.inl out)
        | _, _ =>
          match flatten1 (isConsNode step) (stepResults (sem step) items) with
          | [] => none
          | out => specSteps sem false rest (out.map some)) := by
  rw [specSteps]
  rfl


/-- **evalPath = specPath.** For every evaluator whose steps compute store-independent
    functions `sem step`, every list of steps (any length), `[]` marker and context:
    the path loop of the evaluator returns the value the statement defines. -/
theorem evalPathLoop_eq_spec (r : Rec N) (env : Nat)
    (sem : Node N → Option (Val N) → Option (Val N))
    (hsem : ∀ step, PureEv (fun x => r.ev step x env) (sem step))
    (n : Nat) (steps : List (Node N)) (i : Nat) (hn : i + steps.length = n)
    (items : List (Option (Val N))) (s : Store N) :
    ∃ s', evalPathLoop r env n i steps items s = .ok (
      (match specSteps sem (i == 0) steps items with
       | none => none
       | some (.inl out) => some (RV.seq out false)
       | some (.inr v) => some (RV.val v)), s') := by
  induction steps generalizing i items s with
  | nil => exact ⟨s, by simp [evalPathLoop, specSteps]⟩
  | cons step rest ih =>
    by_cases hcons : (i == 0 && isConsNode step) = true
    · -- leading array constructor
      have hi : i = 0 := by
        cases i with
        | zero => rfl
        | succ k => simp at hcons
      subst hi
      have hc : isConsNode step = true := by simpa using hcons
      obtain ⟨s1, h1⟩ := hsem step (some (.arr (items.filterMap id))) s
      rw [specSteps_cons]
      simp only [evalPathLoop, hcons, if_true, evalM_bind, h1, hc, Bool.and_self, beq_self_eq_true]
      rcases hv : sem step (some (.arr (List.filterMap id items))) with _ | v
      · exact ⟨s1, by simp⟩
      · by_cases hempty : v = .arr []
        · subst hempty
          exact ⟨s1, by simp⟩
        · cases rest with
          | nil =>
            refine ⟨s1, ?_⟩
            cases v with
            | arr xs => cases xs <;> simp_all
            | _ => simp
          | cons st2 rest2 =>
            have := ih 1 (by simp at hn ⊢; omega)
              (match v with | .arr xs => xs.map some | w => [some w]) s1
            obtain ⟨s2, h2⟩ := this
            refine ⟨s2, ?_⟩
            cases v with
            | arr xs =>
              cases xs with
              | nil => exact absurd rfl hempty
              | cons y ys => simpa [rvItems] using h2
            | _ => simpa [rvItems] using h2
    · -- ordinary step
      have hlast : (i + 1 == n) = rest.isEmpty := by
        cases rest with
        | nil => simp at hn ⊢; omega
        | cons a b => simp at hn ⊢; omega
      obtain ⟨s1, h1⟩ := evalPathStep_spec (fun x => r.ev step x env) (sem step) (hsem step)
        (isConsNode step) (i + 1 == n) items s
      have hcf : (i == 0 && isConsNode step) = false := by simpa using hcons
      have hbranch : evalPathLoop r env n i (step :: rest) items s =
          (do
            let next ← evalPathStep (fun x => r.ev step x env) (isConsNode step) items (i + 1 == n)
            match next with
            | none => pure none
            | some (.val (.arr [])) => pure none
            | some o =>
              match rest with
              | [] => pure (some o)
              | _ => evalPathLoop r env n (i + 1) rest (rvItems o)) s := by
        simp only [evalPathLoop, hcf, Bool.false_eq_true, if_false]
        rfl
      rw [hbranch]
      simp only [evalM_bind, h1]
      rw [specSteps_cons]
      simp only [hcf, Bool.false_eq_true, if_false]
      cases rest with
      | nil =>
        have hl : (i + 1 == n) = true := by simpa using hlast
        refine ⟨s1, ?_⟩
        simp only [hl]
        rcases hr : stepResults (sem step) items with _ | ⟨v, _ | ⟨w, ws⟩⟩
        · simp [flatten1]
        · cases v with
          | arr xs => cases xs <;> simp
          | _ => simp [flatten1]
        · rcases hf : flatten1 (isConsNode step) (v :: w :: ws) with _ | ⟨y, ys⟩ <;> simp [hf]
      | cons st2 rest2 =>
        have hl : (i + 1 == n) = false := by simpa using hlast
        simp only [hl]
        rcases hf : flatten1 (isConsNode step) (stepResults (sem step) items) with _ | ⟨y, ys⟩
        · exact ⟨s1, by simp [hf]⟩
        · obtain ⟨s2, h2⟩ := ih (i + 1) (by simp at hn ⊢; omega) ((y :: ys).map some) s1
          refine ⟨s2, ?_⟩
          have hi1 : (i + 1 == 0) = false := by simp
          simp only [hi1] at h2
          simp only [hf, rvItems]
          simpa using h2

theorem pathInit_eq (steps : List (Node N)) (data : Option (Val N)) :
    pathInit steps data = startItems (firstStepIsVar steps) data := by
  unfold pathInit startItems
  cases firstStepIsVar steps <;> rcases data with _ | v <;> try rfl

theorem seqValue_eq_normalise (items : List (Val N)) (keep : Bool) :
    seqValue items keep = normalisePath keep items := by
  rcases items with _ | ⟨x, _ | ⟨y, ys⟩⟩ <;> rfl

theorem evalPath_eq_spec (r : Rec N) (env : Nat)
    (sem : Node N → Option (Val N) → Option (Val N))
    (hsem : ∀ step, PureEv (fun x => r.ev step x env) (sem step))
    (steps : List (Node N)) (keep : Bool) (data : Option (Val N)) (s : Store N) :
    ∃ s', evalPath r steps keep data env s = .ok (specPath sem steps keep data, s') := by
  obtain ⟨s1, h1⟩ := evalPathLoop_eq_spec r env sem hsem steps.length steps 0 (by omega)
    (pathInit steps data) s
  refine ⟨s1, ?_⟩
  have h00 : ((0 : Nat) == 0) = true := rfl
  simp only [h00, pathInit_eq] at h1
  simp only [evalPath, evalM_bind, pathInit_eq, h1, specPath]
  rcases specSteps sem true steps (startItems (firstStepIsVar steps) data) with _ | (out | v) <;>
    simp [seqValue_eq_normalise]

/-! ### consequences read off the specification -/

/-- a result with no items is 'no value'; with one item it is the item itself unless the
    path carries `[]`; otherwise it is the array of the items -/
theorem normalise_cases (keep : Bool) (x y : Val N) (zs : List (Val N)) :
    normalisePath keep ([] : List (Val N)) = none ∧
    normalisePath false [x] = some x ∧ normalisePath true [x] = some (.arr [x]) ∧
    normalisePath keep (x :: y :: zs) = some (.arr (x :: y :: zs)) := by
  cases keep <;> simp [normalisePath]

/-- a path that starts with `$`, `$$` or a variable is anchored, not mapped -/
theorem anchored_start (name : String) (rest : List (Node N)) (xs : List (Val N)) :
    startItems (firstStepIsVar (Node.var name :: rest)) (some (.arr xs)) = [some (.arr xs)] ∧
    startItems (firstStepIsVar (Node.name name :: rest)) (some (.arr xs)) = xs.map some := by
  simp [firstStepIsVar, startsWithVar, startItems]

/-- … also when the variable carries predicates or an order-by clause (`$[p].a`, `$^(k).a`, `$v[p]^(k)[q].a`):
    the first step is evaluated once, on the variable's whole value (F39) -/
theorem anchored_through_sort_and_predicate (name : String) (terms : List (SortDir × Node N))
    (ps qs : List (Node N)) (rest : List (Node N)) (xs : List (Val N)) :
    startItems (firstStepIsVar (Node.sort (.var name) terms :: rest)) (some (.arr xs)) = [some (.arr xs)] ∧
    startItems (firstStepIsVar (Node.predicate (.sort (.predicate (.var name) ps) terms) qs :: rest)) (some (.arr xs))
      = [some (.arr xs)] ∧
    startItems (firstStepIsVar (Node.sort (.name name) terms :: rest)) (some (.arr xs)) = xs.map some := by
  simp [firstStepIsVar, startsWithVar, startItems]

/-- one-level flattening keeps order and keeps constructor results as units -/
theorem flatten1_append (isCons : Bool) (a b : List (Val N)) :
    flatten1 isCons (a ++ b) = flatten1 isCons a ++ flatten1 isCons b := by
  simp [flatten1]

theorem flatten1_cons_unit (rs : List (Val N)) : flatten1 true rs = rs := by
  induction rs with
  | nil => rfl
  | cons v vs ih =>
    have : flatten1 true (v :: vs) = v :: flatten1 true vs := by simp [flatten1]
    rw [this, ih]

theorem stepResults_append (p : Option (Val N) → Option (Val N)) (a b : List (Option (Val N))) :
    stepResults p (a ++ b) = stepResults p a ++ stepResults p b := by
  simp [stepResults]

/-! ### field names, wildcard, descendants -/

theorem fieldItemsL_eq (k : String) (xs : List (Val N)) :
    fieldItemsL k xs = xs.flatMap (fieldItems k) := by
  induction xs with
  | nil => rfl
  | cons x xs ih => simp [fieldItemsL, ih]

/-- a field name selects the member of that name; an array context contributes its members -/
theorem field_spec (k : String) (kvs : List (String × Val N)) (xs : List (Val N)) :
    fieldItems k (.obj kvs) = (objGet kvs k).toList ∧
    fieldItems k (.arr xs) = xs.flatMap (fieldItems k) ∧
    evalName k (some (.obj kvs)) = objGet kvs k ∧
    evalName k (some (.arr xs)) = normalisePath false (xs.flatMap (fieldItems k)) ∧
    evalName (N := N) k (some (.str "s")) = none ∧ evalName (N := N) k none = none := by
  simp [fieldItems, fieldItemsL_eq, evalName, seqValue_eq_normalise]

theorem flattenArrL_eq (xs : List (Val N)) : flattenArrL xs = xs.flatMap flattenArr := by
  induction xs with
  | nil => rfl
  | cons x xs ih => simp [flattenArrL, ih]

/-- `*` selects all member values, array values flattened -/
theorem wildcard_spec (kvs : List (String × Val N)) (xs : List (Val N)) (x : N) :
    evalWildcard (some (.obj kvs)) = normalisePath false (kvs.flatMap fun p => flattenArr p.2) ∧
    evalWildcard (some (.arr xs)) = normalisePath false (xs.flatMap flattenArr) ∧
    flattenArr (.arr xs) = xs.flatMap flattenArr ∧ flattenArr (.num x) = [.num x] ∧
    evalWildcard (some (.num x)) = none := by
  simp [evalWildcard, childValues, flattenArr, flattenArrL_eq, seqValue_eq_normalise, List.flatMap_map,
    normalisePath]

theorem descendantsL_eq (xs : List (Val N)) : descendantsL xs = xs.flatMap descendants := by
  induction xs with
  | nil => rfl
  | cons x xs ih => simp [descendantsL, ih]

theorem descendantsKV_eq (kvs : List (String × Val N)) :
    descendantsKV kvs = kvs.flatMap fun p => descendants p.2 := by
  induction kvs with
  | nil => rfl
  | cons p ps ih => cases p; simp [descendantsKV, ih]

/-- `**` selects the context and all of its descendants in document order, arrays being
    represented by their members -/
theorem descendants_spec (kvs : List (String × Val N)) (xs : List (Val N)) (x : N) (t : String) :
    descendants (.obj kvs) = .obj kvs :: kvs.flatMap (fun p => descendants p.2) ∧
    descendants (.arr xs) = xs.flatMap descendants ∧
    descendants (.num x) = [.num x] ∧ descendants (N := N) (.str t) = [.str t] ∧
    evalDescendent (some (.arr xs)) = normalisePath false (xs.flatMap descendants) := by
  simp [descendants, descendantsL_eq, descendantsKV_eq, evalDescendent, seqValue_eq_normalise]

/-! ### the optimiser flattens nested paths (C01: a.(b.c) has the steps of (a.b).c) -/

-- see Props/C04 for the parser side; here: evaluating the flat step list.

/-! ### non-vacuity -/

example : specPath (N := Int) (fun step ctx => match step with
    | .name k => evalName k ctx
    | _ => none) [.name "a", .name "b"] false
    (some (.obj [("a", .arr [.arr [.arr [.obj [("b", .num 1)]]]])])) = some (.num 1) := by
  simp [specPath, specSteps, startItems, firstStepIsVar, isConsNode, stepResults, flatten1, evalName,
    objGet, seqValue, fieldItemsL, fieldItems, normalisePath]

end Jsonata.Props.C01
