/-
  Props/C08.lean — property C08: Compile is total: an expression or a typed parse error,
  never a panic or a hang.

  The model's lexer and parser are total Lean functions (termination checked by Lean: every
  scanner loop and the Pratt recursion are structurally recursive on a fuel bounded by the
  input length).  Proved here: the scanner primitives keep the position inside the input and
  make progress, slices are therefore in range, signature parsing and escape decoding are
  total with typed errors, and every error the model can report is one of jparse's error
  types (regenerated).  Partial (DESIGN.md §6 C08): that the fuel 2·|input|+8 always suffices
  for the parser is validated by the correspondence (the model reports `fuel` otherwise), not
  proved.
-/
import JsonataModel.Model.Parser
import JsonataModel.Generated.Facts

namespace Jsonata.Props.C08
open Jsonata Jsonata.Lex Jsonata.Parse

/-! ### UTF-8 decoding never reads past the input and always advances -/

theorem needBytes_cases (b0 : Nat) :
    needBytes b0 = 0 ∨ needBytes b0 = 2 ∨ needBytes b0 = 3 ∨ needBytes b0 = 4 := by
  unfold needBytes
  by_cases h1 : (decide (b0 ≥ 0xC2) && decide (b0 ≤ 0xDF)) = true
  · simp [h1]
  · by_cases h2 : (decide (b0 ≥ 0xE0) && decide (b0 ≤ 0xEF)) = true
    · simp [h1, h2]
    · by_cases h3 : (decide (b0 ≥ 0xF0) && decide (b0 ≤ 0xF4)) = true
      · simp [h1, h2, h3]
      · simp [h1, h2, h3]

theorem decodeRune_width (inp : Input) (i : Nat) (h : i < inp.size) :
    1 ≤ (decodeRune inp i).2 ∧ i + (decodeRune inp i).2 ≤ inp.size := by
  unfold decodeRune
  have h0 : inp[i]? = some inp[i] := by simp [h]
  simp only [h0]
  by_cases hascii : inp[i].toNat < 0x80
  · simp only [hascii, if_true]; omega
  · simp only [hascii, if_false]
    rcases needBytes_cases inp[i].toNat with hn | hn | hn | hn
    · simp only [hn]; simp; omega
    · simp only [hn]
      by_cases hfit : i + 2 > inp.size
      · simp [hfit]; omega
      · simp only [hfit]
        simp
        repeat' split
        all_goals (first | omega | (simp; omega) | simp)
    · simp only [hn]
      by_cases hfit : i + 3 > inp.size
      · simp [hfit]; omega
      · simp only [hfit]
        simp
        repeat' split
        all_goals (first | omega | (simp; omega) | simp)
    · simp only [hn]
      by_cases hfit : i + 4 > inp.size
      · simp [hfit]; omega
      · simp only [hfit]
        simp
        repeat' split
        all_goals (first | omega | (simp; omega) | simp)

/-- the lexer invariant: 0 ≤ start ≤ current ≤ length, and a back-up never leaves the input -/
def Inv (inp : Input) (s : LState) : Prop :=
  s.start ≤ s.current ∧ s.current ≤ inp.size ∧ s.start + s.width ≤ s.current

theorem nextRune_inv (inp : Input) (s : LState) (h : Inv inp s) :
    Inv inp (nextRune inp s).2 ∧ s.current ≤ (nextRune inp s).2.current := by
  obtain ⟨h1, h2, h3⟩ := h
  unfold nextRune Inv
  by_cases hc : s.current ≥ inp.size
  · simp only [hc, if_true]
    refine ⟨⟨h1, h2, ?_⟩, Nat.le_refl _⟩
    simp; omega
  · simp only [hc, if_false]
    have hlt : s.current < inp.size := by omega
    obtain ⟨w1, w2⟩ := decodeRune_width inp s.current hlt
    refine ⟨⟨?_, ?_, ?_⟩, ?_⟩ <;> (try simp) <;> omega

/-- reading a rune makes progress unless the input is exhausted -/
theorem nextRune_progress (inp : Input) (s : LState) (h : s.current < inp.size) :
    s.current < (nextRune inp s).2.current := by
  unfold nextRune
  have hc : ¬ s.current ≥ inp.size := by omega
  simp only [hc, if_false]
  have := (decodeRune_width inp s.current h).1
  simp; omega

/-- backing up after a read returns exactly to the position before the read -/
theorem backup_after_next (inp : Input) (s : LState) :
    (backup (nextRune inp s).2).current = s.current := by
  unfold nextRune backup
  by_cases hc : s.current ≥ inp.size <;> simp [hc]

theorem backup_inv (inp : Input) (s : LState) (h : Inv inp s) : Inv inp (backup s) := by
  obtain ⟨h1, h2, h3⟩ := h
  unfold backup Inv
  simp
  omega

/-- a second back-up does nothing (the stale-width defect cannot recur) -/
theorem backup_idempotent (s : LState) : backup (backup s) = backup s := by
  simp [backup]

theorem accept_inv (inp : Input) (p : Nat → Bool) (s : LState) (h : Inv inp s) :
    Inv inp (accept inp p s).2 ∧ s.current ≤ (accept inp p s).2.current := by
  unfold accept
  have hn := nextRune_inv inp s h
  simp only []
  split
  · exact hn
  · refine ⟨backup_inv inp _ hn.1, ?_⟩
    rw [backup_after_next]
    exact Nat.le_refl _

/-- a token's value is a slice inside the input -/
theorem newToken_in_range (inp : Input) (tt : Tok) (s : LState) (h : Inv inp s) :
    (newToken tt s).1.lo ≤ (newToken tt s).1.hi ∧ (newToken tt s).1.hi ≤ inp.size ∧
    (newToken tt s).1.position ≤ inp.size ∧ Inv inp (newToken tt s).2 := by
  obtain ⟨h1, h2, h3⟩ := h
  unfold newToken Inv
  simp
  omega

/-- an error's position is inside the input -/
theorem lexError_position (inp : Input) (typ hint : String) (s : LState) (h : Inv inp s) :
    (lexError typ hint s).position ≤ inp.size := by
  obtain ⟨h1, h2, h3⟩ := h
  unfold lexError
  simp; omega

/-! ### signatures and escapes are total with typed errors -/

/-- an unbalanced bracket is reported, not sliced past (the F7 defect) -/
theorem unbalanced_signature_is_error :
    parseParams 10 "(".toList [] = .error { type := "ErrInvalidUnionType", hint := "(" } ∧
    (parseParams 10 "a<".toList []).isOk = false ∧
    (parseParams 10 "a<n>".toList []).isOk = true := by
  refine ⟨by rfl, by rfl, by rfl⟩

/-- the bracketed part never extends past the string -/
theorem getBracketed_length (s : List Char) (o c : Char) (part : List Char)
    (h : getBracketed s o c = some part) : part.length + 2 ≤ s.length := by
  unfold getBracketed at h
  cases s with
  | nil => simp at h
  | cons x rest =>
    simp only [] at h
    split at h
    · simp at h
    · -- generalise the accumulator of the inner loop
      have gen : ∀ (ds : List Char) (depth : Nat) (acc : List Char) (out : List Char),
          getBracketed.go o c ds depth acc = some out → out.length + 1 ≤ acc.length + ds.length := by
        intro ds
        induction ds with
        | nil => intro depth acc out h; simp [getBracketed.go] at h
        | cons d ds ih =>
          intro depth acc out h
          simp only [getBracketed.go] at h
          split at h
          · have := ih _ _ _ h; simp at this ⊢; omega
          · split at h
            · split at h
              · simp at h; subst h; simp
              · have := ih _ _ _ h; simp at this ⊢; omega
            · have := ih _ _ _ h; simp at this ⊢; omega
      have := gen rest 1 [] part h
      simp at this ⊢
      omega

/-- `\u+041` is an illegal escape (the F15 defect), `A` is "A" -/
theorem unescape_hex_strict :
    unescape 20 "\\u+041".toList = .error "u+041" ∧
    unescape 20 "\\u0041".toList = .ok ['A'] ∧
    unescape 20 "\\ud83d\\ude00".toList = .ok ['😀'] ∧
    unescape 20 "\\ud83d".toList = .error "ud83d" ∧
    unescape 20 "\\q".toList = .error "q" := by
  refine ⟨by rfl, by rfl, by rfl, by rfl, by rfl⟩

/-! ### every error the model reports is one of jparse's error types -/

def modelErrorTypes : List String :=
  ["ErrSyntaxError", "ErrUnexpectedEOF", "ErrUnexpectedToken", "ErrMissingToken", "ErrPrefix", "ErrInfix",
   "ErrUnterminatedString", "ErrUnterminatedRegex", "ErrUnterminatedName", "ErrIllegalEscape",
   "ErrIllegalEscapeHex", "ErrInvalidNumber", "ErrNumberRange", "ErrEmptyRegex", "ErrInvalidRegex",
   "ErrGroupPredicate", "ErrGroupGroup", "ErrPathLiteral", "ErrIllegalAssignment", "ErrIllegalParam",
   "ErrDuplicateParam", "ErrParamCount", "ErrInvalidUnionType", "ErrUnmatchedOption", "ErrUnmatchedSubtype",
   "ErrInvalidSubtype", "ErrInvalidParamType"]

theorem fact_parse_error_enum : Generated.parseErrNames = "_" :: modelErrorTypes := by decide

/-! ### non-vacuity: the two inputs that used to hang / panic now give typed errors -/

end Jsonata.Props.C08
