/-
  Props/C08.lean — property C08: Compile is total: an expression or a typed parse error,
  never a panic or a hang.

  The model's lexer and parser are total Lean functions (termination checked by Lean: every
  scanner loop and the Pratt recursion are structurally recursive on a fuel bounded by the
  input length).  Proved here: the scanner primitives keep the position inside the input and
  make progress, slices are therefore in range, signature parsing and escape decoding are
  total with typed errors, and every error the model can report is one of jparse's error
  types (regenerated).  The lexer cannot loop: every token other than EOF consumes at least one
  byte (`next_progress`), lexing terminates (`lexAll_terminates`), and the recursion budget of the
  Pratt parser and of every loop it runs always suffices (`parse_never_out_of_fuel`, end to end `parse_never_fuel`); the optimiser is
  structurally recursive (accepted by Lean's termination checker), so the model of Compile is a total
  function that never reports its own `fuel` error.
-/
import JsonataModel.Model.Parser
import JsonataModel.Model.Parser
import JsonataModel.Lemmas.LexerProgress
import JsonataModel.Generated.Facts

namespace Jsonata.Props.C08
open Jsonata Jsonata.Lex Jsonata.Parse
open Jsonata.LexerProgress (Inv Adv runeAt widthAt lexAll R)

/-! ### the lexer never leaves the input and always makes progress

The proofs (and the scanner-by-scanner lemmas they rest on) are in `Lemmas/LexerProgress.lean`; the statements
are restated here so that they are audited with the property. -/

theorem decodeRune_width (inp : Input) (i : Nat) (h : i < inp.size) :
    1 ≤ (decodeRune inp i).2 ∧ i + (decodeRune inp i).2 ≤ inp.size := by
  first
    | exact LexerProgress.decodeRune_width ..
    | (apply LexerProgress.decodeRune_width <;> assumption)

theorem nextRune_inv (inp : Input) (s : LState) (h : Inv inp s) :
    Inv inp (nextRune inp s).2 ∧ s.current ≤ (nextRune inp s).2.current := by
  first
    | exact LexerProgress.nextRune_inv ..
    | (apply LexerProgress.nextRune_inv <;> assumption)

/-- reading a rune makes progress unless the input is exhausted -/
theorem nextRune_progress (inp : Input) (s : LState) (h : s.current < inp.size) :
    s.current < (nextRune inp s).2.current := by
  first
    | exact LexerProgress.nextRune_progress ..
    | (apply LexerProgress.nextRune_progress <;> assumption)

/-- backing up after a read returns exactly to the position before the read -/
theorem backup_after_next (inp : Input) (s : LState) :
    (backup (nextRune inp s).2).current = s.current := by
  first
    | exact LexerProgress.backup_after_next ..
    | (apply LexerProgress.backup_after_next <;> assumption)

theorem backup_inv (inp : Input) (s : LState) (h : Inv inp s) : Inv inp (backup s) := by
  first
    | exact LexerProgress.backup_inv ..
    | (apply LexerProgress.backup_inv <;> assumption)

/-- a second back-up does nothing (the stale-width defect cannot recur) -/
theorem backup_idempotent (s : LState) : backup (backup s) = backup s := by
  first
    | exact LexerProgress.backup_idempotent ..
    | (apply LexerProgress.backup_idempotent <;> assumption)

theorem accept_inv (inp : Input) (p : Nat → Bool) (s : LState) (h : Inv inp s) :
    Inv inp (accept inp p s).2 ∧ s.current ≤ (accept inp p s).2.current := by
  first
    | exact LexerProgress.accept_inv ..
    | (apply LexerProgress.accept_inv <;> assumption)

/-- a token's value is a slice inside the input -/
theorem newToken_in_range (inp : Input) (tt : Tok) (s : LState) (h : Inv inp s) :
    (newToken tt s).1.lo ≤ (newToken tt s).1.hi ∧ (newToken tt s).1.hi ≤ inp.size ∧
    (newToken tt s).1.position ≤ inp.size ∧ Inv inp (newToken tt s).2 := by
  first
    | exact LexerProgress.newToken_in_range ..
    | (apply LexerProgress.newToken_in_range <;> assumption)

/-- an error's position is inside the input -/
theorem lexError_position (inp : Input) (typ hint : String) (s : LState) (h : Inv inp s) :
    (lexError typ hint s).position ≤ inp.size := by
  first
    | exact LexerProgress.lexError_position ..
    | (apply LexerProgress.lexError_position <;> assumption)

/-- **The lexer makes progress.**  Whenever `next` returns a token other than EOF, the position
    has moved forward by at least one byte — for every input (valid UTF-8 or not), every start
    state and either regex mode.  Hence a token stream has at most |input| tokens before EOF: the
    lexer cannot loop. -/
theorem next_progress (inp : Input) (allowRegex : Bool) (s0 : LState) (t : Token) (s' : LState)
    (h : next inp allowRegex s0 = .ok (t, s')) (hne : t.type ≠ .eof) : s0.current < s'.current := by
  first
    | exact LexerProgress.next_progress ..
    | (apply LexerProgress.next_progress <;> assumption)

/-- a token other than EOF is only produced when input is left -/
theorem next_noneof_lt (inp : Input) (allowRegex : Bool) (s0 : LState) (t : Token) (s' : LState)
    (h : next inp allowRegex s0 = .ok (t, s')) (hne : t.type ≠ .eof) : s0.current < inp.size := by
  first
    | exact LexerProgress.next_noneof_lt ..
    | (apply LexerProgress.next_noneof_lt <;> assumption)

/-- **Lexing terminates.**  From any state, |remaining input| + 1 steps are enough to reach EOF or a
    lexical error: the budget is never the reason to stop, and there are at most |input| tokens before EOF. -/
theorem lexAll_terminates (inp : Input) (n : Nat) (s : LState) (h : inp.size - s.current < n) :
    (lexAll inp n s).isSome = true ∧
    (∀ ts, lexAll inp n s = some (.ok ts) → ts.length ≤ inp.size - s.current + 1) := by
  first
    | exact LexerProgress.lexAll_terminates ..
    | (apply LexerProgress.lexAll_terminates <;> assumption)

/-- `next` never moves backwards (also when it returns EOF) -/
theorem next_ge (inp : Input) (allowRegex : Bool) (s0 : LState) (t : Token) (s' : LState)
    (h : next inp allowRegex s0 = .ok (t, s')) : s0.current ≤ s'.current := by
  first
    | exact LexerProgress.next_ge ..
    | (apply LexerProgress.next_ge <;> assumption)

theorem advance_R (inp : Input) (ar : Bool) (p q : PState) (h : advance inp ar p = .ok q) :
    R inp q ≤ R inp p ∧ (p.tok.type ≠ .eof → R inp q + 1 ≤ R inp p) := by
  first
    | exact LexerProgress.advance_R ..
    | (apply LexerProgress.advance_R <;> assumption)

/-- the lexer's errors are the three "unterminated" kinds -/
theorem R_le (inp : Input) (p : PState) : R inp p < inp.size + 2 := by
  first
    | exact LexerProgress.R_le ..
    | (apply LexerProgress.R_le <;> assumption)

def LexErr (e : PErr) : Prop :=
  e.type = "ErrUnterminatedRegex" ∨ e.type = "ErrUnterminatedString" ∨ e.type = "ErrUnterminatedName"

theorem scanRegexLoop_err (inp : Input) (fuel : Nat) (depth : Int) (s : LState) (e : PErr)
    (h : scanRegexLoop inp fuel depth s = .error e) : LexErr e := by
  induction fuel generalizing depth s with
  | zero => simp [scanRegexLoop] at h; subst h; exact Or.inl rfl
  | succ f ih =>
    unfold scanRegexLoop at h
    simp only [] at h
    repeat' split at h
    all_goals first
      | exact ih _ _ h
      | (injection h with h'; subst h'; exact Or.inl rfl)
      | (exact absurd h (by simp))

theorem scanStringLoop_err (inp : Input) (q : Nat) (fuel : Nat) (s : LState) (e : PErr)
    (h : scanStringLoop inp q fuel s = .error e) : LexErr e := by
  induction fuel generalizing s with
  | zero => simp [scanStringLoop] at h; subst h; exact Or.inr (Or.inl rfl)
  | succ f ih =>
    unfold scanStringLoop at h
    simp only [] at h
    repeat' split at h
    all_goals first
      | exact ih _ h
      | (injection h with h'; subst h'; exact Or.inr (Or.inl rfl))
      | (exact absurd h (by simp))

theorem scanEscLoop_err (inp : Input) (fuel : Nat) (s : LState) (e : PErr)
    (h : scanEscLoop inp fuel s = .error e) : LexErr e := by
  induction fuel generalizing s with
  | zero => simp [scanEscLoop] at h; subst h; exact Or.inr (Or.inr rfl)
  | succ f ih =>
    unfold scanEscLoop at h
    simp only [] at h
    repeat' split at h
    all_goals first
      | exact ih _ h
      | (injection h with h'; subst h'; exact Or.inr (Or.inr rfl))
      | (exact absurd h (by simp))

theorem scanRegex_err (inp : Input) (s : LState) (e : PErr) (h : scanRegex inp s = .error e) : LexErr e := by
  unfold scanRegex at h
  cases hl : scanRegexLoop inp (inp.size + 1) 0 s with
  | error e' => simp [hl, bind, Except.bind] at h; subst h; exact scanRegexLoop_err _ _ _ _ _ hl
  | ok s1 =>
    simp only [hl, bind, Except.bind, pure, Except.pure] at h
    split at h <;> simp at h

theorem scanString_err (inp : Input) (q : Nat) (s : LState) (e : PErr) (h : scanString inp q s = .error e) : LexErr e := by
  unfold scanString at h
  cases hl : scanStringLoop inp q (inp.size + 1) s with
  | error e' => simp [hl, bind, Except.bind] at h; subst h; exact scanStringLoop_err _ _ _ _ _ hl
  | ok s1 => simp [hl, bind, Except.bind, pure, Except.pure] at h

theorem scanEscapedName_err (inp : Input) (s : LState) (e : PErr) (h : scanEscapedName inp s = .error e) : LexErr e := by
  unfold scanEscapedName at h
  cases hl : scanEscLoop inp (inp.size + 1) s with
  | error e' => simp [hl, bind, Except.bind] at h; subst h; exact scanEscLoop_err _ _ _ _ hl
  | ok s1 => simp [hl, bind, Except.bind, pure, Except.pure] at h

theorem next_err (inp : Input) (ar : Bool) (s0 : LState) (e : PErr) (h : next inp ar s0 = .error e) : LexErr e := by
  unfold next at h
  simp only [] at h
  repeat' split at h
  all_goals first
    | exact scanRegex_err _ _ _ h
    | exact scanString_err _ _ _ _ h
    | exact scanEscapedName_err _ _ _ h
    | (simp at h)

theorem lexErr_not_fuel (e : PErr) (h : LexErr e) : e.type ≠ "fuel" := by
  rcases h with h | h | h <;> (rw [h]; decide)

/-! ### the parser never runs out of fuel -/

/-- a parser step from `p` is *fine*: it does not fail for lack of fuel and does not give tokens back -/
def Fine {α : Type} (inp : Input) (p : PState) (r : Except PErr (α × PState)) : Prop :=
  (∀ e, r = .error e → e.type ≠ "fuel") ∧ (∀ x q, r = .ok (x, q) → R inp q ≤ R inp p)

def FineS (inp : Input) (p : PState) (r : Except PErr PState) : Prop :=
  (∀ e, r = .error e → e.type ≠ "fuel") ∧ (∀ q, r = .ok q → R inp q ≤ R inp p)

theorem fine_ok {α : Type} (inp : Input) (p q : PState) (x : α) (h : R inp q ≤ R inp p) : Fine inp p (.ok (x, q)) :=
  ⟨fun e he => by simp at he, fun y q' he => by injection he with he; injection he with _ e2; rw [← e2]; exact h⟩

theorem fine_err {α : Type} (inp : Input) (p : PState) (e : PErr) (h : e.type ≠ "fuel") : Fine (α := α) inp p (.error e) :=
  ⟨fun e' he => by injection he with he; rw [← he]; exact h, fun y q' he => by simp at he⟩

theorem fine_mono {α : Type} (inp : Input) (p p' : PState) (r : Except PErr (α × PState)) (h : Fine inp p' r)
    (hp : R inp p' ≤ R inp p) : Fine inp p r :=
  ⟨h.1, fun x q he => Nat.le_trans (h.2 x q he) hp⟩

/-- sequencing: a fine step followed by a step that is fine from wherever the first one stopped -/
theorem fine_bind {α β : Type} (inp : Input) (p : PState) (m : Except PErr (α × PState)) (f : α × PState → Except PErr (β × PState))
    (hm : Fine inp p m) (hf : ∀ x q, m = .ok (x, q) → R inp q ≤ R inp p → Fine inp q (f (x, q))) : Fine inp p (m >>= f) := by
  cases hmv : m with
  | error e =>
    refine ⟨fun e' he => ?_, fun y q' he => ?_⟩
    · simp [bind, Except.bind] at he; rw [← he]; exact hm.1 e hmv
    · simp [bind, Except.bind] at he
  | ok r =>
    obtain ⟨x, q⟩ := r
    have hq := hm.2 x q hmv
    have := hf x q hmv hq
    simp only [bind, Except.bind]
    exact fine_mono inp p q _ this hq

theorem fine_bindS {β : Type} (inp : Input) (p : PState) (m : Except PErr PState) (f : PState → Except PErr (β × PState))
    (hm : FineS inp p m) (hf : ∀ q, m = .ok q → R inp q ≤ R inp p → Fine inp q (f q)) : Fine inp p (m >>= f) := by
  cases hmv : m with
  | error e =>
    refine ⟨fun e' he => ?_, fun y q' he => ?_⟩
    · simp [bind, Except.bind] at he; rw [← he]; exact hm.1 e hmv
    · simp [bind, Except.bind] at he
  | ok q =>
    have hq := hm.2 q hmv
    have := hf q hmv hq
    simp only [bind, Except.bind]
    exact fine_mono inp p q _ this hq

theorem advance_fine (inp : Input) (ar : Bool) (p : PState) : FineS inp p (advance inp ar p) := by
  refine ⟨fun e he => ?_, fun q he => (advance_R inp ar p q he).1⟩
  unfold advance at he
  cases hn : next inp ar p.lex with
  | error e' => simp [hn] at he; rw [← he]; exact lexErr_not_fuel _ (next_err inp ar p.lex e' hn)
  | ok r => simp [hn] at he

theorem consume_fine (inp : Input) (t : Tok) (ar : Bool) (p : PState) : FineS inp p (consume inp t ar p) := by
  unfold consume
  split
  · refine ⟨fun e he => ?_, fun q he => by simp at he⟩
    injection he with he
    rw [← he]
    simp only [tokErr]
    split <;> decide
  · exact advance_fine inp ar p

/-- consuming a token that is there gives one token less -/
theorem consume_dec (inp : Input) (t : Tok) (ar : Bool) (p q : PState) (h : consume inp t ar p = .ok q) (ht : t ≠ .eof) :
    R inp q + 1 ≤ R inp p := by
  unfold consume at h
  split at h
  · simp at h
  · rename_i hne
    have : p.tok.type = t := by simpa using hne
    exact (advance_R inp ar p q h).2 (by rw [this]; exact ht)

def GoodPE (inp : Input) (pe : Nat → PState → Except PErr (PNode × PState)) (B : Nat) : Prop :=
  ∀ rbp p, R inp p ≤ B → Fine inp p (pe rbp p)

theorem parseList_fine (inp : Input) (item : PState → Except PErr (PNode × PState)) (B : Nat)
    (hitem : ∀ q, R inp q ≤ B → Fine inp q (item q)) :
    ∀ n p, R inp p ≤ B → R inp p < n → Fine inp p (parseList inp n item p) := by
  intro n
  induction n with
  | zero => intro p _ h; omega
  | succ n ih =>
    intro p hp hn
    unfold parseList
    refine fine_bind inp p _ _ (hitem p hp) ?_
    intro x p1 h1 hq1
    simp only []
    split
    · exact fine_ok inp p1 p1 _ (Nat.le_refl _)
    · refine fine_bindS inp p1 _ _ (consume_fine inp .comma true p1) ?_
      intro p2 h2 hq2
      have hd := consume_dec inp .comma true p1 p2 h2 (by decide)
      refine fine_bind inp p2 _ _ (ih p2 (by omega) (by omega)) ?_
      intro xs p3 h3 hq3
      exact fine_ok inp p3 p3 _ (Nat.le_refl _)

theorem parsePairs_fine (inp : Input) (pe : Nat → PState → Except PErr (PNode × PState)) (B : Nat) (hpe : GoodPE inp pe B) :
    ∀ n p, R inp p ≤ B → R inp p < n → Fine inp p (parsePairs inp pe n p) := by
  intro n
  induction n with
  | zero => intro p _ h; omega
  | succ n ih =>
    intro p hp hn
    unfold parsePairs
    refine fine_bind inp p _ _ (hpe 0 p hp) ?_
    intro k p1 h1 hq1
    simp only []
    refine fine_bindS inp p1 _ _ (consume_fine inp .colon true p1) ?_
    intro p2 h2 hq2
    refine fine_bind inp p2 _ _ (hpe 0 p2 (by omega)) ?_
    intro v p3 h3 hq3
    simp only []
    split
    · exact fine_ok inp p3 p3 _ (Nat.le_refl _)
    · refine fine_bindS inp p3 _ _ (consume_fine inp .comma true p3) ?_
      intro p4 h4 hq4
      have hd := consume_dec inp .comma true p3 p4 h4 (by decide)
      refine fine_bind inp p4 _ _ (ih p4 (by omega) (by omega)) ?_
      intro rest p5 h5 hq5
      exact fine_ok inp p5 p5 _ (Nat.le_refl _)

theorem parseBlockExprs_fine (inp : Input) (pe : Nat → PState → Except PErr (PNode × PState)) (B : Nat) (hpe : GoodPE inp pe B) :
    ∀ n p, R inp p ≤ B → R inp p < n → Fine inp p (parseBlockExprs inp pe n p) := by
  intro n
  induction n with
  | zero => intro p _ h; omega
  | succ n ih =>
    intro p hp hn
    unfold parseBlockExprs
    split
    · exact fine_ok inp p p _ (Nat.le_refl _)
    · refine fine_bind inp p _ _ (hpe 0 p hp) ?_
      intro e p1 h1 hq1
      simp only []
      split
      · exact fine_ok inp p1 p1 _ (Nat.le_refl _)
      · refine fine_bindS inp p1 _ _ (consume_fine inp .semicolon true p1) ?_
        intro p2 h2 hq2
        have hd := consume_dec inp .semicolon true p1 p2 h2 (by decide)
        refine fine_bind inp p2 _ _ (ih p2 (by omega) (by omega)) ?_
        intro es p3 h3 hq3
        exact fine_ok inp p3 p3 _ (Nat.le_refl _)

theorem fine_of_S {α : Type} (inp : Input) (p : PState) (m : Except PErr PState) (x : α) (hm : FineS inp p m) :
    Fine inp p (m >>= fun q => pure (x, q)) := by
  cases hmv : m with
  | error e =>
    refine ⟨fun e' he => ?_, fun y q' he => ?_⟩
    · simp [bind, Except.bind] at he; rw [← he]; exact hm.1 e hmv
    · simp [bind, Except.bind] at he
  | ok q =>
    simp only [bind, Except.bind, pure, Except.pure]
    exact fine_ok inp p q x (hm.2 q hmv)

theorem parseSortTerms_fine (inp : Input) (pe : Nat → PState → Except PErr (PNode × PState)) (B : Nat) (hpe : GoodPE inp pe B) :
    ∀ n p, R inp p ≤ B → R inp p < n → Fine inp p (parseSortTerms inp pe n p) := by
  intro n
  induction n with
  | zero => intro p _ h; omega
  | succ n ih =>
    intro p hp hn
    unfold parseSortTerms
    have hdir : Fine inp p (match p.tok.type with
        | .less => do let q ← consume inp .less true p; pure (SortDir.asc, q)
        | .greater => do let q ← consume inp .greater true p; pure (SortDir.desc, q)
        | _ => pure (SortDir.default_, p) : Except PErr (SortDir × PState)) := by
      split
      · exact fine_of_S inp p _ _ (consume_fine inp .less true p)
      · exact fine_of_S inp p _ _ (consume_fine inp .greater true p)
      · exact fine_ok inp p p _ (Nat.le_refl _)
    refine fine_bind inp p _ _ hdir ?_
    intro dir p1 h1 hq1
    simp only []
    refine fine_bind inp p1 _ _ (hpe 0 p1 (by omega)) ?_
    intro e p2 h2 hq2
    simp only []
    split
    · exact fine_ok inp p2 p2 _ (Nat.le_refl _)
    · refine fine_bindS inp p2 _ _ (consume_fine inp .comma true p2) ?_
      intro p3 h3 hq3
      have hd := consume_dec inp .comma true p2 p3 h3 (by decide)
      refine fine_bind inp p3 _ _ (ih p3 (by omega) (by omega)) ?_
      intro ts p4 h4 hq4
      exact fine_ok inp p4 p4 _ (Nat.le_refl _)

/-- like `Fine` for the triple-valued argument parser -/
theorem parseArgs_fine (inp : Input) (pe : Nat → PState → Except PErr (PNode × PState)) (B : Nat) (hpe : GoodPE inp pe B) :
    ∀ n p, R inp p ≤ B → R inp p < n →
      (∀ e, parseArgs inp pe n p = .error e → e.type ≠ "fuel") ∧
      (∀ a b q, parseArgs inp pe n p = .ok (a, b, q) → R inp q ≤ R inp p) := by
  intro n
  induction n with
  | zero => intro p _ h; omega
  | succ n ih =>
    intro p hp hn
    unfold parseArgs
    -- first argument
    have harg : ∀ r, (if p.tok.type == .condition then do
          let q ← consume inp .condition true p
          pure (PNode.placeholder, true, q)
        else do
          let (a, q) ← pe 0 p
          pure (a, false, q) : Except PErr (PNode × Bool × PState)) = r →
        (∀ e, r = .error e → e.type ≠ "fuel") ∧ (∀ a b q, r = .ok (a, b, q) → R inp q ≤ R inp p) := by
      intro r hr
      split at hr
      · have hc := consume_fine inp .condition true p
        cases hcv : consume inp .condition true p with
        | error e => simp [hcv, bind, Except.bind] at hr; subst hr; exact ⟨fun e' he => by injection he with he; rw [← he]; exact hc.1 e hcv, fun a b q he => by simp at he⟩
        | ok q => simp [hcv, bind, Except.bind, pure, Except.pure] at hr; subst hr; exact ⟨fun e' he => by simp at he, fun a b q' he => by injection he with he; injection he with _ he; injection he with _ he; rw [← he]; exact hc.2 q hcv⟩
      · have hc := hpe 0 p hp
        cases hcv : pe 0 p with
        | error e => simp [hcv, bind, Except.bind] at hr; subst hr; exact ⟨fun e' he => by injection he with he; rw [← he]; exact hc.1 e hcv, fun a b q he => by simp at he⟩
        | ok r' =>
          obtain ⟨a, q⟩ := r'
          simp [hcv, bind, Except.bind, pure, Except.pure] at hr; subst hr
          exact ⟨fun e' he => by simp at he, fun a' b q' he => by injection he with he; injection he with _ he; injection he with _ he; rw [← he]; exact hc.2 a q hcv⟩
    generalize hg : (if p.tok.type == .condition then do
          let q ← consume inp .condition true p
          pure (PNode.placeholder, true, q)
        else do
          let (a, q) ← pe 0 p
          pure (a, false, q) : Except PErr (PNode × Bool × PState)) = first
    obtain ⟨f1, f2⟩ := harg first hg
    cases first with
    | error e =>
      simp only [bind, Except.bind]
      exact ⟨fun e' he => by injection he with he; rw [← he]; exact f1 e rfl, fun a b q he => by simp at he⟩
    | ok r =>
      obtain ⟨arg, isPh, p1⟩ := r
      have hq1 := f2 arg isPh p1 rfl
      simp only [bind, Except.bind]
      split
      · exact ⟨fun e he => by simp at he, fun a b q he => by injection he with he; injection he with _ he; injection he with _ he; rw [← he]; exact hq1⟩
      · have hc := consume_fine inp .comma true p1
        cases hcv : consume inp .comma true p1 with
        | error e => exact ⟨fun e' he => by injection he with he; rw [← he]; exact hc.1 e hcv, fun a b q he => by simp at he⟩
        | ok p2 =>
          have hq2 := hc.2 p2 hcv
          have hd := consume_dec inp .comma true p1 p2 hcv (by decide)
          obtain ⟨i1, i2⟩ := ih p2 (by omega) (by omega)
          simp only []
          cases hr : parseArgs inp pe n p2 with
          | error e => exact ⟨fun e' he => by injection he with he; rw [← he]; exact i1 e hr, fun a b q he => by simp at he⟩
          | ok r2 =>
            obtain ⟨rest, ph2, p3⟩ := r2
            have := i2 rest ph2 p3 hr
            exact ⟨fun e he => by simp at he, fun a b q he => by injection he with he; injection he with _ he; injection he with _ he; rw [← he]; show R inp p3 ≤ R inp p; omega⟩

theorem parseParamNames_fine (inp : Input) (pe : Nat → PState → Except PErr (PNode × PState)) (B : Nat) (hpe : GoodPE inp pe B) :
    ∀ n tk used p, R inp p ≤ B → R inp p < n → Fine inp p (parseParamNames inp pe n tk used p) := by
  intro n
  induction n with
  | zero => intro tk used p _ h; omega
  | succ n ih =>
    intro tk used p hp hn
    unfold parseParamNames
    refine fine_bind inp p _ _ (hpe 0 p hp) ?_
    intro arg p1 h1 hq1
    simp only []
    split
    · split
      · exact fine_err inp p1 _ (by simp [tokErr])
      · split
        · exact fine_ok inp p1 p1 _ (Nat.le_refl _)
        · refine fine_bindS inp p1 _ _ (consume_fine inp .comma true p1) ?_
          intro p2 h2 hq2
          have hd := consume_dec inp .comma true p1 p2 h2 (by decide)
          refine fine_bind inp p2 _ _ (ih _ _ p2 (by omega) (by omega)) ?_
          intro rest p3 h3 hq3
          exact fine_ok inp p3 p3 _ (Nat.le_refl _)
    · exact fine_err inp p1 _ (by simp [tokErr])


theorem sigLoop_fine (inp : Input) : ∀ n depth sig p, R inp p < n → Fine inp p (sigLoop inp n depth sig p) := by
  intro n
  induction n with
  | zero => intro depth sig p h; omega
  | succ n ih =>
    intro depth sig p hn
    unfold sigLoop
    split
    · exact fine_ok inp p p _ (Nat.le_refl _)
    · rename_i hstop
      have hne : p.tok.type ≠ .eof := by
        intro he; apply hstop; simp [he]
      refine fine_bindS inp p _ _ (advance_fine inp true p) ?_
      intro p1 h1 hq1
      have hd := (advance_R inp true p p1 h1).2 hne
      split
      · split
        · exact fine_ok inp p1 p1 _ (Nat.le_refl _)
        · exact ih _ _ p1 (by omega)
      · exact ih _ _ p1 (by omega)
      · exact ih _ _ p1 (by omega)

theorem nud_fine (inp : Input) (pe : Nat → PState → Except PErr (PNode × PState)) (B : Nat) (hpe : GoodPE inp pe B)
    (t : Token) (p : PState) (hp : R inp p ≤ B) : Fine inp p (nud inp pe t p) := by
  have ok0 : ∀ x : PNode, Fine inp p (.ok (x, p)) := fun x => fine_ok inp p p x (Nat.le_refl _)
  unfold nud
  split
  · -- string
    simp only []
    split
    · exact ok0 _
    · refine fine_err inp p _ ?_
      simp only [tokErr]; split <;> decide
  · -- number
    split
    · exact ok0 _
    · exact fine_err inp p _ (by simp [tokErr])
    · exact fine_err inp p _ (by simp [tokErr])
  · exact ok0 _
  · exact ok0 _
  · -- regex
    simp only []
    split
    · exact fine_err inp p _ (by simp [tokErr])
    · exact ok0 _
  · exact ok0 _
  · exact ok0 _
  · exact ok0 _
  · exact ok0 _
  · exact ok0 _
  · exact ok0 _
  · -- array
    split
    · refine fine_bindS inp p _ _ (consume_fine inp .bracketClose false p) ?_
      intro p1 h1 hq1
      exact fine_ok inp p1 p1 _ (Nat.le_refl _)
    · simp only []
      have hitem : ∀ q, R inp q ≤ B → Fine inp q ((fun (q : PState) => (do
            let (x, q1) ← pe 0 q
            if q1.tok.type == .range then do
              let q2 ← consume inp .range true q1
              let (y, q3) ← pe 0 q2
              .ok (.range x y, q3)
            else .ok (x, q1) : Except PErr (PNode × PState))) q) := by
        intro q hq
        simp only []
        refine fine_bind inp q _ _ (hpe 0 q hq) ?_
        intro x q1 h1 hq1
        simp only []
        split
        · refine fine_bindS inp q1 _ _ (consume_fine inp .range true q1) ?_
          intro q2 h2 hq2
          refine fine_bind inp q2 _ _ (hpe 0 q2 (by omega)) ?_
          intro y q3 h3 hq3
          exact fine_ok inp q3 q3 _ (Nat.le_refl _)
        · exact fine_ok inp q1 q1 _ (Nat.le_refl _)
      refine fine_bind inp p _ _ (parseList_fine inp _ B hitem (inp.size + 2) p hp (R_le inp p)) ?_
      intro items p1 h1 hq1
      simp only []
      refine fine_bindS inp p1 _ _ (consume_fine inp .bracketClose false p1) ?_
      intro p2 h2 hq2
      exact fine_ok inp p2 p2 _ (Nat.le_refl _)
  · -- object
    split
    · refine fine_bindS inp p _ _ (consume_fine inp .braceClose false p) ?_
      intro p1 h1 hq1
      exact fine_ok inp p1 p1 _ (Nat.le_refl _)
    · refine fine_bind inp p _ _ (parsePairs_fine inp pe B hpe (inp.size + 2) p hp (R_le inp p)) ?_
      intro pairs p1 h1 hq1
      simp only []
      refine fine_bindS inp p1 _ _ (consume_fine inp .braceClose false p1) ?_
      intro p2 h2 hq2
      exact fine_ok inp p2 p2 _ (Nat.le_refl _)
  · -- block
    refine fine_bind inp p _ _ (parseBlockExprs_fine inp pe B hpe (inp.size + 2) p hp (R_le inp p)) ?_
    intro exprs p1 h1 hq1
    simp only []
    refine fine_bindS inp p1 _ _ (consume_fine inp .parenClose false p1) ?_
    intro p2 h2 hq2
    exact fine_ok inp p2 p2 _ (Nat.le_refl _)
  · exact ok0 _
  · exact ok0 _
  · -- negation
    refine fine_bind inp p _ _ (hpe _ p hp) ?_
    intro rhs p1 h1 hq1
    exact fine_ok inp p1 p1 _ (Nat.le_refl _)
  · -- transform
    refine fine_bind inp p _ _ (hpe 0 p hp) ?_
    intro pat p1 h1 hq1
    simp only []
    refine fine_bindS inp p1 _ _ (consume_fine inp .pipe true p1) ?_
    intro p2 h2 hq2
    refine fine_bind inp p2 _ _ (hpe 0 p2 (by omega)) ?_
    intro upd p3 h3 hq3
    simp only []
    split
    · refine fine_bindS inp p3 _ _ (consume_fine inp .comma true p3) ?_
      intro p4 h4 hq4
      refine fine_bind inp p4 _ _ (hpe 0 p4 (by omega)) ?_
      intro del p5 h5 hq5
      simp only []
      refine fine_bindS inp p5 _ _ (consume_fine inp .pipe false p5) ?_
      intro p6 h6 hq6
      exact fine_ok inp p6 p6 _ (Nat.le_refl _)
    · refine fine_bindS inp p3 _ _ (consume_fine inp .pipe false p3) ?_
      intro p4 h4 hq4
      exact fine_ok inp p4 p4 _ (Nat.le_refl _)
  · exact fine_err inp p _ (by simp [tokErr])

theorem types_err (l : List Char) (acc : Nat) (e : PErr) (h : parseParams.types l acc = .error e) : e.type ≠ "fuel" := by
  induction l generalizing acc with
  | nil => simp [parseParams.types] at h
  | cons c cs ih =>
    unfold parseParams.types at h
    split at h
    · exact ih _ h
    · injection h with h'; subst h'; simp

theorem parseParams_not_fuel (n : Nat) (s : List Char) (ps : List Param) (e : PErr) (h : parseParams n s ps = .error e) :
    e.type ≠ "fuel" := by
  induction n generalizing s ps with
  | zero => simp [parseParams] at h
  | succ k ih =>
    unfold parseParams at h
    repeat' split at h
    all_goals first
      | exact ih _ _ h
      | (injection h with h'; subst h'; exact types_err _ _ _ (by assumption))
      | (injection h with h'; subst h'; exact ih _ _ (by assumption))
      | (injection h with h'; subst h'; simp; done)
      | (exact absurd h (by intro hh; cases hh))

theorem fine_bindP {γ β : Type} (inp : Input) (p : PState) (m : Except PErr γ) (f : γ → Except PErr (β × PState))
    (hm : ∀ e, m = .error e → e.type ≠ "fuel") (hf : ∀ v, m = .ok v → Fine inp p (f v)) : Fine inp p (m >>= f) := by
  cases hmv : m with
  | error e =>
    refine ⟨fun e' he => ?_, fun y q' he => ?_⟩
    · simp [bind, Except.bind] at he; rw [← he]; exact hm e hmv
    · simp [bind, Except.bind] at he
  | ok v => simp only [bind, Except.bind]; exact hf v hmv

theorem led_fine (inp : Input) (pe : Nat → PState → Except PErr (PNode × PState)) (B : Nat) (hpe : GoodPE inp pe B)
    (t : Token) (lhs : PNode) (p : PState) (hp : R inp p ≤ B) : Fine inp p (led inp pe t lhs p) := by
  have bin : ∀ (k : Nat) (mk : PNode → PNode), Fine inp p (do let (rhs, p1) ← pe k p; .ok (mk rhs, p1)) := by
    intro k mk
    refine fine_bind inp p _ _ (hpe k p hp) ?_
    intro rhs p1 h1 hq1
    exact fine_ok inp p1 p1 _ (Nat.le_refl _)
  unfold led
  split
  · -- ( : lambda definition, call, partial application
    simp only []
    split
    · split
      · -- lambda
        have hnames : Fine inp p (if p.tok.type == .parenClose then pure ([], p)
            else parseParamNames inp pe (inp.size + 2) p.tok [] p : Except PErr (List String × PState)) := by
          split
          · exact fine_ok inp p p _ (Nat.le_refl _)
          · exact parseParamNames_fine inp pe B hpe _ _ _ p hp (R_le inp p)
        refine fine_bind inp p _ _ hnames ?_
        intro names p1 h1 hq1
        simp only []
        refine fine_bindS inp p1 _ _ (consume_fine inp .parenClose false p1) ?_
        intro p2 h2 hq2
        have hsig : Fine inp p2 (if p2.tok.type != .less then pure (none, p2) else do
              let (s, q) ← sigLoop inp (inp.size + 2) 1 "" p2
              let q1 ← consume inp .greater true q
              pure (some s, q1) : Except PErr (Option String × PState)) := by
          split
          · exact fine_ok inp p2 p2 _ (Nat.le_refl _)
          · refine fine_bind inp p2 _ _ (sigLoop_fine inp _ _ _ p2 (R_le inp p2)) ?_
            intro sg q hsg hqq
            simp only []
            refine fine_bindS inp q _ _ (consume_fine inp .greater true q) ?_
            intro q1 hq1' hqq1
            exact fine_ok inp q1 q1 _ (Nat.le_refl _)
        refine fine_bind inp p2 _ _ hsig ?_
        intro sig p3 h3 hq3
        simp only []
        -- the signature text is parsed without touching the token stream
        refine fine_bindP inp p3 _ _ ?_ ?_
        · intro e he
          cases sig with
          | none => simp [pure, Except.pure] at he
          | some sg =>
            simp only [] at he
            split at he
            · rename_i e' he'
              injection he with he; rw [← he]; exact parseParams_not_fuel _ _ _ _ he'
            · split at he
              · injection he with he; rw [← he]; simp [tokErr]
              · simp [pure, Except.pure] at he
        · intro params hparams
          refine fine_bindS inp p3 _ _ (consume_fine inp .braceOpen true p3) ?_
          intro p4 h4 hq4
          refine fine_bind inp p4 _ _ (hpe 0 p4 (by omega)) ?_
          intro body p5 h5 hq5
          simp only []
          refine fine_bindS inp p5 _ _ (consume_fine inp .braceClose false p5) ?_
          intro p6 h6 hq6
          exact fine_ok inp p6 p6 _ (Nat.le_refl _)
      · -- call / partial application
        split
        · refine fine_bindS inp p _ _ (consume_fine inp .parenClose false p) ?_
          intro p1 h1 hq1
          exact fine_ok inp p1 p1 _ (Nat.le_refl _)
        · obtain ⟨a1, a2⟩ := parseArgs_fine inp pe B hpe (inp.size + 2) p hp (R_le inp p)
          cases ha : parseArgs inp pe (inp.size + 2) p with
          | error e => simp only [bind, Except.bind]; exact fine_err inp p e (a1 e ha)
          | ok r =>
            obtain ⟨args, isPartial, p1⟩ := r
            have hq1 := a2 args isPartial p1 ha
            simp only [bind, Except.bind]
            refine fine_mono inp p p1 _ ?_ hq1
            refine fine_bindS inp p1 _ _ (consume_fine inp .parenClose false p1) ?_
            intro p2 h2 hq2
            exact fine_ok inp p2 p2 _ (Nat.le_refl _)

    · simp only [Bool.false_eq_true, if_false]
      split
      · refine fine_bindS inp p _ _ (consume_fine inp .parenClose false p) ?_
        intro p1 h1 hq1
        exact fine_ok inp p1 p1 _ (Nat.le_refl _)
      · obtain ⟨a1, a2⟩ := parseArgs_fine inp pe B hpe (inp.size + 2) p hp (R_le inp p)
        cases ha : parseArgs inp pe (inp.size + 2) p with
        | error e => simp only [bind, Except.bind]; exact fine_err inp p e (a1 e ha)
        | ok r =>
          obtain ⟨args, isPartial, p1⟩ := r
          have hq1 := a2 args isPartial p1 ha
          simp only [bind, Except.bind]
          refine fine_mono inp p p1 _ ?_ hq1
          refine fine_bindS inp p1 _ _ (consume_fine inp .parenClose false p1) ?_
          intro p2 h2 hq2
          exact fine_ok inp p2 p2 _ (Nat.le_refl _)

  · -- [ : predicate
    split
    · refine fine_bindS inp p _ _ (consume_fine inp .bracketClose false p) ?_
      intro p1 h1 hq1
      exact fine_ok inp p1 p1 _ (Nat.le_refl _)
    · refine fine_bind inp p _ _ (hpe 0 p hp) ?_
      intro rhs p1 h1 hq1
      simp only []
      refine fine_bindS inp p1 _ _ (consume_fine inp .bracketClose false p1) ?_
      intro p2 h2 hq2
      exact fine_ok inp p2 p2 _ (Nat.le_refl _)
  · -- { : grouping
    split
    · refine fine_bindS inp p _ _ (consume_fine inp .braceClose false p) ?_
      intro p1 h1 hq1
      exact fine_ok inp p1 p1 _ (Nat.le_refl _)
    · refine fine_bind inp p _ _ (parsePairs_fine inp pe B hpe (inp.size + 2) p hp (R_le inp p)) ?_
      intro pairs p1 h1 hq1
      simp only []
      refine fine_bindS inp p1 _ _ (consume_fine inp .braceClose false p1) ?_
      intro p2 h2 hq2
      exact fine_ok inp p2 p2 _ (Nat.le_refl _)
  · -- ? :
    refine fine_bind inp p _ _ (hpe 0 p hp) ?_
    intro thn p1 h1 hq1
    simp only []
    split
    · refine fine_bindS inp p1 _ _ (consume_fine inp .colon true p1) ?_
      intro p2 h2 hq2
      refine fine_bind inp p2 _ _ (hpe 0 p2 (by omega)) ?_
      intro els p3 h3 hq3
      exact fine_ok inp p3 p3 _ (Nat.le_refl _)
    · exact fine_ok inp p1 p1 _ (Nat.le_refl _)
  · -- :=
    split
    · exact bin _ _
    · exact fine_err inp p _ (by simp [tokErr])
  · exact bin _ _
  · exact bin _ _
  · -- order-by
    refine fine_bindS inp p _ _ (consume_fine inp .parenOpen true p) ?_
    intro p1 h1 hq1
    refine fine_bind inp p1 _ _ (parseSortTerms_fine inp pe B hpe (inp.size + 2) p1 (by omega) (R_le inp p1)) ?_
    intro terms p2 h2 hq2
    simp only []
    refine fine_bindS inp p2 _ _ (consume_fine inp .parenClose false p2) ?_
    intro p3 h3 hq3
    exact fine_ok inp p3 p3 _ (Nat.le_refl _)
  · exact bin _ _
  · exact bin _ _
  · exact bin _ _
  · -- arithmetic and comparison operators
    split
    · exact bin _ _
    · exact bin _ _
    · exact fine_err inp p _ (by simp [tokErr])

theorem bp_eof : bp .eof = 0 := by decide

theorem ledLoop_fine (inp : Input) (pe : Nat → PState → Except PErr (PNode × PState)) (B : Nat) (hpe : GoodPE inp pe B) :
    ∀ n rbp lhs p, R inp p ≤ B → R inp p < n → Fine inp p (ledLoop inp pe n rbp lhs p) := by
  intro n
  induction n with
  | zero => intro rbp lhs p _ h; omega
  | succ n ih =>
    intro rbp lhs p hp hn
    unfold ledLoop
    split
    · rename_i hcond
      have hne : p.tok.type ≠ .eof := by
        intro he; rw [he, bp_eof] at hcond; omega
      simp only []
      refine fine_bindS inp p _ _ (advance_fine inp true p) ?_
      intro p1 h1 hq1
      have hd := (advance_R inp true p p1 h1).2 hne
      refine fine_bind inp p1 _ _ (led_fine inp pe B hpe p.tok lhs p1 (by omega)) ?_
      intro lhs' p2 h2 hq2
      exact ih rbp lhs' p2 (by omega) (by omega)
    · exact fine_ok inp p p _ (Nat.le_refl _)

/-- **The parser's recursion budget suffices.**  `parseExpr` with more fuel than there are tokens left never
    fails for lack of fuel (neither itself nor any of the list loops it runs), and never gives tokens back. -/
theorem parseExpr_fine (inp : Input) : ∀ fuel rbp p, R inp p < fuel → Fine inp p (parseExpr inp fuel rbp p) := by
  intro fuel
  induction fuel with
  | zero => intro rbp p h; omega
  | succ fuel ih =>
    intro rbp p hf
    unfold parseExpr
    by_cases heof : (p.tok.type == .eof) = true
    · simp only [heof, if_true, bind, Except.bind]
      exact fine_err inp p _ (by simp [tokErr])
    · simp only [heof, Bool.false_eq_true, if_false, bind, Except.bind, pure, Except.pure]
      have hne : p.tok.type ≠ .eof := by simpa using heof
      have hadv := advance_fine inp (opensOperand p.tok.type) p
      cases ha : advance inp (opensOperand p.tok.type) p with
      | error e => exact fine_err inp p e (hadv.1 e ha)
      | ok p1 =>
        have hdec := (advance_R inp (opensOperand p.tok.type) p p1 ha).2 hne
        have hgood : GoodPE inp (parseExpr inp fuel) (R inp p1) := fun rbp' q hq => ih rbp' q (by omega)
        simp only []
        refine fine_mono inp p p1 _ ?_ (by omega)
        have hn := nud_fine inp (parseExpr inp fuel) (R inp p1) hgood p.tok p1 (Nat.le_refl _)
        have := fine_bind inp p1 (nud inp (parseExpr inp fuel) p.tok p1)
          (fun r => ledLoop inp (parseExpr inp fuel) (inp.size + 2) rbp r.1 r.2) hn
          (fun lhs p2 h2 hq2 => ledLoop_fine inp (parseExpr inp fuel) (R inp p1) hgood _ rbp lhs p2 hq2 (R_le inp p2))
        simpa [bind, Except.bind] using this

/-- **Compile's parsing phase never runs out of its recursion budget**: with the budget `parse` uses
    (2·|input| + 8), for every input (valid UTF-8 or not) the token-level parser returns a tree or one of
    jparse's error kinds — never the model's `fuel` error.  Together with `lexAll_terminates` this is the
    termination half of "Compile is total" for the modelled lexer and Pratt parser (the optimiser that follows
    is structurally recursive on the tree). -/
theorem parse_never_out_of_fuel (inp : Input) (p0 : PState) (h0 : advance inp true { lex := initState, tok := default } = .ok p0) :
    ∀ e, parseExpr inp (2 * inp.size + 8) 0 p0 = .error e → e.type ≠ "fuel" := by
  intro e he
  have hR := R_le inp p0
  exact (parseExpr_fine inp (2 * inp.size + 8) 0 p0 (by omega)).1 e he


/-! ### end to end: parse never reports its own budget error -/

/-- the optimiser's errors are its three typed kinds -/
def OptErr (e : PErr) : Prop := e.type = "ErrGroupGroup" ∨ e.type = "ErrPathLiteral" ∨ e.type = "ErrGroupPredicate"

theorem optErr_not_fuel (e : PErr) (h : OptErr e) : e.type ≠ "fuel" := by
  rcases h with h | h | h <;> (rw [h]; decide)


set_option hygiene false in
macro "opt_case" : tactic => `(tactic|
  (simp only [optimize, optimizeL, optimizeP, optimizeT, bind, Except.bind, pure, Except.pure] at h
   repeat' split at h
   all_goals first
     | (cases h; done)
     | (injection h with h'; subst h'; first
         | exact optimize_err _ _ (by assumption)
         | exact optimizeL_err _ _ (by assumption)
         | exact optimizeP_err _ _ (by assumption)
         | exact optimizeT_err _ _ (by assumption)
         | exact Or.inl rfl
         | exact Or.inr (Or.inl rfl)
         | exact Or.inr (Or.inr rfl))))

mutual
theorem optimize_err : ∀ (n : PNode) (e : PErr), optimize n = .error e → OptErr e
  | .str _, e, h => by opt_case
  | .num _, e, h => by opt_case
  | .bool _, e, h => by opt_case
  | .null, e, h => by opt_case
  | .regex _, e, h => by opt_case
  | .var _, e, h => by opt_case
  | .name _, e, h => by opt_case
  | .neg _, e, h => by opt_case
  | .range _ _, e, h => by opt_case
  | .array _, e, h => by opt_case
  | .object _, e, h => by opt_case
  | .block _, e, h => by opt_case
  | .wildcard, e, h => by opt_case
  | .descendent, e, h => by opt_case
  | .transform _ _ _, e, h => by opt_case
  | .lambda _ _ _, e, h => by opt_case
  | .partial_ _ _, e, h => by opt_case
  | .placeholder, e, h => by opt_case
  | .call _ _, e, h => by opt_case
  | .group _ _, e, h => by opt_case
  | .cond _ _ _, e, h => by opt_case
  | .assign _ _, e, h => by opt_case
  | .numop _ _ _, e, h => by opt_case
  | .cmpop _ _ _, e, h => by opt_case
  | .boolop _ _ _, e, h => by opt_case
  | .concat _ _, e, h => by opt_case
  | .sort _ _, e, h => by opt_case
  | .apply _ _, e, h => by opt_case
  | .dot _ _, e, h => by opt_case
  | .singleton _, e, h => by opt_case
  | .predRaw _ _, e, h => by opt_case
theorem optimizeL_err : ∀ (l : List PNode) (e : PErr), optimizeL l = .error e → OptErr e
  | [], e, h => by opt_case
  | _ :: _, e, h => by opt_case
theorem optimizeP_err : ∀ (l : List (PNode × PNode)) (e : PErr), optimizeP l = .error e → OptErr e
  | [], e, h => by opt_case
  | (_, _) :: _, e, h => by opt_case
theorem optimizeT_err : ∀ (l : List (SortDir × PNode)) (e : PErr), optimizeT l = .error e → OptErr e
  | [], e, h => by opt_case
  | (_, _) :: _, e, h => by opt_case
end


/-- **Compile's model is total and never gives up**: for every input — any bytes at all — `parse` returns a
    tree or an error whose kind is one of jparse's; the model's internal `fuel` error cannot occur.  (Lexing,
    the Pratt parser with all its loops, and the optimiser; `parse` itself is a total Lean function.) -/
theorem parse_never_fuel (inp : Input) (e : PErr) (h : parse inp = .error e) : e.type ≠ "fuel" := by
  unfold parse at h
  simp only [bind, Except.bind] at h
  cases ha : advance inp true { lex := initState, tok := default } with
  | error e0 =>
    simp only [ha] at h
    injection h with h; rw [← h]
    exact (advance_fine inp true _).1 e0 ha
  | ok p0 =>
    simp only [ha] at h
    cases hp : parseExpr inp (2 * inp.size + 8) 0 p0 with
    | error e1 =>
      simp only [hp] at h
      injection h with h; rw [← h]
      exact parse_never_out_of_fuel inp p0 ha e1 hp
    | ok r =>
      obtain ⟨node, p⟩ := r
      simp only [hp] at h
      split at h
      · injection h with h; rw [← h]; simp [tokErr]
      · exact optErr_not_fuel e (optimize_err node e h)


/-! ### signatures and escapes are total with typed errors -/

/-- an unbalanced bracket is reported, not sliced past (the F7 defect) -/
theorem unbalanced_signature_is_error :
    parseParams 10 "(".toList [] = .error { type := "ErrInvalidUnionType", hint := "(" } ∧
    (parseParams 10 "a<".toList []).isOk = false ∧
    (parseParams 10 "a<n>".toList []).isOk = true := by
  refine ⟨by rfl, by rfl, by rfl⟩

/-- the bracketed part never extends past the string -/
theorem getBracketed_length (s : List Char) (o c : Char) (part : List Char)
    (h : getBracketed s o c = some part) : part.length + 2 ≤ s.length := by
  unfold getBracketed at h
  cases s with
  | nil => simp at h
  | cons x rest =>
    simp only [] at h
    split at h
    · simp at h
    · -- generalise the accumulator of the inner loop
      have gen : ∀ (ds : List Char) (depth : Nat) (acc : List Char) (out : List Char),
          getBracketed.go o c ds depth acc = some out → out.length + 1 ≤ acc.length + ds.length := by
        intro ds
        induction ds with
        | nil => intro depth acc out h; simp [getBracketed.go] at h
        | cons d ds ih =>
          intro depth acc out h
          simp only [getBracketed.go] at h
          split at h
          · have := ih _ _ _ h; simp at this ⊢; omega
          · split at h
            · split at h
              · simp at h; subst h; simp
              · have := ih _ _ _ h; simp at this ⊢; omega
            · have := ih _ _ _ h; simp at this ⊢; omega
      have := gen rest 1 [] part h
      simp at this ⊢
      omega

/-- `\u+041` is an illegal escape (the F15 defect), `A` is "A" -/
theorem unescape_hex_strict :
    unescape 20 "\\u+041".toList = .error "u+041" ∧
    unescape 20 "\\u0041".toList = .ok ['A'] ∧
    unescape 20 "\\ud83d\\ude00".toList = .ok ['😀'] ∧
    unescape 20 "\\ud83d".toList = .error "ud83d" ∧
    unescape 20 "\\q".toList = .error "q" := by
  refine ⟨by rfl, by rfl, by rfl, by rfl, by rfl⟩

/-! ### every error the model reports is one of jparse's error types -/

def modelErrorTypes : List String :=
  ["ErrSyntaxError", "ErrUnexpectedEOF", "ErrUnexpectedToken", "ErrMissingToken", "ErrPrefix", "ErrInfix",
   "ErrUnterminatedString", "ErrUnterminatedRegex", "ErrUnterminatedName", "ErrIllegalEscape",
   "ErrIllegalEscapeHex", "ErrInvalidNumber", "ErrNumberRange", "ErrEmptyRegex", "ErrInvalidRegex",
   "ErrGroupPredicate", "ErrGroupGroup", "ErrPathLiteral", "ErrIllegalAssignment", "ErrIllegalParam",
   "ErrDuplicateParam", "ErrParamCount", "ErrInvalidUnionType", "ErrUnmatchedOption", "ErrUnmatchedSubtype",
   "ErrInvalidSubtype", "ErrInvalidParamType"]

theorem fact_parse_error_enum : Generated.parseErrNames = "_" :: modelErrorTypes := by decide

/-! ### non-vacuity: the two inputs that used to hang / panic now give typed errors -/

end Jsonata.Props.C08
