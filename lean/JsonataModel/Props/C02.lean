/-
  Props/C02.lean — property C02: predicates filter by truth value or select by
  position, per context item.  All statements are for every list length, every
  position and every predicate evaluator.
-/
import JsonataModel.Model.Interp
import JsonataModel.Spec.Filter
import JsonataModel.Lemmas.Monad

namespace Jsonata.Props.C02
open Jsonata Jsonata.Spec NumSys

variable {N : Type} [NumSys N]

/-! ### the filter loop equals the specification -/

theorem allNums_eq_numbersOnly (xs : List (Val N)) : allNums xs = numbersOnly xs := by
  induction xs with
  | nil => rfl
  | cons x xs ih => cases x <;> simp [allNums, numbersOnly, ih]

/-- the index arithmetic of the loop (floor, add the length when negative, compare with i)
    is the `position` of the statement -/
theorem indexHits_eq (len i : Nat) (hi : i < len) (ns : List N) :
    indexHits len i ns = (ns.filter fun x => position (toInt (floor x)) len = some i).length := by
  induction ns with
  | nil => rfl
  | cons x xs ih =>
    simp only [indexHits, List.filter_cons, ih]
    have key : ((if toInt (floor x) < 0 then toInt (floor x) + (len : Int) else toInt (floor x)) == (i : Int)) =
        decide (position (toInt (floor x)) len = some i) := by
      unfold position
      by_cases hneg : toInt (floor x) < 0
      · simp only [hneg, if_true]
        by_cases h : toInt (floor x) + (len : Int) = (i : Int)
        · have h1 : (0 : Int) ≤ toInt (floor x) + len ∧ toInt (floor x) + (len : Int) < len := by omega
          simp [h, h1]; omega
        · have : ¬ (toInt (floor x) + (len : Int) == (i : Int)) = true := by simpa using h
          simp only [this]
          by_cases h1 : (0 : Int) ≤ toInt (floor x) + len ∧ toInt (floor x) + (len : Int) < len
          · simp [h1]; omega
          · simp [h1]
      · simp only [hneg, if_false]
        by_cases h : toInt (floor x) = (i : Int)
        · have h1 : (0 : Int) ≤ toInt (floor x) ∧ toInt (floor x) < (len : Int) := by omega
          simp [h, h1]; omega
        · have : ¬ (toInt (floor x) == (i : Int)) = true := by simpa using h
          simp only [this]
          by_cases h1 : (0 : Int) ≤ toInt (floor x) ∧ toInt (floor x) < (len : Int)
          · simp [h1]; omega
          · simp [h1]
    rw [key]
    by_cases hp : position (toInt (floor x)) len = some i
    · simp [hp]; omega
    · simp [hp]

theorem filterKeep_eq (len i : Nat) (hi : i < len) (res : Option (Val N)) :
    filterKeep len i res = keepCount res i len := by
  unfold filterKeep keepCount
  rcases res with _ | v
  · rfl
  · cases v <;> simp only [allNums_eq_numbersOnly] <;> try rfl
    · -- number
      rename_i x
      simp [numbersOnly, indexHits_eq len i hi]
      by_cases hp : position (toInt (floor x)) len = some i <;> simp [hp]
    · -- array
      rename_i xs
      cases h : numbersOnly xs with
      | none => rfl
      | some ns => simp [indexHits_eq len i hi]

/-- **applyFilter = specFilter.** For every predicate evaluator that computes a
    store-independent function `p`, and every list of items (any length), the filter loop
    of the evaluator returns exactly the specified list. -/
theorem applyFilterLoop_eq_spec (ev : Option (Val N) → EvalM N (Option (Val N)))
    (p : Val N → Option (Val N)) (hev : PureEv ev (fun x => match x with | some v => p v | none => none))
    (len : Nat) (items : List (Val N)) (i : Nat) (hlen : i + items.length ≤ len) (s : Store N) :
    ∃ s', applyFilterLoop ev len i items s = .ok (filterFrom p len i items, s') := by
  induction items generalizing i s with
  | nil => exact ⟨s, rfl⟩
  | cons x xs ih =>
    obtain ⟨s1, h1⟩ := hev (some x) s
    have hl : i + 1 + xs.length ≤ len := by simp at hlen; omega
    obtain ⟨s2, h2⟩ := ih (i + 1) hl s1
    refine ⟨s2, ?_⟩
    have hi : i < len := by simp at hlen; omega
    simp [applyFilterLoop, h1, h2, filterFrom, filterKeep_eq len i hi]

theorem applyFilter_eq_spec (ev : Option (Val N) → EvalM N (Option (Val N)))
    (p : Val N → Option (Val N)) (hev : PureEv ev (fun x => match x with | some v => p v | none => none))
    (items : List (Val N)) (s : Store N) :
    ∃ s', applyFilter ev items s = .ok (specFilter p items, s') := by
  unfold applyFilter specFilter
  exact applyFilterLoop_eq_spec ev p hev items.length items 0 (by omega) s

/-- an error raised by the predicate on the first item is the outcome of the filter -/
theorem applyFilter_error (ev : Option (Val N) → EvalM N (Option (Val N))) (x : Val N)
    (xs : List (Val N)) (s : Store N) (e : Err) (h : ev (some x) s = .error e) :
    applyFilter ev (x :: xs) s = .error e := by
  simp [applyFilter, applyFilterLoop, h]

/-! ### consequences of the specification -/

/-- `position` in closed form -/
theorem position_nonneg (n : Int) (len : Nat) (h0 : 0 ≤ n) :
    position n len = if n < len then some n.toNat else none := by
  unfold position
  have : ¬ n < 0 := by omega
  simp only [this, if_false]
  by_cases h : n < (len : Int) <;> simp [h, h0]

theorem position_neg (n : Int) (len : Nat) (h0 : n < 0) :
    position n len = if 0 ≤ n + len then some (n + len).toNat else none := by
  unfold position
  simp only [h0, if_true]
  by_cases h : 0 ≤ n + (len : Int)
  · have : n + (len : Int) < len := by omega
    simp [h, this]
  · simp [h]

/-- a selected position is always inside the list -/
theorem position_lt (n : Int) (len i : Nat) (h : position n len = some i) : i < len := by
  unfold position at h
  split at h
  · rename_i hc
    simp at h
    omega
  · rename_i hc
    simp at h
    obtain ⟨⟨h0, h1⟩, h2⟩ := h
    omega

theorem filterFrom_replicate_none (p : Val N → Option (Val N)) (len : Nat) (items : List (Val N))
    (i : Nat) (h : ∀ j x, items[j]? = some x → keepCount (p x) (i + j) len = 0) :
    filterFrom p len i items = [] := by
  induction items generalizing i with
  | nil => rfl
  | cons x xs ih =>
    have h0 := h 0 x (by simp)
    simp only [Nat.add_zero] at h0
    simp only [filterFrom, h0, List.replicate_zero, List.nil_append]
    apply ih
    intro j y hy
    have := h (j + 1) y (by simpa using hy)
    simpa [Nat.add_assoc, Nat.add_comm 1 j] using this

/-- **Positional selection.** When the predicate yields the number `n` for every item, the
    result is the single item at position `floor n` (negative positions counting back from
    the end) or nothing when that position is outside the list — for every list length. -/
theorem filter_positional (p : Val N → Option (Val N)) (n : N) (items : List (Val N))
    (hp : ∀ x, p x = some (.num n)) :
    specFilter p items =
      match position (toInt (floor n)) items.length with
      | some k => (items[k]?).toList
      | none => [] := by
  unfold specFilter
  generalize hlen : items.length = len
  -- general statement with an offset
  have gen : ∀ (xs : List (Val N)) (i : Nat),
      filterFrom p len i xs =
        match position (toInt (floor n)) len with
        | some k => if i ≤ k then (xs[k - i]?).toList else []
        | none => [] := by
    intro xs
    induction xs with
    | nil => intro i; cases position (toInt (floor n)) len <;> simp [filterFrom]
    | cons x xs ih =>
      intro i
      simp only [filterFrom, hp x, keepCount, ih (i + 1)]
      cases hpos : position (toInt (floor n)) len with
      | none => simp
      | some k =>
        by_cases hik : k = i
        · subst hik
          simp
          intro h
          omega
        · have hne : ¬ (some k = some i) := by simpa using hik
          simp only [hne, if_false, List.replicate_zero, List.nil_append]
          by_cases hle : i ≤ k
          · have h1 : i + 1 ≤ k := by omega
            have h2 : k - i = (k - (i + 1)) + 1 := by omega
            simp [hle, h1, h2]
          · have h1 : ¬ i + 1 ≤ k := by omega
            simp [hle, h1]
  rw [gen items 0]
  cases position (toInt (floor n)) len <;> simp

/-- **Boolean filtering.** When the predicate never yields a number or an array consisting
    only of numbers, the result is the sub-list of the items whose predicate value is truthy,
    in the original order. -/
theorem filter_boolean (p : Val N → Option (Val N)) (items : List (Val N))
    (hp : ∀ x, (∀ n, p x ≠ some (.num n)) ∧ (∀ xs, p x = some (.arr xs) → numbersOnly xs = none)) :
    specFilter p items = items.filter (fun x => truthyO (p x)) := by
  unfold specFilter
  generalize items.length = len
  have gen : ∀ (xs : List (Val N)) (i : Nat), filterFrom p len i xs = xs.filter (fun x => truthyO (p x)) := by
    intro xs
    induction xs with
    | nil => intro i; rfl
    | cons x xs ih =>
      intro i
      have hk : keepCount (p x) i len = if truthyO (p x) then 1 else 0 := by
        unfold keepCount
        rcases hpx : p x with _ | v
        · rfl
        · cases v with
          | num n => exact absurd hpx ((hp x).1 n)
          | arr ys => simp only [(hp x).2 ys hpx, truthyO]; rfl
          | _ => rfl
      simp only [filterFrom, hk, ih (i + 1), List.filter_cons]
      by_cases ht : truthyO (p x) = true <;> simp [ht]
  exact gen items 0

/-- the result is a sub-list up to multiplicity: original order is kept -/
theorem filter_order (p : Val N → Option (Val N)) (len : Nat) (items : List (Val N)) (i : Nat) :
    ∃ counts : List Nat, counts.length = items.length ∧
      filterFrom p len i items = (List.zipWith (fun c x => List.replicate c x) counts items).flatten := by
  induction items generalizing i with
  | nil => exact ⟨[], rfl, rfl⟩
  | cons x xs ih =>
    obtain ⟨cs, hl, he⟩ := ih (i + 1)
    exact ⟨keepCount (p x) i len :: cs, by simp [hl], by simp [filterFrom, he]⟩

/-! ### normalisation and stacking (evalPredicate) -/

/-- nothing kept is 'no value', one item kept is the item itself -/
theorem predicate_normalises (r : Rec N) (expr : Node N) (f : Node N) (d : Option (Val N)) (env : Nat)
    (p : Val N → Option (Val N)) (v : Val N) (s s1 : Store N)
    (hexpr : r.ev expr d env s = .ok (some v, s1))
    (hev : PureEv (fun x => r.ev f x env) (fun x => match x with | some v => p v | none => none)) :
    ∃ s', evalPredicate r expr [f] d env s = .ok (normalise (specFilter p (arrayify (some v))), s') := by
  obtain ⟨s2, h2⟩ := applyFilter_eq_spec (fun x => r.ev f x env) p hev (arrayify (some v)) s1
  refine ⟨s2, ?_⟩
  simp only [evalPredicate, evalM_bind, hexpr, applyFilters, h2]
  cases hq : specFilter p (arrayify (some v)) with
  | nil => simp [normalise]
  | cons y ys => cases ys <;> simp [normalise]

/-- a head without value has no value, whatever the predicates -/
theorem predicate_of_nothing (r : Rec N) (expr : Node N) (fs : List (Node N)) (d : Option (Val N))
    (env : Nat) (s s1 : Store N) (hexpr : r.ev expr d env s = .ok (none, s1)) :
    evalPredicate r expr fs d env s = .ok (none, s1) := by
  simp [evalPredicate, hexpr]

/-- successive predicates apply to the survivors of the previous one -/
theorem stacked_filters (r : Rec N) (env : Nat) (f g : Node N) (items : List (Val N))
    (p q : Val N → Option (Val N)) (s : Store N)
    (hf : PureEv (fun x => r.ev f x env) (fun x => match x with | some v => p v | none => none))
    (hg : PureEv (fun x => r.ev g x env) (fun x => match x with | some v => q v | none => none)) :
    ∃ s', applyFilters r env [f, g] items s = .ok (specFilter q (specFilter p items), s') := by
  obtain ⟨s1, h1⟩ := applyFilter_eq_spec (fun x => r.ev f x env) p hf items s
  obtain ⟨s2, h2⟩ := applyFilter_eq_spec (fun x => r.ev g x env) q hg (specFilter p items) s1
  by_cases he : specFilter p items = []
  · refine ⟨s1, ?_⟩
    simp only [applyFilters, evalM_bind, h1, he, List.isEmpty_nil, if_true, evalM_pure]
    simp [specFilter, filterFrom]
  · refine ⟨s2, ?_⟩
    have hne : (specFilter p items).isEmpty = false := by
      cases h : specFilter p items <;> simp_all
    simp only [applyFilters, evalM_bind, h1, hne, Bool.false_eq_true, if_false, h2]
    cases specFilter q (specFilter p items) <;> simp

/-! ### non-vacuity: concrete instances on the exact number system `Int` -/

example : position (-1) 3 = some 2 := by decide
example : position 3 3 = none := by decide
example : position (-4) 3 = none := by decide
example : specFilter (N := Int) (fun _ => some (.num (-1))) [.num 10, .num 20, .num 30] = [.num 30] := by
  simp [specFilter, filterFrom, keepCount, position, NumSys.toInt, NumSys.floor]
example : specFilter (N := Int) (fun _ => some (.arr [.num 1, .num 1])) [.num 10, .num 20] = [.num 20, .num 20] := by
  simp [specFilter, filterFrom, keepCount, numbersOnly, position, NumSys.toInt, NumSys.floor]

end Jsonata.Props.C02
