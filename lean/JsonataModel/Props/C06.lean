/-
  Props/C06.lean — property C06: concurrent evaluations are isolated and race-free.

  Proved about the sharing-protocol model (Model/Conc.lean), for every number of threads,
  every list of calls and EVERY schedule: with per-call copies each call finds its own context
  (so each evaluation produces what it produces alone) and shared memory is never written;
  with writes into the shared function object there is a schedule on which a call finds
  another evaluation's context (the defect measured in the property text).  The tie to the
  source is regenerated: the call site copies the built-in before the name/context setters,
  every write of the evaluator packages is on the C05 allow-list (none reaches a shared
  object), the package-level registry is only touched under its lock.
  PARTIAL (DESIGN.md §6 C06): the Go memory model, the scheduler and the race detector are
  runtime behaviour no Lean model exhibits — absence of data races in the real binary is
  observed by the -race correspondence harness, not proved.
-/
import JsonataModel.Model.Conc
import JsonataModel.Generated.Facts

namespace Jsonata.Props.C06
open Jsonata.Conc

/-- per-thread invariant of the copy protocol -/
def ThInv (th : Thread) (prog : List (String × Nat)) : Prop :=
  th.seen ++ alone th.todo = alone prog ∧
  (∀ f c, th.phase = .ready f c → th.priv = c ∧ ∃ rest, th.todo = (f, c) :: rest)

def SInv (progs : List (List (String × Nat))) (s : State) : Prop :=
  s.sharedWrites = [] ∧ ∀ t th, s.threads[t]? = some th → ThInv th (progs.getD t [])

theorem init_inv (progs : List (List (String × Nat))) : SInv progs (init progs) := by
  refine ⟨rfl, ?_⟩
  intro t th h
  simp only [init, List.getElem?_map] at h
  cases hp : progs[t]? with
  | none => simp [hp] at h
  | some prog =>
    simp [hp] at h
    subst h
    refine ⟨by simp [List.getD, hp], ?_⟩
    intro f c hph
    cases hph

theorem step_inv (progs : List (List (String × Nat))) (s : State) (t : Nat) (h : SInv progs s) :
    SInv progs (step .copy s t) := by
  obtain ⟨hw, hth⟩ := h
  unfold step
  cases ht : s.threads[t]? with
  | none => exact ⟨hw, hth⟩
  | some th =>
    have hinv := hth t th ht
    have htlen : t < s.threads.length := by
      rcases List.getElem?_eq_some_iff.mp ht with ⟨hl, _⟩; exact hl
    -- any update of thread t that keeps its invariant keeps the state invariant
    have upd : ∀ th', ThInv th' (progs.getD t []) →
        SInv progs { s with threads := s.threads.set t th' } := by
      intro th' hth'
      refine ⟨hw, ?_⟩
      intro u thu hu
      simp only [List.getElem?_set] at hu
      by_cases htu : t = u
      · subst htu
        simp [htlen] at hu
        subst hu
        exact hth'
      · simp [htu] at hu
        exact hth u thu hu
    simp only
    cases hph : th.phase with
    | idle =>
      cases htodo : th.todo with
      | nil => exact ⟨hw, hth⟩
      | cons fc rest =>
        obtain ⟨f, c⟩ := fc
        simp only
        apply upd
        refine ⟨by simpa [htodo] using hinv.1, ?_⟩
        intro f' c' heq
        simp only [Phase.ready.injEq] at heq
        obtain ⟨rfl, rfl⟩ := heq
        exact ⟨rfl, rest, by simpa using htodo⟩
    | ready f c =>
      simp only
      apply upd
      obtain ⟨hpriv, rest, hrest⟩ := hinv.2 f c hph
      refine ⟨?_, ?_⟩
      · have := hinv.1
        rw [hrest] at this
        simp only [hrest, List.drop_succ_cons, List.drop_zero, hpriv]
        simpa [alone, List.append_assoc] using this
      · intro f' c' heq
        cases heq

/-- the invariant holds after any schedule -/
theorem run_inv (progs : List (List (String × Nat))) : ∀ (schedule : List Nat) (s : State), SInv progs s →
    SInv progs (run .copy s schedule)
  | [], _, h => h
  | t :: ts, s, h => by
    simp only [run, List.foldl_cons]
    exact run_inv progs ts (step .copy s t) (step_inv progs s t h)

/-- **Isolation.**  With per-call copies, under every schedule of every set of evaluations:
    what the calls of evaluation `t` have found so far, followed by the contexts of the calls it
    still has to make, is exactly what it finds when run alone. -/
theorem copy_isolated (progs : List (List (String × Nat))) (schedule : List Nat) (t : Nat) (th : Thread)
    (h : (run .copy (init progs) schedule).threads[t]? = some th) :
    th.seen ++ alone th.todo = alone (progs.getD t []) :=
  ((run_inv progs schedule (init progs) (init_inv progs)).2 t th h).1

/-- an evaluation that has finished has seen exactly its own contexts -/
theorem copy_finished (progs : List (List (String × Nat))) (schedule : List Nat) (t : Nat) (th : Thread)
    (h : (run .copy (init progs) schedule).threads[t]? = some th) (hdone : th.todo = []) :
    th.seen = alone (progs.getD t []) := by
  have := copy_isolated progs schedule t th h
  simpa [hdone, alone] using this

/-- **No shared writes.**  With per-call copies no step of any schedule writes shared memory
    (so no two evaluations can conflict on it) -/
theorem copy_no_shared_writes (progs : List (List (String × Nat))) (schedule : List Nat) :
    (run .copy (init progs) schedule).sharedWrites = [] :=
  (run_inv progs schedule (init progs) (init_inv progs)).1

/-- **Schedule independence.**  Two runs of the same evaluations under any two schedules: an evaluation that
    has finished in both has found the same contexts in both — the interleaving cannot be observed -/
theorem copy_schedule_independent (progs : List (List (String × Nat))) (s1 s2 : List Nat) (t : Nat)
    (th1 th2 : Thread)
    (h1 : (run .copy (init progs) s1).threads[t]? = some th1) (h2 : (run .copy (init progs) s2).threads[t]? = some th2)
    (d1 : th1.todo = []) (d2 : th2.todo = []) : th1.seen = th2.seen := by
  rw [copy_finished progs s1 t th1 h1 d1, copy_finished progs s2 t th2 h2 d2]

/-- in particular a concurrent run agrees with the run in which evaluation `t` is alone in the process -/
theorem copy_equals_alone (progs : List (List (String × Nat))) (sched sched' : List Nat) (t : Nat)
    (th th' : Thread)
    (h : (run .copy (init progs) sched).threads[t]? = some th) (d : th.todo = [])
    (h' : (run .copy (init [progs.getD t []]) sched').threads[0]? = some th') (d' : th'.todo = []) :
    th.seen = th'.seen := by
  rw [copy_finished progs sched t th h d, copy_finished _ sched' 0 th' h' d']
  simp

/-- what an evaluation has found at any moment of any schedule is a prefix of what it finds alone:
    no call ever finds a foreign context, finished or not -/
theorem copy_seen_prefix (progs : List (List (String × Nat))) (schedule : List Nat) (t : Nat) (th : Thread)
    (h : (run .copy (init progs) schedule).threads[t]? = some th) :
    th.seen <+: alone (progs.getD t []) :=
  ⟨alone th.todo, copy_isolated progs schedule t th h⟩

/-- the number of threads never changes: no schedule creates or loses an evaluation -/
theorem step_threads_length (p : Protocol) (s : State) (t : Nat) :
    (step p s t).threads.length = s.threads.length := by
  unfold step
  split
  · rfl
  · split
    · rfl
    · cases p <;> simp
    · simp

theorem run_threads_length (p : Protocol) (schedule : List Nat) (s : State) :
    (run p s schedule).threads.length = s.threads.length := by
  induction schedule generalizing s with
  | nil => rfl
  | cons t ts ih =>
    simp only [run, List.foldl_cons] at ih ⊢
    rw [ih, step_threads_length]

/-- a longer schedule extends a shorter one: running `s1 ++ s2` is running `s2` from where `s1` ended -/
theorem run_append (p : Protocol) (s : State) (s1 s2 : List Nat) :
    run p s (s1 ++ s2) = run p (run p s s1) s2 := by
  simp [run, List.foldl_append]

/-- **The model exhibits the defect.**  Writing name and context into the shared function
    object: two evaluations, one call each, schedule setup₀ setup₁ invoke₀ invoke₁ — evaluation 0
    finds evaluation 1's context, and both wrote the same shared location. -/
theorem shared_protocol_breaks :
    let s := run .shared (init [[("substringBefore", 1)], [("substringBefore", 2)]]) [0, 1, 0, 1]
    (s.threads.map (·.seen)) = [[2], [2]] ∧ s.sharedWrites = [(0, "substringBefore"), (1, "substringBefore")] := by
  decide

/-- run sequentially (one evaluation after the other) even the shared protocol is right: the
    defect is a property of schedules -/
theorem shared_protocol_sequential :
    (run .shared (init [[("f", 1), ("g", 1)], [("f", 2)]]) [0, 0, 0, 0, 1, 1]).threads.map (·.seen) = [[1, 1], [2]] := by
  decide

/-! ### regenerated facts tying the protocol to the source -/

def idx (e : String) (l : List String) : Nat := l.findIdx (· == e)

/-- the call path copies the built-in (an assignment from the dereferenced pointer, then the
    address of the copy) before SetName / SetContext, and the copy is what gets called.  Traces are
    inlined through package-local helpers and carry no variable names -/
theorem fact_call_site_copies :
    let ev := Generated.evalFunctionCallEvents
    ev.contains "copy:*" = true ∧ ev.contains "addr:&" = true ∧
    idx "copy:*" ev < idx "call:SetName" ev ∧ idx "copy:*" ev < idx "call:SetContext" ev ∧
    idx "call:SetContext" ev < idx "call:Call" ev := by
  decide

/-- every function of the evaluator that calls a setter directly makes the copy first, and the
    other entry points reach the setters only through such a function -/
theorem fact_setters_only_on_copies :
    Generated.setterSites ≠ [] ∧ Generated.setterSites.all (·.2) = true ∧
    (let ev := Generated.evalFunctionApplicationEvents
     ev.contains "call:SetContext" = false ∨ idx "copy:*" ev < idx "call:SetContext" ev) ∧
    (let ev := Generated.transformCallEvents
     ev.contains "call:SetContext" = false ∨ idx "copy:*" ev < idx "call:SetContext" ev) := by
  decide

/-- the package-level registry is used only under its mutex: every function that mentions it
    takes the lock before the first use and releases it, and the ones that write hold the write
    lock; there is a reader and a writer -/
theorem fact_registry_under_lock :
    Generated.registryLocking.all (fun r => r.2.2.1 && r.2.2.2.1 && (!r.2.2.2.2 || r.2.1 == "W")) = true ∧
    Generated.registryLocking.any (fun r => r.2.2.2.2) = true ∧
    Generated.registryLocking.any (fun r => !r.2.2.2.2) = true := by
  decide

/-- each Eval builds a new environment (and new time callables) instead of sharing one -/
theorem fact_env_per_eval :
    Generated.exprEvalEvents.contains "write:recv:environment" = true ∧
    Generated.exprEvalEvents.all (fun e => e != "write:recv:Expr" && e != "write:global") = true ∧
    (Generated.exprEvalEvents.filter (· == "call:Now")).length = 1 := by
  decide

/-! ### non-vacuity -/

example : ((run .copy (init [[("f", 1)], [("f", 2)]]) [0, 1, 0, 1]).threads.map (·.seen)) = [[1], [2]] := by decide

end Jsonata.Props.C06
