/-
  Props/C15.lean — property C15: array, higher-order and aggregate functions compute
  their definitions.  The function argument is a parameter of every theorem; all
  statements are for every array length.
-/
import JsonataModel.Model.Interp
import JsonataModel.Lemmas.Monad

namespace Jsonata.Props.C15
open Jsonata NumSys

variable {N : Type} [NumSys N]

/-- the function value `fv` computes the store-independent function `f` of its argument list -/
def PureCall (r : Rec N) (fv : Val N) (f : List (Option (Val N)) → Option (Val N)) : Prop :=
  ∀ args s, ∃ s', r.call fv none args s = .ok (f args, s')

/-- (value, index, whole array) trimmed to the function's arity -/
def hofArgs (argc : Nat) (whole : List (Val N)) (i : Nat) (x : Val N) : List (Option (Val N)) :=
  ([some x, some (.num (ofInt (i : Int))), some (.arr whole)] : List (Option (Val N))).take argc

/-! ### $map, $filter -/

/-- the present results of f(value, index, array), members in order -/
def mapSpec (f : List (Option (Val N)) → Option (Val N)) (argc : Nat) (whole : List (Val N)) :
    Nat → List (Val N) → List (Val N)
  | _, [] => []
  | i, x :: xs =>
    match f (hofArgs argc whole i x) with
    | some y => y :: mapSpec f argc whole (i + 1) xs
    | none => mapSpec f argc whole (i + 1) xs

theorem libMap_go_spec (r : Rec N) (fv : Val N) (f : List (Option (Val N)) → Option (Val N))
    (hf : PureCall r fv f) (whole : List (Val N)) (argc : Nat) (xs : List (Val N)) (i : Nat) (s : Store N) :
    ∃ s', libMap.go r fv (.arr whole) argc i xs s = .ok (mapSpec f argc whole i xs, s') := by
  induction xs generalizing i s with
  | nil => exact ⟨s, rfl⟩
  | cons x xs ih =>
    obtain ⟨s1, h1⟩ := hf (hofArgs argc whole i x) s
    obtain ⟨s2, h2⟩ := ih (i + 1) s1
    refine ⟨s2, ?_⟩
    have h1' : r.call fv none (List.take argc [some x, some (Val.num (ofInt (i : Int))), some (Val.arr whole)]) s =
        .ok (f (hofArgs argc whole i x), s1) := h1
    simp only [libMap.go, evalM_bind, h1', h2, mapSpec]
    cases f (hofArgs argc whole i x) <;> rfl

/-- **$map**: the function is called on the members in order with (value, index, whole array)
    trimmed to its arity (clamped to 1..3), and the present results are returned. A non-array
    argument counts as a one-member array. -/
theorem map_eq_spec (r : Rec N) (fv : Val N) (f : List (Option (Val N)) → Option (Val N))
    (hf : PureCall r fv f) (v : Option (Val N)) (s : Store N) :
    ∃ s', libMap r v fv s = .ok (some (.arr (mapSpec f (clamp (paramCount fv) 0 3) (forceArr v) 0 (forceArr v))), s') := by
  obtain ⟨s1, h1⟩ := libMap_go_spec r fv f hf (forceArr v) (clamp (paramCount fv) 0 3) (forceArr v) 0 s
  exact ⟨s1, by simp [libMap, h1]⟩

/-- the members whose result is truthy, in order -/
def filterSpec (f : List (Option (Val N)) → Option (Val N)) (argc : Nat) (whole : List (Val N)) :
    Nat → List (Val N) → List (Val N)
  | _, [] => []
  | i, x :: xs =>
    if truthyO (f (hofArgs argc whole i x)) then x :: filterSpec f argc whole (i + 1) xs
    else filterSpec f argc whole (i + 1) xs

theorem libFilter_go_spec (r : Rec N) (fv : Val N) (f : List (Option (Val N)) → Option (Val N))
    (hf : PureCall r fv f) (whole : List (Val N)) (argc : Nat) (xs : List (Val N)) (i : Nat) (s : Store N) :
    ∃ s', libFilterL.go r fv (.arr whole) argc i xs s = .ok (filterSpec f argc whole i xs, s') := by
  induction xs generalizing i s with
  | nil => exact ⟨s, rfl⟩
  | cons x xs ih =>
    obtain ⟨s1, h1⟩ := hf (hofArgs argc whole i x) s
    obtain ⟨s2, h2⟩ := ih (i + 1) s1
    refine ⟨s2, ?_⟩
    have h1' : r.call fv none (List.take argc [some x, some (Val.num (ofInt (i : Int))), some (Val.arr whole)]) s =
        .ok (f (hofArgs argc whole i x), s1) := h1
    simp only [libFilterL.go, evalM_bind, h1', h2, filterSpec]
    cases truthyO (f (hofArgs argc whole i x)) <;> rfl

/-- **$filter** -/
theorem filter_eq_spec (r : Rec N) (fv : Val N) (f : List (Option (Val N)) → Option (Val N))
    (hf : PureCall r fv f) (v : Option (Val N)) (s : Store N) :
    ∃ s', libFilterL r v fv s = .ok (filterSpec f (clamp (paramCount fv) 0 3) (forceArr v) 0 (forceArr v), s') := by
  obtain ⟨s1, h1⟩ := libFilter_go_spec r fv f hf (forceArr v) (clamp (paramCount fv) 0 3) (forceArr v) 0 s
  exact ⟨s1, by simp [libFilterL, h1]⟩

/-- the filtered members are a sub-list of the input (order kept, nothing invented) -/
theorem filterSpec_sublist (f : List (Option (Val N)) → Option (Val N)) (argc : Nat) (whole : List (Val N))
    (i : Nat) (xs : List (Val N)) : (filterSpec f argc whole i xs).Sublist xs := by
  induction xs generalizing i with
  | nil => exact List.Sublist.slnil
  | cons x xs ih =>
    simp only [filterSpec]
    split
    · exact (ih (i + 1)).cons_cons x
    · exact (ih (i + 1)).cons x

/-! ### $reduce -/

theorem libReduce_go_spec (r : Rec N) (fv : Val N) (f : List (Option (Val N)) → Option (Val N))
    (hf : PureCall r fv f) (xs : List (Val N)) (acc : Option (Val N)) (s : Store N) :
    ∃ s', libReduce.go r fv acc xs s = .ok (xs.foldl (fun a x => f [a, some x]) acc, s') := by
  induction xs generalizing acc s with
  | nil => exact ⟨s, rfl⟩
  | cons x xs ih =>
    obtain ⟨s1, h1⟩ := hf [acc, some x] s
    obtain ⟨s2, h2⟩ := ih (f [acc, some x]) s1
    exact ⟨s2, by simp [libReduce.go, h1, h2]⟩

/-- **$reduce** is the left fold, seeded by the optional initial value (else by the first
    member), and requires a two-parameter function. -/
theorem reduce_eq_spec (r : Rec N) (fv : Val N) (f : List (Option (Val N)) → Option (Val N))
    (hf : PureCall r fv f) (h2 : paramCount fv = 2) (v : Option (Val N)) (init : Option (Val N)) (s : Store N) :
    ∃ s', libReduce r v fv init s = .ok (
      (match init, forceArr v with
       | some i, xs => xs.foldl (fun a x => f [a, some x]) (some i)
       | none, x :: xs => xs.foldl (fun a x => f [a, some x]) (some x)
       | none, [] => none), s') := by
  unfold libReduce
  simp only [h2, bne_self_eq_false, Bool.false_eq_true, if_false]
  rcases init with _ | i
  · rcases hx : forceArr v with _ | ⟨x, xs⟩
    · exact ⟨s, by simp [libReduce.go]⟩
    · obtain ⟨s1, h1⟩ := libReduce_go_spec r fv f hf xs (some x) s
      exact ⟨s1, by simp [h1]⟩
  · obtain ⟨s1, h1⟩ := libReduce_go_spec r fv f hf (forceArr v) (some i) s
    refine ⟨s1, ?_⟩
    cases hx : forceArr v <;> simp [hx] at h1 ⊢ <;> exact h1

theorem reduce_requires_arity_two (r : Rec N) (fv : Val N) (h2 : paramCount fv ≠ 2)
    (v init : Option (Val N)) (s : Store N) :
    libReduce r v fv init s = .error (.lib "reduce") := by
  unfold libReduce
  have : (paramCount fv != 2) = true := by simpa using h2
  simp [this, libErr]

/-! ### $append, $reverse, $count, scalars as one-member arrays -/

theorem scalar_is_singleton (x : N) (xs : List (Val N)) :
    forceArr (some (.num x)) = [.num x] ∧ forceArr (some (.arr xs)) = xs ∧
    forceArr (N := N) none = [] ∧ arrayify (some (Val.num x)) = [.num x] := by
  simp [forceArr, arrayify]

/-! ### $distinct -/

/-- no member of the result equals (by `=`) an earlier member of the result or a `seen` value -/
theorem distinctL_pairwise (xs seen : List (Val N)) (hsymm : ∀ a b : Val N, valEq a b = valEq b a) :
    (distinctL xs seen).Pairwise (fun a b => valEq a b = false) ∧
    ∀ y ∈ distinctL xs seen, ∀ z ∈ seen, valEq y z = false := by
  induction xs generalizing seen with
  | nil => simp [distinctL]
  | cons x xs ih =>
    unfold distinctL
    by_cases hs : seen.any (valEq x) = true
    · simp only [hs, if_true]; exact ih seen
    · have hs' : seen.any (valEq x) = false := Bool.eq_false_iff.mpr hs
      simp only [hs', Bool.false_eq_true, if_false]
      obtain ⟨h1, h2⟩ := ih (x :: seen)
      refine ⟨List.pairwise_cons.mpr ⟨?_, h1⟩, ?_⟩
      · intro y hy
        have := h2 y hy x (by simp)
        rw [hsymm]; exact this
      · intro y hy z hz
        rcases List.mem_cons.mp hy with rfl | hy
        · have := List.any_eq_false.mp hs' z hz
          simpa using this
        · exact h2 y hy z (List.mem_cons_of_mem _ hz)

/-- the result is a sub-list of the input: first occurrences, in order -/
theorem distinctL_sublist (xs seen : List (Val N)) : (distinctL xs seen).Sublist xs := by
  induction xs generalizing seen with
  | nil => exact List.Sublist.slnil
  | cons x xs ih =>
    unfold distinctL
    split
    · exact (ih seen).cons x
    · exact (ih (x :: seen)).cons_cons x

/-- nothing is lost: every input member equals some member of the result (or was seen) -/
theorem distinctL_complete (xs seen : List (Val N)) (hrefl : ∀ a : Val N, a ∈ xs → valEq a a = true) :
    ∀ x ∈ xs, (∃ y ∈ distinctL xs seen, valEq x y = true) ∨ seen.any (valEq x) = true := by
  induction xs generalizing seen with
  | nil => intro x hx; cases hx
  | cons a as ih =>
    intro x hx
    unfold distinctL
    by_cases hs : seen.any (valEq a) = true
    · simp only [hs, if_true]
      rcases List.mem_cons.mp hx with rfl | hx'
      · exact Or.inr hs
      · exact ih seen (fun b hb => hrefl b (List.mem_cons_of_mem _ hb)) x hx'
    · have hs' : seen.any (valEq a) = false := Bool.eq_false_iff.mpr hs
      simp only [hs', Bool.false_eq_true, if_false]
      rcases List.mem_cons.mp hx with rfl | hx'
      · exact Or.inl ⟨x, by simp, hrefl x (by simp)⟩
      · rcases ih (a :: seen) (fun b hb => hrefl b (List.mem_cons_of_mem _ hb)) x hx' with ⟨y, hy, he⟩ | h
        · exact Or.inl ⟨y, List.mem_cons_of_mem _ hy, he⟩
        · simp only [List.any_cons, Bool.or_eq_true] at h
          rcases h with h | h
          · exact Or.inl ⟨a, by simp, h⟩
          · exact Or.inr h

/-- values of different kinds stay distinct: 1 and "1", {"a":1} and {"a":"1"} -/
theorem distinct_kinds (x : N) :
    valEq (.num x) (.str "1") = false ∧
    valEq (Val.obj [("a", .num x)]) (.obj [("a", .str "1")]) = false ∧
    valEq (Val.arr [.num x]) (.arr [.str "1"]) = false ∧
    valEq (N := N) (.bool true) (.str "true") = false := by
  simp [valEq, listEq, objSub, lookupEq]

/-! ### $zip -/

theorem zipL_length (cols : List (List (Val N))) (n : Nat) (h : ∀ c ∈ cols, n ≤ c.length) (hne : cols ≠ []) :
    (zipL n cols).length = n := by
  induction n generalizing cols with
  | zero => rfl
  | succ k ih =>
    have hnone : cols.any List.isEmpty = false := by
      rw [List.any_eq_false]
      intro c hc
      have := h c hc
      cases c <;> simp_all
    simp only [zipL, hnone, Bool.false_eq_true, if_false, List.length_cons]
    rw [ih]
    · intro c hc
      obtain ⟨c', hc', rfl⟩ := List.mem_map.mp hc
      have := h c' hc'
      simp; omega
    · simpa using hne

/-! ### $shuffle: the inside-out Fisher–Yates of jlib.Shuffle, with the random draws explicit -/

/-- state after inserting item `x` with draw `j` (`j ≤` current length): `results[i] = results[j];
    results[j] = x` -/
def shuffleStep (res : List (Val N)) (x : Val N) (j : Nat) : List (Val N) :=
  if j < res.length then (res ++ [res.getD j x]).set j x else res ++ [x]

def shuffleWith : List (Val N) → List Nat → List (Val N) → List (Val N)
  | [], _, res => res
  | x :: xs, [], res => shuffleWith xs [] (res ++ [x])
  | x :: xs, j :: js, res => shuffleWith xs js (shuffleStep res x j)

theorem shuffleStep_perm (res : List (Val N)) (x : Val N) (j : Nat) :
    (shuffleStep res x j).Perm (x :: res) := by
  unfold shuffleStep
  by_cases hj : j < res.length
  · simp only [hj, if_true]
    -- res = a ++ y :: b with a.length = j
    obtain ⟨a, y, b, hres, hlen⟩ : ∃ a y b, res = a ++ y :: b ∧ a.length = j := by
      refine ⟨res.take j, res[j], res.drop (j + 1), ?_, by simp; omega⟩
      rw [← List.drop_eq_getElem_cons hj]
      exact (List.take_append_drop j res).symm
    subst hres
    have hget : (a ++ y :: b).getD j x = y := by
      simp [List.getD, List.getElem?_append_right (Nat.le_of_eq hlen), hlen]
    rw [hget]
    have hset : ((a ++ y :: b) ++ [y]).set j x = a ++ x :: (b ++ [y]) := by
      rw [List.append_assoc, List.set_append_right _ _ (Nat.le_of_eq hlen)]
      simp [hlen]
    rw [hset]
    -- a ++ x :: (b ++ [y]) ~ x :: (a ++ y :: b)
    have h1 : (a ++ x :: (b ++ [y])).Perm (x :: (a ++ (b ++ [y]))) := List.perm_middle
    have h2 : (a ++ (b ++ [y])).Perm (a ++ y :: b) := by
      apply List.Perm.append_left
      exact (List.perm_append_comm).trans (by simp)
    exact h1.trans (h2.cons x)
  · simp only [hj, if_false]
    exact (List.perm_append_comm).trans (by simp)

/-- **$shuffle returns a permutation**, whatever the random draws are -/
theorem shuffle_perm (xs : List (Val N)) (draws : List Nat) (res : List (Val N)) :
    (shuffleWith xs draws res).Perm (res ++ xs) := by
  induction xs generalizing draws res with
  | nil => simp [shuffleWith]
  | cons x xs ih =>
    cases draws with
    | nil =>
      simp only [shuffleWith]
      exact (ih [] (res ++ [x])).trans (by simp)
    | cons j js =>
      simp only [shuffleWith]
      refine (ih js (shuffleStep res x j)).trans ?_
      have := shuffleStep_perm res x j
      exact (this.append_right xs).trans (by
        simp only [List.cons_append]
        exact (List.perm_middle).symm)

/-! ### aggregates -/

theorem aggregate_empty_rules :
    libSum (N := N) (.arr []) = finiteOr "sum" (ofInt 0) ∧
    libMax (N := N) (.arr []) = .ok none ∧ libMin (N := N) (.arr []) = .ok none ∧
    libAverage (N := N) (.arr []) = .ok none := by
  exact ⟨rfl, rfl, rfl, rfl⟩

/-- `$sum` is the left-to-right sum of the members (an error when not finite) -/
theorem sum_spec (ns : List N) :
    libSum (.arr (ns.map Val.num)) = finiteOr "sum" (ns.foldl add (ofInt 0)) := by
  have : allNums (ns.map (Val.num (N := N))) = some ns := by
    induction ns with
    | nil => rfl
    | cons n ns ih => simp [allNums, ih]
  simp [libSum, numbersOf, this]
  rfl

/-- a non-numeric member is an error -/
theorem aggregate_non_numeric (s : String) (ns : List (Val N)) :
    libSum (.arr (.str s :: ns)) = .error (.lib "sum") ∧
    libMax (.arr (.str s :: ns)) = .error (.lib "max") ∧
    libMin (.arr (.str s :: ns)) = .error (.lib "min") ∧
    libAverage (.arr (.str s :: ns)) = .error (.lib "average") := by
  simp [libSum, libMax, libMin, libAverage, numbersOf, allNums]
  refine ⟨rfl, rfl, rfl, rfl⟩

/-! ### non-vacuity -/

example : distinctL (N := Int) [.num 1, .str "1", .num 1, .arr [.num 1], .arr [.num 1]] [] =
    [.num 1, .str "1", .arr [.num 1]] := by
  simp [distinctL, valEq, listEq, NumSys.beq]

example : shuffleWith (N := Int) [.num 1, .num 2, .num 3] [0, 0, 1] [] = [.num 2, .num 3, .num 1] := by
  simp [shuffleWith, shuffleStep]

/-! ### $single, $append, $reverse -/

/-- **$single**: the unique member whose result is truthy; none or several is an error -/
theorem single_spec (r : Rec N) (fv : Val N) (f : List (Option (Val N)) → Option (Val N))
    (hf : PureCall r fv f) (v : Option (Val N)) (s : Store N) :
    ∃ s', builtinImpl r "single" [v, some fv] s =
      (match filterSpec f (clamp (paramCount fv) 0 3) (forceArr v) 0 (forceArr v) with
       | [x] => .ok (some x, s')
       | _ => .error (.lib "single")) := by
  obtain ⟨s', h⟩ := filter_eq_spec r fv f hf v s
  refine ⟨s', ?_⟩
  have hdef : builtinImpl r "single" [v, some fv] =
      (do match (← libFilterL r v fv) with
          | [x] => pure (some x)
          | _ => libErr "single") := rfl
  rw [hdef]
  simp only [bind, StateT.bind, Except.bind, h]
  generalize filterSpec f (clamp (paramCount fv) 0 3) (forceArr v) 0 (forceArr v) = ys
  match ys with
  | [] => rfl
  | [x] => rfl
  | _ :: _ :: _ => rfl

/-- **$append** concatenates (a missing side yields the other side as it is; scalars count as one-member arrays) -/
theorem append_spec (r : Rec N) (a b : Val N) (s : Store N) :
    builtinImpl r "append" [some a, some b] s = .ok (some (.arr (arrayify (some a) ++ arrayify (some b))), s) ∧
    builtinImpl r "append" [some a, none] s = .ok (some a, s) ∧
    builtinImpl r "append" [none, some b] s = .ok (some b, s) := by
  refine ⟨rfl, rfl, rfl⟩

/-- **$reverse** reverses; reversing twice gives the array back -/
theorem reverse_spec (r : Rec N) (xs : List (Val N)) (s : Store N) :
    builtinImpl r "reverse" [some (.arr xs)] s = .ok (some (.arr xs.reverse), s) ∧
    builtinImpl r "reverse" [some (.arr xs.reverse)] s = .ok (some (.arr xs), s) := by
  refine ⟨rfl, ?_⟩
  have h : builtinImpl r "reverse" [some (.arr xs.reverse)] s = .ok (some (.arr xs.reverse.reverse), s) := rfl
  rw [h, List.reverse_reverse]


end Jsonata.Props.C15
