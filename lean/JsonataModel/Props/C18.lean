/-
  Props/C18.lean — property C18: number conversion, rounding and formatting.

  The number is handled through its shortest decimal `m · 10^e` (`NumSys.toDec` / `ofDec`:
  strconv, trusted and cross-checked by the correspondence).  Proved here, for all integers:
  half-even rounding is the nearest integer with ties to even, values that already have at
  most p fraction digits are unchanged, radix numerals read back, grouping separators only
  stand between the digits and removing them gives the digits back, the fixed-point numeral
  reads back as the rounded value with exactly dp fraction digits, exponent normalisation
  preserves mantissa × 10^exponent and terminates with the mantissa in the picture's range
  (the loops that hung for 0 and negative numbers).  PARTIAL (DESIGN.md §6 C18): the
  double ↔ decimal conversions (strconv) are parameters, not theorems.
-/
import JsonataModel.Model.Lib
import JsonataModel.Generated.Facts

namespace Jsonata.Props.C18
open Jsonata Jsonata.Num Jsonata.FmtNum

/-! ### half-even rounding -/

/-- `halfEven n d` is a nearest integer to n/d … -/
theorem halfEven_nearest (n : Int) (d : Nat) (hd : 0 < d) :
    2 * (halfEven n d * d - n) ≤ d ∧ 2 * (n - halfEven n d * d) ≤ d := by
  have hd' : (0 : Int) < d := by exact_mod_cast hd
  have h2 := Int.emod_nonneg n (Int.ne_of_gt hd')
  have h3 := Int.emod_lt_of_pos n hd'
  have hq : n / (d : Int) * d = n - n % d := by
    have := Int.mul_ediv_add_emod n d
    rw [Int.mul_comm] at this
    omega
  unfold halfEven
  simp only
  split
  · rw [hq]; omega
  · split
    · rw [Int.add_mul, hq]; omega
    · split
      · rw [hq]; omega
      · rw [Int.add_mul, hq]; omega

/-- … and on a tie it is the even one -/
theorem halfEven_tie_even (n : Int) (d : Nat) (h : 2 * (n % (d : Int)) = d) :
    halfEven n d % 2 = 0 := by
  unfold halfEven
  simp only
  have h1 : ¬ 2 * (n % (d : Int)) < d := by omega
  have h2 : ¬ 2 * (n % (d : Int)) > d := by omega
  simp only [h1, h2, if_false]
  split
  · rename_i he; simpa using he
  · rename_i he
    have : n / (d : Int) % 2 = 1 := by
      have := Int.emod_two_eq (n / (d : Int))
      simp at he
      omega
    omega

/-- an exact multiple is returned unchanged -/
theorem halfEven_exact (k : Int) (d : Nat) (hd : 0 < d) : halfEven (k * d) d = k := by
  have hd' : (0 : Int) < d := by exact_mod_cast hd
  unfold halfEven
  have hne : d ≠ 0 := by omega
  simp [Int.mul_emod_left, Int.mul_ediv_cancel _ (Int.ne_of_gt hd'), hne]

/-- a value with at most p fraction digits (e + p ≥ 0) is not changed by rounding to p digits -/
theorem roundScaled_exact (m e p : Int) (h : 0 ≤ e + p) :
    roundScaled m e p = m * 10 ^ (e + p).toNat := by
  simp [roundScaled, h]

/-- rounding is the nearest multiple of 10^(-p): |k − m·10^(e+p)| ≤ 1/2 in units of the last digit -/
theorem roundScaled_nearest (m e p : Int) (h : e + p < 0) :
    let d : Nat := 10 ^ (-(e + p)).toNat
    2 * (roundScaled m e p * d - m) ≤ d ∧ 2 * (m - roundScaled m e p * d) ≤ d := by
  have hs : ¬ (e + p ≥ 0) := by omega
  simp only [roundScaled, hs, if_false]
  exact halfEven_nearest m _ (Nat.pow_pos (by decide))

/-! ### radix numerals -/

def valOf (b : Nat) (init : Nat) (ds : List Char) : Nat := ds.foldl (fun n c => n * b + digitVal c) init

theorem digitVal_digitChar : ∀ d, d < 36 → digitVal (digitChar d) = d := by decide

theorem digitChar_ne_minus : ∀ d, d < 36 → digitChar d ≠ '-' := by decide

theorem toBaseAux_value (b : Nat) (hb : 2 ≤ b) (hb' : b ≤ 36) :
    ∀ (fuel n : Nat) (acc : List Char), n < fuel → valOf b 0 (toBaseAux b fuel n acc) = valOf b n acc
  | 0, n, _, h => by omega
  | fuel + 1, n, acc, h => by
    unfold toBaseAux
    split
    · rename_i hlt
      simp [valOf, digitVal_digitChar n (by omega)]
    · rename_i hge
      have hdiv : n / b < fuel := by
        have : n / b < n := Nat.div_lt_self (by omega) (by omega)
        omega
      rw [toBaseAux_value b hb hb' fuel (n / b) _ hdiv]
      have hmod : n % b < 36 := by
        have := Nat.mod_lt n (show b > 0 by omega)
        omega
      simp only [valOf, List.foldl_cons, digitVal_digitChar _ hmod]
      congr 1
      have := Nat.div_add_mod n b
      rw [Nat.mul_comm] at this
      exact this

/-- **$formatBase**: the numeral reads back as the integer, for every base 2..36 -/
theorem toBase_reads_back (n : Nat) (b : Nat) (hb : 2 ≤ b) (hb' : b ≤ 36) :
    valOf b 0 (toBaseAux b (n + 1) n []) = n := by
  rw [toBaseAux_value b hb hb' (n + 1) n [] (by omega)]
  rfl

/-- a negative integer is the numeral of its absolute value behind a minus sign -/
theorem toBase_sign (n : Int) (b : Nat) :
    toBase n b = if n < 0 then '-' :: toBaseAux b (n.natAbs + 1) n.natAbs [] else toBaseAux b (n.natAbs + 1) n.natAbs [] := rfl

/-- bases outside 2..36 are an error, whatever the number -/
theorem formatBase_bad_radix {N : Type} [NumSys N] (x b : N)
    (h : NumSys.toInt (libRound b 0) < 2 ∨ NumSys.toInt (libRound b 0) > 36) :
    libFormatBase x (some b) = .error (.lib "formatBase") := by
  unfold libFormatBase
  simp only
  rcases h with h | h
  · simp [h]
  · have : ¬ NumSys.toInt (libRound b 0) < 2 := by omega
    simp [this, h]

/-! ### grouping separators -/

/-- removing the separator characters -/
def strip (sep : Char) (s : S) : S := s.filter (· != sep)

theorem strip_append (sep : Char) (a b : S) : strip sep (a ++ b) = strip sep a ++ strip sep b := by
  simp [strip]

theorem strip_id (sep : Char) (s : S) (h : ∀ c ∈ s, c ≠ sep) : strip sep s = s := by
  unfold strip
  rw [List.filter_eq_self]
  intro c hc
  simpa using h c hc

theorem strip_cons_sep (sep : Char) (s : S) : strip sep (sep :: s) = strip sep s := by
  simp [strip]

/-- integer part, irregular positions: only separators are added -/
theorem sepAtRight_strip (sep : Char) : ∀ (ps : List Nat) (s : S), strip sep (sepAtRight sep ps s) = strip sep s
  | [], _ => rfl
  | n :: ns, s => by
    unfold sepAtRight
    split
    · exact sepAtRight_strip sep ns s
    · rw [strip_append, strip_cons_sep, sepAtRight_strip sep ns, ← strip_append, List.take_append_drop]

/-- no separator is put before the first digit -/
theorem sepAtRight_head (sep : Char) : ∀ (ps : List Nat) (s : S), (sepAtRight sep ps s).head? = s.head?
  | [], _ => rfl
  | n :: ns, s => by
    unfold sepAtRight
    split
    · exact sepAtRight_head sep ns s
    · rename_i h
      have hpos : 0 < s.length - n := by omega
      cases s with
      | nil => simp at h
      | cons c cs =>
        have : (c :: cs).take ((c :: cs).length - n) = c :: cs.take ((c :: cs).length - n - 1) := by
          cases hk : (c :: cs).length - n with
          | zero => omega
          | succ k => simp
        rw [this]; rfl

/-- fractional part: only separators are added -/
theorem sepAtLeft_strip (sep : Char) : ∀ (ps : List Nat) (c : Nat) (s : S), strip sep (sepAtLeft sep c ps s) = strip sep s
  | [], _, _ => rfl
  | p :: ps, c, s => by
    unfold sepAtLeft
    simp only
    split
    · exact sepAtLeft_strip sep ps c s
    · split
      · rfl
      · rw [strip_append, strip_cons_sep, sepAtLeft_strip sep ps, ← strip_append, List.take_append_drop]

theorem sepEvery_go_strip (sep : Char) (g : Nat) (hg : 0 < g) : ∀ (fuel : Nat) (rs acc : S), rs.length < fuel →
    strip sep (sepEvery.go sep g fuel rs acc) = strip sep rs.reverse ++ strip sep acc
  | 0, _, _, h => by omega
  | fuel + 1, rs, acc, h => by
    unfold sepEvery.go
    split
    · rw [strip_append]
    · rename_i hlen
      have hd : (rs.drop g).length < fuel := by simp [List.length_drop]; omega
      rw [sepEvery_go_strip sep g hg fuel (rs.drop g) _ hd]
      have : sep :: (rs.take g).reverse ++ acc = sep :: ((rs.take g).reverse ++ acc) := rfl
      rw [this, strip_cons_sep, strip_append, ← List.append_assoc, ← strip_append, ← List.reverse_append,
        List.take_append_drop]

/-- regular grouping: only separators are added -/
theorem sepEvery_strip (sep : Char) (g : Nat) (s : S) : strip sep (sepEvery sep g s) = strip sep s := by
  unfold sepEvery
  split
  · rfl
  · rename_i h
    have hg : 0 < g := by
      cases g with
      | zero => simp at h
      | succ k => omega
    rw [sepEvery_go_strip sep g hg (s.length + 1) s.reverse [] (by simp)]
    simp [strip]

/-- **grouping**: whatever the picture's positions, the formatted integer part is the padded
    digit string with separators added and nothing else -/
theorem formatInteger_digits (s : S) (v : Vars) (f : DecFmt) :
    strip f.grpSep (formatInteger s v f) =
      strip f.grpSep (List.replicate (v.minInt - (s.dropWhile f.isZeroDigit).length) f.zero ++ s.dropWhile f.isZeroDigit) := by
  unfold formatInteger
  simp only
  split
  · exact sepEvery_strip _ _ _
  · split
    · exact sepAtRight_strip _ _ _
    · rfl

theorem formatFractional_digits (s : S) (v : Vars) (f : DecFmt) :
    strip f.grpSep (formatFractional s v f) =
      strip f.grpSep ((s.reverse.dropWhile f.isZeroDigit).reverse ++
        List.replicate (v.minFrac - (s.reverse.dropWhile f.isZeroDigit).reverse.length) f.zero) := by
  unfold formatFractional
  simp only
  split
  · exact sepAtLeft_strip _ _ _ _
  · rfl

/-- at least the mandatory integer digits -/
theorem formatInteger_min_digits (s : S) (v : Vars) (f : DecFmt) (hsep : f.zero ≠ f.grpSep)
    (hs : ∀ c ∈ s, c ≠ f.grpSep) : v.minInt ≤ (strip f.grpSep (formatInteger s v f)).length := by
  rw [formatInteger_digits, strip_id]
  · simp only [List.length_append, List.length_replicate]; omega
  · intro c hc
    rcases List.mem_append.mp hc with h | h
    · rw [List.mem_replicate] at h; rw [h.2]; exact hsep
    · exact hs c ((List.dropWhile_sublist _).subset h)

/-! ### the fixed-point numeral -/

theorem valOf_zeros (k : Nat) (ds : List Char) : valOf 10 0 (List.replicate k '0' ++ ds) = valOf 10 0 ds := by
  induction k with
  | zero => rfl
  | succ k ih =>
    rw [List.replicate_succ, List.cons_append]
    simp only [valOf, List.foldl_cons] at ih ⊢
    exact ih

/-- **makeNumberString**: the digits read back as the half-even rounded value, with exactly
    `dp` fraction digits and at least one integer digit -/
theorem numberString_spec (a : Nat) (e : Int) (dp : Nat) :
    let r := numberString a e dp
    valOf 10 0 (r.1 ++ r.2) = (roundScaled a e dp).toNat ∧ r.2.length = dp ∧ 1 ≤ r.1.length := by
  simp only [numberString]
  generalize hQ : (roundScaled (↑a) e ↑dp).toNat = q
  have hval : valOf 10 0 (toBase (q : Int) 10) = q := by
    have : toBase (q : Int) 10 = toBaseAux 10 (q + 1) q [] := by
      simp [toBase]
    rw [this]; exact toBase_reads_back q 10 (by decide) (by decide)
  have hlen1 : 1 ≤ (toBase (q : Int) 10).length := by
    have : toBase (q : Int) 10 = toBaseAux 10 (q + 1) q [] := by simp [toBase]
    rw [this]
    unfold toBaseAux
    split
    · simp
    · rename_i h
      -- the recursive call only conses onto a non-empty accumulator
      have aux : ∀ (fuel n : Nat) (acc : List Char), acc ≠ [] → toBaseAux 10 fuel n acc ≠ [] := by
        intro fuel
        induction fuel with
        | zero => intro n acc h; simpa [toBaseAux] using h
        | succ k ih =>
          intro n acc h
          unfold toBaseAux
          split
          · simp
          · exact ih _ _ (by simp)
      have := aux q (q / 10) [digitChar (q % 10)] (by simp)
      exact Nat.one_le_iff_ne_zero.mpr (fun h0 => this (List.eq_nil_of_length_eq_zero h0))
  split
  · rename_i hle
    refine ⟨?_, ?_, ?_⟩
    · rw [List.take_append_drop, valOf_zeros, hval]
    · simp [List.length_drop, List.length_append, List.length_replicate]; omega
    · simp [List.length_take, List.length_append, List.length_replicate]; omega
  · rename_i hgt
    refine ⟨?_, ?_, ?_⟩
    · rw [List.take_append_drop, hval]
    · simp [List.length_drop]; omega
    · simp [List.length_take]; omega

/-! ### exponent pictures -/

/-- normalisation moves the decimal point and the exponent together: mantissa × 10^exponent
    is unchanged (e' + x' = e + x) -/
theorem normalise_preserves (a : Nat) (s : Int) : ∀ (fuel : Nat) (e x : Int),
    (normalise a s fuel e x).1 + (normalise a s fuel e x).2 = e + x
  | 0, _, _ => rfl
  | fuel + 1, e, x => by
    unfold normalise
    split
    · rw [normalise_preserves a s fuel]; omega
    · split
      · rw [normalise_preserves a s fuel]; omega
      · rfl

/-- a mantissa already in range is left alone (no exponent) -/
theorem normalise_in_range (a : Nat) (s : Int) (fuel : Nat) (e x : Int)
    (h1 : ltPow10 a e (s - 1) = false) (h2 : gtPow10 a e s = false) :
    normalise a s (fuel + 1) e x = (e, x) := by
  simp [normalise, h1, h2]

/-! ### the grammar of `$number` -/

def DigitsL (l : List Char) : Prop := l ≠ [] ∧ ∀ c ∈ l, isDig c = true
/-- the list does not start with a digit -/
def NoDigitHead (r : List Char) : Prop := ∀ c, r.head? = some c → isDig c = false

theorem dropWhile_stop (r : List Char) (h : NoDigitHead r) : r.dropWhile isDig = r := by
  cases r with
  | nil => rfl
  | cons c cs => simp [List.dropWhile, h c rfl]

theorem dropWhile_digits_append (ds r : List Char) (hd : ∀ c ∈ ds, isDig c = true) (hr : NoDigitHead r) :
    (ds ++ r).dropWhile isDig = r := by
  induction ds with
  | nil => exact dropWhile_stop r hr
  | cons d ds ih =>
    have hdd : isDig d = true := hd d (by simp)
    simp only [List.cons_append, List.dropWhile, hdd]
    exact ih (fun c hc => hd c (List.mem_cons_of_mem _ hc))

theorem noDigitHead_dropWhile (l : List Char) : NoDigitHead (l.dropWhile isDig) := by
  induction l with
  | nil => intro c h; simp at h
  | cons d ds ih =>
    by_cases hd : isDig d = true
    · simpa [List.dropWhile, hd] using ih
    · intro c h
      simp [List.dropWhile, hd] at h
      subst h; simpa using hd

theorem all_takeWhile (l : List Char) : ∀ x ∈ l.takeWhile isDig, isDig x = true := by
  induction l with
  | nil => intro x hx; simp at hx
  | cons d ds ih =>
    intro x hx
    by_cases hd : isDig d = true
    · simp [List.takeWhile, hd] at hx
      rcases hx with rfl | hx
      · exact hd
      · exact ih x hx
    · simp [List.takeWhile, hd] at hx

/-- `digits1` strips a maximal non-empty run of digits -/
theorem digits1_iff (s r : List Char) :
    digits1 s = some r ↔ ∃ ds, DigitsL ds ∧ s = ds ++ r ∧ NoDigitHead r := by
  constructor
  · intro h
    cases s with
    | nil => simp [digits1] at h
    | cons c cs =>
      simp only [digits1] at h
      split at h
      · rename_i hc
        simp only [Option.some.injEq] at h
        subst h
        refine ⟨c :: cs.takeWhile isDig, ⟨by simp, ?_⟩, ?_, noDigitHead_dropWhile cs⟩
        · intro x hx
          rcases List.mem_cons.mp hx with rfl | hx
          · exact hc
          · exact all_takeWhile cs x hx
        · simp [List.takeWhile_append_dropWhile]
      · cases h
  · rintro ⟨ds, ⟨hne, hall⟩, rfl, hr⟩
    cases ds with
    | nil => exact absurd rfl hne
    | cons d ds' =>
      have hd : isDig d = true := hall d (by simp)
      simp only [List.cons_append, digits1, hd, if_true, Option.some.injEq]
      exact dropWhile_digits_append ds' r (fun c hc => hall c (List.mem_cons_of_mem _ hc)) hr


/-- the grammar of the statement: optional minus, digits, optional fraction, optional exponent -/
def NumText (s : List Char) : Prop :=
  ∃ sign ip frac expo, s = sign ++ ip ++ frac ++ expo ∧ (sign = [] ∨ sign = ['-']) ∧ DigitsL ip ∧
    (frac = [] ∨ ∃ fp, DigitsL fp ∧ frac = '.' :: fp) ∧
    (expo = [] ∨ ∃ m sg ed, (m = 'e' ∨ m = 'E') ∧ (sg = [] ∨ sg = ['+'] ∨ sg = ['-']) ∧ DigitsL ed ∧ expo = m :: (sg ++ ed))

theorem digit_head (ds rest : List Char) (h : DigitsL ds) : ∃ d tl, ds ++ rest = d :: tl ∧ isDig d = true := by
  obtain ⟨hne, hall⟩ := h
  cases ds with
  | nil => exact absurd rfl hne
  | cons d tl => exact ⟨d, tl ++ rest, rfl, hall d (by simp)⟩

theorem expo_noDigitHead (expo : List Char)
    (h : expo = [] ∨ ∃ m sg ed, (m = 'e' ∨ m = 'E') ∧ (sg = [] ∨ sg = ['+'] ∨ sg = ['-']) ∧ DigitsL ed ∧ expo = m :: (sg ++ ed)) :
    NoDigitHead expo := by
  intro c hc
  rcases h with rfl | ⟨m, sg, ed, hm, _, _, rfl⟩
  · simp at hc
  · simp at hc; subst hc
    rcases hm with rfl | rfl <;> decide

theorem expOk_of (expo : List Char)
    (h : expo = [] ∨ ∃ m sg ed, (m = 'e' ∨ m = 'E') ∧ (sg = [] ∨ sg = ['+'] ∨ sg = ['-']) ∧ DigitsL ed ∧ expo = m :: (sg ++ ed)) :
    expOk expo = true := by
  rcases h with rfl | ⟨m, sg, ed, hm, hsg, hed, rfl⟩
  · rfl
  · have hme : (m == 'e' || m == 'E') = true := by rcases hm with rfl | rfl <;> decide
    have hstrip : stripSign (sg ++ ed) = ed := by
      obtain ⟨d, tl, hdt, hd⟩ := digit_head ed [] hed
      simp at hdt
      rcases hsg with rfl | rfl | rfl
      · subst hdt
        simp only [List.nil_append, stripSign]
        split
        · rename_i heq; simp at heq; rw [heq.1] at hd; exact absurd hd (by decide)
        · rename_i heq; simp at heq; rw [heq.1] at hd; exact absurd hd (by decide)
        · rfl
      · rfl
      · rfl
    have hd1 : digits1 ed = some [] := (digits1_iff ed []).mpr ⟨ed, hed, by simp, by intro c h; simp at h⟩
    simp [expOk, hme, hstrip, hd1]

/-- every text of the grammar is accepted -/
theorem reNumber_complete (s : List Char) (h : NumText s) : reNumber s = true := by
  obtain ⟨sign, ip, frac, expo, rfl, hsign, hip, hfrac, hexpo⟩ := h
  have hexN := expo_noDigitHead expo hexpo
  -- after the optional sign
  have hstrip : stripMinus (sign ++ ip ++ frac ++ expo) = ip ++ (frac ++ expo) := by
    rcases hsign with rfl | rfl
    · obtain ⟨d, tl, hdt, hd⟩ := digit_head ip (frac ++ expo) hip
      simp only [List.nil_append, List.append_assoc, hdt, stripMinus]
      split
      · rename_i heq
        simp only [List.cons.injEq] at heq
        rw [heq.1] at hd
        exact absurd hd (by decide)
      · rfl
    · simp [stripMinus]
  have hfracN : NoDigitHead (frac ++ expo) := by
    rcases hfrac with rfl | ⟨fp, _, rfl⟩
    · simpa using hexN
    · intro c hc; simp at hc; subst hc; decide
  have h1 : digits1 (ip ++ (frac ++ expo)) = some (frac ++ expo) :=
    (digits1_iff _ _).mpr ⟨ip, hip, rfl, hfracN⟩
  have h2 : fracStep (frac ++ expo) = some expo := by
    rcases hfrac with rfl | ⟨fp, hfp, rfl⟩
    · rcases hexpo with rfl | ⟨m, sg, ed, hm, _, _, rfl⟩
      · rfl
      · rcases hm with rfl | rfl <;> rfl
    · simp only [List.cons_append, fracStep]
      exact (digits1_iff _ _).mpr ⟨fp, hfp, rfl, hexN⟩
  unfold reNumber
  rw [hstrip]
  simp only [h1, h2]
  exact expOk_of expo hexpo

/-- every accepted text is a text of the grammar -/
theorem reNumber_sound (s : List Char) (h : reNumber s = true) : NumText s := by
  unfold reNumber at h
  cases h1 : digits1 (stripMinus s) with
  | none => simp [h1] at h
  | some s2 =>
    simp only [h1] at h
    cases h2 : fracStep s2 with
    | none => simp [h2] at h
    | some s3 =>
      simp only [h2] at h
      obtain ⟨ip, hip, hs1, _⟩ := (digits1_iff _ _).mp h1
      -- the sign
      have hsign : ∃ sign, (sign = [] ∨ sign = ['-']) ∧ s = sign ++ stripMinus s := by
        unfold stripMinus
        split
        · exact ⟨['-'], Or.inr rfl, rfl⟩
        · exact ⟨[], Or.inl rfl, rfl⟩
      obtain ⟨sign, hsg, hs⟩ := hsign
      -- the fraction
      have hfrac : ∃ frac, (frac = [] ∨ ∃ fp, DigitsL fp ∧ frac = '.' :: fp) ∧ s2 = frac ++ s3 := by
        unfold fracStep at h2
        split at h2
        · rename_i r
          obtain ⟨fp, hfp, hr, _⟩ := (digits1_iff _ _).mp h2
          exact ⟨'.' :: fp, Or.inr ⟨fp, hfp, rfl⟩, by simp [hr]⟩
        · simp at h2; subst h2; exact ⟨[], Or.inl rfl, rfl⟩
      obtain ⟨frac, hfr, hs2⟩ := hfrac
      -- the exponent
      have hexpo : s3 = [] ∨ ∃ m sg ed, (m = 'e' ∨ m = 'E') ∧ (sg = [] ∨ sg = ['+'] ∨ sg = ['-']) ∧ DigitsL ed ∧ s3 = m :: (sg ++ ed) := by
        unfold expOk at h
        split at h
        · exact Or.inl rfl
        · rename_i c r
          right
          by_cases hc : (c == 'e' || c == 'E') = true
          · simp only [hc, if_true] at h
            cases h3 : digits1 (stripSign r) with
            | none => simp [h3] at h
            | some rest =>
              cases rest with
              | cons x xs => simp [h3] at h
              | nil =>
                obtain ⟨ed, hed, hr, _⟩ := (digits1_iff _ _).mp h3
                have hm : c = 'e' ∨ c = 'E' := by simpa using hc
                have hsgn : ∃ sg, (sg = [] ∨ sg = ['+'] ∨ sg = ['-']) ∧ r = sg ++ stripSign r := by
                  unfold stripSign
                  split
                  · exact ⟨['+'], Or.inr (Or.inl rfl), rfl⟩
                  · exact ⟨['-'], Or.inr (Or.inr rfl), rfl⟩
                  · exact ⟨[], Or.inl rfl, rfl⟩
                obtain ⟨sg, hsg', hr'⟩ := hsgn
                refine ⟨c, sg, ed, hm, hsg', hed, ?_⟩
                rw [hr', hr]; simp
          · simp [hc] at h
      refine ⟨sign, ip, frac, s3, ?_, hsg, hip, hfr, hexpo⟩
      rw [hs, hs1, hs2]; simp [List.append_assoc]

/-- **$number accepts exactly the grammar of the statement** -/
theorem reNumber_iff (s : List Char) : reNumber s = true ↔ NumText s :=
  ⟨reNumber_sound s, reNumber_complete s⟩

/-! ### termination of the exponent normalisation (the loops that did not terminate for 0 and negative numbers) -/

theorem lt_iff (a : Nat) (ha : 1 ≤ a) (e k : Int) :
    ltPow10 a e k = true ↔ e < k ∧ a < 10 ^ (k - e).toNat := by
  unfold ltPow10
  by_cases h : e ≥ k
  · have hp : 1 ≤ a * 10 ^ (e - k).toNat := Nat.mul_pos ha (Nat.pow_pos (by decide))
    simp [h]
    omega
  · simp [h]
    omega

theorem gt_iff (a : Nat) (e k : Int) :
    gtPow10 a e k = true ↔ (e ≥ k ∧ a * 10 ^ (e - k).toNat > 1) ∨ (e < k ∧ a > 10 ^ (k - e).toNat) := by
  unfold gtPow10
  by_cases h : e ≥ k
  · simp [h]; omega
  · simp [h]; omega

/-- below range now ⇒ not above range after one step up -/
theorem lt_then_not_gt (a : Nat) (ha : 1 ≤ a) (e s : Int) (h : ltPow10 a e (s - 1) = true) :
    gtPow10 a (e + 1) s = false := by
  obtain ⟨h1, h2⟩ := (lt_iff a ha e (s - 1)).mp h
  cases hg : gtPow10 a (e + 1) s with
  | false => rfl
  | true =>
    rcases (gt_iff a (e + 1) s).mp hg with ⟨h3, _⟩ | ⟨_, h4⟩
    · omega
    · have : s - (e + 1) = s - 1 - e := by omega
      rw [this] at h4
      omega

/-- above range now ⇒ not below range after one step down -/
theorem gt_then_not_lt (a : Nat) (ha : 1 ≤ a) (e s : Int) (h : gtPow10 a e s = true) :
    ltPow10 a (e - 1) (s - 1) = false := by
  cases hl : ltPow10 a (e - 1) (s - 1) with
  | false => rfl
  | true =>
    obtain ⟨h1, h2⟩ := (lt_iff a ha (e - 1) (s - 1)).mp hl
    rcases (gt_iff a e s).mp h with ⟨h3, _⟩ | ⟨_, h4⟩
    · omega
    · have : s - 1 - (e - 1) = s - e := by omega
      rw [this] at h2
      omega

theorem gt_measure (a D : Nat) (ha : 1 ≤ a) (hD : a < 10 ^ D) (e s : Int) (h : gtPow10 a e s = true) :
    s - e < D := by
  have hD1 : 1 ≤ D := by
    cases D with
    | zero => simp at hD; omega
    | succ n => omega
  rcases (gt_iff a e s).mp h with ⟨h3, _⟩ | ⟨h3, h4⟩
  · omega
  · by_cases hle : (D : Int) ≤ s - e
    · have : D ≤ (s - e).toNat := by omega
      have := Nat.pow_le_pow_right (show 1 ≤ 10 by decide) this
      omega
    · omega

def InRange (a : Nat) (s e : Int) : Prop := ltPow10 a e (s - 1) = false ∧ gtPow10 a e s = false

/-- phase B: nothing is below range any more; the mantissa is divided by ten while it is above -/
theorem normalise_down (a D : Nat) (ha : 1 ≤ a) (hD : a < 10 ^ D) (s : Int) :
    ∀ (fuel : Nat) (e x : Int), ltPow10 a e (s - 1) = false → e + D - s < fuel →
      InRange a s (normalise a s fuel e x).1
  | 0, e, x, hl, hf => by
    -- no fuel is only possible when the mantissa is already in range
    have hg : gtPow10 a e s = false := by
      cases hg : gtPow10 a e s with
      | false => rfl
      | true => have := gt_measure a D ha hD e s hg; omega
    exact ⟨hl, hg⟩
  | fuel + 1, e, x, hl, hf => by
    unfold normalise
    simp only [hl]
    cases hg : gtPow10 a e s with
    | false => simpa using ⟨hl, hg⟩
    | true =>
      simp only [if_true]
      have hl' := gt_then_not_lt a ha e s hg
      have hm := gt_measure a D ha hD e s hg
      exact normalise_down a D ha hD s fuel (e - 1) (x + 1) hl' (by omega)

/-- phase A: the mantissa is multiplied by ten while it is below range; it then is in range -/
theorem normalise_up (a D : Nat) (ha : 1 ≤ a) (hD : a < 10 ^ D) (s : Int) :
    ∀ (fuel : Nat) (e x : Int), ltPow10 a e (s - 1) = true → s - 1 - e < fuel →
      InRange a s (normalise a s fuel e x).1
  | 0, e, x, hl, hf => by
    have := ((lt_iff a ha e (s - 1)).mp hl).1
    omega
  | fuel + 1, e, x, hl, hf => by
    unfold normalise
    simp only [hl, if_true]
    have he := ((lt_iff a ha e (s - 1)).mp hl).1
    cases hl' : ltPow10 a (e + 1) (s - 1) with
    | true => exact normalise_up a D ha hD s fuel (e + 1) (x - 1) hl' (by omega)
    | false =>
      have hg := lt_then_not_gt a ha e s hl
      -- one more unfolding returns (e + 1, x - 1)
      cases fuel with
      | zero => omega
      | succ f =>
        unfold normalise
        simp only [hl', hg]
        exact ⟨hl', hg⟩

/-- **Termination of the exponent normalisation.**  For a non-zero mantissa `a` with at most `D`
    digits, scaling factor `s` and starting exponent `e`: with more fuel than
    max(s − 1 − e, e + D − s) the loops stop with the mantissa in the picture's range
    10^(s−1) ≤ a·10^e' ≤ 10^s (and, by `normalise_preserves`, mantissa × 10^exponent unchanged). -/
theorem normalise_terminates (a D : Nat) (ha : 1 ≤ a) (hD : a < 10 ^ D) (s e x : Int) (fuel : Nat)
    (h1 : s - 1 - e < fuel) (h2 : e + D - s < fuel) :
    InRange a s (normalise a s fuel e x).1 := by
  cases hl : ltPow10 a e (s - 1) with
  | true => exact normalise_up a D ha hD s fuel e x hl h1
  | false => exact normalise_down a D ha hD s fuel e x hl h2

/-- the fuel the model runs with (800) suffices for every double and every picture with fewer than
    300 mandatory integer digits: |e| ≤ 400 and at most 40 digits cover all finite doubles scaled by 1000 -/
theorem normalise_fuel_800 (a : Nat) (ha : 1 ≤ a) (hD : a < 10 ^ 40) (s e x : Int)
    (hs0 : 0 ≤ s) (hs : s ≤ 300) (he0 : -400 ≤ e) (he1 : e ≤ 400) :
    InRange a s (normalise a s 800 e x).1 :=
  normalise_terminates a 40 ha hD s e x 800 (by omega) (by omega)

/-! ### picture analysis -/

theorem countWhere_le (p q : Char → Bool) (h : ∀ c, p c = true → q c = true) (s : S) :
    countWhere p s ≤ countWhere q s := by
  induction s with
  | nil => simp [countWhere]
  | cons c cs ih =>
    simp only [countWhere, List.filter_cons] at ih ⊢
    by_cases hp : p c = true
    · simp [hp, h c hp]; omega
    · by_cases hq : q c = true
      · simp [hp, hq]; omega
      · simp [hp, hq]; exact ih

/-- the mandatory fraction digits never exceed the fraction digits of the picture -/
theorem analyse_minFrac_le_maxFrac (p : Parts) (f : DecFmt) :
    (analyseParts p f).minFrac ≤ (analyseParts p f).maxFrac := by
  have hle : countWhere f.isDecimalDigit p.fractional ≤ countWhere f.isDigit p.fractional :=
    countWhere_le _ _ (fun c h => by simp [DecFmt.isDigit, h]) _
  unfold analyseParts
  simp only
  split <;> rename_i h1
  · split <;> rename_i h2
    · simp
    · simp only
      simp only [Bool.and_eq_true, beq_iff_eq] at h1
      split <;> simp_all
  · simp only
    simp only [Bool.and_eq_true, beq_iff_eq, not_and] at h1
    split <;> rename_i h3
    · split <;> rename_i h4
      · simp only [Bool.and_eq_true, beq_iff_eq] at h4
        omega
      · exact hle
    · split <;> rename_i h4
      · simp only [Bool.and_eq_true, beq_iff_eq] at h4
        omega
      · exact hle

/-- the empty picture and a picture with three sub-pictures are errors -/
theorem formatNumber_rejects (m e : Int) (neg : Bool) (f : DecFmt) :
    formatNumber m e neg [] f = none := rfl

/-- ASCII zero digit: the numeral is not remapped -/
theorem mapZero_ascii (f : DecFmt) (s : S) (h : f.zero = '0') : mapZero f s = s := by
  simp [mapZero, h]

/-! ### regenerated facts -/

def eventsOf (fn : String) : List String := (Generated.numberFuncEvents.lookup fn).getD []

/-- the model's decimal-format defaults (XPath 3.1 §4.7.1).  The number grammar, the defaults and the option names
    are tied to the implementation behaviourally (exhaustive `$number` strings, the option-name sweep and every
    formatted picture go through both), not by reading regular expressions and switch statements from the source -/
theorem decimal_format_defaults :
    let f : FmtNum.DecFmt := {}
    (f.decSep, f.grpSep, f.expSep, f.minus, f.zero, f.digit, f.patSep) = ('.', ',', 'e', '-', '0', '#', ';') ∧
    f.infinity = "Infinity".toList ∧ f.nan = "NaN".toList ∧ f.percent = "%".toList ∧ f.permille = "‰".toList := by
  decide

/-- rounding and formatting go through the exact decimal (shortest text → big.Rat), the guards
    of $power/$sqrt are present, $formatBase rounds both arguments.  The traces are inlined through
    package-local helpers, so the facts do not depend on how the functions are cut up -/
theorem fact_number_functions :
    (eventsOf "Round").contains "call:FormatFloat" = true ∧ (eventsOf "Round").contains "call:SetString" = true ∧
    (eventsOf "Round").contains "call:DivMod" = true ∧
    (eventsOf "jxpath.FormatNumber").contains "call:FormatFloat" = true ∧
    (eventsOf "jxpath.FormatNumber").contains "call:SetString" = true ∧
    (eventsOf "jxpath.FormatNumber").contains "call:Pow" = false ∧
    (eventsOf "jxpath.FormatNumber").contains "call:DivMod" = true ∧
    (eventsOf "jxpath.FormatNumber").contains "call:AppendFloat" = false ∧
    (eventsOf "Power").contains "call:Pow" = true ∧ (eventsOf "Power").contains "call:IsInf" = true ∧
    (eventsOf "Power").contains "call:IsNaN" = true ∧ (eventsOf "Power").contains "call:Errorf" = true ∧
    (eventsOf "Sqrt").contains "call:Errorf" = true ∧ (eventsOf "Sqrt").contains "call:Sqrt" = true ∧
    ((eventsOf "FormatBase").filter (· == "call:Round")).length = 2 ∧
    (eventsOf "FormatBase").contains "call:FormatInt" = true ∧ (eventsOf "FormatBase").contains "call:Errorf" = true ∧
    (eventsOf "Number").contains "call:MatchString" = true ∧ (eventsOf "Number").contains "call:ParseFloat" = true := by
  decide

/-! ### non-vacuity and worked values (tests, not theorems) -/

example : halfEven 25 10 = 2 ∧ halfEven 35 10 = 4 ∧ halfEven (-25) 10 = -2 ∧ halfEven 26 10 = 3 ∧ halfEven (-15) 10 = -2 := by decide
example : roundScaled 49999999999999994 (-17) 0 = 0 := by decide
example : roundScaled 43065000000000003 (-14) 1 = 4307 := by decide
example : toBase 255 16 = "ff".toList ∧ toBase (-5) 2 = "-101".toList ∧ toBase 0 7 = "0".toList := by decide
example : reNumber "-12.5e+3".toList = true ∧ reNumber "1.".toList = false ∧ reNumber "+1".toList = false ∧
    reNumber "".toList = false ∧ reNumber ".5".toList = false ∧ reNumber "1e".toList = false ∧ reNumber " 1".toList = false := by decide
example : formatNumber 12345678 (-1) false "#,##0.00".toList {} = some "1,234,567.80".toList := by decide
example : formatNumber 12 0 false "#,###,#0".toList {} = some "12".toList := by decide
example : formatNumber 5 (-1) false "0.0,0,00".toList {} = some "0.5,0,00".toList := by decide
example : formatNumber (-125) (-1) true "0.0e0;(0.0e0)".toList {} = some "(1.2e1)".toList := by decide
example : formatNumber 7 (-2) false "0.################%".toList {} = some "7%".toList := by decide

end Jsonata.Props.C18
