/-
  Props/C10.lean — property C10: results are JSON-representable; ErrUndefined iff no value;
  EvalBytes agrees with Eval.
-/
import JsonataModel.Model.Interp
import JsonataModel.Props.C03
import JsonataModel.Generated.Facts

namespace Jsonata.Props.C10
open Jsonata NumSys

variable {N : Type} [NumSys N]

/-! ### the shape of results -/

/-- what `Expr.Eval` returns to its caller -/
inductive GoResult (N : Type)
  | value (v : Val N)        -- (v, nil)
  | errUndefined             -- (nil, ErrUndefined)
  | failure (e : Err)        -- (nil, err)

/-- jsonata.go `Expr.Eval`, final conversion of the evaluator's outcome -/
def toGoResult : Except Err (Option (Val N)) → GoResult N
  | .ok (some v) => .value v
  | .ok none => .errUndefined
  | .error e => .failure e

/-- **ErrUndefined is reported exactly when the expression yields no value.** -/
theorem undefined_iff_none (o : Except Err (Option (Val N))) :
    (∃ _h : True, toGoResult o = GoResult.errUndefined) ↔ o = .ok none := by
  constructor
  · rintro ⟨_, h⟩
    cases o with
    | error e => simp [toGoResult] at h
    | ok v => cases v <;> simp [toGoResult] at h ⊢
  · intro h; subst h; exact ⟨trivial, rfl⟩

mutual
/-- every number inside the value is finite -/
def Finite : Val N → Prop
  | .num x => isInf x = false ∧ isNaN x = false
  | .arr xs => FiniteL xs
  | .obj kvs => FiniteKV kvs
  | _ => True
def FiniteL : List (Val N) → Prop
  | [] => True
  | x :: xs => Finite x ∧ FiniteL xs
def FiniteKV : List (String × Val N) → Prop
  | [] => True
  | (_, v) :: kvs => Finite v ∧ FiniteKV kvs
end

/-- values of the model are JSON values by their type (null, booleans, numbers, strings,
    arrays, string-keyed objects, functions); the only further requirement is finiteness -/
def JsonClosed (v : Val N) : Prop := Finite v

/-- the arithmetic operators only return finite numbers -/
theorem arithmetic_closed (op : NumOp) (l r : Option (Val N)) (v : Val N)
    (h : numericOp op l r = .ok (some v)) : JsonClosed v := by
  obtain ⟨x, rfl, h1, h2⟩ := C03.numeric_value_is_finite op l r v h
  exact ⟨h1, h2⟩

/-- $sum, $average (and every other user of `finiteOr`) only return finite numbers -/
theorem finiteOr_closed (fn : String) (x : N) (v : Val N) (h : finiteOr fn x = .ok (some v)) :
    JsonClosed v := by
  unfold finiteOr at h
  by_cases hc : (isInf x || isNaN x) = true
  · simp [hc] at h
  · have hc' : (isInf x || isNaN x) = false := Bool.eq_false_iff.mpr hc
    simp only [hc', Bool.false_eq_true, if_false, Except.ok.injEq, Option.some.injEq] at h
    subst h
    simp only [Bool.or_eq_false_iff] at hc'
    exact hc'

theorem sum_closed (v w : Val N) (h : libSum v = .ok (some w)) : JsonClosed w := by
  unfold libSum at h
  cases hn : numbersOf "sum" v with
  | error e => rw [hn] at h; cases h
  | ok ns => rw [hn] at h; exact finiteOr_closed _ _ _ h

/-- containers built from closed members are closed -/
theorem array_closed (xs : List (Val N)) (h : ∀ x ∈ xs, JsonClosed x) : JsonClosed (.arr xs) := by
  show FiniteL xs
  induction xs with
  | nil => trivial
  | cons x xs ih =>
    exact ⟨h x (by simp), ih (fun y hy => h y (List.mem_cons_of_mem _ hy))⟩

/-- literals are closed whenever the parser accepted them (number literals out of the double
    range are compile errors) -/
theorem literals_closed (s : String) (b : Bool) :
    JsonClosed (N := N) (.str s) ∧ JsonClosed (N := N) (.bool b) ∧ JsonClosed (N := N) .null ∧
    JsonClosed (N := N) (.builtin "sum") := by
  simp [JsonClosed, Finite]

/-- a closed value has a JSON text (the model's encoder is total; `json.Marshal` refuses
    exactly the non-finite numbers) -/
theorem closed_no_nonfinite (x : N) (h : JsonClosed (.num x)) : hasNonFinite (.num x) = false := by
  obtain ⟨h1, h2⟩ := h
  simp [hasNonFinite, h1, h2]

/-! ### EvalBytes -/

/-- jsonata.go `Expr.EvalBytes`: decode, evaluate, encode -/
def evalBytes (decode : String → Option (Val N)) (encode : Val N → Option String)
    (evalE : Val N → Except Err (Option (Val N))) (input : String) : Option String :=
  match decode input with
  | none => none                       -- not valid JSON: rejected
  | some d =>
    match toGoResult (evalE d) with
    | .value v => encode v
    | _ => none

/-- EvalBytes succeeds exactly when the input decodes, Eval on the decoded input succeeds
    and its value encodes; the output is the encoding of that same value -/
theorem evalBytes_spec (decode : String → Option (Val N)) (encode : Val N → Option String)
    (evalE : Val N → Except Err (Option (Val N))) (input out : String) :
    evalBytes decode encode evalE input = some out ↔
      ∃ d v, decode input = some d ∧ evalE d = .ok (some v) ∧ encode v = some out := by
  unfold evalBytes
  constructor
  · intro h
    cases hd : decode input with
    | none => simp [hd] at h
    | some d =>
      simp only [hd] at h
      cases he : evalE d with
      | error e => simp [he, toGoResult] at h
      | ok ov =>
        cases ov with
        | none => simp [he, toGoResult] at h
        | some v => exact ⟨d, v, rfl, he, by simpa [he, toGoResult] using h⟩
  · rintro ⟨d, v, hd, he, hv⟩
    simp [hd, he, toGoResult, hv]

/-- input that is not valid JSON is rejected -/
theorem evalBytes_rejects_non_json (decode : String → Option (Val N)) (encode : Val N → Option String)
    (evalE : Val N → Except Err (Option (Val N))) (input : String) (h : decode input = none) :
    evalBytes decode encode evalE input = none := by
  simp [evalBytes, h]

/-! ### closure at every depth, and what it buys -/

mutual
/-- **Closed values are exactly the values `json.Marshal` accepts** (the model's refusal test),
    at every depth of nesting -/
theorem closed_iff_marshals : ∀ v : Val N, JsonClosed v ↔ hasNonFinite v = false
  | .num x => by simp [JsonClosed, Finite, hasNonFinite]
  | .arr xs => by
      have h := closedL_iff xs
      simpa [JsonClosed, Finite, hasNonFinite] using h
  | .obj kvs => by
      have h := closedKV_iff kvs
      simpa [JsonClosed, Finite, hasNonFinite] using h
  | .null => by simp [JsonClosed, Finite, hasNonFinite]
  | .bool _ => by simp [JsonClosed, Finite, hasNonFinite]
  | .str _ => by simp [JsonClosed, Finite, hasNonFinite]
  | .builtin _ => by simp [JsonClosed, Finite, hasNonFinite]
  | .lambda .. => by simp [JsonClosed, Finite, hasNonFinite]
  | .partialFn .. => by simp [JsonClosed, Finite, hasNonFinite]
  | .transformFn .. => by simp [JsonClosed, Finite, hasNonFinite]
  | .chain .. => by simp [JsonClosed, Finite, hasNonFinite]
  | .regexFn .. => by simp [JsonClosed, Finite, hasNonFinite]
  | .matchNext .. => by simp [JsonClosed, Finite, hasNonFinite]
theorem closedL_iff : ∀ xs : List (Val N), FiniteL xs ↔ hasNonFiniteL xs = false
  | [] => by simp [FiniteL, hasNonFiniteL]
  | x :: xs => by
      have h1 := closed_iff_marshals x
      have h2 := closedL_iff xs
      simp only [JsonClosed] at h1
      simp [FiniteL, hasNonFiniteL, h1, h2]
theorem closedKV_iff : ∀ kvs : List (String × Val N), FiniteKV kvs ↔ hasNonFiniteKV kvs = false
  | [] => by simp [FiniteKV, hasNonFiniteKV]
  | (k, v) :: kvs => by
      have h1 := closed_iff_marshals v
      have h2 := closedKV_iff kvs
      simp only [JsonClosed] at h1
      simp [FiniteKV, hasNonFiniteKV, h1, h2]
end

/-- objects built from closed members are closed -/
theorem object_closed (kvs : List (String × Val N)) (h : ∀ kv ∈ kvs, JsonClosed kv.2) :
    JsonClosed (.obj kvs) := by
  show FiniteKV kvs
  induction kvs with
  | nil => trivial
  | cons kv kvs ih =>
    obtain ⟨k, v⟩ := kv
    exact ⟨h (k, v) (by simp), ih (fun y hy => h y (List.mem_cons_of_mem _ hy))⟩

/-- and conversely: every member of a closed container is closed (closure is hereditary) -/
theorem array_members_closed (xs : List (Val N)) (h : JsonClosed (.arr xs)) : ∀ x ∈ xs, JsonClosed x := by
  have h' : FiniteL xs := h
  induction xs with
  | nil => intro x hx; cases hx
  | cons y ys ih =>
    intro x hx
    rcases List.mem_cons.mp hx with rfl | hx
    · exact h'.1
    · exact ih h'.2 h'.2 x hx

/-- a closed value always has a string form: `$string` and `&` cannot fail on it -/
theorem closed_has_string (v : Val N) (h : JsonClosed v) : ∃ s, stringOf v = .ok s := by
  have hm := (closed_iff_marshals v).mp h
  unfold stringOf
  split
  · exact ⟨_, rfl⟩
  · split
    · exact ⟨_, rfl⟩
    · simp [hm]

/-- **EvalBytes succeeds exactly when Eval succeeds** — for an encoder that accepts every closed value and an
    evaluator whose values are closed (the two halves the rest of this file and the correspondence establish) -/
theorem evalBytes_agrees (decode : String → Option (Val N)) (encode : Val N → Option String)
    (evalE : Val N → Except Err (Option (Val N))) (input : String) (d : Val N)
    (hd : decode input = some d)
    (henc : ∀ v, JsonClosed v → ∃ out, encode v = some out)
    (hclosed : ∀ v, evalE d = .ok (some v) → JsonClosed v) :
    (∃ out, evalBytes decode encode evalE input = some out) ↔ (∃ v, evalE d = .ok (some v)) := by
  constructor
  · rintro ⟨out, h⟩
    obtain ⟨d', v, hd', he, _⟩ := (evalBytes_spec decode encode evalE input out).mp h
    rw [hd] at hd'; cases hd'
    exact ⟨v, he⟩
  · rintro ⟨v, he⟩
    obtain ⟨out, ho⟩ := henc v (hclosed v he)
    exact ⟨out, (evalBytes_spec decode encode evalE input out).mpr ⟨d, v, hd, he, ho⟩⟩

/-- without closure the agreement fails: an evaluator returning a value the encoder refuses makes EvalBytes
    fail where Eval succeeded (the `$sum([1e308,1e308])` defect of the pinned commit, F14) -/
example : ∃ (encode : Val Int → Option String) (evalE : Val Int → Except Err (Option (Val Int))),
    (∃ v, evalE .null = .ok (some v)) ∧ evalBytes (fun _ => some .null) encode evalE "null" = none :=
  ⟨fun _ => none, fun _ => .ok (some .null), ⟨.null, rfl⟩, rfl⟩


/-! ### regenerated facts -/

/-- EvalBytes is Unmarshal, then Eval, then Marshal (trace inlined through package-local helpers) -/
theorem fact_evalBytes_shape :
    let ev := Generated.exprEvalBytesEvents
    ev.findIdx (· == "call:Unmarshal") < ev.findIdx (· == "call:Eval") ∧
    ev.findIdx (· == "call:Eval") < ev.findIdx (· == "call:Marshal") ∧
    ev.contains "call:Marshal" = true ∧
    (ev.filter (· == "call:Unmarshal")).length = 1 ∧ (ev.filter (· == "call:Marshal")).length = 1 := by decide

/-- Eval's final conversion tests validity (ErrUndefined), interface-ability and nil pointers -/
theorem fact_eval_conversion :
    Generated.exprEvalEvents.contains "call:IsValid" = true ∧
    Generated.exprEvalEvents.contains "call:IsNil" = true ∧
    Generated.exprEvalEvents.contains "call:Interface" = true := by decide

end Jsonata.Props.C10
