/-
  Props/C05.lean — property C05: evaluation is repeatable and leaves the compiled
  expression unchanged.

  In the model an evaluation is a function of (tree, input, fuel): the tree is a value that
  no evaluation can write to, built-ins carry no per-call state, and every evaluation starts
  from a fresh store.  What ties this to the source is the regenerated *write set*: every
  statement of the evaluator packages that writes through a field or an element must be on
  the list below, where each is accounted for as local to the evaluation (or, for the two
  setters, as applied to a per-call copy).  A new write site anywhere breaks `fact_writes_accounted`.
-/
import JsonataModel.Model.Interp
import JsonataModel.Generated.Facts

namespace Jsonata.Props.C05
open Jsonata

variable {N : Type} [NumSys N]

/-- the expression and what the process shares between evaluations -/
structure World (N : Type) where
  ast : Node N

/-- one `Expr.Eval`: fresh store (top frame binds `$` to the input), outcome, and the world after -/
def evalW (fuel : Nat) (w : World N) (input : Option (Val N)) :
    Except Err (Option (Val N)) × World N :=
  (evalTop fuel w.ast input, w)

/-- a history of evaluations on one expression -/
def runHistory (fuel : Nat) (w : World N) : List (Option (Val N)) → List (Except Err (Option (Val N))) × World N
  | [] => ([], w)
  | d :: ds =>
    let (o, w1) := evalW fuel w d
    let (os, w2) := runHistory fuel w1 ds
    (o :: os, w2)

/-- **The expression is the same after any evaluation as before it.** -/
theorem ast_unchanged (fuel : Nat) (w : World N) (input : Option (Val N)) :
    (evalW fuel w input).2 = w := rfl

theorem history_world_unchanged (fuel : Nat) (w : World N) (ds : List (Option (Val N))) :
    (runHistory fuel w ds).2 = w := by
  induction ds generalizing w with
  | nil => rfl
  | cons d ds ih => simp [runHistory, evalW, ih]

/-- **The outcome for input d does not depend on what was evaluated before.** -/
theorem history_independent (fuel : Nat) (w : World N) (before : List (Option (Val N)))
    (d : Option (Val N)) :
    (runHistory fuel (runHistory fuel w before).2 [d]).1 = [evalTop fuel w.ast d] := by
  rw [history_world_unchanged]
  rfl

/-- every evaluation starts from a fresh environment: only `$` is bound, to the input -/
theorem eval_fresh_env (fuel : Nat) (node : Node N) (input : Option (Val N)) :
    evalTop fuel node input =
      (match (eval fuel node input 0).run { frames := #[{ parent := none, syms := [("$", input)] }] } with
       | .ok (v, _) => .ok v
       | .error e => .error e) := rfl

/-! ### histories, at full strength -/

/-- **Full strength over one expression**: the outcomes of any history are, position by position, what each
    input gives when evaluated alone on the untouched expression. -/
theorem history_pointwise (fuel : Nat) (w : World N) (ds : List (Option (Val N))) :
    (runHistory fuel w ds).1 = ds.map (evalTop fuel w.ast) := by
  induction ds generalizing w with
  | nil => rfl
  | cons d ds ih =>
    have h := ih w
    simp only [runHistory, evalW, List.map_cons]
    rw [h]

/-- equal inputs at any two positions of any history give equal outcomes -/
theorem history_equal_inputs (fuel : Nat) (w : World N) (ds : List (Option (Val N))) (i j : Nat)
    (hi : i < ds.length) (hj : j < ds.length) (h : ds[i] = ds[j]) :
    (runHistory fuel w ds).1[i]? = (runHistory fuel w ds).1[j]? := by
  rw [history_pointwise]
  simp [List.getElem?_map, List.getElem?_eq_getElem hi, List.getElem?_eq_getElem hj, h]

/-- a history splits: what comes after a prefix is what it would be without the prefix -/
theorem history_append (fuel : Nat) (w : World N) (xs ys : List (Option (Val N))) :
    (runHistory fuel w (xs ++ ys)).1 = (runHistory fuel w xs).1 ++ (runHistory fuel w ys).1 := by
  simp [history_pointwise]

/-! ### several expressions in one process -/

/-- a process holds several compiled expressions; an operation evaluates one of them on an input -/
def runProcess (fuel : Nat) (ws : List (World N)) :
    List (Nat × Option (Val N)) → List (Option (Except Err (Option (Val N)))) × List (World N)
  | [] => ([], ws)
  | (k, d) :: ops =>
    match ws[k]? with
    | none =>
      let (os, ws2) := runProcess fuel ws ops
      (none :: os, ws2)
    | some w =>
      let (o, w1) := evalW fuel w d
      let (os, ws2) := runProcess fuel (ws.set k w1) ops
      (some o :: os, ws2)

/-- no operation of a process changes any of its expressions -/
theorem process_worlds_unchanged (fuel : Nat) (ws : List (World N)) (ops : List (Nat × Option (Val N))) :
    (runProcess fuel ws ops).2 = ws := by
  induction ops generalizing ws with
  | nil => rfl
  | cons op ops ih =>
    obtain ⟨k, d⟩ := op
    unfold runProcess
    cases hk : ws[k]? with
    | none => simp [ih]
    | some w =>
      have hset : ws.set k w = ws := by
        rcases List.getElem?_eq_some_iff.mp hk with ⟨hlt, hw⟩
        rw [← hw]; exact List.set_getElem_self hlt
      simp [evalW, hset, ih]

/-- **Whatever any expression in the process has evaluated before**: each operation's outcome is what its
    expression gives for its input on its own, whatever was interleaved. -/
theorem process_pointwise (fuel : Nat) (ws : List (World N)) (ops : List (Nat × Option (Val N))) :
    (runProcess fuel ws ops).1 = ops.map (fun op => (ws[op.1]?).map (fun w => evalTop fuel w.ast op.2)) := by
  induction ops generalizing ws with
  | nil => rfl
  | cons op ops ih =>
    obtain ⟨k, d⟩ := op
    unfold runProcess
    cases hk : ws[k]? with
    | none => simp [ih, hk]
    | some w =>
      have hset : ws.set k w = ws := by
        rcases List.getElem?_eq_some_iff.mp hk with ⟨hlt, hw⟩
        rw [← hw]; exact List.set_getElem_self hlt
      simp [evalW, hset, ih, hk]

/-- dropping the operations on other expressions from a process leaves the outcomes of expression `k` as they were -/
theorem process_other_expressions_irrelevant (fuel : Nat) (ws : List (World N)) (ops : List (Nat × Option (Val N)))
    (k : Nat) :
    ((runProcess fuel ws ops).1.zip ops).filterMap (fun p => if p.2.1 = k then some p.1 else none) =
    (runProcess fuel ws (ops.filter (·.1 = k))).1 := by
  rw [process_pointwise, process_pointwise]
  induction ops with
  | nil => rfl
  | cons op ops ih =>
    by_cases h : op.1 = k
    · simp [h]
      simpa using ih
    · simp [h]
      simpa using ih

example : (runProcess (N := Int) 50
    [{ ast := .numop .add (.num 1) (.path [.name "a"] false) }, { ast := .path [.name "a"] false }]
    [(0, some (.obj [("a", .num 2)])), (1, some (.obj [("a", .num 5)])), (0, some (.obj [("a", .num 2)])), (2, none)]).1 =
    [some (.ok (some (.num 3))), some (.ok (some (.num 5))), some (.ok (some (.num 3))), none] := by
  rfl


/-! ### regenerated facts -/

/-- Every write through a field, element or pointer in the evaluator packages is accounted for by the *kind* of
    what it writes to (the extractor classifies the variable a store is rooted at: `local` = a value made in the
    writing function, `param:τ` = a parameter of type τ, `recv:T` = the method's receiver, `global:` = a
    package-level variable; a receiver's field and a package-level variable are given by their declared TYPES),
    with why it cannot carry state from one evaluation to the next.  Files, function names, field names and
    variable names do not occur: moving or renaming code changes nothing here, writing to something new does. -/
def allowedWriteKinds : List String := [
  -- argument vectors and result containers handed to a helper by the call that made them
  "param:[]reflect.Value[]", "param:...reflect.Value[]", "param:map[string]interface{}[]",
  "param:map[uintptr]bool[]",                            -- the ownership set of one transform call
  -- a sequence is made per path step, a frame per evaluation / block / call
  "recv:sequence.([]interface{})",
  "recv:environment.(map[string]reflect.Value)", "recv:environment.(map[string]reflect.Value)[]",
  -- name/context setters: applied to the per-call copy (fact_call_copies_builtin)
  "recv:callableName.(string)", "recv:goCallable.(reflect.Value)",
  -- registries: written by Compile / Register*, never by Eval (fact_new_env_per_eval: Eval's own trace has no
  -- store through *Expr or into a package-level variable)
  "recv:Expr.(map[string]reflect.Value)", "recv:Expr.(map[string]reflect.Value)[]",
  "global:(map[string]reflect.Value)[]"]

def harmlessWrite (what : String) : Bool :=
  "local".toList.isPrefixOf what.toList ||               -- a value made in the writing function
  "param:*jxpath.DecimalFormat.".toList.isPrefixOf what.toList ||   -- the DecimalFormat made by this $formatNumber call
  allowedWriteKinds.contains what

/-- **Every write site of the evaluator is accounted for**: none writes to the parsed tree,
    to a shared built-in, or to anything else that outlives the evaluation. -/
theorem fact_writes_accounted :
    Generated.writeSites.all (fun w => harmlessWrite w.2.2) = true := by decide

/-- a cache on the expression, a package-level table or a field of a shared callable would not be accepted -/
example : harmlessWrite "recv:Expr.(*environment)" = false ∧ harmlessWrite "global:(map[string]*regexp.Regexp)[]" = false ∧
    harmlessWrite "recv:goCallable.([4]reflect.Value)[]" = false ∧ harmlessWrite "param:*jparse.FunctionCallNode.Args" = false := by
  decide

/-- `pat` occurs in `l` as a contiguous block -/
def hasInfix (pat : List Char) : List Char → Bool
  | [] => pat.isEmpty
  | c :: cs => pat.isPrefixOf (c :: cs) || hasInfix pat cs

/-- in particular nothing stores through a syntax-tree node (a value of a `jparse` type),
    whatever the variable holding it is called and whichever function does it -/
theorem fact_no_ast_write :
    Generated.writeSites.all (fun w => !(hasInfix "jparse.".toList w.2.2.toList)) = true := by
  decide

/-- the call site copies the shared built-in before it sets name and context on it.  The traces
    are inlined through package-local helpers, and every function that calls a setter directly
    makes the copy first -/
def indexOfEvent (e : String) (l : List String) : Nat := l.findIdx (· == e)

theorem fact_call_copies_builtin :
    let ev := Generated.evalFunctionCallEvents
    ev.contains "copy:*" = true ∧ ev.contains "addr:&" = true ∧
    indexOfEvent "copy:*" ev < indexOfEvent "call:SetName" ev ∧
    indexOfEvent "copy:*" ev < indexOfEvent "call:SetContext" ev ∧
    indexOfEvent "call:SetContext" ev < indexOfEvent "call:Call" ev ∧
    Generated.setterSites ≠ [] ∧ Generated.setterSites.all (·.2) = true := by decide

/-- the chain operator calls through the same copying call path (and, by `fact_no_ast_write`,
    does not store into the parsed call) -/
theorem fact_chain_builds_call :
    let ev := Generated.evalFunctionApplicationEvents
    ev.contains "call:Call" = true ∧
    indexOfEvent "copy:*" ev < indexOfEvent "call:SetName" ev ∧
    indexOfEvent "copy:*" ev < indexOfEvent "call:SetContext" ev := by
  decide

/-- an evaluation stores nothing through the expression and nothing into a package-level variable: the traces
    of Eval and EvalBytes, inlined through the package-local helpers down to the evaluator's dispatcher, contain
    stores into the frames of the environment they build (so they do build one) and no store rooted at `*Expr`
    or at a global — stated without the names of the helpers -/
theorem fact_new_env_per_eval :
    (Generated.exprEvalEvents ++ Generated.exprEvalBytesEvents).all
      (fun e => e != "write:recv:Expr" && e != "write:global") = true ∧
    Generated.exprEvalEvents.contains "write:recv:environment" = true := by decide

/-! ### non-vacuity -/

example : (runHistory (N := Int) 50 { ast := .numop .add (.num 1) (.path [.name "a"] false) }
    [some (.obj [("a", .num 2)]), some (.obj []), some (.obj [("a", .num 2)])]).1 =
    [.ok (some (.num 3)), .ok none, .ok (some (.num 3))] := by
  rfl

end Jsonata.Props.C05
