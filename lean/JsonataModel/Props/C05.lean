/-
  Props/C05.lean — property C05: evaluation is repeatable and leaves the compiled
  expression unchanged.

  In the model an evaluation is a function of (tree, input, fuel): the tree is a value that
  no evaluation can write to, built-ins carry no per-call state, and every evaluation starts
  from a fresh store.  What ties this to the source is the regenerated *write set*: every
  statement of the evaluator packages that writes through a field or an element must be on
  the list below, where each is accounted for as local to the evaluation (or, for the two
  setters, as applied to a per-call copy).  A new write site anywhere breaks `fact_writes_accounted`.
-/
import JsonataModel.Model.Interp
import JsonataModel.Generated.Facts

namespace Jsonata.Props.C05
open Jsonata

variable {N : Type} [NumSys N]

/-- the expression and what the process shares between evaluations -/
structure World (N : Type) where
  ast : Node N

/-- one `Expr.Eval`: fresh store (top frame binds `$` to the input), outcome, and the world after -/
def evalW (fuel : Nat) (w : World N) (input : Option (Val N)) :
    Except Err (Option (Val N)) × World N :=
  (evalTop fuel w.ast input, w)

/-- a history of evaluations on one expression -/
def runHistory (fuel : Nat) (w : World N) : List (Option (Val N)) → List (Except Err (Option (Val N))) × World N
  | [] => ([], w)
  | d :: ds =>
    let (o, w1) := evalW fuel w d
    let (os, w2) := runHistory fuel w1 ds
    (o :: os, w2)

/-- **The expression is the same after any evaluation as before it.** -/
theorem ast_unchanged (fuel : Nat) (w : World N) (input : Option (Val N)) :
    (evalW fuel w input).2 = w := rfl

theorem history_world_unchanged (fuel : Nat) (w : World N) (ds : List (Option (Val N))) :
    (runHistory fuel w ds).2 = w := by
  induction ds generalizing w with
  | nil => rfl
  | cons d ds ih => simp [runHistory, evalW, ih]

/-- **The outcome for input d does not depend on what was evaluated before.** -/
theorem history_independent (fuel : Nat) (w : World N) (before : List (Option (Val N)))
    (d : Option (Val N)) :
    (runHistory fuel (runHistory fuel w before).2 [d]).1 = [evalTop fuel w.ast d] := by
  rw [history_world_unchanged]
  rfl

/-- every evaluation starts from a fresh environment: only `$` is bound, to the input -/
theorem eval_fresh_env (fuel : Nat) (node : Node N) (input : Option (Val N)) :
    evalTop fuel node input =
      (match (eval fuel node input 0).run { frames := #[{ parent := none, syms := [("$", input)] }] } with
       | .ok (v, _) => .ok v
       | .error e => .error e) := rfl

/-! ### regenerated facts -/

/-- Every write through a field, element or pointer in the evaluator packages, with why it
    cannot carry state from one evaluation to the next. -/
def allowedWrites : List (String × String × String) := [
  -- sequences, result containers, argument vectors: allocated in the same call
  ("eval.go", "evalNameArray", "results.values"),
  ("eval.go", "evalPath", "seq.keepSingletons"),          -- the sequence returned by evalPathStep (fresh)
  ("eval.go", "evalObject", "results[key]"),
  ("eval.go", "groupItemsByKey", "results[key]"),
  ("eval.go", "groupItemsByKey", "idx.items"),
  ("eval.go", "buildSortInfo", "values[j]"),
  ("eval.go", "buildSortInfo", "isNumberTerm[j]"),
  ("eval.go", "buildSortInfo", "isStringTerm[j]"),
  ("eval.go", "buildSortInfo", "info[i]"),
  ("eval.go", "evalFunctionCall", "argv[i]"),
  ("eval.go", "sequence.Append", "s.values"),
  -- name/context setters: applied to the per-call copy made in evalFunctionCall
  ("callable.go", "callableName.SetName", "n.name"),
  ("callable.go", "goCallable.SetContext", "c.context"),
  -- construction of callables at registration time
  ("callable.go", "newGoCallableParam", "param.isOpt"),
  ("callable.go", "newGoCallableParam", "param.optType"),
  ("callable.go", "newGoCallableParam", "ps[i]"),
  ("callable.go", "newGoCallableParam", "param.isVar"),
  ("callable.go", "newGoCallableParam", "param.varTypes"),
  ("callable.go", "makeGoCallableParams", "params[i]"),
  -- argument vectors built per call
  ("callable.go", "goCallable.validateArgCount", "newargv[0]"),
  ("callable.go", "goCallable.validateArgTypes", "argv[i]"),
  ("callable.go", "lambdaCallable.validateArgTypes", "argv[i]"),
  ("callable.go", "partialCallable.Call", "args[i]"),
  ("callable.go", "regexCallable.findMatches", "matches[i]"),
  ("callable.go", "regexCallable.findMatches", "matches[i][j]"),
  ("callable.go", "collectMaps", "seen[v.Pointer()]"),   -- the ownership set of one transform call
  -- environment frames: every evaluation, block and call makes its own
  ("env.go", "environment.bind", "s.symbols"),
  ("env.go", "environment.bind", "s.symbols[name]"),
  -- registries: written by Compile / Register*, never by Eval
  ("jsonata.go", "Expr.updateRegistry", "e.registry"),
  ("jsonata.go", "Expr.updateRegistry", "e.registry[name]"),
  ("jsonata.go", "processExts", "m[name]"),
  ("jsonata.go", "processVars", "m[name]"),
  ("jsonata.go", "updateGlobalRegistry", "globalRegistry[name]"),
  -- library functions: fresh result containers
  ("jlib/array.go", "Distinct", "visited[key]"),
  ("jlib/array.go", "merge", "results[i]"),
  ("jlib/array.go", "Shuffle", "results[i]"),
  ("jlib/array.go", "Shuffle", "results[j]"),
  ("jlib/array.go", "Zip", "vs[i]"),                     -- the variadic argument slice of this call
  ("jlib/array.go", "Zip", "inner[j]"),
  ("jlib/array.go", "Zip", "result[i]"),
  ("jlib/object.go", "eachMap", "argv[i]"),
  ("jlib/object.go", "eachStruct", "argv[j]"),
  ("jlib/object.go", "siftMap", "argv[i]"),
  ("jlib/object.go", "siftMap", "results[key]"),
  ("jlib/object.go", "siftStruct", "argv[j]"),
  ("jlib/object.go", "siftStruct", "results[key]"),
  ("jlib/object.go", "keysMap", "results[i]"),
  ("jlib/object.go", "keysArray", "seen[s]"),
  ("jlib/object.go", "mergeMap", "dest[key]"),
  ("jlib/object.go", "mergeMapFast", "dest[k]"),
  ("jlib/object.go", "mergeStruct", "dest[field.Name]"),
  ("jlib/string.go", "Match", "result[i]"),
  ("jlib/string.go", "updateDecimalFormat", "format.Infinity"),
  ("jlib/string.go", "updateDecimalFormat", "format.NaN"),
  ("jlib/string.go", "updateDecimalFormat", "format.Percent"),
  ("jlib/string.go", "updateDecimalFormat", "format.PerMille"),
  ("jlib/string.go", "updateDecimalFormat", "format.DecimalSeparator"),
  ("jlib/string.go", "updateDecimalFormat", "format.GroupSeparator"),
  ("jlib/string.go", "updateDecimalFormat", "format.ExponentSeparator"),
  ("jlib/string.go", "updateDecimalFormat", "format.MinusSign"),
  ("jlib/string.go", "updateDecimalFormat", "format.ZeroDigit"),
  ("jlib/string.go", "updateDecimalFormat", "format.OptionalDigit"),
  ("jlib/string.go", "updateDecimalFormat", "format.PatternSeparator"),   -- a DecimalFormat made by this call
  ("jlib/string.go", "EncodeURL", "baseURL.RawQuery"),
  ("jlib/string.go", "callMatchFunc", "groups[i]"),
  ("jlib/string.go", "runesToNumbers", "nums[i]")]

/-- **Every write site of the evaluator is accounted for**: none writes to the parsed tree,
    to a shared built-in, or to anything else that outlives the evaluation. -/
theorem fact_writes_accounted :
    Generated.writeSites.all (fun w => allowedWrites.contains w) = true := by decide

/-- in particular nothing assigns to a field of a syntax-tree node -/
theorem fact_no_ast_write :
    Generated.writeSites.all (fun w =>
      !(w.2.2 == "f.Args" || w.2.2 == "node.Args" || w.2.2 == "n.Args" || w.2.2 == "node.Steps")) = true := by
  decide

/-- the call site copies the shared built-in before it sets name and context on it -/
def indexOfEvent (e : String) (l : List String) : Nat := l.findIdx (· == e)

theorem fact_call_copies_builtin :
    let ev := Generated.evalFunctionCallEvents
    ev.contains "copy:*gc" = true ∧ ev.contains "addr:&c" = true ∧
    indexOfEvent "copy:*gc" ev < indexOfEvent "call:SetName" ev ∧
    indexOfEvent "addr:&c" ev < indexOfEvent "call:SetContext" ev ∧
    indexOfEvent "call:SetContext" ev < indexOfEvent "call:Call" ev := by decide

/-- the chain operator evaluates a call it builds (no write to the parsed call) -/
theorem fact_chain_builds_call :
    Generated.evalFunctionApplicationEvents.contains "call:evalFunctionCall" = true ∧
    Generated.evalFunctionApplicationEvents.take 4 = ["call:make", "call:len", "call:append", "call:append"] := by
  decide

/-- each evaluation assembles a new environment on top of the base environment -/
theorem fact_new_env_per_eval :
    Generated.newEnvCalls.head? = some "newEnvironment(baseEnv, len(tc)+len(e.registry)+1)" ∧
    Generated.exprEvalEvents.contains "call:newEnv" = true := by decide

/-! ### non-vacuity -/

example : (runHistory (N := Int) 50 { ast := .numop .add (.num 1) (.path [.name "a"] false) }
    [some (.obj [("a", .num 2)]), some (.obj []), some (.obj [("a", .num 2)])]).1 =
    [.ok (some (.num 3)), .ok none, .ok (some (.num 3))] := by
  rfl

end Jsonata.Props.C05
