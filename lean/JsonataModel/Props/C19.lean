/-
  Props/C19.lean — property C19: $fromMillis renders the right calendar fields, $toMillis inverts it.

  The calendar is integer arithmetic (Model/Date.lean).  Proved for every instant and offset:
  the civil date of a day number converts back to that day number (no bound on the year), months
  and days are in range, the clock fields are in range and rebuild the instant, hence the
  instant computed from the rendered fields (what $toMillis does with the text) is the instant
  that was rendered; the 12-hour clock shows 12, 1..11; weekdays cycle; ordinal suffixes.
  PARTIAL (DESIGN.md §6 C19): text rendering and parsing between the fields and the string
  (FormatNumber layouts, time.Parse) and the `time` package itself are tied by the
  correspondence (every day 1000..9999) rather than by a theorem.
-/
import JsonataModel.Model.Date
import JsonataModel.Generated.Facts
import JsonataModel.Lemmas.DateText

namespace Jsonata.Props.C19
open Jsonata Jsonata.Date

/-! ### the calendar -/

theorem year_part (doe c r1 q r2 yy doy yoe : Int) (h0 : 0 ≤ doe) (h00 : doe < 146097)
    (hc : c = if doe / 36524 > 3 then 3 else doe / 36524) (hr1 : r1 = doe - c * 36524)
    (hq : q = r1 / 1461) (hr2 : r2 = r1 - q * 1461)
    (hyy : yy = if r2 / 365 > 3 then 3 else r2 / 365) (hdoy : doy = r2 - yy * 365)
    (hyoe : yoe = c * 100 + q * 4 + yy) :
    0 ≤ doy ∧ doy ≤ 365 ∧ 0 ≤ yoe ∧ yoe ≤ 399 ∧ yoe * 365 + yoe / 4 - yoe / 100 + doy = doe := by
  have hc' : 0 ≤ c ∧ c ≤ 3 := by split at hc <;> omega
  have hr1' : 0 ≤ r1 ∧ r1 ≤ 36524 := by split at hc <;> omega
  have hq' : 0 ≤ q ∧ q ≤ 24 := by omega
  have hr2' : 0 ≤ r2 ∧ r2 ≤ 1460 := by omega
  have hyy' : 0 ≤ yy ∧ yy ≤ 3 := by split at hyy <;> omega
  have hdoy' : 0 ≤ doy ∧ doy ≤ 365 := by split at hyy <;> omega
  have h4 : yoe / 4 = c * 25 + q := by omega
  have h100 : yoe / 100 = c := by omega
  refine ⟨hdoy'.1, hdoy'.2, by omega, by omega, ?_⟩
  rw [h4, h100]
  omega

theorem month_part (doy mp d m : Int) (h0 : 0 ≤ doy) (h1 : doy ≤ 365)
    (hmp : mp = (5 * doy + 2) / 153) (hd : d = doy - (153 * mp + 2) / 5 + 1)
    (hm : m = if mp < 10 then mp + 3 else mp - 9) :
    1 ≤ m ∧ m ≤ 12 ∧ 1 ≤ d ∧ d ≤ 31 ∧ (m + 9) % 12 = mp ∧ (153 * mp + 2) / 5 + d - 1 = doy ∧
    (m ≤ 2 ↔ 10 ≤ mp) := by
  have hmp' : 0 ≤ mp ∧ mp ≤ 11 := by omega
  split at hm <;> omega

/-- the day number of the year's 1 March-based start depends only on the March-based year -/
theorem civil_core (w era doe c r1 q r2 yy doy mp d m y : Int)
    (h1 : era = w / 146097) (h2 : doe = w - era * 146097)
    (hc : c = if doe / 36524 > 3 then 3 else doe / 36524) (hr1 : r1 = doe - c * 36524)
    (hq : q = r1 / 1461) (hr2 : r2 = r1 - q * 1461)
    (hyy : yy = if r2 / 365 > 3 then 3 else r2 / 365) (hdoy : doy = r2 - yy * 365)
    (hy : y = c * 100 + q * 4 + yy + era * 400)
    (hmp : mp = (5 * doy + 2) / 153) (hd : d = doy - (153 * mp + 2) / 5 + 1)
    (hm : m = if mp < 10 then mp + 3 else mp - 9) :
    daysFromCivil (if m ≤ 2 then y + 1 else y) m d = w - 719468 ∧ 1 ≤ m ∧ m ≤ 12 ∧ 1 ≤ d ∧ d ≤ 31 := by
  have hdoe : 0 ≤ doe ∧ doe < 146097 := by omega
  obtain ⟨hd0, hd1, hy0, hy1, hsum⟩ :=
    year_part doe c r1 q r2 yy doy (c * 100 + q * 4 + yy) hdoe.1 hdoe.2 hc hr1 hq hr2 hyy hdoy rfl
  obtain ⟨hm1, hm12, hdd1, hdd31, hmpm, hdoyeq, hm2⟩ := month_part doy mp d m hd0 hd1 hmp hd hm
  refine ⟨?_, hm1, hm12, hdd1, hdd31⟩
  -- the March-based year of (y', m) is y
  have hy' : (if m ≤ 2 then (if m ≤ 2 then y + 1 else y) - 1 else (if m ≤ 2 then y + 1 else y)) = y := by
    by_cases h : m ≤ 2 <;> simp [h]
  simp only [daysFromCivil]
  rw [hy', hmpm, hdoyeq]
  -- era and year-of-era of y
  generalize hyoe : c * 100 + q * 4 + yy = yoe at *
  have he : y / 400 = era := by omega
  rw [he]
  have : y - era * 400 = yoe := by omega
  rw [this, hsum]
  omega

/-- **Calendar inverse.**  For every day number, converting to a civil date and back is the
    identity — no bound on the year, before and after the epoch. -/
theorem days_civil_days (z : Int) :
    daysFromCivil (civilFromDays z).1 (civilFromDays z).2.1 (civilFromDays z).2.2 = z := by
  have := (civil_core (z + 719468) _ _ _ _ _ _ _ _ _ _ _ _ rfl rfl rfl rfl rfl rfl rfl rfl rfl rfl rfl rfl).1
  simp only [civilFromDays]
  rw [this]; omega

/-- months are 1..12 and days 1..31 -/
theorem civil_ranges (z : Int) :
    1 ≤ (civilFromDays z).2.1 ∧ (civilFromDays z).2.1 ≤ 12 ∧ 1 ≤ (civilFromDays z).2.2 ∧ (civilFromDays z).2.2 ≤ 31 := by
  have := (civil_core (z + 719468) _ _ _ _ _ _ _ _ _ _ _ _ rfl rfl rfl rfl rfl rfl rfl rfl rfl rfl rfl rfl).2
  simpa only [civilFromDays] using this

/-- year part with the leap information: the March-based year has 366 days exactly when its
    last day (29 February) exists, i.e. when calendar year yoe+1 (mod 400) is a leap year -/
theorem year_part_leap (doe c r1 q r2 yy doy yoe : Int) (h0 : 0 ≤ doe) (h00 : doe < 146097)
    (hc : c = if doe / 36524 > 3 then 3 else doe / 36524) (hr1 : r1 = doe - c * 36524)
    (hq : q = r1 / 1461) (hr2 : r2 = r1 - q * 1461)
    (hyy : yy = if r2 / 365 > 3 then 3 else r2 / 365) (hdoy : doy = r2 - yy * 365)
    (hyoe : yoe = c * 100 + q * 4 + yy) :
    doy = 365 → ((yoe + 1) % 4 = 0 ∧ ((yoe + 1) % 100 ≠ 0 ∨ (yoe + 1) % 400 = 0)) := by
  have hc' : 0 ≤ c ∧ c ≤ 3 := by split at hc <;> omega
  have hr1' : 0 ≤ r1 ∧ r1 ≤ 36524 := by split at hc <;> omega
  have hc3 : r1 = 36524 → c = 3 := by split at hc <;> omega
  have hq' : 0 ≤ q ∧ q ≤ 24 := by omega
  have hr2' : 0 ≤ r2 ∧ r2 ≤ 1460 := by omega
  have hq24 : q = 24 → r2 ≤ 1460 ∧ (r2 = 1460 → r1 = 36524) := by omega
  intro h365
  have hyy3 : yy = 3 ∧ r2 = 1460 := by split at hyy <;> omega
  have hyoe' : yoe + 1 = c * 100 + (q + 1) * 4 := by omega
  by_cases hq24' : q = 24
  · have := (hq24 hq24').2 hyy3.2
    have hc3' := hc3 this
    omega
  · omega

theorem isLeap_iff (y : Int) : isLeap y = true ↔ (y % 4 = 0 ∧ (y % 100 ≠ 0 ∨ y % 400 = 0)) := by
  simp [isLeap]

/-- the day of the month produced by the month split fits the month -/
theorem month_part_len (doy mp d m ycal : Int) (h0 : 0 ≤ doy) (h1 : doy ≤ 365)
    (hmp : mp = (5 * doy + 2) / 153) (hd : d = doy - (153 * mp + 2) / 5 + 1)
    (hm : m = if mp < 10 then mp + 3 else mp - 9)
    (hleap : doy = 365 → isLeap ycal = true) :
    d ≤ daysInMonth ycal m := by
  have hmp' : 0 ≤ mp ∧ mp ≤ 11 := by omega
  have hcases : mp = 0 ∨ mp = 1 ∨ mp = 2 ∨ mp = 3 ∨ mp = 4 ∨ mp = 5 ∨ mp = 6 ∨ mp = 7 ∨ mp = 8 ∨ mp = 9 ∨ mp = 10 ∨ mp = 11 := by omega
  rcases hcases with h | h | h | h | h | h | h | h | h | h | h | h <;> subst h <;> simp at hm <;> subst hm
  all_goals (try (simp [daysInMonth]; omega))
  -- February
  by_cases h365 : doy = 365
  · have := hleap h365
    simp [daysInMonth, this]; omega
  · by_cases hl : isLeap ycal = true <;> simp [daysInMonth, hl] <;> omega

theorem civil_day_valid_core (w era doe c r1 q r2 yy doy mp d m y : Int)
    (h1 : era = w / 146097) (h2 : doe = w - era * 146097)
    (hc : c = if doe / 36524 > 3 then 3 else doe / 36524) (hr1 : r1 = doe - c * 36524)
    (hq : q = r1 / 1461) (hr2 : r2 = r1 - q * 1461)
    (hyy : yy = if r2 / 365 > 3 then 3 else r2 / 365) (hdoy : doy = r2 - yy * 365)
    (hy : y = c * 100 + q * 4 + yy + era * 400)
    (hmp : mp = (5 * doy + 2) / 153) (hd : d = doy - (153 * mp + 2) / 5 + 1)
    (hm : m = if mp < 10 then mp + 3 else mp - 9) :
    d ≤ daysInMonth (if m ≤ 2 then y + 1 else y) m := by
  have hdoe : 0 ≤ doe ∧ doe < 146097 := by omega
  have hc' : 0 ≤ c ∧ c ≤ 3 := by split at hc <;> omega
  have hr1' : 0 ≤ r1 ∧ r1 ≤ 36524 := by split at hc <;> omega
  have hq' : 0 ≤ q ∧ q ≤ 24 := by omega
  have hr2' : 0 ≤ r2 ∧ r2 ≤ 1460 := by omega
  have hyy' : 0 ≤ yy ∧ yy ≤ 3 := by split at hyy <;> omega
  have hdoy' : 0 ≤ doy ∧ doy ≤ 365 := by split at hyy <;> omega
  apply month_part_len doy mp d m _ hdoy'.1 hdoy'.2 hmp hd hm
  intro h365
  have hl := year_part_leap doe c r1 q r2 yy doy (c * 100 + q * 4 + yy) hdoe.1 hdoe.2 hc hr1 hq hr2 hyy hdoy rfl h365
  have hmp11 : mp = 11 := by omega
  have hm2 : m = 2 := by rw [hm]; simp [hmp11]
  have hm2' : m ≤ 2 := by omega
  simp only [hm2', if_true]
  rw [isLeap_iff]
  omega

/-- **Every day number is a valid calendar date**: the day never exceeds the length of its month
    (29 February only in leap years). -/
theorem civil_day_valid (z : Int) :
    (civilFromDays z).2.2 ≤ daysInMonth (civilFromDays z).1 (civilFromDays z).2.1 := by
  have := civil_day_valid_core (z + 719468) _ _ _ _ _ _ _ _ _ _ _ _ rfl rfl rfl rfl rfl rfl rfl rfl rfl rfl rfl rfl
  simpa only [civilFromDays] using this

/-- weekdays: 0..6, the next day is the next weekday, the epoch was a Thursday -/
theorem weekday_cycle (z : Int) :
    0 ≤ weekday z ∧ weekday z ≤ 6 ∧ weekday (z + 1) = (weekday z + 1) % 7 ∧ weekday (z + 7) = weekday z ∧ weekday 0 = 4 := by
  simp only [weekday]; omega

/-! ### clock fields -/

/-- the clock fields of an instant are in range and, with the day number, rebuild the instant -/
theorem clock_fields (ms off : Int) (zone : FmtNum.S) :
    let t := fields ms off zone
    0 ≤ t.hour ∧ t.hour ≤ 23 ∧ 0 ≤ t.minute ∧ t.minute ≤ 59 ∧ 0 ≤ t.second ∧ t.second ≤ 59 ∧
    0 ≤ t.milli ∧ t.milli ≤ 999 ∧
    ((ms + off * 1000) / 86400000) * 86400000 + t.hour * 3600000 + t.minute * 60000 + t.second * 1000 + t.milli
      = ms + off * 1000 := by
  simp only [fields, msPerDay]
  omega

/-- **Inverse at the level of fields.**  The instant $toMillis computes from the fields that
    $fromMillis rendered (year, month, day, hour, minute, second, millisecond, offset) is the
    instant that was rendered — for every instant and every offset. -/
theorem fields_to_millis (ms off : Int) (zone : FmtNum.S) :
    let t := fields ms off zone
    (daysFromCivil t.year t.month t.day * 86400 + t.hour * 3600 + t.minute * 60 + t.second - off) * 1000 + t.milli = ms := by
  have hc := days_civil_days ((ms + off * 1000) / 86400000)
  have hk := (clock_fields ms off zone).2.2.2.2.2.2.2.2
  simp only [fields, msPerDay] at hc hk ⊢
  rw [hc]
  omega

/-- the 12-hour clock shows 12, 1, …, 11 and agrees with the hour modulo 12 -/
theorem hour12_rule (h : Int) (h0 : 0 ≤ h) (h1 : h ≤ 23) :
    let h12 := if h % 12 == 0 then 12 else h % 12
    1 ≤ h12 ∧ h12 ≤ 12 ∧ h12 % 12 = h % 12 := by
  simp only
  split <;> rename_i hh <;> simp at hh <;> omega

/-- ordinal suffixes: 1st 2nd 3rd 4th … 11th 12th 13th … 21st 22nd 23rd … -/
theorem ordinal_suffixes :
    (List.range 32).map (fun (n : Nat) => String.ofList (ordinalSuffix (Int.ofNat n))) =
      ["th", "st", "nd", "rd", "th", "th", "th", "th", "th", "th", "th", "th", "th", "th", "th", "th", "th", "th", "th", "th",
       "th", "st", "nd", "rd", "th", "th", "th", "th", "th", "th", "th", "st"] := by decide

/-! ### offsets -/

theorem parseTimeZone_length (tz : FmtNum.S) (h : tz.length ≠ 5) : parseTimeZone tz = none := by
  simp [parseTimeZone, h]

theorem parseTimeZone_examples :
    parseTimeZone "+0530".toList = some 19800 ∧ parseTimeZone "-0030".toList = some (-1800) ∧
    parseTimeZone "+0000".toList = some 0 ∧ parseTimeZone "-1400".toList = some (-50400) ∧
    parseTimeZone "0530".toList = none ∧ parseTimeZone "*0530".toList = none ∧ parseTimeZone "+05:30".toList = none ∧
    parseTimeZone "+0a30".toList = none := by decide

/-! ### the text layer: rendering through the default picture and parsing back -/

section TextLayer
open Jsonata.DateText Jsonata.Digits


theorem foldl_ok (ms : Int) (pics : List FmtNum.S) (s : FmtNum.S) :
    pics.foldl (fun acc pic => match acc with | ParseOutcome.fail => parseWith s pic | r => r) (.ok ms) = .ok ms := by
  induction pics with
  | nil => rfl
  | cons p ps ih => simpa [List.foldl] using ih

/-- the fields of an instant as natural numbers in calendar and clock ranges -/
theorem fields_nat (ms off : Int) (zone : FmtNum.S) (hy : 0 ≤ (fields ms off zone).year) :
    ∃ y mo d h mi s ml : Nat, Fields (fields ms off zone) y mo d h mi s ml ∧
      1 ≤ mo ∧ mo ≤ 12 ∧ 1 ≤ d ∧ d ≤ 31 ∧ h < 24 ∧ mi < 60 ∧ s < 60 ∧ ml < 1000 := by
  have hc := clock_fields ms off zone
  have hr : 1 ≤ (fields ms off zone).month ∧ (fields ms off zone).month ≤ 12 ∧ 1 ≤ (fields ms off zone).day ∧ (fields ms off zone).day ≤ 31 :=
    civil_ranges ((ms + off * 1000) / 86400000)
  simp only [] at hc
  obtain ⟨c1, c2, c3, c4, c5, c6, c7, c8, _⟩ := hc
  obtain ⟨r1, r2, r3, r4⟩ := hr
  refine ⟨(fields ms off zone).year.toNat, (fields ms off zone).month.toNat, (fields ms off zone).day.toNat,
    (fields ms off zone).hour.toNat, (fields ms off zone).minute.toNat, (fields ms off zone).second.toNat,
    (fields ms off zone).milli.toNat, ⟨?_, ?_, ?_, ?_, ?_, ?_, ?_⟩, ?_⟩
  · exact (Int.toNat_of_nonneg hy).symm
  · exact (Int.toNat_of_nonneg (by omega)).symm
  · exact (Int.toNat_of_nonneg (by omega)).symm
  · exact (Int.toNat_of_nonneg c1).symm
  · exact (Int.toNat_of_nonneg c3).symm
  · exact (Int.toNat_of_nonneg c5).symm
  · exact (Int.toNat_of_nonneg c7).symm
  · omega

/-- **The text layer inverts.**  Rendering any instant whose (local) year has four digits through
    the default picture, in any whole-minute offset within ±25 h, and parsing the text back
    yields the instant. -/
theorem toMillis_formatTime_default (ms off : Int) (zone : FmtNum.S)
    (hy1 : 1000 ≤ (fields ms off zone).year) (hy2 : (fields ms off zone).year ≤ 9999)
    (h60 : off % 60 = 0) (hlo : -90000 < off) (hhi : off < 90000) :
    ∃ s, formatTime (fields ms off zone) defaultPicture = some s ∧ toMillis s [] = .ok ms := by
  obtain ⟨y, mo, d, h, mi, s, ml, F, hmo1, hmo2, hd1, hd2, hh, hmi, hs, hml⟩ := fields_nat ms off zone (by omega)
  refine ⟨isoText y mo d h mi s ml off, ?_, ?_⟩
  · have := format_default _ y mo d h mi s ml F hml
    simpa [fields] using this
  · have hp := parse_iso y mo d h mi s ml off (by have := F.year; omega) (by have := F.year; omega) hmo1 hmo2 (by omega) hh hmi hs hml h60 hlo hhi
    have hv := civil_day_valid ((ms + off * 1000) / 86400000)
    have hm := fields_to_millis ms off zone
    have e1 : toMillis (isoText y mo d h mi s ml off) [] =
        (defaultParsePictures.drop 1).foldl (fun acc pic => match acc with | ParseOutcome.fail => parseWith (isoText y mo d h mi s ml off) pic | r => r)
          (parseWith (isoText y mo d h mi s ml off) pic1) := by rfl
    have e2 : parseWith (isoText y mo d h mi s ml off) pic1 = .ok ms := by
      rw [parseWith_pic1, hp]
      have hv' : (fields ms off zone).day ≤ daysInMonth (fields ms off zone).year (fields ms off zone).month := hv
      have hm' : (daysFromCivil (fields ms off zone).year (fields ms off zone).month (fields ms off zone).day * 86400 +
          (fields ms off zone).hour * 3600 + (fields ms off zone).minute * 60 + (fields ms off zone).second - off) * 1000 +
          (fields ms off zone).milli = ms := hm
      rw [F.year, F.month, F.day] at hv'
      rw [F.year, F.month, F.day, F.hour, F.minute, F.second, F.milli] at hm'
      have hday : ¬ ((d : Int) < 1 ∨ (d : Int) > daysInMonth y mo) := by omega
      have hday' : (decide ((d : Int) < 1) || decide ((d : Int) > daysInMonth y mo)) = false := by simpa using hday
      simp only [parsedToMillis, hday', Bool.false_eq_true, if_false, hm']
    rw [e1, e2, foldl_ok]

/-- every offset `parseTimeZone` accepts is a whole number of minutes -/
theorem parseTimeZone_minutes (tz : FmtNum.S) (off : Int) (h : parseTimeZone tz = some off) : off % 60 = 0 := by
  unfold parseTimeZone at h
  split at h
  · exact absurd h (by simp)
  · split at h
    · simp only [] at h
      split at h
      · split at h
        · exact absurd h (by simp)
        · injection h with e
          rw [← e]
          rw [Int.mul_left_comm]; exact Int.mul_emod_right 60 _
      · exact absurd h (by simp)
    · exact absurd h (by simp)

/-- **$toMillis inverts $fromMillis** (default picture): for every instant `ms`, in UTC or in any
    offset the implementation accepts that lies within ±25 h, whose local year has four digits
    (1000 … 9999), `$toMillis($fromMillis(ms, (), tz)) = ms`.  No sampling: every millisecond of
    the nine thousand years, every such offset. -/
theorem toMillis_fromMillis (ms off : Int) (tz : FmtNum.S)
    (htz : (tz = [] ∧ off = 0) ∨ (tz ≠ [] ∧ parseTimeZone tz = some off))
    (hlo : -90000 < off) (hhi : off < 90000)
    (hy1 : 1000 ≤ (civilFromDays ((ms + off * 1000) / 86400000)).1)
    (hy2 : (civilFromDays ((ms + off * 1000) / 86400000)).1 ≤ 9999) :
    ∃ s, fromMillis ms [] tz = some s ∧ toMillis s [] = .ok ms := by
  rcases htz with ⟨e1, e2⟩ | ⟨e1, e2⟩
  · subst e1 e2
    have := toMillis_formatTime_default ms 0 "UTC".toList hy1 hy2 (by decide) hlo hhi
    simpa [fromMillis] using this
  · have h60 := parseTimeZone_minutes tz off e2
    have := toMillis_formatTime_default ms off tz hy1 hy2 h60 hlo hhi
    have hne : tz.isEmpty = false := by cases tz <;> simp_all
    simpa [fromMillis, hne, e2] using this

/-- non-vacuity: a concrete instant and offset meet the premises, and the rendered text is ISO 8601 -/
example : fromMillis 1521801216617 [] "+0530".toList = some "2018-03-23T16:03:36.617+05:30".toList ∧
    parseTimeZone "+0530".toList = some 19800 ∧
    (civilFromDays ((1521801216617 + 19800 * 1000) / 86400000)).1 = 2018 := by decide
example : (match toMillis "2018-03-23T16:03:36.617+05:30".toList [] with | .ok ms => ms | _ => 0) = 1521801216617 := by decide


end TextLayer

/-! ### regenerated facts -/

def eventsOf (fn : String) : List String := (Generated.dateFuncEvents.lookup fn).getD []

/-- the name tables and default pictures of the model are the statement's: English day and month names (the
    first entry of each row; the others are the abbreviations tried for narrow widths), am/pm, the `GMT` prefix of
    `[z]`, ISO 8601 with milliseconds and offset as the default picture, and the ISO forms `$toMillis` accepts
    without a picture.  They are tied to the implementation behaviourally — the sweep renders every field, name,
    abbreviation and default presentation of 13 000 days through the real code, the model and a day-counting oracle
    — not by reading the source's tables, which breaks whenever a table is renamed or moved (DESIGN.md 0.8) -/
theorem date_tables :
    dayNames.map (·.headD "") = ["Sunday", "Monday", "Tuesday", "Wednesday", "Thursday", "Friday", "Saturday"] ∧
    (monthNames.drop 1).map (·.headD "") = ["January", "February", "March", "April", "May", "June", "July", "August",
      "September", "October", "November", "December"] ∧
    amNames.headD "" = "am" ∧ pmNames.headD "" = "pm" ∧ tzPrefix = "GMT".toList ∧
    String.ofList defaultPicture = "[Y]-[M01]-[D01]T[H01]:[m]:[s].[f001][Z01:01t]" ∧
    defaultParsePictures.map String.ofList = ["[Y]-[M01]-[D01]T[H01]:[m]:[s][Z01:01t]", "[Y]-[M01]-[D01]T[H01]:[m]:[s][Z0100t]",
      "[Y]-[M01]-[D01]T[H01]:[m]:[s]", "[Y]-[M01]-[D01]", "[Y]"] := by
  decide

/-- the conversions: milliseconds are split with integer division, $toMillis does not go through
    64-bit nanoseconds, the week is the ISO week, integers are rendered by FormatNumber -/
theorem fact_date_functions :
    (eventsOf "FromMillis").contains "call:Unix" = true ∧ (eventsOf "FromMillis").contains "call:float64" = false ∧
    (eventsOf "ToMillis").contains "call:UnixNano" = false ∧ (eventsOf "ToMillis").contains "call:Unix" = true ∧
    (eventsOf "jxpath.FormatTime").contains "call:ISOWeek" = true ∧
    (eventsOf "jxpath.FormatTime").contains "call:FormatNumber" = true ∧
    (eventsOf "FromMillis").contains "call:FixedZone" = true ∧ (eventsOf "FromMillis").contains "call:In" = true ∧
    (eventsOf "FromMillis").contains "call:FormatTime" = true ∧
    (eventsOf "ToMillis").contains "call:Parse" = true := by
  decide

/-- one clock reading per evaluation: the (inlined) construction of an evaluation's environment
    reads the clock exactly once -/
theorem fact_one_clock_reading :
    (Generated.exprEvalEvents.filter (· == "call:Now")).length = 1 := by
  decide

/-! ### worked values (tests, not theorems) -/

example : civilFromDays 0 = (1970, 1, 1) ∧ civilFromDays (-1) = (1969, 12, 31) ∧ civilFromDays 11016 = (2000, 2, 29) ∧
    civilFromDays (-354285) = (1000, 1, 1) ∧ civilFromDays 2932896 = (9999, 12, 31) := by decide
example : isoWeek 0 = 1 ∧ isoWeek (-1) = 1 ∧ isoWeek 2 = 1 ∧ isoWeek 4 = 2 ∧ isoWeek 16070 = 1 ∧ isoWeek 16801 = 53 := by decide
example : fromMillis 0 [] [] = some "1970-01-01T00:00:00.000Z".toList := by decide
example : fromMillis 0 "[h] [P]".toList [] = some "12 am".toList := by decide
example : fromMillis 0 [] "-0030".toList = some "1969-12-31T23:30:00.000-00:30".toList := by decide
example : (match toMillis "2300-01-01T00:00:00.000Z".toList [] with | .ok ms => ms | _ => 0) = 10413792000000 := by decide

end Jsonata.Props.C19
