/-
  Props/C11.lean — property C11: JSON texts are expressions that denote themselves.

  Proved: string bodies without escapes denote themselves, each JSON escape denotes its
  character (\uXXXX: the code point; a surrogate pair: the astral character), malformed
  escapes and unpaired surrogates are errors; literal nodes evaluate to themselves on every
  input; an array constructor keeps nested constructors and non-array values as units (no
  flattening, no singleton collapse); and for every JSON value with unique keys, of any depth and width,
  its expression tree evaluates to that value on every input, in every environment, leaving the store as it
  was (`literal_denotes`).  Partial (DESIGN.md §6 C11): that the parser maps every
  JSON text to the corresponding tree, and the nearest-double reading of number literals, are
  carried by the correspondence against encoding/json.
-/
import JsonataModel.Model.Parser
import JsonataModel.Model.Interp
import JsonataModel.Lemmas.Monad
import JsonataModel.Generated.Facts

namespace Jsonata.Props.C11
open Jsonata Jsonata.Parse NumSys

/-! ### string literals -/

/-- a string body without a backslash denotes itself -/
theorem unescape_plain (s : List Char) (h : ∀ c ∈ s, c ≠ '\\') (fuel : Nat) (hf : s.length < fuel) :
    unescape fuel s = .ok s := by
  induction s generalizing fuel with
  | nil => cases fuel <;> simp [unescape]
  | cons c cs ih =>
    cases fuel with
    | zero => simp at hf
    | succ f =>
      have hc : c ≠ '\\' := h c (by simp)
      have := ih (fun x hx => h x (List.mem_cons_of_mem _ hx)) f (by simp at hf; omega)
      unfold unescape
      split
      · rename_i heq; cases heq
      · rename_i heq
        simp only [List.cons.injEq] at heq
        exact absurd heq.1 hc
      · rename_i heq
        simp only [List.cons.injEq] at heq
        obtain ⟨rfl, rfl⟩ := heq
        simp [this, Except.map]

/-- each two-character JSON escape denotes its character, whatever follows -/
theorem unescape_simple (rest : List Char) (fuel : Nat) (out : List Char)
    (hr : unescape fuel rest = .ok out) :
    unescape (fuel + 1) ('\\' :: 'n' :: rest) = .ok ('\n' :: out) ∧
    unescape (fuel + 1) ('\\' :: 't' :: rest) = .ok ('\t' :: out) ∧
    unescape (fuel + 1) ('\\' :: 'r' :: rest) = .ok ('\r' :: out) ∧
    unescape (fuel + 1) ('\\' :: 'b' :: rest) = .ok ('\x08' :: out) ∧
    unescape (fuel + 1) ('\\' :: 'f' :: rest) = .ok ('\x0c' :: out) ∧
    unescape (fuel + 1) ('\\' :: '"' :: rest) = .ok ('"' :: out) ∧
    unescape (fuel + 1) ('\\' :: '\\' :: rest) = .ok ('\\' :: out) ∧
    unescape (fuel + 1) ('\\' :: '/' :: rest) = .ok ('/' :: out) := by
  simp [unescape, jsonEscape, hr, Except.map]

/-- \uXXXX denotes the code point, a surrogate pair the astral character; malformed forms are
    errors rather than silently altered values -/
theorem unescape_unicode :
    unescape 10 "\\u00e9".toList = .ok ['é'] ∧
    unescape 20 "\\ud83d\\ude00".toList = .ok ['😀'] ∧
    unescape 20 "a\\u0041b".toList = .ok ['a', 'A', 'b'] ∧
    (unescape 20 "\\ud83d".toList).isOk = false ∧
    (unescape 20 "\\ude00".toList).isOk = false ∧
    (unescape 20 "\\ud83d\\u0041".toList).isOk = false ∧
    (unescape 20 "\\u+041".toList).isOk = false ∧
    (unescape 20 "\\u12".toList).isOk = false ∧
    (unescape 20 "\\x41".toList).isOk = false := by
  refine ⟨by rfl, by rfl, by rfl, by rfl, by rfl, by rfl, by rfl, by rfl, by rfl⟩

/-- the model's single-character escapes are JSON's (RFC 8259 §7): the tie to the implementation's table is
    behavioural — the harness sweeps every `\\c` for c over ASCII through the real lexer, the model and
    encoding/json — because a table read from the source breaks whenever the table is rewritten
    (map literal ↔ switch), which says nothing about the property -/
theorem json_escape_table :
    ([34, 92, 47, 98, 102, 110, 114, 116].map fun c => (jsonEscape (Char.ofNat c)).map Char.toNat) =
      [some 34, some 92, some 47, some 8, some 12, some 10, some 13, some 9] ∧
    ((List.range 128).filter fun c => (jsonEscape (Char.ofNat c)).isSome) = [34, 47, 92, 98, 102, 110, 114, 116] := by
  decide

/-- parseRune reads its four characters as base-16, 32 bits -/
theorem fact_parse_rune : Generated.parseRuneCall = "strconv.ParseInt(hex, 16, 32)" := by decide

/-! ### literals evaluate to themselves, on every input -/

variable {N : Type} [NumSys N]

theorem scalar_literals_denote (r : Rec N) (d : Option (Val N)) (env : Nat) (st : Store N)
    (s : String) (x : N) (b : Bool) :
    evalNode r (.str s) d env st = .ok (some (.str s), st) ∧
    evalNode r (.num x) d env st = .ok (some (.num x), st) ∧
    evalNode r (.bool b) d env st = .ok (some (.bool b), st) ∧
    evalNode r .null d env st = .ok (some .null, st) := by
  refine ⟨rfl, rfl, rfl, rfl⟩

/-- a nested array constructor is kept as a unit: no flattening -/
theorem array_keeps_nested_constructor (r : Rec N) (d : Option (Val N)) (env : Nat) (st st1 st2 : Store N)
    (inner : List (Node N)) (rest : List (Node N)) (v : Val N) (tail : List (Val N))
    (hi : r.ev (.array inner) d env st = .ok (some v, st1))
    (hr : evalArrayItems r d env rest st1 = .ok (tail, st2)) :
    evalArrayItems r d env (.array inner :: rest) st = .ok (v :: tail, st2) := by
  simp [evalArrayItems, hi, hr]

/-- a value that is not an array is one member (objects, strings, numbers, … are not spread) -/
theorem array_keeps_non_array_value (r : Rec N) (d : Option (Val N)) (env : Nat) (st st1 st2 : Store N)
    (item : Node N) (rest : List (Node N)) (v : Val N) (tail : List (Val N))
    (hv : v.isArr = false) (hi : r.ev item d env st = .ok (some v, st1))
    (hr : evalArrayItems r d env rest st1 = .ok (tail, st2)) :
    evalArrayItems r d env (item :: rest) st = .ok (v :: tail, st2) := by
  have harr : arrayify (some v) = [v] := by
    cases v <;> simp [arrayify, Val.isArr] at hv ⊢
  cases item <;> simp [evalArrayItems, hi, hr, harr]

/-- a one-member array stays an array: no singleton collapse -/
theorem array_no_singleton_collapse (r : Rec N) (d : Option (Val N)) (env : Nat) (st st1 : Store N)
    (x : N) (hi : r.ev (.num x) d env st = .ok (some (.num x), st1)) :
    evalNode r (.array [.num x]) d env st = .ok (some (.arr [.num x]), st1) := by
  simp [evalNode, evalArrayItems, hi, arrayify]

/-- an object constructor with one literal key yields exactly that member -/
theorem object_single_member (r : Rec N) (d : Val N) (env : Nat) (st st1 : Store N)
    (k : String) (vn : Node N) (v : Val N) (hd : d.isArr = false)
    (hv : r.ev vn (some (.arr [d])) env st = .ok (some v, st1)) :
    evalObject r [(.str k, vn)] (some d) env st = .ok (some (.obj [(k, v)]), st1) := by
  have hitems : (match (some d : Option (Val N)) with
      | some (.arr xs) => xs.map some
      | dd => [dd]) = [some d] := by
    cases d <;> simp [Val.isArr] at hd ⊢
  cases d <;> simp [Val.isArr] at hd <;>
    simp [evalObject, groupPairsLoop, evalObject.build, hv]

/-! ### every JSON value denotes itself (all depths and widths) -/

/-- JSON values (the statement's "JSON text" after reading it) -/
inductive Json (N : Type) : Type
  | null
  | bool (b : Bool)
  | num (x : N)
  | str (s : String)
  | arr (xs : List (Json N))
  | obj (kvs : List (String × Json N))

mutual
def toNode : Json N → Node N
  | .null => .null
  | .bool b => .bool b
  | .num x => .num x
  | .str s => .str s
  | .arr xs => .array (toNodeL xs)
  | .obj kvs => .object (toNodeKV kvs)
def toNodeL : List (Json N) → List (Node N)
  | [] => []
  | j :: js => toNode j :: toNodeL js
def toNodeKV : List (String × Json N) → List (Node N × Node N)
  | [] => []
  | (k, j) :: rest => (.str k, toNode j) :: toNodeKV rest
end

mutual
def toVal : Json N → Val N
  | .null => .null
  | .bool b => .bool b
  | .num x => .num x
  | .str s => .str s
  | .arr xs => .arr (toValL xs)
  | .obj kvs => .obj (toValKV kvs)
def toValL : List (Json N) → List (Val N)
  | [] => []
  | j :: js => toVal j :: toValL js
def toValKV : List (String × Json N) → List (String × Val N)
  | [] => []
  | (k, j) :: rest => (k, toVal j) :: toValKV rest
end

mutual
def uniqueKeys : Json N → Bool
  | .arr xs => uniqueKeysL xs
  | .obj kvs => (kvs.map (·.1)).Nodup && uniqueKeysKV kvs
  | _ => true
def uniqueKeysL : List (Json N) → Bool
  | [] => true
  | j :: js => uniqueKeys j && uniqueKeysL js
def uniqueKeysKV : List (String × Json N) → Bool
  | [] => true
  | (_, j) :: rest => uniqueKeys j && uniqueKeysKV rest
end


/-- induction over JSON values (the nested inductive's own recursor is not usable by `induction`) -/
theorem Json.ind {P : Json N → Prop}
    (hnull : P .null) (hbool : ∀ b, P (.bool b)) (hnum : ∀ x, P (.num x)) (hstr : ∀ s, P (.str s))
    (harr : ∀ xs, (∀ j ∈ xs, P j) → P (.arr xs))
    (hobj : ∀ kvs, (∀ p ∈ kvs, P p.2) → P (.obj kvs)) : ∀ j, P j := by
  intro j
  exact go j
where
  go : (j : Json N) → P j
    | .null => hnull
    | .bool b => hbool b
    | .num x => hnum x
    | .str s => hstr s
    | .arr xs => harr xs (goL xs)
    | .obj kvs => hobj kvs (goKV kvs)
  goL : (xs : List (Json N)) → ∀ j ∈ xs, P j
    | [] => by intro j h; cases h
    | x :: xs => by
      intro j h
      rcases List.mem_cons.mp h with h | h
      · exact h ▸ go x
      · exact goL xs j h
  goKV : (kvs : List (String × Json N)) → ∀ p ∈ kvs, P p.2
    | [] => by intro j h; cases h
    | (k, x) :: kvs => by
      intro p h
      rcases List.mem_cons.mp h with h | h
      · exact h ▸ go x
      · exact goKV kvs p h

theorem toVal_isArr (j : Json N) : (toVal j).isArr = true ↔ ∃ xs, j = .arr xs := by
  cases j <;> simp [toVal, Val.isArr]

/-- array constructor over literal members: each member is kept as one item -/
theorem arrayItems_lit (r : Rec N) (d : Option (Val N)) (env : Nat) (xs : List (Json N))
    (h : ∀ j ∈ xs, ∀ st, r.ev (toNode j) d env st = .ok (some (toVal j), st)) (st : Store N) :
    evalArrayItems r d env (toNodeL xs) st = .ok (toValL xs, st) := by
  induction xs with
  | nil => rfl
  | cons j js ih =>
    have hj := h j (List.mem_cons_self) st
    have ht := ih (fun j' hm => h j' (List.mem_cons_of_mem _ hm))
    cases j <;>
      simp [toNodeL, toValL, toNode, toVal, evalArrayItems, bind, StateT.bind, Except.bind, pure, StateT.pure,
        Except.pure, arrayify] at hj ht ⊢ <;> simp [hj, ht] <;> rfl

/-- the groups an object constructor with literal keys forms: one per pair, in order -/
def litGroups : Nat → List (String × Json N) → List KeyIdx
  | _, [] => []
  | i, (k, _) :: rest => { key := k, pair := i, items := [] } :: litGroups (i + 1) rest

theorem groupPairs_lit (r : Rec N) (env : Nat) (items : List (Option (Val N))) (kvs : List (String × Json N)) :
    ∀ (i : Nat) (groups : List KeyIdx) (st : Store N), (kvs.map (·.1)).Nodup →
      (∀ g ∈ groups, g.key ∉ kvs.map (·.1)) →
      groupPairsLoop r env items i (toNodeKV kvs) groups st = .ok (groups ++ litGroups i kvs, st) := by
  induction kvs with
  | nil => intro i groups st _ _; simp [toNodeKV, groupPairsLoop, litGroups] <;> rfl
  | cons p rest ih =>
    obtain ⟨k, j⟩ := p
    intro i groups st hnd hg
    have hnd' := List.nodup_cons.mp hnd
    have hany : groups.any (fun g => g.key == k) = false := by
      rw [List.any_eq_false]
      intro g hm hk
      exact hg g hm (by simp at hk; simp [hk])
    have := ih (i + 1) (groups ++ [{ key := k, pair := i, items := [] }]) st hnd'.2 (by
      intro g hm
      rcases List.mem_append.mp hm with hm | hm
      · intro hin; exact hg g hm (List.mem_cons_of_mem _ hin)
      · simp at hm; subst hm; exact hnd'.1)
    simp [toNodeKV, groupPairsLoop, hany, litGroups, this]

theorem build_lit (r : Rec N) (env : Nat) (items : List (Option (Val N))) (dataArr : Option (Val N))
    (nItems : Nat) (kvs : List (String × Json N)) :
    ∀ (pre : List (Node N × Node N)) (acc : List (String × Val N)) (st : Store N),
      (∀ p ∈ kvs, ∀ st, r.ev (toNode p.2) dataArr env st = .ok (some (toVal p.2), st)) →
      evalObject.build r (pre ++ toNodeKV kvs) env items dataArr nItems (litGroups pre.length kvs) acc st
        = .ok (acc ++ toValKV kvs, st) := by
  induction kvs with
  | nil => intro pre acc st _; simp [litGroups, evalObject.build, toValKV] <;> rfl
  | cons p rest ih =>
    obtain ⟨k, j⟩ := p
    intro pre acc st h
    have hj := h (k, j) List.mem_cons_self st
    have hrest := ih (pre ++ [(.str k, toNode j)]) (acc ++ [(k, toVal j)]) st
      (fun p hm => h p (List.mem_cons_of_mem _ hm))
    simp only [List.length_append, List.length_singleton, List.append_assoc, List.singleton_append] at hrest
    simp [litGroups, evalObject.build, toNodeKV, toValKV, hj, bind, StateT.bind, Except.bind, hrest]

theorem object_lit (r : Rec N) (d : Val N) (env : Nat) (kvs : List (String × Json N))
    (hnd : (kvs.map (·.1)).Nodup)
    (h : ∀ p ∈ kvs, ∀ (c : Val N) st, r.ev (toNode p.2) (some c) env st = .ok (some (toVal p.2), st))
    (st : Store N) :
    evalObject r (toNodeKV kvs) (some d) env st = .ok (some (.obj (toValKV kvs)), st) := by
  have hb := fun items dataArr nItems hh => build_lit r env items dataArr nItems kvs [] [] st hh
  simp only [List.nil_append, List.length_nil] at hb
  unfold evalObject
  simp only [Option.isNone_some, Bool.false_and, Bool.false_eq_true, ↓reduceIte, bind, StateT.bind, Except.bind]
  rw [groupPairs_lit r env _ kvs 0 [] st hnd (by intro g hg; cases hg)]
  simp only [List.nil_append]
  cases d <;> (simp only []; rw [hb _ _ _ (fun p hm st => h p hm _ st)]; rfl)

/-- a bound that serves every member of a list serves the list -/
theorem bound_all {α : Type} (xs : List α) (Q : α → Nat → Prop) (hmono : ∀ a f g, f ≤ g → Q a f → Q a g)
    (h : ∀ a ∈ xs, ∃ f, Q a f) : ∃ F, ∀ a ∈ xs, Q a F := by
  induction xs with
  | nil => exact ⟨0, by intro a h; cases h⟩
  | cons x xs ih =>
    obtain ⟨F, hF⟩ := ih (fun a hm => h a (List.mem_cons_of_mem _ hm))
    obtain ⟨f, hf⟩ := h x List.mem_cons_self
    refine ⟨max F f, ?_⟩
    intro a hm
    rcases List.mem_cons.mp hm with hm | hm
    · subst hm; exact hmono _ _ _ (Nat.le_max_right _ _) hf
    · exact hmono _ _ _ (Nat.le_max_left _ _) (hF a hm)

theorem uniqueKeysL_mem (xs : List (Json N)) (h : uniqueKeysL xs = true) : ∀ j ∈ xs, uniqueKeys j = true := by
  induction xs with
  | nil => intro j hm; cases hm
  | cons x xs ih =>
    simp [uniqueKeysL] at h
    intro j hm
    rcases List.mem_cons.mp hm with hm | hm
    · subst hm; exact h.1
    · exact ih h.2 j hm

theorem uniqueKeysKV_mem (kvs : List (String × Json N)) (h : uniqueKeysKV kvs = true) :
    ∀ p ∈ kvs, uniqueKeys p.2 = true := by
  induction kvs with
  | nil => intro j hm; cases hm
  | cons x xs ih =>
    obtain ⟨k, x⟩ := x
    simp [uniqueKeysKV] at h
    intro j hm
    rcases List.mem_cons.mp hm with hm | hm
    · subst hm; exact h.1
    · exact ih h.2 j hm

/-- what the statement says of a JSON text: the expression denotes the value, on every input -/
def Denotes (j : Json N) (f : Nat) : Prop :=
  ∀ (d : Val N) (env : Nat) (st : Store N), eval f (toNode j) (some d) env st = .ok (some (toVal j), st)

/-- **every JSON value with unique keys, of any depth and width, is an expression that evaluates to itself
    on every input, in every environment, and leaves the store as it was**; the evaluator needs a nesting
    budget no larger than some bound (its depth), and any larger budget gives the same answer. -/
theorem literal_denotes (j : Json N) : uniqueKeys j = true → ∃ f0, ∀ f, f0 ≤ f → Denotes j f := by
  induction j using Json.ind with
  | hnull => intro _; exact ⟨1, fun f hf d env st => by cases f with | zero => omega | succ f => rfl⟩
  | hbool b => intro _; exact ⟨1, fun f hf d env st => by cases f with | zero => omega | succ f => rfl⟩
  | hnum x => intro _; exact ⟨1, fun f hf d env st => by cases f with | zero => omega | succ f => rfl⟩
  | hstr s => intro _; exact ⟨1, fun f hf d env st => by cases f with | zero => omega | succ f => rfl⟩
  | harr xs ih =>
    intro hu
    simp only [uniqueKeys] at hu
    obtain ⟨F, hF⟩ := bound_all xs (fun j f => ∀ g, f ≤ g → Denotes j g)
      (fun a f g hfg h g' hg' => h g' (Nat.le_trans hfg hg'))
      (fun j hm => ih j hm (uniqueKeysL_mem xs hu j hm))
    refine ⟨F + 1, ?_⟩
    intro f hf d env st
    cases f with
    | zero => omega
    | succ f =>
      have := arrayItems_lit { ev := fun n d e => eval f n d e, call := fun g c a => callFn f g c a } (some d) env xs
        (fun j hm st => hF j hm f (by omega) d env st) st
      simp [eval, toNode, toVal, evalNode, bind, StateT.bind, Except.bind, this] <;> rfl
  | hobj kvs ih =>
    intro hu
    simp only [uniqueKeys, Bool.and_eq_true, decide_eq_true_eq] at hu
    obtain ⟨F, hF⟩ := bound_all kvs (fun p f => ∀ g, f ≤ g → Denotes p.2 g)
      (fun a f g hfg h g' hg' => h g' (Nat.le_trans hfg hg'))
      (fun p hm => ih p hm (uniqueKeysKV_mem kvs hu.2 p hm))
    refine ⟨F + 1, ?_⟩
    intro f hf d env st
    cases f with
    | zero => omega
    | succ f =>
      have := object_lit { ev := fun n d e => eval f n d e, call := fun g c a => callFn f g c a } d env kvs hu.1
        (fun p hm c st => hF p hm f (by omega) c env st) st
      simp [eval, toNode, toVal, evalNode, this]

/-- the same through `Expr.Eval`'s entry point -/
theorem literal_denotes_top (j : Json N) (hu : uniqueKeys j = true) :
    ∃ f0, ∀ f, f0 ≤ f → ∀ d : Val N, evalTop f (toNode j) (some d) = .ok (some (toVal j)) := by
  obtain ⟨f0, h⟩ := literal_denotes j hu
  refine ⟨f0, fun f hf d => ?_⟩
  simp [evalTop, StateT.run, h f hf d]

/-- a repeated key is outside the statement, and is an error rather than a silently chosen member -/
theorem duplicate_key_rejected (r : Rec N) (d : Val N) (env : Nat) (k : String) (a b : Node N) (st : Store N) :
    evalObject r [(.str k, a), (.str k, b)] (some d) env st = .error (.eval .duplicateKey) := by
  cases d <;> simp [evalObject, groupPairsLoop, bind, StateT.bind, Except.bind, throw, throwThe, MonadExceptOf.throw,
    StateT.lift, liftM, monadLift, MonadLift.monadLift] <;> rfl

/-! non-vacuity: a nested text with an empty array, an empty object, a one-member array and a nested array -/
example : uniqueKeys (.obj [("a", .arr [.arr [], .arr [.num (1 : Int)], .obj []]), ("b", .null)] : Json Int) = true := by
  decide


/-! ### non-vacuity -/

example : unescape 30 "a\\tb\\\"c".toList = .ok ['a', '\t', 'b', '"', 'c'] := by rfl

end Jsonata.Props.C11
