/-
  Props/C11.lean — property C11: JSON texts are expressions that denote themselves.

  Proved: string bodies without escapes denote themselves, each JSON escape denotes its
  character (\uXXXX: the code point; a surrogate pair: the astral character), malformed
  escapes and unpaired surrogates are errors; literal nodes evaluate to themselves on every
  input; an array constructor keeps nested constructors and non-array values as units (no
  flattening, no singleton collapse).  Partial (DESIGN.md §6 C11): that the parser maps every
  JSON text to the corresponding tree, and the nearest-double reading of number literals, are
  carried by the correspondence against encoding/json.
-/
import JsonataModel.Model.Parser
import JsonataModel.Model.Interp
import JsonataModel.Lemmas.Monad
import JsonataModel.Generated.Facts

namespace Jsonata.Props.C11
open Jsonata Jsonata.Parse NumSys

/-! ### string literals -/

/-- a string body without a backslash denotes itself -/
theorem unescape_plain (s : List Char) (h : ∀ c ∈ s, c ≠ '\\') (fuel : Nat) (hf : s.length < fuel) :
    unescape fuel s = .ok s := by
  induction s generalizing fuel with
  | nil => cases fuel <;> simp [unescape]
  | cons c cs ih =>
    cases fuel with
    | zero => simp at hf
    | succ f =>
      have hc : c ≠ '\\' := h c (by simp)
      have := ih (fun x hx => h x (List.mem_cons_of_mem _ hx)) f (by simp at hf; omega)
      unfold unescape
      split
      · rename_i heq; cases heq
      · rename_i heq
        simp only [List.cons.injEq] at heq
        exact absurd heq.1 hc
      · rename_i heq
        simp only [List.cons.injEq] at heq
        obtain ⟨rfl, rfl⟩ := heq
        simp [this, Except.map]

/-- each two-character JSON escape denotes its character, whatever follows -/
theorem unescape_simple (rest : List Char) (fuel : Nat) (out : List Char)
    (hr : unescape fuel rest = .ok out) :
    unescape (fuel + 1) ('\\' :: 'n' :: rest) = .ok ('\n' :: out) ∧
    unescape (fuel + 1) ('\\' :: 't' :: rest) = .ok ('\t' :: out) ∧
    unescape (fuel + 1) ('\\' :: 'r' :: rest) = .ok ('\r' :: out) ∧
    unescape (fuel + 1) ('\\' :: 'b' :: rest) = .ok ('\x08' :: out) ∧
    unescape (fuel + 1) ('\\' :: 'f' :: rest) = .ok ('\x0c' :: out) ∧
    unescape (fuel + 1) ('\\' :: '"' :: rest) = .ok ('"' :: out) ∧
    unescape (fuel + 1) ('\\' :: '\\' :: rest) = .ok ('\\' :: out) ∧
    unescape (fuel + 1) ('\\' :: '/' :: rest) = .ok ('/' :: out) := by
  simp [unescape, jsonEscape, hr, Except.map]

/-- \uXXXX denotes the code point, a surrogate pair the astral character; malformed forms are
    errors rather than silently altered values -/
theorem unescape_unicode :
    unescape 10 "\\u00e9".toList = .ok ['é'] ∧
    unescape 20 "\\ud83d\\ude00".toList = .ok ['😀'] ∧
    unescape 20 "a\\u0041b".toList = .ok ['a', 'A', 'b'] ∧
    (unescape 20 "\\ud83d".toList).isOk = false ∧
    (unescape 20 "\\ude00".toList).isOk = false ∧
    (unescape 20 "\\ud83d\\u0041".toList).isOk = false ∧
    (unescape 20 "\\u+041".toList).isOk = false ∧
    (unescape 20 "\\u12".toList).isOk = false ∧
    (unescape 20 "\\x41".toList).isOk = false := by
  refine ⟨by rfl, by rfl, by rfl, by rfl, by rfl, by rfl, by rfl, by rfl, by rfl⟩

/-- the model's single-character escapes are JSON's (RFC 8259 §7): the tie to the implementation's table is
    behavioural — the harness sweeps every `\\c` for c over ASCII through the real lexer, the model and
    encoding/json — because a table read from the source breaks whenever the table is rewritten
    (map literal ↔ switch), which says nothing about the property -/
theorem json_escape_table :
    ([34, 92, 47, 98, 102, 110, 114, 116].map fun c => (jsonEscape (Char.ofNat c)).map Char.toNat) =
      [some 34, some 92, some 47, some 8, some 12, some 10, some 13, some 9] ∧
    ((List.range 128).filter fun c => (jsonEscape (Char.ofNat c)).isSome) = [34, 47, 92, 98, 102, 110, 114, 116] := by
  decide

/-- parseRune reads its four characters as base-16, 32 bits -/
theorem fact_parse_rune : Generated.parseRuneCall = "strconv.ParseInt(hex, 16, 32)" := by decide

/-! ### literals evaluate to themselves, on every input -/

variable {N : Type} [NumSys N]

theorem scalar_literals_denote (r : Rec N) (d : Option (Val N)) (env : Nat) (st : Store N)
    (s : String) (x : N) (b : Bool) :
    evalNode r (.str s) d env st = .ok (some (.str s), st) ∧
    evalNode r (.num x) d env st = .ok (some (.num x), st) ∧
    evalNode r (.bool b) d env st = .ok (some (.bool b), st) ∧
    evalNode r .null d env st = .ok (some .null, st) := by
  refine ⟨rfl, rfl, rfl, rfl⟩

/-- a nested array constructor is kept as a unit: no flattening -/
theorem array_keeps_nested_constructor (r : Rec N) (d : Option (Val N)) (env : Nat) (st st1 st2 : Store N)
    (inner : List (Node N)) (rest : List (Node N)) (v : Val N) (tail : List (Val N))
    (hi : r.ev (.array inner) d env st = .ok (some v, st1))
    (hr : evalArrayItems r d env rest st1 = .ok (tail, st2)) :
    evalArrayItems r d env (.array inner :: rest) st = .ok (v :: tail, st2) := by
  simp [evalArrayItems, hi, hr]

/-- a value that is not an array is one member (objects, strings, numbers, … are not spread) -/
theorem array_keeps_non_array_value (r : Rec N) (d : Option (Val N)) (env : Nat) (st st1 st2 : Store N)
    (item : Node N) (rest : List (Node N)) (v : Val N) (tail : List (Val N))
    (hv : v.isArr = false) (hi : r.ev item d env st = .ok (some v, st1))
    (hr : evalArrayItems r d env rest st1 = .ok (tail, st2)) :
    evalArrayItems r d env (item :: rest) st = .ok (v :: tail, st2) := by
  have harr : arrayify (some v) = [v] := by
    cases v <;> simp [arrayify, Val.isArr] at hv ⊢
  cases item <;> simp [evalArrayItems, hi, hr, harr]

/-- a one-member array stays an array: no singleton collapse -/
theorem array_no_singleton_collapse (r : Rec N) (d : Option (Val N)) (env : Nat) (st st1 : Store N)
    (x : N) (hi : r.ev (.num x) d env st = .ok (some (.num x), st1)) :
    evalNode r (.array [.num x]) d env st = .ok (some (.arr [.num x]), st1) := by
  simp [evalNode, evalArrayItems, hi, arrayify]

/-- an object constructor with one literal key yields exactly that member -/
theorem object_single_member (r : Rec N) (d : Val N) (env : Nat) (st st1 : Store N)
    (k : String) (vn : Node N) (v : Val N) (hd : d.isArr = false)
    (hv : r.ev vn (some (.arr [d])) env st = .ok (some v, st1)) :
    evalObject r [(.str k, vn)] (some d) env st = .ok (some (.obj [(k, v)]), st1) := by
  have hitems : (match (some d : Option (Val N)) with
      | some (.arr xs) => xs.map some
      | dd => [dd]) = [some d] := by
    cases d <;> simp [Val.isArr] at hd ⊢
  cases d <;> simp [Val.isArr] at hd <;>
    simp [evalObject, groupPairsLoop, evalObject.build, hv]

/-! ### non-vacuity -/

example : unescape 30 "a\\tb\\\"c".toList = .ok ['a', '\t', 'b', '"', 'c'] := by rfl

end Jsonata.Props.C11
