/-
  Props/C17.lean — property C17: regex functions agree with the regular-expression engine.

  The engine is a parameter (`RxTable`, the graph of FindAllStringSubmatchIndex supplied by the
  real engine in the correspondence).  Proved here, for every subject, match list and template:
  what `$match`, `$contains`, `$split`, `$replace`, application and `next` do with the engine's
  matches.  That the engine finds the leftmost non-overlapping RE2 matches, and the meaning of
  the flags, is the contract of Go's regexp package (trusted base).
-/
import JsonataModel.Model.Lexer
import JsonataModel.Model.Regex
import JsonataModel.Model.Interp
import JsonataModel.Lemmas.Monad
import JsonataModel.Generated.Facts

namespace Jsonata.Props.C17
open Jsonata Jsonata.Rx

variable {α : Type}

/-! ### slices -/

theorem slice_append_drop (s : List α) (a b : Nat) (h : a ≤ b) :
    slice s a b ++ s.drop b = s.drop a := by
  unfold slice
  have : s.drop b = (s.drop a).drop (b - a) := by
    rw [List.drop_drop]; congr 1; omega
  rw [this, List.take_append_drop]

theorem take_append_slice (s : List α) (p a : Nat) (h : p ≤ a) :
    s.take p ++ slice s p a = s.take a := by
  unfold slice
  have : a = p + (a - p) := by omega
  conv => rhs; rw [this, List.take_add]

theorem ordered_le {len : Nat} : ∀ {pos : Nat} {ms : List (Nat × Nat)}, Ordered len pos ms → pos ≤ len
  | _, [], h => h
  | _, (a, b) :: ms, h => by
    have := ordered_le h.2.2
    have h1 := h.1; have h2 := h.2.1
    omega

theorem orderedB_iff (len : Nat) : ∀ (pos : Nat) (ms : List (Nat × Nat)), orderedB len pos ms = true ↔ Ordered len pos ms
  | pos, [] => by simp [orderedB, Ordered]
  | pos, (a, b) :: ms => by simp [orderedB, Ordered, orderedB_iff len b ms, and_assoc]

/-- the offsets of a replacement list -/
def offs (reps : List (Nat × Nat × List α)) : List (Nat × Nat) := reps.map fun m => (m.1, m.2.1)

/-! ### $replace: splicing from the back is replacement left to right -/

theorem replaceBack_eq_aux (s : List α) : ∀ (reps : List (Nat × Nat × List α)) (pos : Nat),
    Ordered s.length pos (offs reps) → replaceBack s reps = s.take pos ++ replaceSpec s pos reps
  | [], pos, _ => by simp [replaceBack, replaceSpec]
  | (a, b, r) :: ms, pos, h => by
    have hpa : pos ≤ a := h.1
    have hab : a ≤ b := h.2.1
    have hb : b ≤ s.length := ordered_le h.2.2
    have ih := replaceBack_eq_aux s ms b h.2.2
    have hlen : (s.take b).length = b := by simp [List.length_take]; omega
    show (replaceBack s ms).take a ++ r ++ (replaceBack s ms).drop b = _
    rw [ih]
    have h1 : (s.take b ++ replaceSpec s b ms).take a = s.take a := by
      rw [List.take_append_of_le_length (by omega), List.take_take]
      congr 1; omega
    have h2 : (s.take b ++ replaceSpec s b ms).drop b = replaceSpec s b ms := by
      rw [List.drop_append_of_le_length (by omega)]
      simp [List.drop_take]
    rw [h1, h2]
    simp only [replaceSpec]
    rw [← take_append_slice s pos a hpa]
    simp [List.append_assoc]

/-- **replaceMatchFunc.**  For matches that are consecutive, non-overlapping and inside the
    subject, Go's back-to-front splicing is: untouched text, replacement, untouched text, … -/
theorem replaceBack_eq_spec (s : List α) (reps : List (Nat × Nat × List α))
    (h : Ordered s.length 0 (offs reps)) : replaceBack s reps = replaceSpec s 0 reps := by
  simpa using replaceBack_eq_aux s reps 0 h

/-- replacing every match by its own text gives the subject back (`$replace(s, re, "$0") = s`) -/
theorem replace_by_self (s : List α) : ∀ (ms : List (Nat × Nat)) (pos : Nat), Ordered s.length pos ms →
    replaceSpec s pos (ms.map fun m => (m.1, m.2, slice s m.1 m.2)) = s.drop pos
  | [], _, _ => rfl
  | (a, b) :: ms, pos, h => by
    simp only [List.map_cons, replaceSpec]
    rw [replace_by_self s ms b h.2.2, List.append_assoc, slice_append_drop s a b h.2.1,
      slice_append_drop s pos a h.1]

/-! ### $split -/

/-- interleave pieces and separators -/
def weave : List (List α) → List (List α) → List α
  | [], _ => []
  | p :: _, [] => p
  | p :: ps, r :: rs => p ++ r ++ weave ps rs

theorem splitBy_length (s : List α) : ∀ (ms : List (Nat × Nat)) (pos : Nat), (splitBy s pos ms).length = ms.length + 1
  | [], _ => rfl
  | (_, b) :: ms, _ => by simp [splitBy, splitBy_length s ms b]

/-- a replacement is the split pieces with the replacements woven in -/
theorem replaceSpec_eq_weave (s : List α) : ∀ (reps : List (Nat × Nat × List α)) (pos : Nat),
    replaceSpec s pos reps = weave (splitBy s pos (offs reps)) (reps.map (·.2.2))
  | [], _ => rfl
  | (a, b, r) :: ms, pos => by
    have ih := replaceSpec_eq_weave s ms b
    have hne : splitBy s b (offs ms) ≠ [] := by
      intro h; have := splitBy_length s (offs ms) b; simp [h] at this
    simp only [replaceSpec, offs, List.map_cons, splitBy] at ih ⊢
    rw [ih]
    cases hsp : splitBy s b (List.map (fun m => (m.1, m.2.1)) ms) with
    | nil => exact absurd hsp hne
    | cons p ps => simp [weave]

/-- **$split.**  The pieces are the text between consecutive matches: weaving the matched texts
    back between the pieces gives the subject (so nothing is lost or duplicated). -/
theorem split_weave (s : List α) (ms : List (Nat × Nat)) (h : Ordered s.length 0 ms) :
    weave (splitBy s 0 ms) (ms.map fun m => slice s m.1 m.2) = s := by
  have h1 := replace_by_self s ms 0 h
  have h2 := replaceSpec_eq_weave s (ms.map fun m => (m.1, m.2, slice s m.1 m.2)) 0
  simp only [offs, List.map_map, Function.comp_def, List.drop_zero] at h1 h2
  rw [h1] at h2
  simpa using h2.symm

/-- no match: `$split` returns the subject as the only piece -/
theorem split_no_match (s : List α) : splitBy s 0 [] = [s] := rfl

/-! ### templates -/

/-- the decimal value of a digit string -/
def natOf (ds : List Char) : Nat := ds.foldl (fun n c => n * 10 + (c.toNat - '0'.toNat)) 0

theorem satNum_aux (ds : List Char) : ∀ (n e : Nat),
    (e ≤ 2 ^ 20 → n = e) → (e > 2 ^ 20 → n > 2 ^ 20) →
    let n' := ds.foldl (fun n c => if n > 2 ^ 20 then n else n * 10 + (c.toNat - '0'.toNat)) n
    let e' := ds.foldl (fun n c => n * 10 + (c.toNat - '0'.toNat)) e
    (e' ≤ 2 ^ 20 → n' = e') ∧ (e' > 2 ^ 20 → n' > 2 ^ 20) := by
  induction ds with
  | nil => intro n e h1 h2; exact ⟨h1, h2⟩
  | cons c cs ih =>
    intro n e h1 h2
    simp only [List.foldl_cons]
    apply ih
    · intro hle
      have he : e ≤ 2 ^ 20 := by omega
      have := h1 he
      subst this
      have : ¬ n > 2 ^ 20 := by omega
      simp [this]
    · intro hgt
      by_cases hn : n > 2 ^ 20
      · simp [hn]
      · have he : e ≤ 2 ^ 20 := by
          by_cases he : e ≤ 2 ^ 20
          · exact he
          · exact absurd (h2 (by omega)) hn
        have := h1 he
        subst this
        simp only [hn, if_false]
        exact hgt

/-- **runesToNumbers** is the decimal value unless that exceeds 2^20 (no pattern has that many
    groups); it never wraps around, whatever the length of the digit string -/
theorem satNum_spec (ds : List Char) :
    (natOf ds ≤ 2 ^ 20 → satNum ds = natOf ds) ∧ (natOf ds > 2 ^ 20 → satNum ds > 2 ^ 20) := by
  have := satNum_aux ds 0 0 (fun _ => rfl) (fun h => absurd h (by omega))
  simpa [satNum, natOf] using this

/-- **$N** takes the longest prefix of the digit string that numbers an existing group -/
theorem pickGroup_some (ds : List Char) (groups : List (List Char)) :
    ∀ (n k : Nat) (g : List Char), pickGroup ds groups n = some (k, g) →
      1 ≤ k ∧ k ≤ n ∧ satNum (ds.take k) - 1 < groups.length ∧
      g = groups.getD (satNum (ds.take k) - 1) [] ∧
      ∀ j, k < j → j ≤ n → ¬ (satNum (ds.take j) - 1 < groups.length)
  | 0, _, _, h => by simp [pickGroup] at h
  | n + 1, k, g, h => by
    unfold pickGroup at h
    simp only at h
    split at h
    · rename_i hlt
      simp only [Option.some.injEq, Prod.mk.injEq] at h
      obtain ⟨rfl, rfl⟩ := h
      exact ⟨by omega, by omega, hlt, rfl, fun j h1 h2 => by omega⟩
    · rename_i hge
      obtain ⟨h1, h2, h3, h4, h5⟩ := pickGroup_some ds groups n k g h
      refine ⟨h1, by omega, h3, h4, fun j hj1 hj2 => ?_⟩
      by_cases hjn : j = n + 1
      · subst hjn; exact hge
      · exact h5 j hj1 (by omega)

/-- no prefix numbers an existing group: nothing is inserted -/
theorem pickGroup_none (ds : List Char) (groups : List (List Char)) :
    ∀ (n : Nat), pickGroup ds groups n = none → ∀ j, 1 ≤ j → j ≤ n → ¬ (satNum (ds.take j) - 1 < groups.length)
  | 0, _, j, h1, h2 => by omega
  | n + 1, h, j, h1, h2 => by
    unfold pickGroup at h
    simp only at h
    split at h
    · simp at h
    · rename_i hge
      by_cases hjn : j = n + 1
      · subst hjn; exact hge
      · exact pickGroup_none ds groups n h j h1 (by omega)

theorem expand_cons_ne (m : List Char) (g : List (List Char)) (fuel : Nat) (c : Char) (cs : List Char)
    (hne : c ≠ '$') : expand m g (fuel + 1) (c :: cs) = c :: expand m g fuel cs := by
  rw [expand.eq_def]
  split <;> simp_all

/-- a template without `$` is copied -/
theorem expand_plain (m : List Char) (g : List (List Char)) :
    ∀ (t : List Char) (fuel : Nat), (∀ c ∈ t, c ≠ '$') → t.length ≤ fuel → expand m g fuel t = t
  | [], fuel, _, _ => by cases fuel <;> rfl
  | c :: cs, 0, _, h => by simp at h
  | c :: cs, fuel + 1, hc, h => by
    have hne : c ≠ '$' := hc c (by simp)
    have ih := expand_plain m g cs fuel (fun x hx => hc x (List.mem_cons_of_mem _ hx)) (by simp at h; omega)
    rw [expand_cons_ne m g fuel c cs hne, ih]

/-- `$0` is the match, `$$` a dollar sign, a `$` before a non-digit or at the end stays -/
theorem expand_rules (m : List Char) (g : List (List Char)) (fuel : Nat) (rest : List Char) (c : Char)
    (hc : isDigit c = false) (hd : c ≠ '$') :
    expand m g (fuel + 1) ('$' :: '0' :: rest) = m ++ expand m g fuel rest ∧
    expand m g (fuel + 1) ('$' :: '$' :: rest) = '$' :: expand m g fuel rest ∧
    expand m g (fuel + 1) ['$'] = ['$'] ∧
    expand m g (fuel + 1) ('$' :: c :: rest) = '$' :: expand m g fuel (c :: rest) := by
  refine ⟨?_, ?_, ?_, ?_⟩
  · simp [expand, isDigit]
  · simp [expand]
  · simp [expand]
  · have : (c == '$') = false := by simpa using hd
    simp [expand, hc, this]

/-- `$N…`: the group picked by `pickGroup` is inserted and exactly its digits are consumed -/
theorem expand_group (m : List Char) (g : List (List Char)) (fuel : Nat) (r : Char) (rest : List Char)
    (hd : isDigit r = true) (h0 : r ≠ '0') :
    expand m g (fuel + 1) ('$' :: r :: rest) =
      match pickGroup ((r :: rest).takeWhile isDigit) g ((r :: rest).takeWhile isDigit).length with
      | some (k, txt) => txt ++ expand m g fuel ((r :: rest).drop k)
      | none => expand m g fuel rest := by
  have h1 : (r == '$') = false := by
    have : r ≠ '$' := by intro h; subst h; simp [isDigit] at hd
    simpa using this
  have h2 : (r == '0') = false := by simpa using h0
  simp [expand, hd, h1, h2]
  rfl

/-! ### match objects, application and `next` -/

variable {N : Type} [NumSys N]

/-- applying a regex to a string gives the first match object, or no value -/
theorem regex_apply (r : Rec N) (pat : String) (tbl : RxTable) (s : String) (ms : List MatchRec)
    (st : Store N) (h : tbl.lookup s = some ms) :
    callVal r (.regexFn pat tbl) none [some (.str s)] st = .ok (firstMatch ms, st) := by
  simp [callVal, h]

/-- the `next` member of the k-th match object enumerates the remaining matches in order and
    finally gives no value -/
theorem next_enumerates (r : Rec N) (m : MatchRec) (rest : List MatchRec) (st : Store N) :
    objGet (match (matchObj m rest : Val N) with | .obj kvs => kvs | _ => []) "next" = some (.matchNext rest) ∧
    callVal r (.matchNext rest) none [] st = .ok (firstMatch rest, st) ∧
    (firstMatch ([] : List MatchRec) : Option (Val N)) = none := by
  refine ⟨by simp [matchObj, objGet], by simp [callVal], rfl⟩

/-- a match object carries the matched text, its offsets and its groups -/
theorem matchObj_members (m : MatchRec) (rest : List MatchRec) :
    (matchObj m rest : Val N) = .obj [("end", .num (NumSys.ofInt m.stop)), ("groups", .arr (m.groups.map .str)),
      ("match", .str m.text), ("next", .matchNext rest), ("start", .num (NumSys.ofInt m.start))] := rfl

/-- `$contains` with a regex is "there is a match": the first match exists iff the list is non-empty -/
theorem contains_iff (ms : List MatchRec) : ((firstMatch ms : Option (Val N)).isSome = true) ↔ ms ≠ [] := by
  cases ms <;> simp [firstMatch]

/-! ### facts regenerated from callable.go and jlib/string.go -/

def eventsOf (fn : String) : List String := (Generated.regexFuncEvents.lookup fn).getD []

def keyNames : List String := ["key:match", "key:start", "key:end", "key:groups", "key:next", "key:index"]

/-- the engine call, the members of the match objects, and that each of the four functions that accept a
    user-written matcher checks what it returns (number offsets, an array of strings for the groups, an error
    otherwise).  Stated over the exported entry points, whose traces are inlined through the package-local
    helpers: the helpers' names do not occur, so renaming or regrouping them raises no alarm -/
theorem fact_regex_functions :
    (eventsOf "regexCallable.Call").contains "call:FindAllStringSubmatchIndex" = true ∧
    (eventsOf "matchCallable.Call").filter keyNames.contains = ["key:match", "key:start", "key:end", "key:groups", "key:next"] ∧
    (eventsOf "Match").filter keyNames.contains = ["key:match", "key:index", "key:groups"] ∧
    (eventsOf "Replace").filter keyNames.contains = ["key:match", "key:index", "key:groups"] ∧
    (["Match", "Contains", "Split", "Replace"].all fun f =>
      (eventsOf f).contains "call:AsNumber" && (eventsOf f).contains "call:IsArrayOf" && (eventsOf f).contains "call:Errorf") = true := by
  decide

/-- the flag letters the model's lexer accepts after a literal are i, m, s (tied to the implementation by the
    harness's sweep over every letter as a flag, not by reading the source) -/
theorem regex_flag_letters : ((List.range 128).filter Jsonata.Lex.isRegexFlag) = [105, 109, 115] := by decide

/-! ### non-vacuity -/

example : Ordered 5 0 [(1, 2), (2, 4)] := (orderedB_iff 5 0 _).mp (by decide)
example : replaceBack "abcde".toList [(1, 2, "XY".toList), (2, 4, [])] = "aXYe".toList := by decide
example : splitBy "abcde".toList 0 [(1, 2), (2, 4)] = ["a".toList, [], "e".toList] := by decide
example : expand "M".toList ["g1".toList] 20 "a$0-$1$12$$$x$".toList = "aM-g1g12$$x$".toList := by decide
example : satNum "99999999999999999999".toList > 2 ^ 20 := by decide

end Jsonata.Props.C17
