/-
  Props/C13.lean — property C13: order-by and $sort return stable, correctly ordered
  permutations; mis-typed keys are errors.  All statements are for every list length
  and every number of sort terms.
-/
import JsonataModel.Model.Interp
import JsonataModel.Lemmas.Monad
import JsonataModel.Lemmas.Order

namespace Jsonata.Props.C13
open Jsonata NumSys

variable {N : Type} [NumSys N]

/-! ### the comparison of one sort term (statement: numbers numerically, strings by code
    point, absent keys after present ones, `>` reverses its own term) -/

def cmpKey (d : SortDir) (vi vj : Option (Val N)) : Ordering :=
  match vi, vj with
  | none, none => .eq
  | none, some _ => .gt
  | some _, none => .lt
  | some a, some b =>
    if valEq a b then .eq
    else if d == .desc then (if (valLt b a).getD false then .lt else .gt)
    else (if (valLt a b).getD false then .lt else .gt)

/-- the evaluator's `less` is the lexicographic product of the per-term comparisons -/
theorem sortLess_eq_lex (dirs : List SortDir) (a b : List (Option (Val N))) :
    sortLess dirs a b = (lexCmp (dirs.map cmpKey) a b == .lt) := by
  induction dirs generalizing a b with
  | nil => simp [sortLess, lexCmp]
  | cons d ds ih =>
    cases a with
    | nil => simp [sortLess, lexCmp]
    | cons x xs =>
      cases b with
      | nil => simp [sortLess, lexCmp]
      | cons y ys =>
        simp only [sortLess, List.map_cons, lexCmp, cmpKey]
        rcases x with _ | x <;> rcases y with _ | y
        · simpa using ih xs ys
        · simp
        · simp
        · by_cases he : valEq x y = true
          · simp only [he, if_true]
            exact ih xs ys
          · have he' : valEq x y = false := by simpa using he
            simp only [he', Bool.false_eq_true, if_false]
            by_cases hd : d = .desc
            · subst hd
              cases (valLt y x).getD false <;> simp
            · have : (d == SortDir.desc) = false := by simpa using hd
              simp only [this, Bool.false_eq_true, if_false]
              cases (valLt x y).getD false <;> simp

/-! ### key kinds -/

def KeyNone (k : Option (Val N)) : Prop := k = none
def KeyNum (k : Option (Val N)) : Prop := k = none ∨ ∃ x, k = some (.num x)
def KeyStr (k : Option (Val N)) : Prop := k = none ∨ ∃ s, k = some (.str s)

def kindPred : TermKind → Option (Val N) → Prop
  | .unknown => KeyNone
  | .number => KeyNum
  | .string => KeyStr

theorem cmpKey_lawful_none (d : SortDir) : LawfulCmp (cmpKey (N := N) d) KeyNone := by
  refine ⟨?_, ?_, ?_⟩ <;> intros <;> simp_all [KeyNone, cmpKey]

theorem cmpKey_lawful_num [LawfulNum N] (d : SortDir) : LawfulCmp (cmpKey (N := N) d) KeyNum := by
  have L := (inferInstance : LawfulNum N)
  -- the three-way comparison of two numbers
  have key : ∀ a b : N, cmpKey d (some (.num a)) (some (.num b)) =
      if beq a b then .eq else if d == .desc then (if lt b a then .lt else .gt) else (if lt a b then .lt else .gt) := by
    intro a b
    by_cases hd : d = .desc <;> simp [cmpKey, valEq, valLt, hd] <;> rfl
  have tri := L.trichotomy
  refine ⟨?_, ?_, ?_⟩
  · intro a b ha hb
    rcases ha with rfl | ⟨x, rfl⟩ <;> rcases hb with rfl | ⟨y, rfl⟩ <;> try (simp [cmpKey, Ordering.swap]; done)
    rw [key, key, L.beq_symm y x]
    by_cases he : beq x y = true
    · simp [he, Ordering.swap]
    · have he' : beq x y = false := by simpa using he
      simp only [he', Bool.false_eq_true, if_false]
      rcases tri x y with h | h | h
      · have h2 := L.lt_asymm x y h
        by_cases hd : (d == SortDir.desc) = true <;> simp [hd, h, h2, Ordering.swap]
      · simp [h] at he'
      · have h2 := L.lt_asymm y x h
        by_cases hd : (d == SortDir.desc) = true <;> simp [hd, h, h2, Ordering.swap]
  · intro a b c ha hb hc
    rcases ha with rfl | ⟨x, rfl⟩ <;> rcases hb with rfl | ⟨y, rfl⟩ <;> rcases hc with rfl | ⟨z, rfl⟩ <;>
      try (simp [cmpKey]; done)
    rw [key, key, key]
    intro h1 h2
    by_cases exy : beq x y = true
    · -- x ~ y
      have : beq x z = beq y z := by
        cases hyz : beq y z
        · cases hxz : beq x z
          · rfl
          · have := L.beq_trans y x z (by rw [L.beq_symm]; exact exy) hxz
            simp [this] at hyz
        · exact L.beq_trans x y z exy hyz
      rw [this, L.lt_congr_left x y z exy, L.lt_congr_right x y z exy]
      simpa [exy] using h2
    · have exy' : beq x y = false := by simpa using exy
      by_cases eyz : beq y z = true
      · have e1 : beq x z = beq x y := by
          cases hxy : beq x y
          · cases hxz : beq x z
            · rfl
            · have := L.beq_trans x z y hxz (by rw [L.beq_symm]; exact eyz)
              simp [this] at hxy
          · exact L.beq_trans x y z hxy eyz
        rw [e1, ← L.lt_congr_right y z x eyz, ← L.lt_congr_left y z x eyz]
        simpa [exy'] using h1
      · have eyz' : beq y z = false := by simpa using eyz
        simp only [exy', eyz', Bool.false_eq_true, if_false] at h1 h2
        by_cases hd : (d == SortDir.desc) = true
        · simp only [hd, if_true] at h1 h2 ⊢
          have hyx : lt y x = true := by
            cases h : lt y x <;> simp [h] at h1 ⊢
          have hzy : lt z y = true := by
            cases h : lt z y <;> simp [h] at h2 ⊢
          have hzx := L.lt_trans z y x hzy hyx
          have hne : beq x z = false := by rw [L.beq_symm]; exact L.lt_not_beq z x hzx
          simp [hne, hzx]
        · have hd' : (d == SortDir.desc) = false := by simpa using hd
          simp only [hd', Bool.false_eq_true, if_false] at h1 h2 ⊢
          have hxy : lt x y = true := by
            cases h : lt x y <;> simp [h] at h1 ⊢
          have hyz : lt y z = true := by
            cases h : lt y z <;> simp [h] at h2 ⊢
          have hxz := L.lt_trans x y z hxy hyz
          have hne : beq x z = false := L.lt_not_beq x z hxz
          simp [hne, hxz]
  · intro a b c ha hb hc
    rcases ha with rfl | ⟨x, rfl⟩ <;> rcases hb with rfl | ⟨y, rfl⟩ <;> rcases hc with rfl | ⟨z, rfl⟩ <;>
      try (simp [cmpKey]; done)
    rw [key, key, key]
    intro h
    have exy : beq x y = true := by
      by_cases e : beq x y = true
      · exact e
      · have e' : beq x y = false := by simpa using e
        simp only [e', Bool.false_eq_true, if_false] at h
        by_cases hd : (d == SortDir.desc) = true
        · simp only [hd, if_true] at h
          cases hl : lt y x <;> simp [hl] at h
        · have hd' : (d == SortDir.desc) = false := by simpa using hd
          simp only [hd', Bool.false_eq_true, if_false] at h
          cases hl : lt x y <;> simp [hl] at h
    have : beq x z = beq y z := by
      cases hyz : beq y z
      · cases hxz : beq x z
        · rfl
        · have := L.beq_trans y x z (by rw [L.beq_symm]; exact exy) hxz
          simp [this] at hyz
      · exact L.beq_trans x y z exy hyz
    rw [this, L.lt_congr_left x y z exy, L.lt_congr_right x y z exy]

theorem cmpKey_lawful_str (d : SortDir) : LawfulCmp (cmpKey (N := N) d) KeyStr := by
  have key : ∀ a b : String, cmpKey (N := N) d (some (.str a)) (some (.str b)) =
      if a = b then .eq else if d == .desc then (if b < a then .lt else .gt) else (if a < b then .lt else .gt) := by
    intro a b
    by_cases hd : d = .desc <;> simp [cmpKey, valEq, valLt, hd]
  refine ⟨?_, ?_, ?_⟩
  · intro a b ha hb
    rcases ha with rfl | ⟨x, rfl⟩ <;> rcases hb with rfl | ⟨y, rfl⟩ <;> try (simp [cmpKey, Ordering.swap]; done)
    rw [key, key]
    by_cases he : x = y
    · subst he; simp [Ordering.swap]
    · have he' : ¬ y = x := fun h => he h.symm
      simp only [he, he', if_false]
      rcases Std.lt_trichotomy x y with h | h | h
      · have h2 : ¬ y < x := String.lt_asymm h
        by_cases hd : (d == SortDir.desc) = true <;> simp [hd, h, h2, Ordering.swap]
      · exact absurd h he
      · have h2 : ¬ x < y := String.lt_asymm h
        by_cases hd : (d == SortDir.desc) = true <;> simp [hd, h, h2, Ordering.swap]
  · intro a b c ha hb hc
    rcases ha with rfl | ⟨x, rfl⟩ <;> rcases hb with rfl | ⟨y, rfl⟩ <;> rcases hc with rfl | ⟨z, rfl⟩ <;>
      try (simp [cmpKey]; done)
    rw [key, key, key]
    intro h1 h2
    by_cases exy : x = y
    · subst exy; exact h2
    · by_cases eyz : y = z
      · subst eyz; exact h1
      · simp only [exy, eyz, if_false] at h1 h2
        by_cases hd : (d == SortDir.desc) = true
        · simp only [hd, if_true] at h1 h2 ⊢
          have hyx : y < x := by
            by_cases h : y < x
            · exact h
            · simp [h] at h1
          have hzy : z < y := by
            by_cases h : z < y
            · exact h
            · simp [h] at h2
          have hzx := String.lt_trans hzy hyx
          have hne : ¬ x = z := by intro e; subst e; exact String.lt_irrefl _ hzx
          simp [hne, hzx]
        · have hd' : (d == SortDir.desc) = false := by simpa using hd
          simp only [hd', Bool.false_eq_true, if_false] at h1 h2 ⊢
          have hxy : x < y := by
            by_cases h : x < y
            · exact h
            · simp [h] at h1
          have hyz : y < z := by
            by_cases h : y < z
            · exact h
            · simp [h] at h2
          have hxz := String.lt_trans hxy hyz
          have hne : ¬ x = z := by intro e; subst e; exact String.lt_irrefl _ hxz
          simp [hne, hxz]
  · intro a b c ha hb hc
    rcases ha with rfl | ⟨x, rfl⟩ <;> rcases hb with rfl | ⟨y, rfl⟩ <;> rcases hc with rfl | ⟨z, rfl⟩ <;>
      try (simp [cmpKey]; done)
    rw [key, key, key]
    intro h
    have exy : x = y := by
      by_cases e : x = y
      · exact e
      · simp only [e, if_false] at h
        by_cases hd : (d == SortDir.desc) = true
        · simp only [hd, if_true] at h
          by_cases hl : y < x <;> simp [hl] at h
        · have hd' : (d == SortDir.desc) = false := by simpa using hd
          simp only [hd', Bool.false_eq_true, if_false] at h
          by_cases hl : x < y <;> simp [hl] at h
    subst exy
    rfl

theorem cmpKey_lawful [LawfulNum N] (d : SortDir) (k : TermKind) :
    LawfulCmp (cmpKey (N := N) d) (kindPred k) := by
  cases k
  · exact cmpKey_lawful_none d
  · exact cmpKey_lawful_num d
  · exact cmpKey_lawful_str d

/-! ### key evaluation: type bookkeeping and its two errors -/

def Refines (k k' : TermKind) : Prop := k = .unknown ∨ k = k'

theorem kindPred_mono (k k' : TermKind) (h : Refines k k') (v : Option (Val N)) :
    kindPred k v → kindPred k' v := by
  rcases h with rfl | rfl
  · intro hv
    have : v = none := hv
    subst this
    cases k' <;> simp [kindPred, KeyNone, KeyNum, KeyStr]
  · exact id

/-- **Keys of another type, or of mixed number/string type within one term, are errors.**
    A successful check returns the key unchanged, refines the term's kind and the key
    conforms to it. -/
theorem sortKeyCheck_ok (kind kind' : TermKind) (v v' : Option (Val N))
    (h : sortKeyCheck kind v = .ok (v', kind')) :
    v' = v ∧ Refines kind kind' ∧ kindPred kind' v' ∧ (kind ≠ .unknown → kind' = kind) := by
  unfold sortKeyCheck at h
  rcases v with _ | v
  · simp at h; obtain ⟨rfl, rfl⟩ := h
    refine ⟨rfl, Or.inr rfl, ?_, fun _ => rfl⟩
    cases kind <;> simp [kindPred, KeyNone, KeyNum, KeyStr]
  · cases v with
    | num x =>
      by_cases hk : kind = .string
      · simp [hk] at h
      · have hk' : (kind == TermKind.string) = false := by simpa using hk
        simp [hk'] at h
        obtain ⟨rfl, rfl⟩ := h
        refine ⟨rfl, ?_, by simp [kindPred, KeyNum], ?_⟩
        · cases kind <;> simp [Refines] at hk ⊢
        · cases kind <;> simp at hk ⊢
    | str t =>
      by_cases hk : kind = .number
      · simp [hk] at h
      · have hk' : (kind == TermKind.number) = false := by simpa using hk
        simp [hk'] at h
        obtain ⟨rfl, rfl⟩ := h
        refine ⟨rfl, ?_, by simp [kindPred, KeyStr], ?_⟩
        · cases kind <;> simp [Refines] at hk ⊢
        · cases kind <;> simp at hk ⊢
    | _ => simp at h

theorem sortKeyCheck_errors (kind : TermKind) (x : N) (s : String) (b : Bool) (xs : List (Val N)) :
    sortKeyCheck .string (some (.num x)) = .error (.eval .sortMismatch) ∧
    sortKeyCheck (N := N) .number (some (.str s)) = .error (.eval .sortMismatch) ∧
    sortKeyCheck (N := N) kind (some (.bool b)) = .error (.eval .nonSortable) ∧
    sortKeyCheck kind (some (.arr xs)) = .error (.eval .nonSortable) ∧
    sortKeyCheck (N := N) kind (some .null) = .error (.eval .nonSortable) := by
  simp [sortKeyCheck]

/-! ### the sort itself -/

/-- the order in which `evalSort` sorts: `a` may precede `b` -/
def sortLe (dirs : List SortDir) (a b : Val N × List (Option (Val N))) : Bool :=
  !sortLess dirs b.2 a.2

/-- **Order-by is a stable sort.** For key tuples that conform to one kind per term (which
    `buildSortInfo` guarantees, see `sortKeyCheck_ok`), every list length and every number of
    terms: the result is a permutation of the items, ordered by the key tuples, and every
    sub-list that is already in order (in particular: items with equal key tuples) keeps its
    input order. -/
theorem orderby_stable_sort [LawfulNum N] (dirs : List SortDir) (kinds : List TermKind)
    (hlen : dirs.length = kinds.length)
    (info : List (Val N × List (Option (Val N))))
    (hconf : ∀ x ∈ info, Conforms (kinds.map kindPred) x.2) :
    let sorted := info.mergeSort (sortLe dirs)
    sorted.Perm info ∧
    sorted.Pairwise (fun a b => sortLe dirs a b = true) ∧
    (∀ ys : List (Val N × List (Option (Val N))), ys.Sublist info →
        ys.Pairwise (fun a b => sortLe dirs a b = true) → ys.Sublist sorted) := by
  intro sorted
  have hlaw : LawfulCmp (lexCmp (dirs.map (cmpKey (N := N)))) (Conforms (kinds.map kindPred)) := by
    apply lexCmp_lawful
    · simp [hlen]
    · intro i h1 h2
      simp only [List.getElem_map]
      exact cmpKey_lawful _ _
  -- sortLe a b = "b is not less than a" = leOf (lexCmp) a b
  have hle : ∀ a b : Val N × List (Option (Val N)),
      Conforms (kinds.map kindPred) a.2 → Conforms (kinds.map kindPred) b.2 →
      sortLe dirs a b = leOf (lexCmp (dirs.map cmpKey)) a.2 b.2 := by
    intro a b ha hb
    simp only [sortLe, sortLess_eq_lex, leOf]
    have := hlaw.symm a.2 b.2 ha hb
    cases h : lexCmp (dirs.map cmpKey) a.2 b.2 <;> simp [h, Ordering.swap] at this ⊢ <;> simp [this]
  have hrel := mergeSort_relativized (sortLe dirs) (fun x => Conforms (kinds.map kindPred) x.2) info hconf
    (by
      intro a b c ha hb hc
      rw [hle a b ha hb, hle b c hb hc, hle a c ha hc]
      exact leOf_trans hlaw a.2 b.2 c.2 ha hb hc)
    (by
      intro a b ha hb
      rw [hle a b ha hb, hle b a hb ha]
      exact leOf_total hlaw a.2 b.2 ha hb)
  exact ⟨List.mergeSort_perm _ _, hrel.1, hrel.2⟩

/-- items with equal key tuples keep their input order (the usual statement of stability) -/
theorem orderby_ties_keep_order [LawfulNum N] (dirs : List SortDir) (kinds : List TermKind)
    (hlen : dirs.length = kinds.length)
    (info : List (Val N × List (Option (Val N))))
    (hconf : ∀ x ∈ info, Conforms (kinds.map kindPred) x.2)
    (a b : Val N × List (Option (Val N))) (hab : [a, b].Sublist info)
    (htie : sortLess dirs b.2 a.2 = false) :
    [a, b].Sublist (info.mergeSort (sortLe dirs)) := by
  have h := (orderby_stable_sort dirs kinds hlen info hconf).2.2 [a, b] hab
  apply h
  simp [sortLe, htie]

/-- absent keys follow all present ones, whatever the direction of the term -/
theorem absent_last (d : SortDir) (v : Val N) (ds : List SortDir) (xs ys : List (Option (Val N))) :
    sortLess (d :: ds) (some v :: xs) (none :: ys) = true ∧
    sortLess (d :: ds) (none :: xs) (some v :: ys) = false := by
  simp [sortLess]

/-- `>` reverses the order of its own term only -/
theorem descending_reverses (a b : N) (ds : List SortDir) (xs ys : List (Option (Val N)))
    (hne : beq a b = false) :
    sortLess (.desc :: ds) (some (.num a) :: xs) (some (.num b) :: ys) = lt b a ∧
    sortLess (.asc :: ds) (some (.num a) :: xs) (some (.num b) :: ys) = lt a b ∧
    sortLess (.default_ :: ds) (some (.num a) :: xs) (some (.num b) :: ys) = lt a b := by
  simp [sortLess, valEq, valLt, hne]

/-! ### $sort -/

/-- `$sort(a)` of an all-number array: ascending, stable, a permutation -/
theorem sort_numbers_perm (ns : List N) :
    (ns.mergeSort (fun a b => !lt b a)).Perm ns := List.mergeSort_perm _ _

theorem sort_numbers_sorted [LawfulNum N] (ns : List N) :
    (ns.mergeSort (fun a b => !lt b a)).Pairwise (fun a b => lt b a = false) := by
  have L := (inferInstance : LawfulNum N)
  have h := List.pairwise_mergeSort (le := fun a b : N => !lt b a)
    (by
      intro a b c hab hbc
      simp only [Bool.not_eq_true'] at hab hbc ⊢
      -- ¬ b < a, ¬ c < b ⇒ ¬ c < a
      cases hca : lt c a
      · rfl
      · rcases L.trichotomy a b with h | h | h
        · have := L.lt_trans c a b hca h; simp [this] at hbc
        · rw [L.lt_congr_right a b c h] at hca; simp [hca] at hbc
        · simp [h] at hab)
    (by
      intro a b
      simp only [Bool.or_eq_true, Bool.not_eq_true']
      cases h : lt b a
      · exact Or.inl rfl
      · exact Or.inr (L.lt_asymm b a h))
    ns
  simpa using h

/-- `$sort` neither loses nor invents members: same length, same members with the same multiplicities -/
theorem sort_numbers_length (ns : List N) : (ns.mergeSort (fun a b => !lt b a)).length = ns.length :=
  (sort_numbers_perm ns).length_eq

theorem sort_numbers_mem (ns : List N) (x : N) : x ∈ ns.mergeSort (fun a b => !lt b a) ↔ x ∈ ns :=
  (sort_numbers_perm ns).mem_iff

/-- sorting an array that is already in order returns it as it is: `$sort($sort(a)) = $sort(a)` -/
theorem sort_numbers_idem [LawfulNum N] (ns : List N) :
    (ns.mergeSort (fun a b => !lt b a)).mergeSort (fun a b => !lt b a) = ns.mergeSort (fun a b => !lt b a) := by
  apply List.mergeSort_of_pairwise
  have h := sort_numbers_sorted ns
  exact h.imp (by intro a b hab; simp [hab])

/-- the repo's own `merge`: take from the right list exactly when swap(lhs[0], rhs[0]) -/
def goMerge (sw : Val N → Val N → Bool) : List (Val N) → List (Val N) → List (Val N)
  | [], r => r
  | l, [] => l
  | a :: l, b :: r => if sw a b then b :: goMerge sw (a :: l) r else a :: goMerge sw l (b :: r)

theorem goMerge_eq_merge (sw : Val N → Val N → Bool) (l r : List (Val N)) :
    goMerge sw l r = List.merge l r (fun a b => !sw a b) := by
  induction l generalizing r with
  | nil => simp [goMerge]
  | cons a l ihl =>
    induction r with
    | nil => simp [goMerge]
    | cons b r ihr =>
      simp only [goMerge, List.merge]
      by_cases h : sw a b = true
      · simp [h, ihr]
      · have h' : sw a b = false := by simpa using h
        simp [h', ihl]

/-- `merge` never loses or invents an item, for any comparator at all -/
theorem goMerge_perm (sw : Val N → Val N → Bool) (l r : List (Val N)) :
    (goMerge sw l r).Perm (l ++ r) := by
  rw [goMerge_eq_merge]
  exact List.merge_perm_append _

/-- the monadic `merge` of the model agrees with the pure one when the comparator function
    computes a store-independent boolean -/
theorem mergeBy_pure (swap : Val N → Val N → EvalM N Bool) (sw : Val N → Val N → Bool)
    (hsw : ∀ a b s, ∃ s', swap a b s = .ok (sw a b, s'))
    (fuel : Nat) (l r : List (Val N)) (hf : l.length + r.length ≤ fuel) (s : Store N) :
    ∃ s', mergeBy swap fuel l r s = .ok (goMerge sw l r, s') := by
  induction fuel generalizing l r s with
  | zero =>
    have hl : l = [] := by cases l <;> simp_all
    have hr : r = [] := by cases r <;> simp_all
    subst hl hr
    exact ⟨s, by simp [mergeBy, goMerge]⟩
  | succ f ih =>
    cases l with
    | nil => exact ⟨s, by cases r <;> simp [mergeBy, goMerge]⟩
    | cons a l =>
      cases r with
      | nil => exact ⟨s, by simp [mergeBy, goMerge]⟩
      | cons b r =>
        obtain ⟨s1, h1⟩ := hsw a b s
        by_cases hs : sw a b = true
        · obtain ⟨s2, h2⟩ := ih (a :: l) r (by simp at hf ⊢; omega) s1
          exact ⟨s2, by simp [mergeBy, goMerge, h1, hs, h2]⟩
        · have hs' : sw a b = false := by simpa using hs
          obtain ⟨s2, h2⟩ := ih l (b :: r) (by simp at hf ⊢; omega) s1
          exact ⟨s2, by simp [mergeBy, goMerge, h1, hs', h2]⟩

/-! ### non-vacuity on `Int` -/

example : sortLess (N := Int) [.default_] [some (.num 1)] [some (.num 2)] = true := by
  simp [sortLess, valEq, valLt, NumSys.beq, NumSys.lt]
example : Conforms ([TermKind.number, TermKind.string].map (kindPred (N := Int)))
    [some (.num 3), some (.str "a")] := by
  simp [Conforms, kindPred, KeyNum, KeyStr]
example : goMerge (N := Int) (fun a b => match a, b with | .num x, .num y => decide (x > y) | _, _ => false)
    [.num 1, .num 3] [.num 2] = [.num 1, .num 2, .num 3] := by
  simp [goMerge]

end Jsonata.Props.C13
