/-
  Props/C20.lean — property C20: extensions — argument passing, typed failures, registry visibility.

  Proved: the conversion relation between JSONata values and Go parameter types (strings only
  to string/[]byte, numbers to every numeric kind, everything to interface{}/reflect.Value,
  undefined only to optional/interface{}/reflect.Value), the order handlers → counting →
  conversion of goCallable.Call with the position reported by ArgTypeError, and the registry
  state machine: a registration on one expression never changes another expression's view, a
  package-level registration never changes an expression that already exists, a new expression
  sees exactly the package level at its compilation — lifted to all operation sequences.
  The tie of the Go reflection machinery (reflect.Convert, AssignableTo) to this relation is
  the correspondence over generated signatures.
-/
import JsonataModel.Model.Ext
import JsonataModel.Generated.Facts

namespace Jsonata.Props.C20
open Jsonata Jsonata.Ext

variable {N : Type} [NumSys N]

/-! ### the conversion relation -/

/-- only strings convert to a string parameter (numbers, booleans, null, arrays, objects and
    functions do not) -/
theorem string_param_only_strings (v : Val N) :
    (convert (some v) .str).isSome = true ↔ v.isStr = true := by
  cases v <;> simp [convert, convertPlain, Val.isStr]

/-- strings convert to string and []byte and to nothing numeric or boolean -/
theorem string_arg (s : String) :
    (convert (some (.str s : Val N)) .str).isSome = true ∧ (convert (some (.str s : Val N)) .bytes).isSome = true ∧
    (convert (some (.str s : Val N)) .f64).isSome = false ∧ (convert (some (.str s : Val N)) .int).isSome = false ∧
    (convert (some (.str s : Val N)) .u8).isSome = false ∧ (convert (some (.str s : Val N)) .bool).isSome = false := by
  simp [convert, convertPlain]

/-- numbers convert to every numeric kind (float64 unchanged, integers by truncation) -/
theorem number_arg (x : N) :
    (convert (some (.num x)) .f64 = some (Recv.f64 x)) ∧
    (convert (some (.num x)) .int = some (Recv.int (NumSys.toInt x))) ∧
    (convert (some (.num x)) .u8 = some (Recv.u8 (NumSys.toInt x))) ∧
    (convert (some (.num x : Val N)) .str).isSome = false ∧ (convert (some (.num x : Val N)) .bool).isSome = false := by
  simp [convert, convertPlain]

/-- every value is accepted unchanged by interface{} and reflect.Value parameters -/
theorem any_param (v : Val N) :
    convert (some v) .iface = some (.any v) ∧ convert (some v) .value = some (.any v) := by
  cases v <;> simp [convert, convertPlain]

/-- an undefined argument is accepted exactly by optional, interface{} and reflect.Value
    parameters, and leaves an optional unset -/
theorem undefined_arg (t : GoTy) :
    (convert (none : Option (Val N)) t).isSome = true ↔ (t.isOpt = true ∨ t = .iface ∨ t = .value) := by
  cases t <;> simp [convert, GoTy.isOpt]

theorem undefined_optional (t : GoTy) : convert (none : Option (Val N)) (.opt t) = some .optUnset := rfl

/-- a defined argument of an optional parameter is converted to the underlying type and set -/
theorem optional_set (v : Val N) (t : GoTy) : convert (some v) (.opt t) = (convertPlain v t).map .optSet := rfl

/-- containers and functions: arrays to []interface{}, objects to map[string]interface{},
    function values to Callable, nothing else -/
theorem container_params (v : Val N) :
    ((convert (some v) .slice).isSome = true ↔ v.isArr = true) ∧
    ((convert (some v) .map).isSome = true ↔ v.isObj = true) ∧
    ((convert (some v) .callable).isSome = true ↔ v.isFn = true) := by
  cases v <;> simp [convert, convertPlain, Val.isArr, Val.isObj, Val.isFn]

/-! ### the call -/

/-- the undefined handler wins over counting and typing: the call yields no value -/
theorem call_undefined_handler (spec : Spec) (ctx : Option (Val N)) (argv : List (Option (Val N)))
    (hc : chFires spec.ch argv = false) (hu : uhFires spec.uh argv = true) :
    (match call spec ctx argv with | .undef => true | _ => false) = true := by
  simp [call, hc, hu]

/-- the context handler prepends the context item and nothing else changes -/
theorem call_context_handler (spec : Spec) (ctx : Option (Val N)) (argv : List (Option (Val N)))
    (hc : chFires spec.ch argv = true) :
    call spec ctx argv = call { spec with ch := .none_ } ctx (ctx :: argv) := by
  have h2 : chFires (N := N) CHk.none_ (ctx :: argv) = false := rfl
  unfold call
  dsimp only
  simp only [hc, h2, if_true]
  rfl

/-- a non-variadic function is called only with exactly one (converted) argument per parameter -/
theorem call_arity (spec : Spec) (ctx : Option (Val N)) (argv : List (Option (Val N))) (rs : List (Recv N))
    (hv : spec.variadic = false) (h : call spec ctx argv = .called rs) : rs.length = spec.params.length := by
  have hlen : ∀ (ps : List GoTy) (i : Nat) (as : List (Option (Val N))) (out : List (Recv N)),
      convertAll ps i as = .ok out → out.length = as.length := by
    intro ps i as
    induction as generalizing i with
    | nil => intro out h; simp [convertAll] at h; subst h; rfl
    | cons a as ih =>
      intro out h
      simp only [convertAll] at h
      split at h
      · cases h
      · cases hr : convertAll ps (i + 1) as with
        | error e => simp [hr, Except.map] at h
        | ok tl =>
          simp [hr, Except.map] at h
          subst h
          simp [ih (i + 1) tl hr]
  unfold call at h
  simp only [hv] at h
  generalize (if chFires spec.ch argv = true then ctx :: argv else argv) = argv1 at h
  by_cases hu : uhFires spec.uh argv1 = true
  · simp [hu] at h
  · by_cases hne : (padOptional (spec.params.map GoTy.isOpt) argv1).length = spec.params.length
    · cases hconv : convertAll spec.params 0 (padOptional (spec.params.map GoTy.isOpt) argv1) with
      | error e => simp [hu, hne, hconv] at h
      | ok out =>
        simp [hu, hne, hconv] at h
        subst h
        rw [hlen _ _ _ _ hconv, hne]
    · simp [hu, hne] at h

/-- too few or too many arguments for a non-variadic function: ArgCountError, whatever the types -/
theorem call_count_error (spec : Spec) (ctx : Option (Val N)) (argv : List (Option (Val N)))
    (hv : spec.variadic = false) (hc : chFires spec.ch argv = false) (hu : uhFires spec.uh argv = false)
    (hn : (padOptional (spec.params.map GoTy.isOpt) argv).length ≠ spec.params.length) :
    (match call spec ctx argv with | .argCount => true | _ => false) = true := by
  simp [call, hc, hu, hv, hn]

/-- ArgTypeError names the first argument that does not fit (1-based) -/
theorem convertAll_first_misfit (ps : List GoTy) : ∀ (i : Nat) (as : List (Option (Val N))) (k : Nat),
    convertAll ps i as = .error k → i < k ∧ k ≤ i + as.length ∧
      convert (as.getD (k - 1 - i) none) ((ps[k - 1]?).getD (ps.getLast?.getD .iface)) = none ∧
      ∀ j, j < k - 1 - i → (convert (as.getD j none) ((ps[i + j]?).getD (ps.getLast?.getD .iface))).isSome = true
  | _, [], _, h => by simp [convertAll] at h
  | i, a :: as, k, h => by
    simp only [convertAll] at h
    split at h
    · rename_i hnone
      cases h
      refine ⟨by omega, by simp, ?_, fun j hj => by omega⟩
      simpa using hnone
    · rename_i r hsome
      cases hr : convertAll ps (i + 1) as with
      | ok tl => simp [hr, Except.map] at h
      | error e =>
        simp [hr, Except.map] at h
        subst h
        obtain ⟨h1, h2, h3, h4⟩ := convertAll_first_misfit ps (i + 1) as e hr
        refine ⟨by omega, by simp; omega, ?_, ?_⟩
        · have : e - 1 - i = (e - 1 - (i + 1)) + 1 := by omega
          rw [this]; simpa using h3
        · intro j hj
          cases j with
          | zero => simp [hsome]
          | succ j =>
            have := h4 j (by omega)
            simpa [Nat.add_assoc, Nat.add_comm 1 j] using this

/-! ### registries -/

theorem reg_get_set_same (r : Reg) (k : String) (v : Nat) : (r.set k v).get k = some v := by
  simp [Reg.set, Reg.get]

theorem reg_get_set_other (r : Reg) (k k' : String) (v : Nat) (h : k' ≠ k) : (r.set k v).get k' = r.get k' := by
  have hb : (k == k') = false := by simpa using (Ne.symm h)
  simp only [Reg.set, Reg.get, List.find?_cons, hb]
  congr 1
  induction r with
  | nil => rfl
  | cons p ps ih =>
    simp only [List.filter_cons]
    by_cases hp : (p.1 != k) = true
    · simp only [hp, if_true, List.find?_cons]
      split
      · rfl
      · exact ih
    · simp only [hp]
      have hpk : p.1 = k := by simpa using hp
      have : (p.1 == k') = false := by rw [hpk]; exact hb
      simp [List.find?_cons, this, ih]

/-- a registration on expression `e` is visible on `e` … -/
theorem regLocal_same (w : World) (e : Nat) (k : String) (v : Nat) (he : e < w.exprs.length) :
    lookup (step w (.regLocal e k v)) e k = some v := by
  simp [lookup, step, List.getD, List.getElem?_modify, he, reg_get_set_same]

/-- … leaves `e`'s other names alone … -/
theorem regLocal_other_name (w : World) (e : Nat) (k k' : String) (v : Nat) (h : k' ≠ k) :
    lookup (step w (.regLocal e k v)) e k' = lookup w e k' := by
  by_cases he : e < w.exprs.length
  · simp [lookup, step, List.getD, List.getElem?_modify, he, reg_get_set_other _ _ _ _ h]
  · have : w.exprs.modify e (·.set k v) = w.exprs := by
      apply List.ext_getElem?
      intro i
      simp only [List.getElem?_modify]
      by_cases hi : e = i
      · subst hi; simp [List.getElem?_eq_none (by omega : w.exprs.length ≤ e)]
      · simp [hi]
    simp [lookup, step, this]

/-- … and is invisible from every other expression -/
theorem regLocal_other_expr (w : World) (e e' : Nat) (k k' : String) (v : Nat) (h : e' ≠ e) :
    lookup (step w (.regLocal e k v)) e' k' = lookup w e' k' := by
  simp [lookup, step, List.getD, List.getElem?_modify, Ne.symm h]

/-- a package-level registration does not change any existing expression -/
theorem regGlobal_existing (w : World) (e : Nat) (k k' : String) (v : Nat) :
    lookup (step w (.regGlobal k v)) e k' = lookup w e k' := rfl

/-- Compile: the new expression sees exactly the package level of that moment; the others are unchanged -/
theorem compile_snapshot (w : World) (k : String) :
    lookup (step w .compile) w.exprs.length k = w.global.get k ∧
    ∀ e, e < w.exprs.length → lookup (step w .compile) e k = lookup w e k := by
  constructor
  · simp [lookup, step, List.getD]
  · intro e he
    simp [lookup, step, List.getD, List.getElem?_append_left he]

/-- **Visibility over histories.**  Whatever happens afterwards — any number of package-level
    registrations, compilations and registrations on other expressions — an existing
    expression's view of a name only changes through a registration on that expression. -/
theorem view_stable (e : Nat) (k : String) : ∀ (ops : List Op) (w : World), e < w.exprs.length →
    (∀ op ∈ ops, ∀ k' v, op ≠ .regLocal e k' v ∨ k' ≠ k) →
    lookup (ops.foldl step w) e k = lookup w e k
  | [], _, _, _ => rfl
  | op :: ops, w, he, h => by
    have hlen : e < (step w op).exprs.length := by
      cases op <;> simp [step] <;> omega
    rw [List.foldl_cons, view_stable e k ops (step w op) hlen (fun o ho => h o (List.mem_cons_of_mem _ ho))]
    cases op with
    | regGlobal k' v => rfl
    | compile => exact (compile_snapshot w k).2 e he
    | regLocal e' k' v =>
      by_cases hee : e = e'
      · subst hee
        have := h (.regLocal e k' v) (by simp) k' v
        have hk : k' ≠ k := by
          rcases this with h1 | h1
          · exact absurd rfl h1
          · exact h1
        exact regLocal_other_name w e k' k v (Ne.symm hk)
      · exact regLocal_other_expr w e' e k' k v hee

/-- expressions compiled later see the package-level registration made before their compilation -/
theorem global_then_compile (w : World) (k : String) (v : Nat) :
    lookup (step (step w (.regGlobal k v)) .compile) w.exprs.length k = some v := by
  have := (compile_snapshot (step w (.regGlobal k v)) k).1
  simp only [step] at this ⊢
  rw [this]
  exact reg_get_set_same _ _ _

/-! ### registration-time validation -/

theorem validParams_rules :
    validParams [.f64, .opt .int] false = true ∧ validParams [.opt .int, .f64] false = false ∧
    validParams [.opt (.opt .f64)] false = false ∧ validParams [.f64, .opt .int] true = false ∧
    validParams [.f64, .str] true = true ∧ validParams [] false = true := by decide

theorem validName_rules :
    validName "" = false ∧ validName "a b" = false ∧ validName "a-b" = false ∧ validName "$x" = false ∧
    validName "x.y" = false ∧ validName "a_1" = true ∧ validName "_" = true ∧ validName "9" = true := by decide

/-! ### regenerated facts -/

/-- the package-level registry is copied under the read lock (by Compile, or by the helper it calls: the
    function is not named here, so that moving the locking into a helper raises no alarm); package-level
    registration writes it under the write lock (handing the registry to a helper by address counts as writing
    it); every function that touches it locks before the first use and unlocks -/
theorem fact_registry_locking :
    Generated.registryLocking.all (fun r => r.2.2.1 && r.2.2.2.1 && (!r.2.2.2.2 || r.2.1 == "W")) = true ∧
    Generated.registryLocking.any (fun r => r.2.1 == "R" && !r.2.2.2.2) = true ∧
    Generated.registryLocking.any (fun r => r.2.2.2.2) = true := by
  decide

/-- a new evaluation environment is built for each Eval and the expression's registry is bound into it (the
    inlined trace of Eval stores into an environment's frame and calls the clock once for `$now`/`$millis`); that
    the built-ins of the base environment are visible in it is the correspondence's part -/
theorem fact_env_assembly :
    Generated.exprEvalEvents.contains "write:recv:environment" = true ∧ Generated.exprEvalEvents.contains "call:Now" = true := by
  decide

/-! ### non-vacuity -/

example : (match call (N := Int) { params := [.f64, .opt .str], variadic := false, ch := .none_, uh := .none_ } none [some (.num 3)] with
    | .called [.f64 3, .optUnset] => true | _ => false) = true := by decide
example : (match call (N := Int) { params := [.str], variadic := false, ch := .none_, uh := .none_ } none [some (.num 3)] with
    | .argType 1 => true | _ => false) = true := by decide
example : (match call (N := Int) { params := [.str], variadic := false, ch := .whenNoArgs, uh := .none_ } (some (.str "c")) [] with
    | .called [.str "c"] => true | _ => false) = true := by decide
example : lookup ([Op.regGlobal "a" 1, .compile, .regGlobal "a" 2, .compile, .regLocal 0 "a" 3].foldl step {}) 0 "a" = some 3 ∧
    lookup ([Op.regGlobal "a" 1, .compile, .regGlobal "a" 2, .compile, .regLocal 0 "a" 3].foldl step {}) 1 "a" = some 2 := by decide

end Jsonata.Props.C20
