/-
  Props/C14.lean — property C14: object construction, grouping and the object functions
  share one object model.  Grouping is a partition law: every item lands in exactly one
  group, groups keep the input order, nothing is dropped or duplicated.
-/
import JsonataModel.Model.Interp
import JsonataModel.Lemmas.Monad

namespace Jsonata.Props.C14
open Jsonata NumSys

variable {N : Type} [NumSys N]

/-! ### grouping -/

/-- the pure content of the grouping pass for one computed key: fold `groupAddKey` over the
    item positions `j, j+1, …` whose key strings are `keys` -/
def groupFold (pair : Nat) : Nat → List String → List KeyIdx → Except Err (List KeyIdx)
  | _, [], groups => .ok groups
  | j, k :: ks, groups =>
    match groupAddKey groups k pair j with
    | .ok g => groupFold pair (j + 1) ks g
    | .error e => .error e

/-- the evaluator's loop is that fold whenever the key expression yields strings -/
theorem groupItemsLoop_eq_fold (ev : Option (Val N) → EvalM N (Option (Val N)))
    (kf : Option (Val N) → String) (hev : PureEv ev (fun x => some (.str (kf x))))
    (pair : Nat) (items : List (Option (Val N))) (j : Nat) (groups : List KeyIdx) (s : Store N) :
    (∃ s', groupItemsLoop ev pair j items groups s = .ok (
        (match groupFold pair j (items.map kf) groups with | .ok g => g | .error _ => []), s') ∧
        ∃ g, groupFold pair j (items.map kf) groups = .ok g) ∨
    (∃ e, groupFold pair j (items.map kf) groups = .error e ∧
        groupItemsLoop ev pair j items groups s = .error e) := by
  induction items generalizing j groups s with
  | nil => exact Or.inl ⟨s, by simp [groupItemsLoop, groupFold], _, rfl⟩
  | cons x xs ih =>
    obtain ⟨s1, h1⟩ := hev x s
    cases hg : groupAddKey groups (kf x) pair j with
    | error e =>
      right
      exact ⟨e, by simp [groupFold, hg], by simp [groupItemsLoop, h1, hg]⟩
    | ok g =>
      rcases ih (j + 1) g s1 with ⟨s2, h2, g', hg'⟩ | ⟨e, he, h2⟩
      · left
        refine ⟨s2, ?_, g', by simp [groupFold, hg, hg']⟩
        simp [groupItemsLoop, h1, hg, groupFold, h2]
      · right
        exact ⟨e, by simp [groupFold, hg, he], by simp [groupItemsLoop, h1, hg, h2]⟩

/-- a key that is not a string is an error -/
theorem group_illegal_key (ev : Option (Val N) → EvalM N (Option (Val N))) (pair j : Nat)
    (x : Option (Val N)) (xs : List (Option (Val N))) (groups : List KeyIdx) (s s1 : Store N)
    (v : Option (Val N)) (hv : ev x s = .ok (v, s1)) (hns : ∀ k, v ≠ some (.str k)) :
    groupItemsLoop ev pair j (x :: xs) groups s = .error (.eval .illegalKey) := by
  simp only [groupItemsLoop, evalM_bind, hv]
  rcases v with _ | v
  · rfl
  · cases v <;> first | rfl | exact absurd rfl (hns _)

/-- the positions a grouping assigns to key `k` -/
def itemsOf (groups : List KeyIdx) (k : String) : List Nat :=
  match groups.find? (fun g => g.key == k) with
  | some g => g.items
  | none => []

/-- invariant of the fold after the positions `< m` have been processed (all groups made by
    this pair): the group of key `k` holds exactly the positions whose key is `k`, in
    increasing order; no key has two groups; no group is empty -/
structure GroupsOK (kf : Nat → String) (pair m : Nat) (groups : List KeyIdx) : Prop where
  pairs : ∀ g ∈ groups, g.pair = pair
  items : ∀ k, itemsOf groups k = (List.range m).filter (fun j => kf j == k)
  nonempty : ∀ g ∈ groups, g.items ≠ []
  nodup : (groups.map (·.key)).Nodup

theorem range_succ_filter (m : Nat) (p : Nat → Bool) :
    (List.range (m + 1)).filter p = (List.range m).filter p ++ (if p m then [m] else []) := by
  rw [List.range_succ, List.filter_append]
  by_cases h : p m = true <;> simp [h]

theorem groupsOK_empty (kf : Nat → String) (pair : Nat) : GroupsOK kf pair 0 [] :=
  ⟨by simp, by simp [itemsOf], by simp, by simp⟩

/-- the update `groupAddKey` applies to the group of an existing key -/
def bump (key : String) (m : Nat) (g : KeyIdx) : KeyIdx :=
  if g.key == key then { g with items := g.items ++ [m] } else g

theorem bump_key (key : String) (m : Nat) (g : KeyIdx) : (bump key m g).key = g.key := by
  unfold bump; split <;> rfl

theorem bump_pair (key : String) (m : Nat) (g : KeyIdx) : (bump key m g).pair = g.pair := by
  unfold bump; split <;> rfl

/-- one step of the fold preserves the invariant and never fails within one pair -/
theorem groupAddKey_ok (kf : Nat → String) (pair m : Nat) (groups : List KeyIdx)
    (h : GroupsOK kf pair m groups) :
    ∃ g', groupAddKey groups (kf m) pair m = .ok g' ∧ GroupsOK kf pair (m + 1) g' := by
  unfold groupAddKey
  cases hf : groups.find? (fun g => g.key == kf m) with
  | none =>
    have hnone : (List.range m).filter (fun j => kf j == kf m) = [] := by
      rw [← h.items (kf m)]; simp [itemsOf, hf]
    refine ⟨_, rfl, ?_⟩
    constructor
    · intro g hg
      rcases List.mem_append.mp hg with hg | hg
      · exact h.pairs g hg
      · simp at hg; subst hg; rfl
    · intro k
      rw [range_succ_filter, ← h.items k]
      unfold itemsOf
      rw [List.find?_append]
      cases hk : groups.find? (fun g => g.key == k) with
      | some g =>
        -- k has a group already, so k ≠ kf m
        have : (kf m == k) = false := by
          rw [Bool.eq_false_iff]
          intro hc
          have hc' : kf m = k := by simpa using hc
          subst hc'
          rw [hf] at hk
          cases hk
        simp [this]
      | none =>
        by_cases hkm : kf m = k
        · subst hkm; simp
        · have h1 : (kf m == k) = false := by simpa using hkm
          simp [h1]
    · intro g hg
      rcases List.mem_append.mp hg with hg | hg
      · exact h.nonempty g hg
      · simp at hg; subst hg; simp
    · rw [List.map_append, List.nodup_append]
      refine ⟨h.nodup, by simp, ?_⟩
      intro a ha b hb
      simp at hb; subst hb
      obtain ⟨g, hg, hk⟩ := List.mem_map.mp ha
      intro hc
      have := List.find?_eq_none.mp hf g hg
      rw [← hk] at hc
      simp [hc] at this
  | some g0 =>
    have hg0 : g0 ∈ groups := List.mem_of_find?_eq_some hf
    have hp : (g0.pair != pair) = false := by simp [h.pairs g0 hg0]
    simp only [hp, Bool.false_eq_true, if_false]
    refine ⟨groups.map (bump (kf m) m), rfl, ?_⟩
    constructor
    · intro g hg
      obtain ⟨g1, hg1, rfl⟩ := List.mem_map.mp hg
      rw [bump_pair]; exact h.pairs g1 hg1
    · intro k
      rw [range_succ_filter, ← h.items k]
      unfold itemsOf
      rw [List.find?_map]
      have hcomp : ((fun g => g.key == k) ∘ bump (kf m) m) = (fun g => g.key == k) := by
        funext g; simp [Function.comp, bump_key]
      rw [hcomp]
      cases hk : groups.find? (fun g => g.key == k) with
      | none =>
        have : (kf m == k) = false := by
          rw [Bool.eq_false_iff]
          intro hc
          have hc' : kf m = k := by simpa using hc
          subst hc'
          rw [hf] at hk
          cases hk
        simp [this]
      | some g =>
        have hgk : g.key = k := by simpa using List.find?_some hk
        simp only [Option.map_some]
        by_cases hkm : kf m = k
        · subst hkm; simp [bump, hgk]
        · have h1 : (kf m == k) = false := by simpa using hkm
          have h2 : (g.key == kf m) = false := by
            rw [hgk]; simpa using (fun hc : k = kf m => hkm hc.symm)
          simp [bump, h1, h2]
    · intro g hg
      obtain ⟨g1, hg1, rfl⟩ := List.mem_map.mp hg
      have := h.nonempty g1 hg1
      unfold bump; split <;> simp [this]
    · have : (groups.map (bump (kf m) m)).map (·.key) = groups.map (·.key) := by
        rw [List.map_map]; congr 1; funext g; simp [Function.comp, bump_key]
      rw [this]; exact h.nodup

/-- **Grouping is a partition.** Folding any number of items (one computed key pair) never
    fails and yields: one group per distinct key, and the group of key `k` holds exactly the
    positions of the items whose key is `k`, in input order. -/
theorem groupFold_partition (kf : Nat → String) (pair n m : Nat) (groups : List KeyIdx)
    (h : GroupsOK kf pair m groups) :
    ∃ g', groupFold pair m ((List.range' m n).map kf) groups = .ok g' ∧ GroupsOK kf pair (m + n) g' := by
  induction n generalizing m groups with
  | zero => exact ⟨groups, by simp [groupFold], by simpa using h⟩
  | succ n ih =>
    obtain ⟨g1, hg1, hok1⟩ := groupAddKey_ok kf pair m groups h
    obtain ⟨g2, hg2, hok2⟩ := ih (m + 1) g1 hok1
    refine ⟨g2, ?_, by have : m + (n + 1) = m + 1 + n := by omega
                       rw [this]; exact hok2⟩
    simp [List.range'_succ, groupFold, hg1, hg2]

/-- every item lands in exactly one group, exactly once -/
theorem group_each_item_once (kf : Nat → String) (pair n : Nat) (groups : List KeyIdx)
    (h : GroupsOK kf pair n groups) (j : Nat) (hj : j < n) :
    (itemsOf groups (kf j)).count j = 1 ∧ ∀ k, k ≠ kf j → j ∉ itemsOf groups k := by
  constructor
  · rw [h.items]
    have hnd : (List.range n).Nodup := List.nodup_range
    have hmem : j ∈ (List.range n).filter (fun i => kf i == kf j) := by
      simp [List.mem_filter, hj]
    have hnf : ((List.range n).filter (fun i => kf i == kf j)).Nodup := hnd.filter _
    rw [List.Nodup.count hnf, if_pos hmem]
  · intro k hk
    rw [h.items]
    simp [List.mem_filter]
    intro _ hc
    exact absurd hc.symm hk

/-- positions inside a group are strictly increasing (input order is kept) -/
theorem group_order (kf : Nat → String) (pair n : Nat) (groups : List KeyIdx)
    (h : GroupsOK kf pair n groups) (k : String) :
    (itemsOf groups k).Pairwise (· < ·) := by
  rw [h.items]
  exact (List.pairwise_lt_range).filter _

/-- two different key/value pairs producing one key is an error -/
theorem group_duplicate_key (groups : List KeyIdx) (g : KeyIdx) (key : String) (pair j : Nat)
    (hf : groups.find? (fun g => g.key == key) = some g) (hp : g.pair ≠ pair) :
    groupAddKey groups key pair j = .error (.eval .duplicateKey) := by
  simp [groupAddKey, hf, hp]

/-- a literal key used twice is an error -/
theorem literal_duplicate_key (r : Rec N) (env : Nat) (items : List (Option (Val N))) (i : Nat)
    (key : String) (v : Node N) (rest : List (Node N × Node N)) (groups : List KeyIdx) (s : Store N)
    (h : groups.any (fun g => g.key == key) = true) :
    groupPairsLoop r env items i ((.str key, v) :: rest) groups s = .error (.eval .duplicateKey) := by
  simp [groupPairsLoop, h]

/-! ### object functions -/

/-- `$keys` lists each member name of an object exactly once when the object has no duplicate
    keys, and of an array of objects: the distinct names, first occurrence first -/
theorem keys_object (kvs : List (String × Val N)) : keysOf (.obj kvs) = kvs.map (·.1) := by
  simp [keysOf]

theorem dedupStr_nodup (ks seen : List String) :
    (dedupStr ks seen).Nodup ∧ ∀ k ∈ dedupStr ks seen, k ∉ seen ∧ k ∈ ks := by
  induction ks generalizing seen with
  | nil => simp [dedupStr]
  | cons k ks ih =>
    unfold dedupStr
    by_cases hc : seen.contains k = true
    · simp only [hc, if_true]
      obtain ⟨h1, h2⟩ := ih seen
      exact ⟨h1, fun x hx => ⟨(h2 x hx).1, List.mem_cons_of_mem _ (h2 x hx).2⟩⟩
    · have hc' : seen.contains k = false := by simpa using hc
      simp only [hc', Bool.false_eq_true, if_false]
      obtain ⟨h1, h2⟩ := ih (k :: seen)
      refine ⟨List.nodup_cons.mpr ⟨?_, h1⟩, ?_⟩
      · intro hk
        have := (h2 k hk).1
        simp at this
      · intro x hx
        rcases List.mem_cons.mp hx with rfl | hx
        · exact ⟨by simpa using hc', by simp⟩
        · have := h2 x hx
          exact ⟨fun hm => this.1 (List.mem_cons_of_mem _ hm), List.mem_cons_of_mem _ this.2⟩

theorem dedupStr_complete (ks seen : List String) (k : String) (hk : k ∈ ks) (hs : k ∉ seen) :
    k ∈ dedupStr ks seen := by
  induction ks generalizing seen with
  | nil => cases hk
  | cons a as ih =>
    unfold dedupStr
    by_cases hc : seen.contains a = true
    · simp only [hc, if_true]
      rcases List.mem_cons.mp hk with rfl | hk'
      · exact absurd (by simpa using hc) hs
      · exact ih seen hk' hs
    · have hc' : seen.contains a = false := by simpa using hc
      simp only [hc', Bool.false_eq_true, if_false]
      rcases List.mem_cons.mp hk with rfl | hk'
      · simp
      · by_cases hka : k = a
        · subst hka; simp
        · exact List.mem_cons_of_mem _ (ih (a :: seen) hk' (by simp [hka, hs]))

/-- `$keys` of an array: each distinct member name exactly once, none missing -/
theorem keys_array_nodup_complete (xs : List (Val N)) :
    (keysOf (.arr xs)).Nodup ∧ ∀ k, k ∈ keysOf (.arr xs) ↔ k ∈ keysOfL xs := by
  simp only [keysOf]
  refine ⟨(dedupStr_nodup _ _).1, fun k => ⟨fun h => ((dedupStr_nodup _ _).2 k h).2, fun h => ?_⟩⟩
  exact dedupStr_complete _ _ k h (by simp)

/-- `$spread` yields one single-member object per member -/
theorem spread_object (kvs : List (String × Val N)) :
    spreadOf (.obj kvs) = .inr (kvs.map fun p => .obj [p]) := by
  simp [spreadOf, spreadItems]

theorem spread_count_eq_keys_count (kvs : List (String × Val N)) :
    (spreadItems (.obj kvs)).length = (keysOf (.obj kvs)).length := by
  simp [spreadItems, keysOf]

/-- association-list facts -/
theorem objGet_objSet_same (kvs : List (String × Val N)) (k : String) (v : Val N) :
    objGet (objSet kvs k v) k = some v := by
  unfold objSet objGet
  by_cases h : kvs.any (fun p => p.1 == k) = true
  · simp only [h, if_true]
    induction kvs with
    | nil => simp at h
    | cons p ps ih =>
      by_cases hp : p.1 = k
      · simp [hp]
      · have hp' : (p.1 == k) = false := by simpa using hp
        simp only [List.any_cons, hp', Bool.false_or] at h
        simp only [List.map_cons, hp', Bool.false_eq_true, if_false, List.find?_cons]
        exact ih h
  · have h' : kvs.any (fun p => p.1 == k) = false := Bool.eq_false_iff.mpr h
    simp only [h', Bool.false_eq_true, if_false]
    rw [List.find?_append]
    have : kvs.find? (fun p => p.1 == k) = none := by
      apply List.find?_eq_none.mpr
      intro p hp
      have := List.any_eq_false.mp h' p hp
      simpa using this
    simp [this]

theorem objGet_map_set_other (kvs : List (String × Val N)) (k k' : String) (v : Val N) (hne : k' ≠ k) :
    objGet (kvs.map (fun p => if p.1 == k then (k, v) else p)) k' = objGet kvs k' := by
  have hne' : (k == k') = false := by simpa using (fun h : k = k' => hne h.symm)
  induction kvs with
  | nil => rfl
  | cons p ps ih =>
    unfold objGet at ih ⊢
    by_cases hp : p.1 = k
    · have hpk' : (p.1 == k') = false := by rw [hp]; exact hne'
      simp only [List.map_cons, hp, beq_self_eq_true, if_true, List.find?_cons, hne', hpk']
      exact ih
    · have hp' : (p.1 == k) = false := by simpa using hp
      simp only [List.map_cons, hp', Bool.false_eq_true, if_false, List.find?_cons]
      cases hpk : (p.1 == k')
      · simpa using ih
      · simp

theorem objGet_objSet_other (kvs : List (String × Val N)) (k k' : String) (v : Val N) (hne : k' ≠ k) :
    objGet (objSet kvs k v) k' = objGet kvs k' := by
  have hne' : (k == k') = false := by simpa using (fun h : k = k' => hne h.symm)
  unfold objSet
  by_cases h : kvs.any (fun p => p.1 == k) = true
  · simp only [h, if_true]
    exact objGet_map_set_other kvs k k' v hne
  · have h' : kvs.any (fun p => p.1 == k) = false := Bool.eq_false_iff.mpr h
    simp only [h', Bool.false_eq_true, if_false]
    unfold objGet
    rw [List.find?_append]
    cases hf : kvs.find? (fun p => p.1 == k') <;> simp [hne']

theorem libMerge_arr (xs : List (Val N)) (h : xs.all Val.isObj = true) :
    libMerge (N := N) (.arr xs) = .ok (some (.obj (xs.foldl mergeInto []))) := by
  simp [libMerge, h]

/-- `$merge`: later objects take precedence -/
theorem merge_later_wins (a b : List (String × Val N)) (k : String) (v : Val N)
    (hb : objGet b k = some v) (hnd : (b.map (·.1)).Nodup) :
    ∃ m, libMerge (N := N) (.arr [.obj a, .obj b]) = .ok (some (.obj m)) ∧ objGet m k = some v := by
  refine ⟨_, libMerge_arr _ (by simp [Val.isObj]), ?_⟩
  simp only [List.foldl_cons, List.foldl_nil, mergeInto]
  -- folding b's members into any accumulator leaves k ↦ v
  generalize (a.foldl (fun a p => objSet a p.1 p.2) ([] : List (String × Val N))) = acc
  induction b generalizing acc with
  | nil => simp [objGet] at hb
  | cons p ps ih =>
    simp only [List.map_cons, List.nodup_cons] at hnd
    simp only [List.foldl_cons]
    by_cases hpk : p.1 = k
    · -- k is set here and not touched later (keys of b are distinct)
      have hv : p.2 = v := by
        simp [objGet, hpk] at hb; exact hb
      have later : ∀ (qs : List (String × Val N)) (acc' : List (String × Val N)),
          (∀ q ∈ qs, q.1 ≠ k) → objGet acc' k = some v →
          objGet (qs.foldl (fun a p => objSet a p.1 p.2) acc') k = some v := by
        intro qs
        induction qs with
        | nil => intro acc' _ h; exact h
        | cons q qs ihq =>
          intro acc' hq h
          simp only [List.foldl_cons]
          apply ihq
          · exact fun x hx => hq x (List.mem_cons_of_mem _ hx)
          · rw [objGet_objSet_other _ _ _ _ (Ne.symm (hq q (by simp)))]
            exact h
      apply later
      · intro q hq hqk
        apply hnd.1
        rw [hpk, ← hqk]
        exact List.mem_map.mpr ⟨q, hq, rfl⟩
      · rw [hpk, hv]; exact objGet_objSet_same _ _ _
    · apply ih
      · have hpk' : (p.1 == k) = false := by simpa using hpk
        simpa [objGet, hpk'] using hb
      · exact hnd.2

/-- `$merge($spread(o)) = o` for an object without duplicate keys -/
theorem merge_spread_id (kvs : List (String × Val N)) (hnd : (kvs.map (·.1)).Nodup) :
    libMerge (N := N) (.arr (spreadItems (.obj kvs))) = .ok (some (.obj kvs)) := by
  have hall : (spreadItems (Val.obj kvs)).all Val.isObj = true := by
    simp [spreadItems, List.all_map, Val.isObj]
  rw [libMerge_arr _ hall]
  congr 3
  -- folding the singletons rebuilds the list
  have gen : ∀ (rest acc : List (String × Val N)),
      ((acc ++ rest).map (·.1)).Nodup →
      (rest.map fun p => Val.obj [p]).foldl mergeInto acc = acc ++ rest := by
    intro rest
    induction rest with
    | nil => intro acc _; simp
    | cons p ps ih =>
      intro acc hn
      simp only [List.map_cons, List.foldl_cons, mergeInto, List.foldl_nil]
      have hnotin : acc.any (fun q => q.1 == p.1) = false := by
        rw [List.any_eq_false]
        intro q hq
        simp only [List.map_append, List.map_cons, List.nodup_append] at hn
        have := hn.2.2 q.1 (List.mem_map.mpr ⟨q, hq, rfl⟩) p.1 (by simp)
        simpa using this
      have hset : objSet acc p.1 p.2 = acc ++ [p] := by simp [objSet, hnotin]
      rw [hset, ih (acc ++ [p]) (by simpa using hn)]
      simp
  simpa [spreadItems] using gen kvs [] (by simpa using hnd)

/-- `$lookup(o, k)` is the field selection of `k` on `o` -/
theorem lookup_eq_field (r : Rec N) (v : Option (Val N)) (k : String) (s : Store N) :
    builtinImpl r "lookup" [v, some (.str k)] s = .ok (evalName k v, s) := by
  rfl

/-! ### non-vacuity -/

example : groupFold 0 0 ["p", "q", "p"] [] =
    .ok [{ key := "p", pair := 0, items := [0, 2] }, { key := "q", pair := 0, items := [1] }] := by
  simp [groupFold, groupAddKey]

end Jsonata.Props.C14
