/-
  Props/C03.lean — property C03: operators compute their defined results;
  missing / wrong-typed operands are handled as the statement says.
  Property theorems only; every statement is for all operand values.
-/
import JsonataModel.Model.Interp
import JsonataModel.Spec.Ops
import JsonataModel.Generated.Facts

namespace Jsonata.Props.C03
open Jsonata Jsonata.Spec NumSys

variable {N : Type} [NumSys N]

/-! ### arithmetic -/

/-- Two numbers: the IEEE result of the operator, or an error when it is infinite or NaN. -/
theorem numeric_compute (op : NumOp) (a b : N) :
    numericOp op (some (.num a)) (some (.num b)) = arithResult op a b := by
  cases op <;> rfl

/-- The whole operator × kind × kind table of the arithmetic operators. -/
theorem numeric_table (op : NumOp) (l r : Option (Val N)) :
    match arithClass (kindOf l) (kindOf r) with
    | .compute => ∃ a b, l = some (.num a) ∧ r = some (.num b) ∧ numericOp op l r = arithResult op a b
    | .noValue => numericOp op l r = .ok none
    | .err k => numericOp op l r = .error (.eval k)
    | .constFalse => False := by
  rcases l with _ | l <;> rcases r with _ | r
  · simp [kindOf, arithClass, numericOp]
  · cases r <;> simp [kindOf, arithClass, numericOp]
  · cases l <;> simp [kindOf, arithClass, numericOp]
  · cases l <;> cases r <;> first
      | exact ⟨_, _, rfl, rfl, numeric_compute op _ _⟩
      | simp [kindOf, arithClass, numericOp]

/-- An arithmetic error is never a value, and a value is always a finite number. -/
theorem numeric_value_is_finite (op : NumOp) (l r : Option (Val N)) (v : Val N)
    (h : numericOp op l r = .ok (some v)) :
    ∃ x, v = .num x ∧ isInf x = false ∧ isNaN x = false := by
  rcases l with _ | l <;> rcases r with _ | r
  · simp [numericOp] at h
  · cases r <;> simp [numericOp] at h
  · cases l <;> simp [numericOp] at h
  · cases l <;> cases r <;> simp [numericOp] at h
    rename_i a b
    by_cases h1 : isInf (numOpApply op a b) = true
    · simp [h1] at h
    · by_cases h2 : isNaN (numOpApply op a b) = true
      · simp [h1, h2] at h
      · simp [h1, h2] at h
        exact ⟨_, h.symm, by simpa using h1, by simpa using h2⟩

/-- Unary minus: negation of a number, no value for a missing operand, an error otherwise. -/
theorem negation_table (v : Option (Val N)) :
    match kindOf v with
    | .num => ∃ a, v = some (.num a) ∧ negateOp v = .ok (some (.num (neg a)))
    | .missing => negateOp v = .ok none
    | _ => negateOp v = .error (.eval .nonNumberRHS) := by
  rcases v with _ | v
  · simp [kindOf, negateOp]
  · cases v <;> simp [kindOf, negateOp]

/-! ### comparisons -/

def isOrdering : CmpOp → Bool
  | .lt | .le | .gt | .ge => true
  | _ => false

/-- The operator × kind × kind table of `< <= > >=`. -/
theorem ordering_table (op : CmpOp) (hop : isOrdering op = true) (l r : Option (Val N)) :
    match orderClass (kindOf l) (kindOf r) with
    | .compute => ∃ b, comparisonOp op l r = .ok (some (.bool b))
    | .constFalse => comparisonOp op l r = .ok (some (.bool false))
    | .err k => comparisonOp op l r = .error (.eval k)
    | .noValue => False := by
  cases op <;> simp [isOrdering] at hop <;>
  (rcases l with _ | l <;> rcases r with _ | r
   · simp [kindOf, orderClass, comparisonOp, needComparable]
   · cases r <;> simp [kindOf, orderClass, comparisonOp, needComparable, isNumOrStr]
   · cases l <;> simp [kindOf, orderClass, comparisonOp, needComparable, isNumOrStr]
   · cases l <;> cases r <;>
       simp [kindOf, orderClass, comparisonOp, needComparable, isNumOrStr, Val.isNum])

/-- Two numbers are ordered numerically, two strings by code point (`String`'s order). -/
theorem ordering_numbers (a b : N) :
    comparisonOp .lt (some (.num a)) (some (.num b)) = .ok (some (.bool (lt a b))) ∧
    comparisonOp .ge (some (.num a)) (some (.num b)) = .ok (some (.bool (!lt a b))) ∧
    comparisonOp .le (some (.num a)) (some (.num b)) = .ok (some (.bool (lt a b || beq a b))) ∧
    comparisonOp .gt (some (.num a)) (some (.num b)) = .ok (some (.bool (!(lt a b || beq a b)))) := by
  simp [comparisonOp, needComparable, isNumOrStr, Val.isNum, valLt, valEq]

theorem ordering_strings (a b : String) :
    comparisonOp (N := N) .lt (some (.str a)) (some (.str b)) = .ok (some (.bool (decide (a < b)))) ∧
    comparisonOp (N := N) .le (some (.str a)) (some (.str b)) = .ok (some (.bool (decide (a < b) || a == b))) := by
  simp [comparisonOp, needComparable, isNumOrStr, Val.isNum, valLt, valEq]

/-- `= != in` never fail; a missing operand makes them false. -/
theorem equality_table (op : CmpOp) (hop : isOrdering op = false) (l r : Option (Val N)) :
    match equalityClass (kindOf l) (kindOf r) with
    | .constFalse => comparisonOp op l r = .ok (some (.bool false))
    | _ => ∃ a b, l = some a ∧ r = some b ∧
        comparisonOp op l r = .ok (some (.bool (match op with
          | .in_ => memberOf a b
          | .ne => !valEq a b
          | _ => valEq a b))) := by
  cases op <;> simp [isOrdering] at hop <;>
  (rcases l with _ | l <;> rcases r with _ | r
   · simp [kindOf, equalityClass, comparisonOp, needComparable]
   · simp [kindOf, equalityClass, comparisonOp, needComparable]
   · cases l <;> simp [kindOf, equalityClass, comparisonOp, needComparable]
   · cases l <;> cases r <;>
       simp [kindOf, equalityClass, comparisonOp, needComparable, valIn, memberOf, arrayify])

/-- numbers, strings and booleans are compared by value -/
theorem eq_scalars (a b : N) (s t : String) (p q : Bool) :
    valEq (.num a) (.num b) = beq a b ∧ valEq (N := N) (.str s) (.str t) = (s == t) ∧
    valEq (N := N) (.bool p) (.bool q) = (p == q) ∧ valEq (N := N) .null .null = true ∧
    valEq (.num a) (.str s) = false ∧ valEq (N := N) (.str s) (.bool p) = false := by
  simp [valEq]

/-- arrays are compared member by member, in order -/
theorem eq_arrays (x y : Val N) (xs ys : List (Val N)) :
    valEq (.arr (x :: xs)) (.arr (y :: ys)) = (valEq x y && valEq (.arr xs) (.arr ys)) ∧
    valEq (N := N) (.arr []) (.arr []) = true ∧
    valEq (.arr (x :: xs)) (.arr []) = false ∧ valEq (.arr []) (.arr (y :: ys)) = false := by
  simp [valEq, listEq]

/-! ### boolean operators, concatenation -/

theorem boolean_ops (l r : Option (Val N)) :
    booleanOp .and_ l r = .bool (truthyO l && truthyO r) ∧
    booleanOp .or_ l r = .bool (truthyO l || truthyO r) := by
  simp [booleanOp]

/-- the boolean cast of each kind -/
theorem boolean_cast (b : Bool) (s : String) (x : N) (kvs : List (String × Val N)) :
    truthy (N := N) (.bool b) = b ∧ truthy (N := N) (.str s) = (s != "") ∧
    truthy (.num x) = !(beq x (ofInt 0)) ∧ truthy (N := N) .null = false ∧
    truthy (N := N) (.arr []) = false ∧ truthy (.obj kvs) = !kvs.isEmpty ∧
    truthyO (N := N) none = false ∧ truthy (N := N) (.builtin "sum") = false := by
  simp [truthy, truthyAny, truthyO]

theorem boolean_cast_array (x : Val N) (xs : List (Val N)) :
    truthy (.arr (x :: xs)) = (truthy x || truthy (.arr xs)) := by
  simp [truthy, truthyAny]

/-- `&` treats a missing operand as the empty string and a string as itself -/
theorem concat_operands (s : String) :
    stringifyO (N := N) none = .ok "" ∧ stringifyO (N := N) (some (.str s)) = .ok s ∧
    stringifyO (N := N) (some (.builtin "sum")) = .ok "" := by
  simp [stringifyO, stringOf, Val.isFn]

/-! ### ranges -/

theorem rangeList_length (lo : Int) (n : Nat) : (rangeList (N := N) lo n).length = n := by
  induction n generalizing lo with
  | zero => rfl
  | succ k ih => simp [rangeList, ih]

/-- the i-th member of a range is lo + i -/
theorem rangeList_get (lo : Int) (n i : Nat) (h : i < n) :
    (rangeList (N := N) lo n)[i]? = some (.num (ofInt (lo + i))) := by
  induction n generalizing lo i with
  | zero => omega
  | succ k ih =>
    cases i with
    | zero => simp [rangeList]
    | succ j =>
      simp only [rangeList, List.getElem?_cons_succ]
      rw [ih (lo + 1) j (by omega)]
      congr 3
      omega

theorem rangeFromAux_get (a : N) (k n i : Nat) (h : i < n) :
    (rangeFromAux a k n)[i]? = some (.num (add a (ofInt ((k + i : Nat) : Int)))) := by
  induction n generalizing k i with
  | zero => omega
  | succ m ih =>
    cases i with
    | zero => simp [rangeFromAux]
    | succ j =>
      simp only [rangeFromAux, List.getElem?_cons_succ]
      rw [ih (k + 1) j (by omega)]
      congr 5
      omega

/-- the members of a range: the i-th member is the lower bound plus i -/
theorem rangeFrom_get (a : N) (n i : Nat) (h : i < n) :
    (rangeFrom a n)[i]? = some (.num (add a (ofInt (i : Int)))) := by
  have := rangeFromAux_get a 0 n i h
  simpa [rangeFrom] using this

theorem rangeFromAux_length (a : N) (k n : Nat) : (rangeFromAux a k n).length = n := by
  induction n generalizing k with
  | zero => rfl
  | succ m ih => simp [rangeFromAux, ih]

theorem rangeFrom_length (a : N) (n : Nat) : (rangeFrom a n).length = n := rangeFromAux_length a 0 n

/-- `[a..b]` for integers a ≤ b: the integers from a to b; none when a > b; errors for
    non-integer bounds and for more than `maxRangeItems` items. -/
theorem range_numbers (a b : N) :
    rangeOp (some (.num a)) (some (.num b)) =
      if !isIntegerN a then .error (.eval .nonIntegerLHS)
      else if !isIntegerN b then .error (.eval .nonIntegerRHS)
      else if lt b a then .ok none
      else if toInt (sub b a) + 1 < 0 || toInt (sub b a) + 1 > (maxRangeItems : Int)
        then .error (.eval .maxRangeItems)
      else .ok (some (.arr (rangeFrom a (toInt (sub b a) + 1).toNat))) := by
  unfold rangeOp
  by_cases ha : isIntegerN a = true <;> by_cases hb : isIntegerN b = true <;> simp [ha, hb]

/-- a missing bound makes the range empty ('no value') unless the other bound is invalid -/
theorem range_missing (b : N) (hb : isIntegerN b = true) :
    rangeOp (N := N) none (some (.num b)) = .ok none ∧
    rangeOp (some (.num b)) (none : Option (Val N)) = .ok none ∧
    rangeOp (N := N) none none = .ok none := by
  simp [rangeOp, hb]

/-- a bound that is not a number is an error, never a value -/
theorem range_wrong_type (v : Val N) (hv : v.isNum = false) (r : Option (Val N)) :
    rangeOp (some v) r = .error (.eval .nonIntegerLHS) := by
  cases v <;> simp_all [rangeOp, Val.isNum]

/-! ### the conditional is lazy -/

/-- When the condition is truthy the result is the then-branch evaluated in the state the
    condition left; the else-branch is not consulted at all (any two else-branches give the
    same outcome *and* the same state). -/
theorem cond_true_ignores_else (r : Rec N) (c t : Node N) (e e' : Option (Node N))
    (d : Option (Val N)) (env : Nat) (s s' : Store N) (cv : Option (Val N))
    (hc : (r.ev c d env).run s = .ok (cv, s')) (ht : truthyO cv = true) :
    (evalNode r (.cond c t e) d env).run s = (r.ev t d env).run s' ∧
    (evalNode r (.cond c t e) d env).run s = (evalNode r (.cond c t e') d env).run s := by
  have hc' : r.ev c d env s = .ok (cv, s') := hc
  constructor <;>
    simp [evalNode, StateT.run, bind, StateT.bind, Except.bind, hc', ht]

theorem cond_false_ignores_then (r : Rec N) (c t t' : Node N) (e : Node N)
    (d : Option (Val N)) (env : Nat) (s s' : Store N) (cv : Option (Val N))
    (hc : (r.ev c d env).run s = .ok (cv, s')) (ht : truthyO cv = false) :
    (evalNode r (.cond c t (some e)) d env).run s = (r.ev e d env).run s' ∧
    (evalNode r (.cond c t (some e)) d env).run s = (evalNode r (.cond c t' (some e)) d env).run s := by
  have hc' : r.ev c d env s = .ok (cv, s') := hc
  constructor <;>
    simp [evalNode, StateT.run, bind, StateT.bind, Except.bind, hc', ht]

/-- an error in the condition is the outcome -/
theorem cond_error (r : Rec N) (c t : Node N) (e : Option (Node N))
    (d : Option (Val N)) (env : Nat) (s : Store N) (err : Err)
    (hc : (r.ev c d env).run s = .error err) :
    (evalNode r (.cond c t e) d env).run s = .error err := by
  have hc' : r.ev c d env s = .error err := hc
  simp [evalNode, StateT.run, bind, StateT.bind, Except.bind, hc']

/-! ### regenerated facts (the tie to /repo's source) -/

theorem fact_maxRangeItems : Generated.maxRangeItems = maxRangeItems := by decide

/-- the bound is checked in one place, on the size of the range itself (rhs − lhs + 1), with the
    overflow guard — not, for instance, on the length of an array under construction -/
theorem fact_range_guard :
    Generated.rangeGuards = ["size < 0 || size > maxRangeItems | size := int(hi-lo) + 1"] := by decide

def allEvalErrKinds : List EvalErrKind :=
  [.nonIntegerLHS, .nonIntegerRHS, .nonNumberLHS, .nonNumberRHS, .nonComparableLHS,
   .nonComparableRHS, .typeMismatch, .nonCallable, .nonCallableApply, .nonCallablePartial,
   .numberInf, .numberNaN, .maxRangeItems, .illegalKey, .duplicateKey, .clone, .illegalUpdate,
   .illegalDelete, .nonSortable, .sortMismatch]

/-- the evaluator's error enum in error.go is exactly the model's, in the same order -/
theorem fact_evalErrKinds : Generated.evalErrNames = allEvalErrKinds.map EvalErrKind.name := by decide

/-! ### the premises are satisfiable (non-vacuity), on the exact instance `Int` -/

example : numericOp (N := Int) .add (some (.num 2)) (some (.num 3)) = .ok (some (.num 5)) := by rfl
example : numericOp (N := Int) .mod (some (.num (-7))) (some (.num 2)) = .ok (some (.num (-1))) := by rfl
example : numericOp (N := Int) .add (some (.str "a")) (some (.num 3)) = .error (.eval .nonNumberLHS) := by rfl
example : numericOp (N := Int) .add none (some (.str "a")) = .error (.eval .nonNumberRHS) := by rfl
example : comparisonOp (N := Int) .lt (some (.num 1)) (some (.str "a")) = .error (.eval .typeMismatch) := by rfl
example : comparisonOp (N := Int) .in_ (some (.num 2)) (some (.arr [.num 1, .num 2])) = .ok (some (.bool true)) := by
  simp [comparisonOp, needComparable, valIn, arrayify, valEq, NumSys.beq]
example : rangeOp (N := Int) (some (.num 2)) (some (.num 4)) = .ok (some (.arr [.num 2, .num 3, .num 4])) := by rfl
example : rangeOp (N := Int) (some (.num 4)) (some (.num 2)) = .ok none := by rfl
example : rangeOp (N := Int) (some (.num 0)) (some (.num 10000000)) = .error (.eval .maxRangeItems) := by rfl

end Jsonata.Props.C03
