/-
  Props/C12.lean — property C12: lexical scoping, closures, signatures, partial
  application and chaining.
-/
import JsonataModel.Model.Interp
import JsonataModel.Lemmas.Monad
import JsonataModel.Lemmas.Assoc

namespace Jsonata.Props.C12
open Jsonata NumSys

variable {N : Type}

/-! ### the scope chain: frames are only ever appended, and a frame's parent is older -/

/-- every frame's parent was created before the frame itself -/
def WF (s : Store N) : Prop :=
  ∀ i (h : i < s.frames.size), ∀ p, (s.frames[i]).parent = some p → p < i

theorem newFrame_spec (parent : Nat) (s : Store N) :
    ∃ s', newFrame parent s = .ok (s.frames.size, s') ∧
      s'.frames.size = s.frames.size + 1 ∧
      (∀ i (h : i < s.frames.size), s'.frames[i]? = s.frames[i]?) ∧
      s'.frames[s.frames.size]? = some { parent := some parent, syms := [] } := by
  refine ⟨{ frames := s.frames.push { parent := some parent, syms := [] } }, rfl, by simp, ?_, by simp⟩
  intro i h
  simp [Array.getElem?_push, Nat.ne_of_lt h]

theorem newFrame_wf (parent : Nat) (s s' : Store N) (fr : Nat) (hwf : WF s) (hp : parent < s.frames.size)
    (h : newFrame parent s = .ok (fr, s')) : WF s' ∧ fr = s.frames.size := by
  have heq : s' = { frames := s.frames.push { parent := some parent, syms := [] } } ∧ fr = s.frames.size := by
    have : newFrame parent s = .ok (s.frames.size, { frames := s.frames.push { parent := some parent, syms := [] } }) := rfl
    rw [this] at h
    simp only [Except.ok.injEq, Prod.mk.injEq] at h
    exact ⟨h.2.symm, h.1.symm⟩
  obtain ⟨rfl, rfl⟩ := heq
  refine ⟨?_, rfl⟩
  intro i hi p hpar
  simp only [Array.size_push] at hi
  by_cases hlt : i < s.frames.size
  · have : (s.frames.push { parent := some parent, syms := [] })[i] = s.frames[i] := by
      simp [Array.getElem_push, hlt]
    rw [this] at hpar
    exact hwf i hlt p hpar
  · have hi' : i = s.frames.size := by omega
    subst hi'
    simp at hpar
    omega

theorem bindVar_eq (env : Nat) (name : String) (v : Option (Val N)) (s : Store N) :
    bindVar env name v s = .ok ((), match s.frames[env]? with
      | some fr => { frames := s.frames.set! env { fr with syms := bindSyms fr.syms name v } }
      | none => s) := rfl

/-- `bind` changes one symbol of one frame and nothing else -/
theorem bindVar_spec (env : Nat) (name : String) (v : Option (Val N)) (s : Store N) :
    ∃ s', bindVar env name v s = .ok ((), s') ∧ s'.frames.size = s.frames.size ∧
      (∀ i, i ≠ env → s'.frames[i]? = s.frames[i]?) ∧
      (∀ fr, s.frames[env]? = some fr → ∃ fr', s'.frames[env]? = some fr' ∧ fr'.parent = fr.parent ∧
          (fr'.syms.find? (fun p => p.1 == name)).map (·.2) = some v ∧
          ∀ n', n' ≠ name → (fr'.syms.find? (fun p => p.1 == n')).map (·.2) =
                              (fr.syms.find? (fun p => p.1 == n')).map (·.2)) := by
  refine ⟨_, bindVar_eq env name v s, ?_, ?_, ?_⟩
  · cases s.frames[env]? <;> simp
  · intro i hi
    cases s.frames[env]? with
    | none => rfl
    | some fr => simp [Array.set!, Array.getElem?_setIfInBounds, Ne.symm hi]
  · intro fr hfr
    have hlt : env < s.frames.size := by
      rcases Array.getElem?_eq_some_iff.mp hfr with ⟨h, _⟩; exact h
    simp only [hfr]
    refine ⟨{ fr with syms := bindSyms fr.syms name v }, by simp [Array.set!, Array.getElem?_setIfInBounds, hlt], rfl, ?_, ?_⟩
    · unfold bindSyms
      by_cases ha : fr.syms.any (fun p => p.1 == name) = true
      · simp only [ha, if_true]
        exact find_map_set_same fr.syms name v ha
      · have ha' : fr.syms.any (fun p => p.1 == name) = false := Bool.eq_false_iff.mpr ha
        simp [ha']
    · intro n' hn
      unfold bindSyms
      have hne : (name == n') = false := by simpa using (fun h : name = n' => hn h.symm)
      by_cases ha : fr.syms.any (fun p => p.1 == name) = true
      · simp only [ha, if_true]
        exact find_map_set_other fr.syms name n' v hn
      · have ha' : fr.syms.any (fun p => p.1 == name) = false := Bool.eq_false_iff.mpr ha
        simp [ha', hne]

/-- `lookup` only ever visits frames at or below the one it starts from -/
theorem lookupIn_congr (f1 f2 : Array (Frame N)) (fuel env : Nat) (name : String)
    (hwf : ∀ i (h : i < f1.size), ∀ p, (f1[i]).parent = some p → p < i)
    (hsame : ∀ i, i ≤ env → f1[i]? = f2[i]?) :
    lookupIn f1 fuel env name = lookupIn f2 fuel env name := by
  induction fuel generalizing env with
  | zero => rfl
  | succ f ih =>
    simp only [lookupIn]
    rw [← hsame env (Nat.le_refl _)]
    cases hfr : f1[env]? with
    | none => rfl
    | some fr =>
      simp only []
      cases fr.syms.find? (fun p => p.1 == name) with
      | some p => rfl
      | none =>
        cases hp : fr.parent with
        | none => rfl
        | some p =>
          simp only []
          have hlt : env < f1.size := by
            rcases Array.getElem?_eq_some_iff.mp hfr with ⟨h, _⟩; exact h
          have hfr' : f1[env] = fr := by
            rcases Array.getElem?_eq_some_iff.mp hfr with ⟨_, h⟩; exact h
          have hpl : p < env := hwf env hlt p (by rw [hfr']; exact hp)
          exact ih p (fun i hi => hsame i (by omega))

/-- **A binding made in an inner scope is invisible outside it, and shadowing never alters
    the outer binding**: binding any name in a frame created later than `env` does not change
    what any name resolves to from `env`. -/
theorem binding_invisible_outside (s : Store N) (hwf : WF s) (env inner : Nat) (hlt : env < inner)
    (name : String) (v : Option (Val N)) (s' : Store N) (hb : bindVar inner name v s = .ok ((), s'))
    (fuel : Nat) (x : String) :
    lookupIn s'.frames fuel env x = lookupIn s.frames fuel env x := by
  obtain ⟨s2, h2, _, hother, _⟩ := bindVar_spec inner name v s
  rw [h2] at hb
  simp only [Except.ok.injEq, Prod.mk.injEq, true_and] at hb
  subst hb
  symm
  apply lookupIn_congr _ _ _ _ _ hwf
  intro i hi
  exact (hother i (by omega)).symm

/-- a binding is visible to later lookups from the same scope -/
theorem binding_visible_later (s : Store N) (env : Nat) (name : String) (v : Option (Val N))
    (fr : Frame N) (hfr : s.frames[env]? = some fr) (s' : Store N)
    (hb : bindVar env name v s = .ok ((), s')) (fuel : Nat) :
    lookupIn s'.frames (fuel + 1) env name = some v := by
  obtain ⟨s2, h2, _, _, hsame⟩ := bindVar_spec env name v s
  rw [h2] at hb
  simp only [Except.ok.injEq, Prod.mk.injEq, true_and] at hb
  subst hb
  obtain ⟨fr', hfr', _, hfind, _⟩ := hsame fr hfr
  simp only [lookupIn, hfr']
  cases hf : fr'.syms.find? (fun p => p.1 == name) with
  | none => simp [hf] at hfind
  | some p => simp [hf] at hfind; simp [hfind]

/-- … and to scopes nested inside it, unless they shadow the name -/
theorem binding_visible_in_inner (frames : Array (Frame N)) (inner outer : Nat) (fri : Frame N)
    (hfi : frames[inner]? = some fri) (hpar : fri.parent = some outer) (name : String)
    (hns : fri.syms.find? (fun p => p.1 == name) = none) (fuel : Nat) :
    lookupIn frames (fuel + 1) inner name = lookupIn frames fuel outer name := by
  simp [lookupIn, hfi, hns, hpar]

/-- **A function may call itself through the variable it is bound to**: once `name` is bound in the scope
    `env` (to the function value, whose captured scope is `env` itself), every scope nested directly in `env`
    that does not shadow `name` — in particular the scope a call of that function creates for its parameters
    (`closure_call`: a new frame under the definition scope) — resolves `name` to that same value. -/
theorem function_sees_itself (s : Store N) (env : Nat) (name : String) (fv : Option (Val N))
    (fr : Frame N) (hfr : s.frames[env]? = some fr) (s' : Store N)
    (hb : bindVar env name fv s = .ok ((), s'))
    (inner : Nat) (fri : Frame N) (hfi : s'.frames[inner]? = some fri) (hpar : fri.parent = some env)
    (hns : fri.syms.find? (fun p => p.1 == name) = none) (fuel : Nat) :
    lookupIn s'.frames (fuel + 2) inner name = some fv := by
  rw [binding_visible_in_inner s'.frames inner env fri hfi hpar name hns (fuel + 1)]
  exact binding_visible_later s env name fv fr hfr s' hb fuel

section
variable [NumSys N]

/-! ### blocks, lambdas, closures -/

/-- a block evaluates its expressions in a fresh frame whose parent is the enclosing scope -/
theorem block_new_scope (r : Rec N) (exprs : List (Node N)) (d : Option (Val N)) (env : Nat) (s : Store N) :
    evalNode r (.block exprs) d env s =
      (do let fr ← newFrame env; evalSeq r d fr exprs none : EvalM N (Option (Val N))) s := rfl

/-- an assignment binds in the current scope and yields the value -/
theorem assignment_binds (r : Rec N) (name : String) (e : Node N) (d : Option (Val N)) (env : Nat)
    (s s1 : Store N) (v : Option (Val N)) (he : r.ev e d env s = .ok (v, s1)) :
    evalNode r (.assign name e) d env s = (do bindVar env name v; pure v : EvalM N (Option (Val N))) s1 := by
  simp [evalNode, he]

/-- **A function value keeps the bindings and the context item of its definition site.** -/
theorem closure_captures_definition_site (r : Rec N) (params : List String) (body : Node N)
    (d : Option (Val N)) (env : Nat) (s : Store N) :
    evalNode r (.lambda params body) d env s = .ok (some (.lambda params none body env d), s) := rfl

/-- calling a closure: a new scope *under the definition scope* (not under the caller's),
    parameters bound to the arguments, body evaluated with the captured context item -/
theorem closure_call (r : Rec N) (params : List String) (body : Node N) (env : Nat) (ctx : Option (Val N))
    (callerCtx : Option (Option (Val N))) (argv : List (Option (Val N))) (s : Store N) :
    callVal r (.lambda params none body env ctx) callerCtx argv s =
      (do let fr ← newFrame env; bindParams fr params argv; r.ev body ctx fr : EvalM N (Option (Val N))) s := by
  simp [callVal, validateLambdaArgs, liftE]

/-- missing arguments are bound to 'no value', surplus arguments are ignored -/
theorem bindParams_missing_surplus (env : Nat) (p q : String) (a b c : Option (Val N)) :
    bindParams env [p, q] [a] = (do bindVar env p a; bindVar env q none; pure () : EvalM N Unit) ∧
    bindParams env [p] [a, b, c] = (do bindVar env p a; pure () : EvalM N Unit) := by
  constructor <;> rfl

/-- calling something that is not a function is an error -/
theorem call_non_function (r : Rec N) (v : Val N) (hv : v.isFn = false) (args : List (Node N))
    (d : Option (Val N)) (env : Nat) (s : Store N) :
    callWithArgs r (some v) args d env .nonCallable s = .error (.eval .nonCallable) ∧
    callWithArgs r none args d env .nonCallable s = .error (.eval .nonCallable) := by
  simp [callWithArgs, hv]

/-! ### chaining -/

/-- **v ~> f(a) equals f(v, a)**: both are the same call, and the parsed tree is not touched
    (the model has no write to the tree at all). -/
theorem chain_call_spec (r : Rec N) (l fn : Node N) (args : List (Node N)) (d : Option (Val N))
    (env : Nat) (s : Store N) :
    evalNode r (.apply l (.call fn args)) d env s = evalNode r (.call fn (l :: args)) d env s := rfl

/-- **f ~> g applies f then g** -/
theorem chain_compose_spec (r : Rec N) (g h : Val N) (c : Option (Option (Val N)))
    (x : Option (Val N)) (s : Store N) :
    callVal r (.chain g h) c [x] s =
      (do let v1 ← r.call g none [x]; r.call h none [v1] : EvalM N (Option (Val N))) s := rfl

/-- a value on the left of `~>` is passed as the single argument; two functions compose -/
theorem chain_value_or_compose (r : Rec N) (l rr : Node N) (hr : ∀ fn args, rr ≠ .call fn args)
    (d : Option (Val N)) (env : Nat) (s s1 s2 : Store N) (a : Option (Val N)) (g : Val N)
    (hl : r.ev l d env s = .ok (a, s1)) (hg : r.ev rr d env s1 = .ok (some g, s2)) (hfn : g.isFn = true) :
    evalNode r (.apply l rr) d env s =
      (match a with
       | some f => if f.isFn then .ok (some (.chain f g), s2) else r.call g none [a] s2
       | none => r.call g none [a] s2) := by
  cases rr <;> first
    | exact absurd rfl (hr _ _)
    | (simp [evalNode, hl, hg, hfn]; cases a <;> simp; split <;> simp_all)

/-! ### partial application -/

/-- the statement's substitution: placeholders take the supplied arguments in order (missing
    ones are 'no value'), other arguments are evaluated at the definition site -/
def substPlaceholders (sem : Node N → Option (Val N)) : List (Node N) → List (Option (Val N)) → List (Option (Val N))
  | [], _ => []
  | .placeholder :: rest, argv => argv.head?.getD none :: substPlaceholders sem rest argv.tail
  | a :: rest, argv => sem a :: substPlaceholders sem rest argv

theorem partialArgs_spec (r : Rec N) (ctx : Option (Val N)) (env : Nat) (sem : Node N → Option (Val N))
    (hsem : ∀ a, PureEv (fun (_ : Unit) => r.ev a ctx env) (fun _ => sem a))
    (args : List (Node N)) (argv : List (Option (Val N))) (s : Store N) :
    ∃ s', partialArgs r ctx env args argv s = .ok (substPlaceholders sem args argv, s') := by
  induction args generalizing argv s with
  | nil => exact ⟨s, rfl⟩
  | cons a rest ih =>
    by_cases hph : a = .placeholder
    · subst hph
      obtain ⟨s1, h1⟩ := ih argv.tail s
      exact ⟨s1, by simp [partialArgs, h1, substPlaceholders]⟩
    · obtain ⟨s1, h1⟩ := hsem a () s
      obtain ⟨s2, h2⟩ := ih argv s1
      refine ⟨s2, ?_⟩
      cases a <;> first
        | exact absurd rfl hph
        | simp [partialArgs, substPlaceholders, h1, h2]

/-- **f(?, x) is a function of its placeholders** -/
theorem partial_spec (r : Rec N) (g : Val N) (args : List (Node N)) (env : Nat) (pctx : Option (Val N))
    (c : Option (Option (Val N))) (argv : List (Option (Val N))) (s : Store N) :
    callVal r (.partialFn g args env pctx) c argv s =
      (do let argv' ← partialArgs r pctx env args argv; r.call g none argv' : EvalM N (Option (Val N))) s := rfl

/-- partially applying a non-function is an error -/
theorem partial_non_function (r : Rec N) (fn : Node N) (args : List (Node N)) (d : Option (Val N))
    (env : Nat) (s s1 : Store N) (v : Val N) (hv : v.isFn = false)
    (hf : r.ev fn d env s = .ok (some v, s1)) :
    evalNode r (.partial_ fn args) d env s = .error (.eval .nonCallablePartial) := by
  simp [evalNode, hf, hv]

/-! ### built-ins that default their first argument to the context item -/

/-- **The context a built-in receives is the context item of its own call site**, however the
    call is nested: the call node passes its own `data`, and argument evaluation (which may
    contain further calls) cannot change it. -/
theorem builtin_context_is_call_site (r : Rec N) (name : String) (args : List (Node N))
    (d : Option (Val N)) (env : Nat) (s s1 : Store N)
    (hf : r.ev (.var name) d env s = .ok (some (.builtin name), s1)) :
    evalNode r (.call (.var name) args) d env s =
      (do let argv ← evalArgs r d env args; r.call (.builtin name) (some d) argv : EvalM N (Option (Val N))) s1 := by
  simp [evalNode, hf, callWithArgs, Val.isFn]

theorem builtin_call_uses_given_context (r : Rec N) (name : String) (d : Option (Val N))
    (argv : List (Option (Val N))) (s : Store N) :
    callVal r (.builtin name) (some d) argv s = callBuiltin r name d argv s := rfl

theorem padOptional_full (opts : List Bool) (argv : List (Option (Val N))) (h : opts.length ≤ argv.length) :
    padOptional opts argv = argv := by
  unfold padOptional
  have : opts.drop argv.length = [] := List.drop_eq_nil_of_le h
  simp [this]

/-- the context is inserted as first argument exactly when the handler says so -/
theorem context_insertion (spec : BuiltinSpec) (ctx : Option (Val N)) (argv : List (Option (Val N)))
    (h : ctxHandler spec.ch argv = true) (hu : undefHandler spec.uh (ctx :: argv) = false)
    (hp : (ctx :: argv).length = spec.params.length) (hv : spec.variadic = false) :
    goArgCount spec ctx argv = .ok (some (ctx :: argv)) := by
  unfold goArgCount
  simp only [h, if_true, hu, Bool.false_eq_true, if_false]
  rw [padOptional_full _ _ (by simp [← hp])]
  simp [hv, hp]

/-- omitted trailing optional parameters are filled with 'no value' -/
theorem optional_padding (argv : List (Option (Val N))) (k : Nat) :
    padOptional (List.replicate argv.length false ++ List.replicate k true) argv =
      argv ++ List.replicate k none := by
  unfold padOptional
  simp [List.drop_append, List.takeWhile_replicate]

/-! ### signatures -/

/-- without a signature every argument list is accepted as it is -/
theorem untyped_accepts_all (ctx : Option (Val N)) (argv : List (Option (Val N))) :
    validateLambdaArgs none ctx argv = .ok argv := rfl

/-- the type letters: which kinds of value each one admits -/
theorem type_letters (x : N) (s : String) (b : Bool) (kvs : List (String × Val N)) (d : Nat) :
    validArgType (d + 1) (.num x) (.mk ptNumber .none_ []) = true ∧
    validArgType (d + 1) (.num x) (.mk ptString .none_ []) = false ∧
    validArgType (N := N) (d + 1) (.str s) (.mk ptString .none_ []) = true ∧
    validArgType (N := N) (d + 1) (.bool b) (.mk ptBool .none_ []) = true ∧
    validArgType (d + 1) (.obj kvs) (.mk ptObject .none_ []) = true ∧
    validArgType (N := N) (d + 1) (.builtin "sum") (.mk ptFunc .none_ []) = true ∧
    validArgType (N := N) (d + 1) (.builtin "sum") (.mk ptJSON .none_ []) = false ∧
    validArgType (d + 1) (.obj kvs) (.mk ptJSON .none_ []) = true ∧
    validArgType (N := N) (d + 1) (.builtin "sum") (.mk ptAny .none_ []) = true ∧
    validArgType (N := N) (d + 1) (.str s) (.mk (ptNumber + ptString) .none_ []) = true ∧
    validArgType (N := N) (d + 1) (.bool b) (.mk (ptNumber + ptString) .none_ []) = false := by
  simp [validArgType, hasBit, ptNumber, ptString, ptBool, ptObject, ptFunc, ptJSON, ptAny, Val.isFn, Param.ty]

/-- array subtypes: every member must fit the subtype -/
theorem array_subtype (xs : List (Val N)) (sub : Param) (d : Nat) :
    validArgType (d + 1) (.arr xs) (.mk ptArray .none_ [sub]) = xs.all (fun v => validArgType d v sub) ∧
    validArgType (d + 1) (.arr xs) (.mk ptArray .none_ []) = true := by
  simp [validArgType, hasBit, ptArray, ptAny, ptJSON, Param.ty, Param.subs]

/-- argument count: exactly the parameters, unless options say otherwise -/
theorem argcount_plain (sig : List Param) (hno : ∀ p ∈ sig, p.opt = .none_) (ctx : Option (Val N))
    (argv : List (Option (Val N))) :
    (argv.length = sig.length → lambdaArgCount sig ctx argv = .ok argv) ∧
    (argv.length ≠ sig.length → lambdaArgCount sig ctx argv = .error .argCount) := by
  unfold lambdaArgCount
  have hhead : ((sig.head?.map (·.opt)) == some ParamOpt.contextable) = false := by
    cases sig with
    | nil => simp
    | cons p ps => simp [hno p (by simp)]
  have hlast : ((sig.getLast?.map (·.opt)) == some ParamOpt.variadic) = false := by
    cases hl : sig.getLast? with
    | none => simp
    | some p =>
      have := hno p (List.mem_of_getLast? hl)
      simp [this]
  have hopts : (sig.map fun p => p.opt == ParamOpt.optional) = List.replicate sig.length false := by
    apply List.ext_getElem (by simp)
    intro i h1 h2
    have hi : i < sig.length := by simpa using h1
    simp only [List.getElem_map, List.getElem_replicate]
    have := hno sig[i] (List.getElem_mem hi)
    simp [this]
  have hpad : padOptional (sig.map fun p => p.opt == ParamOpt.optional) argv = argv := by
    unfold padOptional
    rw [hopts]
    have : ((List.replicate sig.length false).drop argv.length).takeWhile id = [] := by
      cases h : (List.replicate sig.length false).drop argv.length with
      | nil => rfl
      | cons x xs =>
        have hx : x ∈ (List.replicate sig.length false).drop argv.length := by rw [h]; simp
        have := List.mem_of_mem_drop hx
        simp at this
        simp [this.2]
    simp [this]
  simp only [hhead, Bool.and_false, Bool.false_eq_true, if_false, hpad, hlast, Bool.not_false, Bool.and_true]
  constructor
  · intro h
    simp [h]
  · intro hne
    have : (decide (argv.length < sig.length) || decide (argv.length > sig.length)) = true := by
      rcases Nat.lt_or_gt_of_ne hne with hc | hc <;> simp [hc]
    simp [this]

/-- the variadic tail collects the surplus (defined) arguments into one array -/
theorem variadic_collects (fixed : List Param) (last : Param) (hv : last.opt = .variadic)
    (argv : List (Option (Val N))) :
    wrapVariadic (fixed ++ [last]) argv =
      argv.take fixed.length ++ [some (.arr ((argv.drop fixed.length).filterMap id))] := by
  unfold wrapVariadic
  have h1 : ¬ ((fixed ++ [last]).length < 1) := by simp
  have h2 : ((fixed ++ [last]).getLast?.map (·.opt)) = some ParamOpt.variadic := by simp [hv]
  simp [h2, hv]

/-! ### non-vacuity -/

example : substPlaceholders (N := Int) (fun _ => some (.num 2)) [.placeholder, .num 2, .placeholder]
    [some (.num 1), some (.num 3)] = [some (.num 1), some (.num 2), some (.num 3)] := by
  simp [substPlaceholders]
example : lambdaArgCount (N := Int) [.mk ptNumber .none_ [], .mk ptString .optional []] none [some (.num 1)] =
    .ok [some (.num 1), none] := by
  simp [lambdaArgCount, padOptional, Param.opt]

end
end Jsonata.Props.C12
