/-
  Props/C16.lean — property C16: string functions work on Unicode code points and satisfy
  inverse laws.  Strings are code-point lists; every statement is for all strings and all
  integer parameters.
-/
import JsonataModel.Model.Strings
import JsonataModel.Model.Lib

namespace Jsonata.Props.C16
open Jsonata Jsonata.Str

/-! ### $substring -/

/-- the statement's definition: the code-point slice, a negative start counting from the
    end (and stopping at the beginning) -/
def specSubstring (s : S) (start : Int) (length : Option Int) : S :=
  let n : Int := s.length
  let st : Int := if start < 0 then max 0 (start + n) else start
  let rest := s.drop st.toNat
  match length with
  | some l => rest.take l.toNat
  | none => rest

theorem dropStart (s : S) (start : Int) :
    (if (if start < 0 then start + (s.length : Int) else start) > 0
       then s.drop (if start < 0 then start + (s.length : Int) else start).toNat else s) =
    s.drop (if start < 0 then max 0 (start + (s.length : Int)) else start).toNat := by
  by_cases hneg : start < 0
  · simp only [hneg, if_true]
    by_cases hp : start + (s.length : Int) > 0
    · have : max 0 (start + (s.length : Int)) = start + s.length := by omega
      simp [hp, this]
    · have : max 0 (start + (s.length : Int)) = 0 := by omega
      simp [hp, this]
  · simp only [hneg, if_false]
    by_cases hp : start > 0
    · simp [hp]
    · have : start = 0 := by omega
      simp [this]

theorem substring_eq_spec (s : S) (start : Int) (length : Option Int) :
    substring s start length = specSubstring s start length := by
  unfold substring specSubstring
  simp only []
  by_cases hs : start ≥ (s.length : Int)
  · -- start beyond the end: empty
    have h0 : ¬ start < 0 := by omega
    have hd : s.drop start.toNat = [] := List.drop_eq_nil_of_le (by omega)
    have hs' : decide (start ≥ (s.length : Int)) = true := by simpa using hs
    simp only [hs', Bool.or_true, if_true, h0, if_false, hd]
    cases length <;> simp
  · have hs' : decide (start ≥ (s.length : Int)) = false := by simpa using hs
    rcases length with _ | l
    · simp only [hs', Bool.or_self, Bool.false_eq_true, if_false]
      exact dropStart s start
    · by_cases hl : l ≤ 0
      · have : l.toNat = 0 := by omega
        simp [hl, this]
      · have hl' : decide (l ≤ 0) = false := by simpa using hl
        simp only [hl', hs', Bool.or_self, Bool.false_eq_true, if_false]
        rw [dropStart]
        generalize s.drop (if start < 0 then max 0 (start + (s.length : Int)) else start).toNat = rest
        by_cases hlt : l < (rest.length : Int)
        · simp [hlt]
        · simp only [hlt, if_false]
          symm
          apply List.take_of_length_le
          omega

/-- the result never has more code points than asked for, and is a contiguous slice of s -/
theorem substring_length_le (s : S) (start l : Int) (hl : 0 ≤ l) :
    (substring s start (some l)).length ≤ l.toNat := by
  rw [substring_eq_spec]
  simp only [specSubstring, List.length_take]
  omega

/-! ### $pad -/

theorem cycle_length (ch : S) (n : Nat) (hne : ch ≠ []) : (cycle ch n).length = n := by
  unfold cycle
  simp only [List.length_take, List.length_flatten, List.map_replicate, List.sum_replicate_nat]
  have : 1 ≤ ch.length := by
    cases ch with
    | nil => exact absurd rfl hne
    | cons _ _ => simp
  have : n ≤ n * ch.length := Nat.le_mul_of_pos_right n this
  omega

/-- **$length($pad(s, n)) = max(|n|, $length(s))** for every string, width and pad string -/
theorem padChars_ne_nil (chars : Option S) : padChars chars ≠ [] := by
  rcases chars with _ | c
  · simp [padChars]
  · cases c with
    | nil => simp [padChars]
    | cons x xs => simp [padChars]

theorem pad_length (s : S) (w : Int) (chars : Option S) :
    (pad s w chars).length = max w.natAbs s.length := by
  unfold pad
  simp only []
  by_cases hp : ((w.natAbs : Int) - (s.length : Int)) ≤ 0
  · simp only [hp, if_true]; omega
  · simp only [hp, if_false]
    have hlen := cycle_length (padChars chars) ((w.natAbs : Int) - (s.length : Int)).toNat (padChars_ne_nil chars)
    by_cases hw : w < 0
    · simp only [hw, if_true, List.length_append, hlen]; omega
    · simp only [hw, if_false, List.length_append, hlen]; omega

/-- positive widths pad on the right, negative widths on the left, and the original string
    is kept intact -/
theorem pad_side (s : S) (w : Int) (chars : Option S) :
    (0 ≤ w → ∃ p, pad s w chars = s ++ p) ∧ (w < 0 → ∃ p, pad s w chars = p ++ s) := by
  unfold pad
  simp only []
  constructor
  · intro hw
    by_cases hp : ((w.natAbs : Int) - (s.length : Int)) ≤ 0
    · exact ⟨[], by simp [hp]⟩
    · have : ¬ w < 0 := by omega
      simp only [hp, if_false, this]
      exact ⟨_, rfl⟩
  · intro hw
    by_cases hp : ((w.natAbs : Int) - (s.length : Int)) ≤ 0
    · exact ⟨[], by simp [hp]⟩
    · simp only [hp, if_false, hw, if_true]
      exact ⟨_, rfl⟩

/-! ### $substringBefore / $substringAfter / $contains -/

theorem isPrefixOf_split (p l : S) (h : p.isPrefixOf l = true) : l = p ++ l.drop p.length := by
  have := List.isPrefixOf_iff_prefix.mp h
  obtain ⟨t, rfl⟩ := this
  simp

/-- where `indexOf` finds the pattern, the string splits around it -/
theorem indexOf_some (pat s : S) (i : Nat) (h : indexOf pat s = some i) :
    s = s.take i ++ pat ++ s.drop (i + pat.length) := by
  induction s generalizing i with
  | nil =>
    simp only [indexOf] at h
    by_cases hp : pat.isEmpty = true
    · have : pat = [] := by simpa using hp
      subst this; simp
    · simp [hp] at h
  | cons c cs ih =>
    simp only [indexOf] at h
    by_cases hp : pat.isPrefixOf (c :: cs) = true
    · simp only [hp, if_true, Option.some.injEq] at h
      subst h
      have := isPrefixOf_split pat (c :: cs) hp
      simpa using this
    · have hp' : pat.isPrefixOf (c :: cs) = false := Bool.eq_false_iff.mpr hp
      simp only [hp', Bool.false_eq_true, if_false] at h
      cases hi : indexOf pat cs with
      | none => simp [hi] at h
      | some j =>
        simp only [hi, Option.map_some, Option.some.injEq] at h
        subst h
        have := ih j hi
        simp only [List.take_succ_cons, List.cons_append]
        have hd : (c :: cs).drop (j + 1 + pat.length) = cs.drop (j + pat.length) := by
          have : j + 1 + pat.length = (j + pat.length) + 1 := by omega
          rw [this, List.drop_succ_cons]
        rw [hd]
        congr 1

/-- **$substringBefore(s, c) & c & $substringAfter(s, c) = s whenever s contains c**, and
    both return s unchanged when c is absent -/
theorem before_after_concat (s c : S) :
    (contains s c = true → substringBefore s c ++ c ++ substringAfter s c = s) ∧
    (contains s c = false → substringBefore s c = s ∧ substringAfter s c = s) := by
  unfold contains substringBefore substringAfter
  cases h : indexOf c s with
  | none => simp
  | some i =>
    simp only [Option.isSome_some, forall_const, Bool.true_eq_false, false_implies, and_true]
    exact (indexOf_some c s i h).symm

/-- the separator found is the *first* occurrence: the part before it does not contain it
    (for non-empty separators, stated as: no earlier position is a match) -/
theorem indexOf_first (pat s : S) (i : Nat) (h : indexOf pat s = some i) (j : Nat) (hj : j < i) :
    pat.isPrefixOf (s.drop j) = false := by
  induction s generalizing i j with
  | nil =>
    simp only [indexOf] at h
    by_cases hp : pat.isEmpty = true
    · simp [hp] at h; omega
    · simp [hp] at h
  | cons c cs ih =>
    simp only [indexOf] at h
    by_cases hp : pat.isPrefixOf (c :: cs) = true
    · simp only [hp, if_true, Option.some.injEq] at h; omega
    · have hp' : pat.isPrefixOf (c :: cs) = false := Bool.eq_false_iff.mpr hp
      simp only [hp', Bool.false_eq_true, if_false] at h
      cases hi : indexOf pat cs with
      | none => simp [hi] at h
      | some k =>
        simp only [hi, Option.map_some, Option.some.injEq] at h
        subst h
        cases j with
        | zero => simpa using hp'
        | succ j' => simpa using ih k hi j' (by omega)

/-! ### $split / $join -/

theorem join_cons_cons (x y : S) (ys : List S) (sep : S) :
    join (x :: y :: ys) sep = x ++ sep ++ join (y :: ys) sep := by
  simp [join, List.append_assoc]

theorem splitGo_ne_nil (sep : S) (fuel : Nat) (cur rest : S) : splitGo sep fuel cur rest ≠ [] := by
  cases fuel with
  | zero => simp [splitGo]
  | succ f =>
    cases rest with
    | nil => simp [splitGo]
    | cons c cs =>
      simp only [splitGo]
      split <;> simp
      · exact splitGo_ne_nil sep f (c :: cur) cs

theorem join_splitGo (sep : S) (hne : sep ≠ []) (fuel : Nat) (cur rest : S) (hf : rest.length < fuel) :
    join (splitGo sep fuel cur rest) sep = cur.reverse ++ rest := by
  induction fuel generalizing cur rest with
  | zero => omega
  | succ f ih =>
    cases rest with
    | nil => simp [splitGo, join]
    | cons c cs =>
      simp only [splitGo]
      by_cases hp : sep.isPrefixOf (c :: cs) = true
      · simp only [hp, if_true]
        have hsplit := isPrefixOf_split sep (c :: cs) hp
        have hseplen : 1 ≤ sep.length := by
          cases sep with
          | nil => exact absurd rfl hne
          | cons _ _ => simp
        have hlen : ((c :: cs).drop sep.length).length < f := by
          simp only [List.length_drop, List.length_cons] at hf ⊢; omega
        have hrec := ih [] ((c :: cs).drop sep.length) hlen
        obtain ⟨y, ys, hy⟩ : ∃ y ys, splitGo sep f [] ((c :: cs).drop sep.length) = y :: ys := by
          cases h : splitGo sep f [] ((c :: cs).drop sep.length) with
          | nil => exact absurd h (splitGo_ne_nil _ _ _ _)
          | cons y ys => exact ⟨y, ys, rfl⟩
        rw [hy, join_cons_cons, ← hy, hrec]
        simp only [List.reverse_nil, List.nil_append, List.append_assoc]
        rw [← hsplit]
      · have hp' : sep.isPrefixOf (c :: cs) = false := Bool.eq_false_iff.mpr hp
        simp only [hp', Bool.false_eq_true, if_false]
        have := ih (c :: cur) cs (by simp at hf ⊢; omega)
        rw [this]
        simp

/-- **$join($split(s, c), c) = s** for every string s and every separator c (including the
    empty separator, which splits per code point) -/
theorem split_join (s sep : S) : join (split s sep) sep = s := by
  unfold split
  by_cases he : sep.isEmpty = true
  · have : sep = [] := by simpa using he
    subst this
    simp only [List.isEmpty_nil, if_true]
    induction s with
    | nil => rfl
    | cons c cs ih =>
      cases cs with
      | nil => simp [join]
      | cons d ds =>
        simp only [List.map_cons] at ih ⊢
        rw [join_cons_cons]
        simp only [List.append_nil, List.singleton_append]
        rw [ih]
  · simp only [he, if_false]
    have hne : sep ≠ [] := by
      intro h; subst h; simp at he
    have := join_splitGo sep hne (s.length + 1) [] s (by omega)
    simpa using this

/-- an empty separator splits into single code points -/
theorem split_empty_sep (s : S) : split s [] = s.map (fun c => [c]) := by
  simp [split]

/-- the limit truncates the list of parts -/
theorem split_limit (parts : List S) (l : Int) (h0 : 0 ≤ l) :
    applyLimit parts (some l) = parts.take l.toNat := by
  unfold applyLimit
  by_cases h : l < (parts.length : Int)
  · simp [h]
  · simp only [h, if_false]
    symm; apply List.take_of_length_le; omega

/-! ### $replace -/

theorem replace_limit_zero (src pat repl : S) : replace src pat repl 0 = src := by
  unfold replace
  simp [replaceGo]

/-- a pattern that does not occur leaves the string unchanged -/
theorem replaceGo_absent (pat repl : S) (fuel : Nat) (limit : Int) (rest : S)
    (habs : ∀ j, pat.isPrefixOf (rest.drop j) = false) (hf : rest.length < fuel) :
    replaceGo pat repl fuel limit rest = rest := by
  induction fuel generalizing limit rest with
  | zero => omega
  | succ f ih =>
    unfold replaceGo
    by_cases hl : (limit == 0) = true
    · simp [hl]
    · simp only [hl, if_false]
      cases rest with
      | nil => rfl
      | cons c cs =>
        have h0 := habs 0
        simp only [List.drop_zero] at h0
        simp only [h0, Bool.false_eq_true, if_false]
        congr 1
        apply ih
        · intro j
          have := habs (j + 1)
          simpa using this
        · simp at hf ⊢; omega

/-! ### $trim -/

theorem dropWhile_head_false (p : Char → Bool) (l : S) (x : Char) (xs : S)
    (h : l.dropWhile p = x :: xs) : p x = false := by
  induction l with
  | nil => simp at h
  | cons a as ih =>
    simp only [List.dropWhile_cons] at h
    by_cases hpa : p a = true
    · simp only [hpa, if_true] at h; exact ih h
    · have hpa' : p a = false := Bool.eq_false_iff.mpr hpa
      simp only [hpa', Bool.false_eq_true, if_false, List.cons.injEq] at h
      rw [← h.1]; exact hpa'

/-- after `$trim` there is no leading whitespace … -/
theorem trim_no_leading (s : S) (c : Char) (cs : S) (h : trim s = c :: cs) : isUniSpace c = false := by
  unfold trim trimSpace at h
  cases hd : (collapseWs s).dropWhile isUniSpace with
  | nil => rw [hd] at h; simp at h
  | cons x xs =>
    have hx := dropWhile_head_false isUniSpace (collapseWs s) x xs hd
    rw [hd] at h
    -- trimming the end removes a suffix of x :: xs, so the head is still x
    have hpre : (x :: xs).reverse =
        (x :: xs).reverse.takeWhile isUniSpace ++ (x :: xs).reverse.dropWhile isUniSpace :=
      (List.takeWhile_append_dropWhile (p := isUniSpace) (l := (x :: xs).reverse)).symm
    have hrev : (x :: xs) = ((x :: xs).reverse.dropWhile isUniSpace).reverse ++
        ((x :: xs).reverse.takeWhile isUniSpace).reverse := by
      have := congrArg List.reverse hpre
      rw [List.reverse_reverse, List.reverse_append] at this
      exact this
    rw [h] at hrev
    simp only [List.cons_append, List.cons.injEq] at hrev
    rw [← hrev.1]; exact hx

/-- … and no trailing whitespace -/
theorem trim_no_trailing (s : S) (c : Char) (cs : S) (h : (trim s).reverse = c :: cs) :
    isUniSpace c = false := by
  unfold trim trimSpace at h
  simp only [List.reverse_reverse] at h
  exact dropWhile_head_false isUniSpace _ c cs h

/-! ### codecs: round trips follow from the standard library contracts -/

/-- base64 and URL-component encoding are parameters of the model; the round trip is their
    contract (`decode (encode b) = b`), stated explicitly -/
theorem codec_roundtrip {α β : Type} (encode : α → β) (decode : β → Option α)
    (contract : ∀ a, decode (encode a) = some a) (s : α) : decode (encode s) = some s :=
  contract s

/-! ### non-vacuity -/

example : substring "héllo😀".toList (-3) (some 2) = "lo".toList := by decide
example : pad "ab".toList (-5) (some "xy".toList) = "xyxab".toList := by decide
example : split "a,b,,c".toList ",".toList = ["a".toList, "b".toList, [], "c".toList] := by decide
example : substringBefore "a,b".toList ",".toList ++ ",".toList ++ substringAfter "a,b".toList ",".toList = "a,b".toList := by decide

end Jsonata.Props.C16
