/-
  Props/C04.lean — property C04: the parse is fixed by JSONata precedence, associativity and
  parentheses.

  Proved here: the binding-power table the parser runs on is the table of the statement
  (regenerated from jparse.go on every run), the Pratt loop continues exactly while the next
  token binds tighter than the current right binding power, and each infix parser passes the
  binding power that encodes its associativity (own power: left; own power − 1: right; 0 for
  bracketed operands and for both branches of ? :).
  Not proved (partial, DESIGN.md §6 C04): the round trip `parse (print t) = t` for the
  minimal-parenthesis printer; it is covered by the correspondence, which prints operator
  trees with an independently written printer and compares trees (all ordered pairs/triples).
-/
import JsonataModel.Model.Parser
import JsonataModel.Generated.Facts

namespace Jsonata.Props.C04
open Jsonata Jsonata.Lex Jsonata.Parse

/-! ### the table of the statement -/

/-- "postfix ( ) and [ ] and then . bind tightest, then { } grouping, then * / %, then + - &,
    then the comparison operators together with in, the order-by ^( ) and the chain ~>, then
    and, then or, then ? :, with := loosest" -/
def specRows : List (List Tok) :=
  [[.parenOpen, .bracketOpen], [.dot], [.braceOpen], [.mult, .div, .mod], [.plus, .minus, .concat],
   [.equal, .notEqual, .less, .lessEqual, .greater, .greaterEqual, .in_, .sort, .apply],
   [.and_], [.or_], [.condition], [.assign]]

theorem model_rows_eq_spec : bpsRows = specRows := rfl

/-- the rows in jparse.go are the rows of the statement -/
theorem fact_bps_rows : Generated.bpsRows = specRows.map (·.map Tok.goName) := by decide

theorem fact_bp_step : Generated.bpStep = bpStep := by decide

/-- the token-type enumeration of lexer.go is the model's -/
theorem fact_token_types : Generated.tokenTypes = allToks.map Tok.goName := by decide

/-- binding power of every token: (10 − row) × 10 for the tokens of the table, 0 otherwise -/
theorem bp_table :
    allToks.map bp =
      [0, 0, 0, 0, 0, 0, 0, 0, 0, 0,            -- eof error string number boolean null name nameEsc variable regex
       100, 0, 80, 0, 100, 0,                    -- [ ] { } ( )
       90, 0, 0, 0, 20,                          -- . , : ; ?
       60, 60, 70, 70, 70, 0,                    -- + - * / % |
       50, 50, 50, 50, 50, 50, 50, 50, 60,       -- = != < <= > >= ~> ^ &
       0, 10, 0,                                 -- .. := **
       40, 30, 50] := by decide               -- and or in

/-- rows are strictly ordered: an operator of a higher row binds tighter than one of a lower row -/
theorem rows_strictly_ordered :
    bp .parenOpen > bp .dot ∧ bp .dot > bp .braceOpen ∧ bp .braceOpen > bp .mult ∧ bp .mult > bp .plus ∧
    bp .plus > bp .equal ∧ bp .equal > bp .and_ ∧ bp .and_ > bp .or_ ∧ bp .or_ > bp .condition ∧
    bp .condition > bp .assign ∧ bp .assign > 0 := by decide

/-- operators of one row have equal binding power -/
theorem rows_equal_power :
    bp .parenOpen = bp .bracketOpen ∧ bp .mult = bp .div ∧ bp .div = bp .mod ∧
    bp .plus = bp .minus ∧ bp .minus = bp .concat ∧
    bp .equal = bp .notEqual ∧ bp .equal = bp .less ∧ bp .equal = bp .lessEqual ∧ bp .equal = bp .greater ∧
    bp .equal = bp .greaterEqual ∧ bp .equal = bp .in_ ∧ bp .equal = bp .sort ∧ bp .equal = bp .apply := by decide

/-! ### the Pratt loop -/

/-- the loop stops as soon as the next token does not bind tighter than `rbp` … -/
theorem ledLoop_stops (inp : Input) (pe : Nat → PState → Except PErr (PNode × PState)) (n rbp : Nat)
    (lhs : PNode) (p : PState) (h : ¬ rbp < bp p.tok.type) :
    ledLoop inp pe (n + 1) rbp lhs p = .ok (lhs, p) := by
  simp [ledLoop, h]

/-- … and otherwise consumes the operator, lets its led build the new left operand, and goes on -/
theorem ledLoop_continues (inp : Input) (pe : Nat → PState → Except PErr (PNode × PState)) (n rbp : Nat)
    (lhs : PNode) (p p1 p2 : PState) (lhs' : PNode) (h : rbp < bp p.tok.type)
    (ha : advance inp true p = .ok p1) (hl : led inp pe p.tok lhs p1 = .ok (lhs', p2)) :
    ledLoop inp pe (n + 1) rbp lhs p = ledLoop inp pe n rbp lhs' p2 := by
  simp [ledLoop, h, ha, hl, bind, Except.bind]

/-- the source's loop condition is `rbp < bp(next token)` -/
theorem fact_pratt_loop_cond : Generated.prattLoopCond = "rbp < p.lookupBp(p.token.Type)" := by decide

/-! ### associativity is encoded by the right binding power each led passes on -/

/-- binary arithmetic, comparison, boolean, `&`, `~>` and `.` parse their right operand at
    their own binding power: equal precedence groups to the left -/
theorem binary_left_assoc (inp : Input) (pe : Nat → PState → Except PErr (PNode × PState))
    (t : Token) (lhs : PNode) (p : PState) (ht : t.type = .plus) :
    led inp pe t lhs p = (do let (rhs, p1) ← pe (bp .plus) p; .ok (.numop .add lhs rhs, p1)) := by
  simp [led, ht, numOpOfTok]

theorem dot_left_assoc (inp : Input) (pe : Nat → PState → Except PErr (PNode × PState))
    (t : Token) (lhs : PNode) (p : PState) (ht : t.type = .dot) :
    led inp pe t lhs p = (do let (rhs, p1) ← pe (bp .dot) p; .ok (.dot lhs rhs, p1)) := by
  simp [led, ht]

/-- `:=` parses its value one below its own power: it groups to the right -/
theorem assign_right_assoc (inp : Input) (pe : Nat → PState → Except PErr (PNode × PState))
    (t : Token) (name : String) (p : PState) (ht : t.type = .assign) :
    led inp pe t (.var name) p = (do let (v, p1) ← pe (bp .assign - 1) p; .ok (.assign name v, p1)) := by
  simp [led, ht]

/-- what every parser function passes to parseExpression, regenerated from the source -/
theorem fact_led_right_binding_powers :
    Generated.parseExprArgs.lookup "parseNumericOperator" = some ["p.bp(t.Type)"] ∧
    Generated.parseExprArgs.lookup "parseComparisonOperator" = some ["p.bp(t.Type)"] ∧
    Generated.parseExprArgs.lookup "parseBooleanOperator" = some ["p.bp(t.Type)"] ∧
    Generated.parseExprArgs.lookup "parseStringConcatenation" = some ["p.bp(t.Type)"] ∧
    Generated.parseExprArgs.lookup "parseFunctionApplication" = some ["p.bp(t.Type)"] ∧
    Generated.parseExprArgs.lookup "parseDot" = some ["p.bp(t.Type)"] ∧
    Generated.parseExprArgs.lookup "parseNegation" = some ["p.bp(t.Type)"] ∧
    Generated.parseExprArgs.lookup "parseAssignment" = some ["p.bp(t.Type) - 1"] ∧
    Generated.parseExprArgs.lookup "parseConditional" = some ["0", "0"] ∧
    Generated.parseExprArgs.lookup "parsePredicate" = some ["0"] ∧
    Generated.parseExprArgs.lookup "parseFunctionCall" = some ["0"] ∧
    Generated.parseExprArgs.lookup "parseSort" = some ["0"] ∧
    Generated.parseExprArgs.lookup "parseBlock" = some ["0"] ∧
    Generated.parseExprArgs.lookup "Parse" = some ["0"] := by decide

/-- the nud and led dispatch tables of jparse.go -/
theorem fact_dispatch_tables :
    Generated.leds.map (·.1) =
      ["typeParenOpen", "typeBracketOpen", "typeBraceOpen", "typeCondition", "typeAssign", "typeApply",
       "typeConcat", "typeSort", "typeDot", "typePlus", "typeMinus", "typeMult", "typeDiv", "typeMod",
       "typeEqual", "typeNotEqual", "typeLess", "typeLessEqual", "typeGreater", "typeGreaterEqual",
       "typeIn", "typeAnd", "typeOr"] ∧
    Generated.nuds.map (·.1) =
      ["typeString", "typeNumber", "typeBoolean", "typeNull", "typeRegex", "typeVariable", "typeName",
       "typeNameEsc", "typeBracketOpen", "typeBraceOpen", "typeParenOpen", "typeMult", "typeMinus",
       "typeDescendent", "typePipe", "typeIn", "typeAnd", "typeOr"] := by decide

/-- exactly the tokens with a led have a non-zero binding power (validateBindingPowers) -/
theorem led_iff_bp :
    (allToks.filter fun t => bp t != 0).map Tok.goName =
      ["typeBracketOpen", "typeBraceOpen", "typeParenOpen", "typeDot", "typeCondition", "typePlus", "typeMinus",
       "typeMult", "typeDiv", "typeMod", "typeEqual", "typeNotEqual", "typeLess", "typeLessEqual", "typeGreater",
       "typeGreaterEqual", "typeApply", "typeSort", "typeConcat", "typeAssign", "typeAnd", "typeOr", "typeIn"] := by
  decide

/-! ### keywords in prefix position are names; quotes do not matter -/

theorem keywords_as_names (inp : Input) (pe : Nat → PState → Except PErr (PNode × PState))
    (t : Token) (p : PState) (h : t.type = .and_ ∨ t.type = .or_ ∨ t.type = .in_) :
    nud inp pe t p = .ok (.name (bytesToString inp t.lo t.hi), p) := by
  rcases h with h | h | h <;> simp [nud, h]

/-- the symbol and keyword tables of lexer.go -/
theorem fact_symbol_tables :
    Generated.keywords = [("and", "typeAnd"), ("or", "typeOr"), ("in", "typeIn"), ("true", "typeBoolean"),
      ("false", "typeBoolean"), ("null", "typeNull")] ∧
    Generated.symbols2 = [(33, 61, "typeNotEqual"), (60, 61, "typeLessEqual"), (62, 61, "typeGreaterEqual"),
      (46, 46, "typeRange"), (126, 62, "typeApply"), (58, 61, "typeAssign"), (42, 42, "typeDescendent")] ∧
    Generated.symbols1.all (fun p => (symbol1 p.1).map Tok.goName == some p.2) = true ∧
    Generated.whitespaceRunes = [32, 9, 10, 13, 11] ∧ Generated.regexFlagRunes = [105, 109, 115] := by decide

end Jsonata.Props.C04
